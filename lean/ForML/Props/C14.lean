/-
C14 — Push-down hints offered to storage back-ends never lose required data.

Model: `ForML.Model.PushDown` (the parser's per-scan segments, `Predicate.Factors`, the `visit_*` traversal that offers
the hints, a row-level denotation run against a back-end that ignores / honours them, and `lazy._Columns`), in two
variants: `fix = false` the code that exists, `fix = true` the code as repaired by
fixes/C14-outer-join-and-scan-segments.diff (findings C14-F1, C14-F2).

* `C14_columns` (full, both variants, every statement shape): every `generate_table` call is offered every column its
  origin is used with in the query's clauses or in the condition of a join it takes part in — also through a
  reference.  `C14_columns_uses`: the same against the property's own reading (every join condition of the query).
  `C14_context_independent` / `C14_context_isolated`: the hints of a scan depend only on the query context that scans
  it.  `C14_lazy_columns`, `C14_lazy_uses` (full): the per-table column sets of `lazy._Columns`.
  `C14_columns_equivalence`: restricting every scan to the offered columns never changes the result.
* `C14_factors`: every factor of a condition is a predicate over its table alone which is TRUE whenever the condition
  is (three-valued logic) — for AND, OR (tables constrained on both sides only), NOT and comparisons.
* `C14_filter_full fix`: a back-end pre-filtering every scan by the offered filter returns what a back-end ignoring the
  hints returns, for every statement the grammar admits.
  Repaired code: `C14_filter_fixed : C14_filter_full true`, `C14_equivalence_fixed` — no restriction on join kinds or
  self-joins.
  Code that exists: refuted (`C14_filter_counterexample_outer`, `…_alias`); `C14_filter_partial`,
  `C14_equivalence_partial`: proved on every statement outside the regions of the two findings (`safe false`).
-/
import ForML.Lemmas.C14Outer
import ForML.Lemmas.C14Proj
import ForML.Lemmas.C14Lazy
import ForML.Lemmas.C14Ctx
import ForML.Lemmas.C14Uses
import ForML.Lemmas.C14V1
import ForML.Lemmas.C14Hash

namespace ForML.PushDown
open ForML.Dsl

/-! ### columns -/

/-- **C14 (columns).** Whatever the statement, the back-end and the data: the parser makes exactly one
`generate_table` call per scan and each call offers all the columns the scanned origin is used with (projection,
filters, grouping, ordering, conditions of the joins it takes part in) — nested queries on either join side, set
operations, references and several contexts scanning one table included. -/
theorem C14_columns (fix len : Bool) (S : Sem) (B : Backend) (db : Db) (s : Source) :
    ColsOK (needs [] s) (run fix len S B db s {}).hints :=
  (run_cols fix len S B db s [] {} (covers_nil _ _)).1

/-- the same for the hints as the driver reports them -/
theorem C14_columns_hints (fix len : Bool) (s : Source) (hs : List Hint) (h : hints fix len s = .ok hs) :
    ColsOK (needs [] s) hs := by
  unfold hints at h
  simp only at h
  cases he : (run fix len trivialSem Backend.ignore (fun _ => []) s {}).st.err with
  | some e => simp [he] at h
  | none =>
    simp only [he, Except.ok.injEq] at h
    exact h ▸ C14_columns fix len trivialSem .ignore (fun _ => []) s

/-- `needs` (join conditions collected along the path to a scan) is no weaker than the property's own reading `usesIn`
(every clause and *every* join condition of the query), on every statement the grammar admits -/
theorem C14_needs_uses (s : Source) (hg : grammarScoped s = true) (hs : isStmt s = true) :
    Forall2 (fun u n => ∀ c ∈ u, c ∈ n) (usesIn [] s) (needs [] s) :=
  (needs_uses s hg).2 hs [] []

/-- **C14 (columns, the property's reading).** Every scan is offered every column of its origin the statement uses
anywhere in that scan's query: output features, WHERE, HAVING, GROUP BY (with or without HAVING), ORDER BY and every
join condition. -/
theorem C14_columns_uses (fix len : Bool) (S : Sem) (B : Backend) (db : Db) (s : Source) (hg : grammarScoped s = true)
    (hs : isStmt s = true) : ColsOK (usesIn [] s) (run fix len S B db s {}).hints :=
  (C14_needs_uses s hg hs).trans' (C14_columns fix len S B db s) (fun _ _ _ h h' n hn => h' n (h n hn))

/-- the offered hints (and the parser state) are the same whatever the back-end does with them -/
theorem C14_hints_independent (fix len : Bool) (S : Sem) (B : Backend) (db : Db) (s : Source) :
    (run fix len S B db s {}).hints = (run fix len trivialSem .ignore (fun _ => []) s {}).hints :=
  (run_indep fix len S trivialSem B .ignore db (fun _ => []) s {}).2

/-- **C14 (contexts).** The hints offered inside a statement — and the rows it yields — do not depend on anything
registered before the statement is visited: a nested query, a side of a set operation or a second context scanning the
same table gets exactly the hints it gets on its own. -/
theorem C14_context_independent (fix len : Bool) (S : Sem) (B : Backend) (db : Db) (q : Source) (st : Segs)
    (hq : isStmt q = true) (hw : shaped q = true) :
    (run fix len S B db q st).hints = (run fix len S B db q {}).hints ∧
      (run fix len S B db q st).envs = (run fix len S B db q {}).envs :=
  stmt_indep fix len S B db q st {} hq hw

/-- … and a nested statement leaves the segments of the enclosing context as they were: the hints of the scans that
follow it are those the enclosing context alone determines -/
theorem C14_context_isolated (fix len : Bool) (S : Sem) (B : Backend) (db : Db) (q : Source) (st : Segs)
    (hq : isStmt q = true) (hw : shaped q = true) :
    (run fix len S B db q st).st.fields = st.fields ∧ (run fix len S B db q st).st.factors = st.factors :=
  stmt_state fix len S B db q st hq hw

/-- **C14 (columns, lazy feed).** The per-table column sets `lazy._Columns.extract` hands to `Origin.partitions`
contain, for every scan of the statement, every column its origin is used with — columns used only through a reference
to the table or only inside a referenced statement included. -/
theorem C14_lazy_columns (s : Source) :
    Forall2 (fun need t => ∀ n ∈ need, (t, n) ∈ lazyS s) (needs [] s) (scanTables s) :=
  lazy_needs s [] (lazyS s) (fun e he => by simp [elemsAll] at he) (fun _ hx => hx)

/-- the same against the property's own reading of "uses" -/
theorem C14_lazy_uses (s : Source) (hg : grammarScoped s = true) (hs : isStmt s = true) :
    Forall2 (fun use t => ∀ n ∈ use, (t, n) ∈ lazyS s) (usesIn [] s) (scanTables s) :=
  (C14_needs_uses s hg hs).trans' (C14_lazy_columns s) (fun _ _ _ h h' n hn => h' n (h n hn))

/-! ### factors -/

/-- **C14 (factors).** A factor offered for table `t` only mentions columns of `t`, and every row combination on
which the condition is TRUE satisfies it. -/
theorem C14_factors (len : Bool) (S : Sem) (p : Feature) (m : FMap) (h : factorsOf len p = .ok m)
    (t : Source) (f : Feature) (hf : (t, f) ∈ m) :
    isTable t = true ∧ (∀ e ∈ elems f, e.1 = t) ∧ (∀ e ∈ elems f, e ∈ elems p) ∧
      ∀ env, eval S env p = .bool true → eval S env f = .bool true := by
  have k := factorsP_sound len S (toPred p) m h t f hf
  refine ⟨k.table, k.own, fun e he => (mem_elemsP_toPred p e).mp (k.sub e he), fun env he => k.sound env ?_⟩
  rw [evalP_toPred]
  exact he

/-- with the lenient variant of the code (every `Operable` has factors) factorisation never fails -/
theorem C14_factors_total_lenient (p : Pred) : ∃ m, factorsP true p = .ok m := by
  induction p with
  | atom f => exact ⟨_, rfl⟩
  | other f => exact ⟨[], rfl⟩
  | and a b iha ihb =>
    obtain ⟨l, hl⟩ := iha
    obtain ⟨r, hr⟩ := ihb
    exact ⟨andF l r, by simp [factorsP, hl, hr]⟩
  | or a b iha ihb =>
    obtain ⟨l, hl⟩ := iha
    obtain ⟨r, hr⟩ := ihb
    exact ⟨orF l r, by simp [factorsP, hl, hr]⟩

/-! ### `Factors.merge` of /repo HEAD: sameness of two factors decided by `hash()` (finding C14-X7)

The development above (`factorsP`, structural identity) is the code as repaired by fixes/C14-merge-hash-dedup.diff. -/

/-- with structural identity as the sameness test the parametrised `merge` is the one of the development -/
theorem C14_factors_structural (len : Bool) (p : Pred) : factorsPG (fun a b => decide (a = b)) len p = factorsP len p :=
  factorsPG_structural len p

/-- `C14_factors` for the factorisation of /repo HEAD (`hash(left[k]) != hash(right[k])`) — expected not to hold -/
def C14_factors_hash_full : Prop :=
  ∀ (len : Bool) (S : Sem) (p : Feature) (m : FMap), factorsOfHash len p = .ok m → ∀ (t : Source) (f : Feature),
    (t, f) ∈ m → ∀ env, eval S env p = .bool true → eval S env f = .bool true

def tH : Source := .table "A" [("x", .integer)]
def gtLit (n : Int) : Feature := binop .gt (.elem tH "x") (.lit (.int n))

/-- `hash(-1) == hash(-2)`: `(A.x > -1) | (A.x > -2)` is factorised to `A.x > -1` alone, which the row `x = -1` fails
although it satisfies the condition; the same with `2^61 - 1` and `0` -/
theorem C14_factors_hash_counterexample : ¬ C14_factors_hash_full := by
  intro h
  have := h true simpleSem (binop .or (gtLit (-1)) (gtLit (-2))) [(tH, gtLit (-1))] rfl tH (gtLit (-1))
    (by simp) [(tH, [("x", .int (-1))])] (by decide)
  revert this
  decide

example : (factorsOfHash true (binop .or (gtLit 2305843009213693951) (gtLit 0))).toOption = some [(tH, gtLit 2305843009213693951)] ∧
    (factorsOf true (binop .or (gtLit 2305843009213693951) (gtLit 0))).toOption =
      some [(tH, binop .or (gtLit 2305843009213693951) (gtLit 0))] ∧
    (factorsOfHash true (binop .or (gtLit 1) (gtLit 2))).toOption = (factorsOf true (binop .or (gtLit 1) (gtLit 2))).toOption := by
  decide

/-- **proved part**: on every condition whose atoms contain no integer literal that differs from its own CPython hash
(no `-1`, nothing beyond ±(2^61 - 2)) the hash test changes nothing — `C14_factors` and everything built on it apply -/
theorem C14_factors_hash_partial (len : Bool) (p : Feature) (hp : plainP (toPred p) = true) :
    factorsOfHash len p = factorsOf len p :=
  (factorsPG_hash_plain len (toPred p) hp).1

example : plainP (toPred (binop .or (gtLit 1) (binop .and (gtLit (-2)) (gtLit 3)))) = true ∧
    plainP (toPred (binop .or (gtLit (-1)) (gtLit (-2)))) = false := by decide

/-- **conjunctions are safe under any sameness test**: on a condition without a disjunction `Factors.merge` can only
keep `left[k]` alone where it should have AND-ed the two — a weaker filter.  Every factor is a predicate over its own
table that holds whenever the condition holds, whatever `same` is. -/
theorem C14_factors_conjunctive_any_test (same : Feature → Feature → Bool) (len : Bool) (S : Sem) (p : Feature)
    (hp : orFree (toPred p) = true) (m : FMap) (h : factorsPG same len (toPred p) = .ok m)
    (t : Source) (f : Feature) (hf : (t, f) ∈ m) :
    isTable t = true ∧ (∀ e ∈ elems f, e.1 = t) ∧ (∀ e ∈ elems f, e ∈ elems p) ∧
      ∀ env, eval S env p = .bool true → eval S env f = .bool true := by
  have k := factorsPG_conj_sound same len S (toPred p) hp m h t f hf
  refine ⟨k.table, k.own, fun e he => (mem_elemsP_toPred p e).mp (k.sub e he), fun env he => k.sound env ?_⟩
  rw [evalP_toPred]
  exact he

/-- **second proved part for /repo HEAD** (the hash test): `C14_factors` at full strength — hash-colliding literals
allowed — on every condition without a disjunction.  Together with `C14_factors_hash_counterexample`: a lost conjunct is
harmless, only a lost disjunct (`Or.factors`) withholds rows. -/
theorem C14_factors_hash_conjunctive (len : Bool) (S : Sem) (p : Feature) (hp : orFree (toPred p) = true) (m : FMap)
    (h : factorsOfHash len p = .ok m) (t : Source) (f : Feature) (hf : (t, f) ∈ m) :
    isTable t = true ∧ (∀ e ∈ elems f, e.1 = t) ∧ (∀ e ∈ elems f, e ∈ elems p) ∧
      ∀ env, eval S env p = .bool true → eval S env f = .bool true :=
  C14_factors_conjunctive_any_test sameHash len S p hp m h t f hf

/-- non-vacuity: `(A.x > -1) & (A.x > -2)` has no disjunction, is not `plainP` (outside `C14_factors_hash_partial`), the
hash test really loses the conjunct `A.x > -2` (structural identity keeps both) — and the factor left is sound; the
refuting condition of `C14_factors_hash_counterexample` is outside the hypothesis -/
example : orFree (toPred (binop .and (gtLit (-1)) (gtLit (-2)))) = true ∧
    plainP (toPred (binop .and (gtLit (-1)) (gtLit (-2)))) = false ∧
    (factorsOfHash true (binop .and (gtLit (-1)) (gtLit (-2)))).toOption = some [(tH, gtLit (-1))] ∧
    (factorsOf true (binop .and (gtLit (-1)) (gtLit (-2)))).toOption = some [(tH, binop .and (gtLit (-1)) (gtLit (-2)))] ∧
    orFree (toPred (binop .or (gtLit (-1)) (gtLit (-2)))) = false := by decide

/-- **what `Factors.merge`'s sameness test has to guarantee** (every condition, disjunctions included): if the test only
calls two factors the same when the right one being TRUE forces the left one to be TRUE (`ImpliedTest`), every factor is a
predicate over its own table that holds whenever the condition holds.  Structural identity (the repaired code,
`C14_factors`) is an instance; so is any finer or semantically justified test (`repr` equality, the harmless mutation). -/
theorem C14_factors_any_sound_test (same : Feature → Feature → Bool) (len : Bool) (S : Sem) (hsame : ImpliedTest S same)
    (p : Feature) (m : FMap) (h : factorsPG same len (toPred p) = .ok m) (t : Source) (f : Feature) (hf : (t, f) ∈ m) :
    isTable t = true ∧ (∀ e ∈ elems f, e.1 = t) ∧ (∀ e ∈ elems f, e ∈ elems p) ∧
      ∀ env, eval S env p = .bool true → eval S env f = .bool true := by
  have k := factorsPG_sound same len S hsame (toPred p) m h t f hf
  refine ⟨k.table, k.own, fun e he => (mem_elemsP_toPred p e).mp (k.sub e he), fun env he => k.sound env ?_⟩
  rw [evalP_toPred]
  exact he

/-- non-vacuity of the hypothesis: structural identity satisfies it for every semantics -/
theorem C14_structural_test_implied (S : Sem) : ImpliedTest S (fun a b => decide (a = b)) :=
  impliedTest_structural S

/-- the hash test of /repo HEAD does not: it calls `A.x > -1` and `A.x > -2` the same, the row `x = -1` tells them apart
(the root cause of C14-X7 as one property of the test, independent of the condition it is used on) -/
theorem C14_hash_test_not_implied : ¬ ImpliedTest simpleSem sameHash := by
  intro h
  have := h (gtLit (-1)) (gtLit (-2)) (by decide) [(tH, [("x", .int (-1))])] (by decide)
  revert this
  decide

/-! ### row filter -/

/-- the property at full strength: for every statement the grammar admits, honouring the offered row filters does not
change the result — for every semantics of the parameters and all table contents -/
def C14_filter_full (fix : Bool) : Prop :=
  ∀ (len : Bool) (S : Sem) (db : Db) (s : Source), isStmt s = true → grammarScoped s = true →
    result fix len S .honourRows db s = result fix len S .ignore db s

/-- the repaired parser is outside the regions of both findings on every statement -/
theorem C14_safe_fixed (len : Bool) : ∀ (s : Source) (P Q : List Feature), safe true len P Q s = true
  | .table _ _, _, _ => rfl
  | .ref i _, _, _ => by
    by_cases ht : isTable i = true
    · simp [safe, ht]
    · simpa [safe, ht] using C14_safe_fixed len i [] []
  | .join l r k c, P, Q => by
    cases k <;> simp [safe, C14_safe_fixed len l, C14_safe_fixed len r]
  | .set l r _, _, _ => by simp [safe, C14_safe_fixed len l, C14_safe_fixed len r]
  | .query src _ pre _ _ _ _, _, _ => by simpa [safe] using C14_safe_fixed len src (optList pre) (optList pre)

/-- **C14 (filter), the repaired code: the full statement.**  Inner, cross, left, right and full joins, self-joins
through references, nested queries, sets; every semantics of the scalar operators, aggregation, ordering, limits and
set operators; all table contents. -/
theorem C14_filter_fixed : C14_filter_full true := by
  intro len S db s hs hg
  unfold result
  rw [(run_prune true len S db s hg).2 hs (C14_safe_fixed len s [] []) {}]

/-- **C14 (filter), the code that exists: proved part** — every statement outside the regions of C14-F1 (a factor of
an outer join's ON condition for a table of a side the join preserves; a factor of a condition above an outer join for
a table of a side it extends with NULLs) and C14-F2 (a factor registered for a table by the time it is scanned through a
reference). -/
theorem C14_filter_partial (len : Bool) (S : Sem) (db : Db) (s : Source) (hs : isStmt s = true)
    (hg : grammarScoped s = true) (hsafe : safe false len [] [] s = true) :
    result false len S .honourRows db s = result false len S .ignore db s := by
  unfold result
  rw [(run_prune false len S db s hg).2 hs hsafe {}]

/-- the hypotheses of the first version of this theorem (no outer join anywhere, no table scanned both directly and
through a reference) imply the present ones: the proved fragment only grew (strictly: `wLeftOk`, `wLeftOnRight`,
`wAliasLate` below) -/
theorem C14_safe_of_v1 (len : Bool) (s : Source) (hs : isStmt s = true) (hi : innerOnly s = true)
    (hw : wellScopedV1 s = true) : grammarScoped s = true ∧ safe false len [] [] s = true :=
  ⟨wellScopedV1_grammar s hw, (safe_of_v1 len s hi hw).2 hs [] []⟩

/-- inside a query, every row the honouring back-end does not deliver is rejected by the prefilter or by the
condition of a join above it, whatever it is combined with -/
theorem C14_filter_contributes (fix len : Bool) (S : Sem) (db : Db) (src : Source) (sel : Features) (pre : FeatureOpt)
    (grp : Features) (post : FeatureOpt) (ord : Orderings) (rows : Option Rows)
    (hg : grammarScoped (.query src sel pre grp post ord rows) = true)
    (hsafe : safe fix len [] [] (.query src sel pre grp post ord rows) = true) :
    Prune (Doomed S (optList pre))
      (run fix len S .honourRows db src (queryCtx fix len none src sel pre grp post ord)).envs
      (run fix len S .ignore db src (queryCtx fix len none src sel pre grp post ord)).envs := by
  simp only [safe] at hsafe
  simp only [grammarScoped, Bool.and_eq_true, decide_eq_true_eq] at hg
  exact (run_prune fix len S db src hg.2).1 (optList pre) (optList pre) _ hsafe hg.1.2 hg.1.1
    (factorsTables_queryCtx fix len none src sel pre grp post ord) (fromSeen_queryCtx fix len none src sel pre grp post ord)
    (justified_queryCtx fix len none src sel pre grp post ord (origins src))

/-! ### columns and filter together -/

/-- the concrete semantics used for the witnesses and the SQLite tie is local -/
theorem C14_simpleSem_finishLocal : FinishLocal simpleSem := by
  intro src sel pre grp post ord rows envs' envs h
  simp only [simpleSem, simpleFinish]
  induction h with
  | nil => rfl
  | cons hab _ ih =>
    simp only [List.map_cons, ih, List.cons.injEq, and_true]
    apply List.map_congr_left
    intro f hf
    rw [eval_congr simpleScalar _ _ f (fun el hel => hab.2 el ?_)]
    unfold queryFeatures
    refine (elemsAll_append _ _ _).mpr (Or.inl ((elemsAll_append _ _ _).mpr (Or.inl ((elemsAll_append _ _ _).mpr
      (Or.inl ((elemsAll_append _ _ _).mpr (Or.inl ?_)))))))
    exact List.mem_flatMap.mpr ⟨f, hf, hel⟩

/-- **C14 (columns, semantically).** The column restriction alone never changes the result: any join kind, self-joins
through references included, both variants of the parser; only the shape every constructible statement has is assumed,
and that the query post-processing looks at nothing but the elements the query mentions (`FinishLocal`, see
`C14_finishLocal_needed`). -/
theorem C14_columns_equivalence (fix len : Bool) (S : Sem) (db : Db) (s : Source) (hS : FinishLocal S)
    (hs : isStmt s = true) (hw : shaped s = true) :
    result fix len S .honourCols db s = result fix len S .ignore db s := by
  unfold result
  rw [honourCols_eq_proj, (run_proj fix len S .ignore db hS s hw).2 hs {}]

/-- **C14 (equivalence), the repaired code: the full statement.** A back-end that restricts every scan to the offered
columns *and* pre-filters it by the offered row filter (`SELECT cols FROM table WHERE filter`) returns what a back-end
ignoring the hints returns, for every statement the grammar admits. -/
theorem C14_equivalence_fixed (len : Bool) (S : Sem) (db : Db) (s : Source) (hS : FinishLocal S)
    (hs : isStmt s = true) (hg : grammarScoped s = true) :
    result true len S .honour db s = result true len S .ignore db s := by
  rw [← C14_filter_fixed len S db s hs hg]
  unfold result
  rw [honour_eq_proj, (run_proj true len S .honourRows db hS s (shaped_of_grammarScoped s hg)).2 hs {}]

/-- **C14 (equivalence), the code that exists: proved part** (outside the regions of the two findings) -/
theorem C14_equivalence_partial (len : Bool) (S : Sem) (db : Db) (s : Source) (hS : FinishLocal S)
    (hs : isStmt s = true) (hg : grammarScoped s = true) (hsafe : safe false len [] [] s = true) :
    result false len S .honour db s = result false len S .ignore db s := by
  rw [← C14_filter_partial len S db s hs hg hsafe]
  unfold result
  rw [honour_eq_proj, (run_proj false len S .honourRows db hS s (shaped_of_grammarScoped s hg)).2 hs {}]

/-! ### witnesses -/

def tA : Source := .table "A" [("x", .integer)]
def tB : Source := .table "B" [("z", .integer)]
def xA : Feature := .elem tA "x"
def gt1 (f : Feature) : Feature := binop .gt f (.lit (.int 1))

/-- `SELECT A.x FROM A LEFT JOIN B ON A.x > 1` -/
def wOuter : Source :=
  .query (.join tA tB .left (.some (gt1 xA))) (.cons xA .nil) .none .nil .none .nil none

/-- `SELECT A.x, r.x FROM A CROSS JOIN A AS r WHERE A.x > 1` -/
def wAlias : Source :=
  .query (.join tA (.ref tA "r") .cross .none) (.cons xA (.cons (.elem (.ref tA "r") "x") .nil)) (.some (gt1 xA))
    .nil .none .nil none

def dbOuter : Db := fun t => if t = tA then [[("x", .int 0)]] else []
def dbAlias : Db := fun t => if t = tA then [[("x", .int 2)], [("x", .int 0)]] else []

/-- the LEFT JOIN keeps the `A` row with `x = 0` (NULL-extended); pre-filtered by the offered `A.x > 1` it is gone -/
theorem C14_filter_counterexample_outer : ¬ C14_filter_full false := by
  intro h
  have := h true simpleSem dbOuter wOuter (by decide) (by decide)
  revert this
  decide

/-- the filter `A.x > 1` of the directly scanned `A` is also offered for the scan behind the reference `r`:
the pair `(2, 0)` is lost -/
theorem C14_filter_counterexample_alias : ¬ C14_filter_full false := by
  intro h
  have := h true simpleSem dbAlias wAlias (by decide) (by decide)
  revert this
  decide

/-- each witness lies in the region of exactly one finding; the repaired parser offers no filter where it hurts -/
example : safe false true [] [] wOuter = false ∧ safe false true [] [] wAlias = false := by decide
example : (hints true true wOuter).toOption.map (fun hs => hs.map (fun h => h.pred.length)) = some [0, 0] ∧
    (hints false true wOuter).toOption.map (fun hs => hs.map (fun h => h.pred.length)) = some [1, 0] := by decide
example : (hints true true wAlias).toOption.map (fun hs => hs.map (fun h => (h.cols, h.pred.length))) = some [(["x"], 1), (["x"], 0)] ∧
    (hints false true wAlias).toOption.map (fun hs => hs.map (fun h => (h.cols, h.pred.length))) = some [(["x"], 1), (["x"], 1)] := by
  decide
example : result true true simpleSem .honourRows dbOuter wOuter = result true true simpleSem .ignore dbOuter wOuter ∧
    result true true simpleSem .honourRows dbAlias wAlias = result true true simpleSem .ignore dbAlias wAlias := by decide
/-- the column theorem covers both witnesses -/
example : shaped wOuter = true ∧ shaped wAlias = true := by decide

/-- `SELECT A.x FROM A JOIN B ON A.x = B.z WHERE A.x > 1` (non-vacuity of `C14_safe_of_v1`) -/
def wInnerV1 : Source :=
  .query (.join tA tB .inner (.some (binop .eq xA (.elem tB "z")))) (.cons xA .nil) (.some (gt1 xA)) .nil .none .nil none

/-- `SELECT A.x, B.z FROM A LEFT JOIN B ON A.x = B.z WHERE A.x > 1`: the usual shape of a left join is in the proved
fragment (the preserved side is offered `A.x > 1`, the NULL-supplying side nothing) -/
def wLeftOk : Source :=
  .query (.join tA tB .left (.some (binop .eq xA (.elem tB "z")))) (.cons xA (.cons (.elem tB "z") .nil)) (.some (gt1 xA))
    .nil .none .nil none

/-- `… LEFT JOIN B ON A.x = B.z AND B.z > 1`: a factor of the ON condition for the *optional* side is harmless (a `B`
row failing it never matches) — inside the proved fragment of the code that exists, and kept by the repaired code -/
def wLeftOnRight : Source :=
  .query (.join tA tB .left (.some (binop .and (binop .eq xA (.elem tB "z")) (gt1 (.elem tB "z")))))
    (.cons xA (.cons (.elem tB "z") .nil)) .none .nil .none .nil none

/-- `… WHERE B.z IS NULL`: the NULL-supplying side would be offered `B.z IS NULL` -/
def wLeftIsNull : Source :=
  .query (.join tA tB .left (.some (binop .eq xA (.elem tB "z")))) (.cons xA .nil)
    (.some (.expr .isnull (.cons (.elem tB "z") .nil))) .nil .none .nil none

/-- `SELECT A.x FROM A FULL JOIN B ON A.x = B.z AND B.z > 1`: both sides are preserved -/
def wFullOn : Source :=
  .query (.join tA tB .full (.some (binop .and (binop .eq xA (.elem tB "z")) (gt1 (.elem tB "z")))))
    (.cons xA (.cons (.elem tB "z") .nil)) .none .nil .none .nil none

/-- `SELECT r.x, A.x FROM A AS r JOIN A ON r.x = A.x AND A.x > 1`: the reference is scanned before the factor of `A`
is registered?  No — the ON condition is registered before either side is visited: region of C14-F2. -/
def wAliasOn : Source :=
  .query (.join (.ref tA "r") tA .inner (.some (binop .and (binop .eq (.elem (.ref tA "r") "x") xA) (gt1 xA))))
    (.cons xA .nil) .none .nil .none .nil none

/-- `SELECT r.x FROM A AS r JOIN (A JOIN B ON A.x = B.z AND A.x > 1) ON r.x = B.z`: here the factor of `A` is
registered only after `r` has been scanned — outside the region -/
def wAliasLate : Source :=
  .query (.join (.ref tA "r") (.join tA tB .inner (.some (binop .and (binop .eq xA (.elem tB "z")) (gt1 xA)))) .inner
      (.some (binop .eq (.elem (.ref tA "r") "x") (.elem tB "z"))))
    (.cons (.elem (.ref tA "r") "x") .nil) .none .nil .none .nil none

example : safe false false [] [] wLeftOk = true ∧ grammarScoped wLeftOk = true ∧ innerOnly wLeftOk = false ∧
    (hints false false wLeftOk).toOption.map (fun hs => hs.map (fun h => h.pred.length)) = some [1, 0] ∧
    (hints true false wLeftOk).toOption.map (fun hs => hs.map (fun h => h.pred.length)) = some [1, 0] := by decide
example : safe false false [] [] wLeftOnRight = true ∧ grammarScoped wLeftOnRight = true ∧
    (hints false false wLeftOnRight).toOption.map (fun hs => hs.map (fun h => h.pred.length)) = some [0, 1] ∧
    (hints true false wLeftOnRight).toOption.map (fun hs => hs.map (fun h => h.pred.length)) = some [0, 1] := by decide
example : safe false false [] [] wLeftIsNull = false ∧ safe false false [] [] wFullOn = false ∧
    safe false false [] [] wAliasOn = false ∧ safe false false [] [] wAliasLate = true ∧
    grammarScoped wAliasLate = true ∧ noAliasedScan (origins (.join (.ref tA "r") (.join tA tB .inner .none) .inner .none)) = false := by
  decide
/-- … each of them outside the first version's hypotheses -/
example : innerOnly wLeftOk = false ∧ innerOnly wLeftOnRight = false ∧ innerOnly wAliasLate = true ∧
    wellScopedV1 wAliasLate = false ∧ wellScopedV1 wInnerV1 = true ∧ innerOnly wInnerV1 = true := by decide
/-- the IS NULL statement really loses the equivalence: `A = {1}`, `B = {1}` gives no row, pre-filtered `B = {}` gives one -/
example : result false false simpleSem .honourRows (fun t => if t = tA then [[("x", .int 1)]] else [[("z", .int 1)]]) wLeftIsNull
    ≠ result false false simpleSem .ignore (fun t => if t = tA then [[("x", .int 1)]] else [[("z", .int 1)]]) wLeftIsNull := by decide
/-- so does the full join: `A = {}`, `B = {0}` gives the NULL-extended `B` row, pre-filtered `B = {}` gives nothing -/
example : result false false simpleSem .honourRows (fun t => if t = tA then [] else [[("z", .int 0)]]) wFullOn
    ≠ result false false simpleSem .ignore (fun t => if t = tA then [] else [[("z", .int 0)]]) wFullOn := by decide
/-- … and the repaired parser offers neither filter -/
example : (hints true false wLeftIsNull).toOption.map (fun hs => hs.map (fun h => h.pred.length)) = some [0, 0] ∧
    (hints true false wFullOn).toOption.map (fun hs => hs.map (fun h => h.pred.length)) = some [0, 0] := by decide

/-- `FinishLocal` cannot be dropped from the column theorems: a post-processing that returns the bound rows as they are
(instead of evaluating the query's features) sees the columns the scan was not asked for -/
theorem C14_finishLocal_needed : ∃ (S : Sem) (db : Db) (s : Source), isStmt s = true ∧ grammarScoped s = true ∧
    result true true S .honourCols db s ≠ result true true S .ignore db s := by
  refine ⟨{ simpleSem with finish := fun _ envs => envs.map firstRow },
    (fun _ => [[("x", .int 1), ("y", .int 2)]]),
    .query (.table "A" [("x", .integer), ("y", .integer)]) (.cons (.elem (.table "A" [("x", .integer), ("y", .integer)]) "x") .nil)
      .none .nil .none .nil none, by decide, by decide, by decide⟩

/-! ### non-vacuity -/

def yB : Feature := .elem tB "z"

/-- `SELECT A.x, B.z FROM A JOIN B ON A.x = B.z WHERE A.x > 1 AND (B.z > 1 OR NOT B.z > 1)` -/
def wInner : Source :=
  .query (.join tA tB .inner (.some (binop .eq xA yB))) (.cons xA (.cons yB .nil))
    (.some (binop .and (gt1 xA) (binop .or (gt1 yB) (.expr .not (.cons (gt1 yB) .nil))))) .nil .none .nil none

def dbInner : Db := fun t =>
  if t = tA then [[("x", .int 2)], [("x", .int 0)], [("x", .null)]] else [[("z", .int 2)], [("z", .int 0)]]

/-- a statement satisfying the hypotheses of `C14_filter_partial` with both tables offered a non-trivial filter,
which removes rows from the scans and leaves the (non-empty) result alone -/
example : isStmt wInner = true ∧ grammarScoped wInner = true ∧ safe false false [] [] wInner = true ∧
    (hints false false wInner).toOption.map (fun hs => hs.map (fun h => (h.cols, h.pred.length))) = some [(["x"], 1), (["z"], 1)] ∧
    Backend.honourRows.scan simpleSem dbInner ⟨tA, ["x"], [gt1 xA]⟩ = [[("x", .int 2)]] ∧
    result false false simpleSem .honour dbInner wInner = [[("x", .int 2), ("z", .int 2)]] ∧
    result false false simpleSem .ignore dbInner wInner = [[("x", .int 2), ("z", .int 2)]] := by
  decide

/-- the repaired parser on a left join with filters on both sides: rows are really removed from both scans and the
result (with its NULL-extended row) stays -/
example : (hints true false wLeftOnRight).toOption.map (fun hs => hs.map (fun h => (h.cols, h.pred.length))) = some [(["x"], 0), (["z"], 1)] ∧
    result true false simpleSem .honour dbInner wLeftOnRight = result true false simpleSem .ignore dbInner wLeftOnRight ∧
    result true false simpleSem .ignore dbInner wLeftOnRight =
      [[("x", .int 2), ("z", .int 2)], [("x", .int 0), ("z", .null)], [("x", .null), ("z", .null)]] := by
  decide

/-- the columns theorem on the same statement: needs = offered -/
example : needs [] wInner = [["x", "x", "x"], ["z", "z", "z", "z"]] := by decide

def tC : Source := .table "C" [("k", .integer), ("g", .integer), ("v", .integer), ("w", .integer)]
def eC (n : String) : Feature := .elem tC n

/-- `SELECT count(C.v) FROM C GROUP BY C.g` — a grouping column used nowhere else and no HAVING: it is needed and
offered (both variants) -/
def wGroup : Source :=
  .query tC (.cons (.expr .count (.cons (eC "v") .nil)) .nil) .none (.cons (eC "g") .nil) .none .nil none

example : usesIn [] wGroup = [["v", "g"]] ∧
    (hints false false wGroup).toOption.map (fun hs => hs.map (·.cols)) = some [["v", "g"]] ∧
    (hints true false wGroup).toOption.map (fun hs => hs.map (·.cols)) = some [["v", "g"]] := by decide

/-- `SELECT q.k FROM (SELECT C.k FROM C WHERE C.v > 1) AS q JOIN (SELECT C.k, C.w FROM C WHERE C.g > 1) AS p ON q.k = p.k
ORDER BY p.w` — nested queries on both join sides, two contexts scanning the same table: each scan gets the columns
and the filter of its own context -/
def wTwoCtx : Source :=
  let q : Source := .ref (.query tC (.cons (eC "k") .nil) (.some (gt1 (eC "v"))) .nil .none .nil none) "q"
  let p : Source := .ref (.query tC (.cons (eC "k") (.cons (eC "w") .nil)) (.some (gt1 (eC "g"))) .nil .none .nil none) "p"
  .query (.join q p .inner (.some (binop .eq (.elem q "k") (.elem p "k")))) (.cons (.elem q "k") .nil) .none .nil .none
    (.cons (.mk (.elem p "w") .asc) .nil) none

example : grammarScoped wTwoCtx = true ∧ usesIn [] wTwoCtx = [["k", "v"], ["k", "w", "g"]] ∧
    (hints true false wTwoCtx).toOption.map (fun hs => hs.map (fun h => (h.cols, h.pred))) =
      some [(["k", "v"], [gt1 (eC "v")]), (["k", "w", "g"], [gt1 (eC "g")])] ∧
    (hints false false wTwoCtx).toOption.map (fun hs => hs.map (fun h => (h.table, h.cols, h.pred))) =
      (hints true false wTwoCtx).toOption.map (fun hs => hs.map (fun h => (h.table, h.cols, h.pred))) := by decide

/-- a set operation over the same table and a column used only through a reference: the lazy feed loads the union -/
def wSetRef : Source :=
  .set (.query tC (.cons (eC "k") .nil) .none .nil .none .nil none)
    (.query (.ref tC "r") (.cons (.elem (.ref tC "r") "g") .nil) (.some (gt1 (.elem (.ref tC "r") "w"))) .nil .none .nil none)
    .union

example : usesIn [] wSetRef = [["k"], ["g", "w"]] ∧ scanTables wSetRef = [tC, tC] ∧
    (lazyS wSetRef).map (·.2) = ["k", "g", "w"] ∧
    (hints true false wSetRef).toOption.map (fun hs => hs.map (·.cols)) = some [["k"], ["g", "w"]] := by decide

end ForML.PushDown
