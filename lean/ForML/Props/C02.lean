/-
C02 — every runner executes a compiled table with identical results.

Models: `ForML/Model/Symbols.lean` (tables, `run`, the denotation `Table.value`), `ForML/Model/Dask.lean`
(`mkjob`, `evalDask`), `ForML/Model/PyFunc.lean` (`expression`, `eval`), `ForML/Model/TableWF.lean` (`ranked`).

A *valid* table is one accepted by `Table.ranked t r` for some numbering `r` (unique instructions, every
argument bound, arguments numbered strictly below their consumer): a decidable hypothesis; the harness
computes the numbering for every generated table and the driver evaluates the predicate.

The direct dependency-ordered evaluation of the property statement is the denotation `Table.value A t t.fuel`
(every instruction applied to the denotations of its arguments); `C02_run` shows that the executing reference
interpreter `run` (memoised, every instruction once) computes exactly it.
-/
import ForML.Lemmas.C02Dask
import ForML.Lemmas.C02PyExpr
import ForML.Lemmas.C02PyFull
import ForML.Model.PyFuncLegacy

namespace ForML.Flow

/-! ### reference interpreter -/

/-- The reference interpreter `run` holds, for every instruction of a valid table, the value of the direct
dependency-ordered evaluation, and executes every instruction exactly once. -/
theorem C02_run (A : Option Assets) (t : Table) (r : Key → Nat) (h : t.ranked r = true) :
    (∀ s ∈ t, (run A t).get s.id = some (Table.value A t t.fuel s.id)) ∧
    (run A t).trace.Nodup ∧ (∀ s ∈ t, s.id ∈ (run A t).trace) := by
  have hr := ranked_iff h
  have hfold := evalM_fold A (hr.sem A) t.fuel (t.map (·.id)) ⟨[], []⟩
    (by
      intro k hk
      obtain ⟨s, hs, rfl⟩ := List.mem_map.1 hk
      exact ⟨by have := hr.bound s hs; simp only [Table.fuel]; omega, Table.find_isSome_of_mem hs⟩)
    (MInv.empty _ t)
  simp only [List.foldl_map] at hfold
  obtain ⟨hinv, _, hvals⟩ := hfold
  refine ⟨fun s hs => hvals s.id (List.mem_map_of_mem hs), hinv.nodup, ?_⟩
  intro s hs
  have := hvals s.id (List.mem_map_of_mem hs)
  exact (Memo.get_isSome_iff hinv.keys).1 (by rw [this]; rfl)

/-! ### Dask runner -/

/-- **Dask runner = dependency-ordered evaluation.** For every valid non-empty table `mkjob` succeeds, hands
exactly the sinks of the table to `dask.compute`, and the memoised evaluation of the linked graph delivers for
every sink the value the reference interpreter delivers (which is the direct dependency-ordered evaluation);
no task runs twice. Store effects are values in this model (`dumped`, `committed` terms of the dumper /
committer instructions), so persisted states are covered by the sink values. -/
theorem C02_dask (A : Option Assets) (t : Table) (r : Key → Nat) (h : t.ranked r = true) (hne : t ≠ []) :
    ∃ job, mkjob t = .ok job ∧ job.outputs = t.sinks ∧
      (∀ k ∈ t.sinks, (evalDask A job).get k = (run A t).get k ∧
                      (evalDask A job).get k = some (Table.value A t t.fuel k)) ∧
      (evalDask A job).trace.Nodup := by
  have hr := ranked_iff h
  obtain ⟨job, hjob, hout, hfuel, hg, hhas⟩ := mkjob_ok hr hne
  refine ⟨job, hjob, hout, ?_, ?_⟩
  all_goals
    have hfold := evalM_fold A (hg.sem A hr) job.fuel job.outputs ⟨[], []⟩
      (by
        intro k hk
        rw [hout] at hk
        refine ⟨?_, hhas k hk⟩
        obtain ⟨s, hs, rfl⟩ := List.mem_map.1 (mem_sinks.1 hk).1
        have := hr.bound s hs
        rw [hfuel]; simp only [Table.fuel]; omega)
      (MInv.empty _ _)
    obtain ⟨hinv, _, hvals⟩ := hfold
  · intro k hk
    have h1 : (evalDask A job).get k = some (den A t k) := hvals k (hout ▸ hk)
    obtain ⟨s, hs, rfl⟩ := List.mem_map.1 (mem_sinks.1 hk).1
    have h2 := (C02_run A t r h).1 s hs
    exact ⟨by rw [h1, h2]; rfl, h1⟩
  · exact hinv.nodup

/-- a cycle reachable from a leaf makes `link` recurse forever (Python: `RecursionError`), a table without any
leaf is refused ('Not acyclic'), a table binding an instruction twice is refused ('Duplicated symbols') — the
error branches of the model are exercised (tests, not theorems about all tables) -/
example : mkjob [⟨.uid 0, .functor 0 .apply [], [.uid 2]⟩, ⟨.uid 1, .functor 1 .apply [], [.uid 0]⟩,
                 ⟨.uid 2, .functor 2 .apply [], [.uid 1]⟩, ⟨.uid 3, .functor 3 .apply [], [.uid 2]⟩]
    = .error .recursion := by rfl
example : mkjob [⟨.uid 0, .functor 0 .apply [], [.uid 1]⟩, ⟨.uid 1, .functor 1 .apply [], [.uid 0]⟩]
    = .error .notAcyclic := by rfl
example : mkjob [⟨.uid 0, .functor 0 .apply [], []⟩, ⟨.uid 0, .functor 1 .apply [], []⟩]
    = .error .duplicated := by rfl

/-- non-vacuity: a train-mode table with a multi-output worker, a trainer, an applied fork taking the fresh
state, a state loader, dumper and committer satisfies the hypothesis of `C02_run` / `C02_dask` -/
def exTrain : Table :=
  [⟨.uid 0, .functor 0 .apply [], []⟩,
   ⟨.uid 1, .functor 1 .apply [], [.uid 0]⟩,
   ⟨.getter 1 0, .getter 0, [.uid 1]⟩,
   ⟨.getter 1 1, .getter 1, [.uid 1]⟩,
   ⟨.loader 2, .loader 2, []⟩,
   ⟨.uid 2, .functor 2 .train [.setState], [.loader 2, .getter 1 0, .getter 1 1]⟩,
   ⟨.uid 3, .functor 2 .apply [.setState], [.uid 2, .getter 1 0]⟩,
   ⟨.dumper 2, .dumper, [.uid 2]⟩,
   ⟨.committer, .committer, [.dumper 2]⟩]

def exTrainRank : Key → Nat
  | .uid 0 => 0 | .uid 1 => 1 | .getter 1 _ => 2 | .loader _ => 0 | .uid 2 => 3 | .uid 3 => 4
  | .dumper _ => 4 | .committer => 5 | _ => 0

example : exTrain.ranked exTrainRank = true := by decide
example : exTrain.sinks = [.uid 3, .committer] := by decide

/-! ### single-function runner (pyfunc) -/

open PyFunc

/-- **Full statement**: for every valid apply-mode table (`Table.applyMode`: apply functors whose state presets are
fed by loaders of persistent groups, getters, argument-free loaders, one sink, one head — any fan-out, any branch
lengths, any argument order, shared results, multi-output getters, shared loaders) the `Expression` is constructed
and every call returns the value of the direct dependency-ordered evaluation of the table whose head received the
input. (The code before fixes/C02-pyfunc-replica-fork.diff violated this: DESIGN.md D1, D2 — see
`C02_pyfunc_legacy_counterexample` below.) Proved for the repaired code as `C02_pyfunc`. -/
def C02_pyfunc_full : Prop :=
  ∀ (A : Option Assets) (t : Table) (r : Key → Nat), t.ranked r = true → t.applyMode A = true →
    ∃ U hd sink, expression A t = .ok U ∧ t.sinks = [sink] ∧ t.heads = [hd] ∧
      ∀ x, U.run x = valueIn A t hd x t.fuel sink

/-- **Whenever the expression is constructed, every call is right**: on a valid table whose loaders take no
arguments and whose sink is a functor / getter, a constructed `Expression` returns — on every input, on every call,
whatever the order in which the consumers of a shared result evaluate their arguments — the value that the
direct dependency-ordered evaluation assigns to the table's only sink when the head `hd` (a functor / getter of
the table) receives the input. The single-function runner can refuse a table, it cannot deliver different data. -/
theorem C02_pyfunc_partial (A : Option Assets) (t : Table) (r : Key → Nat) (h : t.ranked r = true)
    (hs : t.pyShape = true) (U : Term) (he : expression A t = .ok U) :
    ∃ hd sink, t.sinks = [sink] ∧ t.isNode hd = true ∧
      ∀ x, U.run x = valueIn A t hd x t.fuel sink ∧ evalExpr A t x = .ok (valueIn A t hd x t.fuel sink) := by
  obtain ⟨hd, sink, h1, h2, _, h3⟩ := expression_sound (ranked_iff h) hs he
  refine ⟨hd, sink, h1, h2, fun x => ⟨h3 x, ?_⟩⟩
  simp only [evalExpr, he]
  exact congrArg Except.ok (h3 x)

/-- **The single-function runner = dependency-ordered evaluation** on every valid apply-mode table: construction
never fails (`_order` terminates and lists every argument before its consumer, `_build` finds every term, no
provider deque is ever empty when popped, nothing is outstanding) and every call delivers the sink's value. -/
theorem C02_pyfunc : C02_pyfunc_full := by
  intro A t r h ham
  obtain ⟨U, hd, he, hh, sink, hs, hv⟩ := expression_ok (ranked_iff h) (applyMode_iff ham)
  exact ⟨U, hd, sink, he, hs, hh, hv⟩

/-- the two defect shapes of DESIGN.md section 7 and richer ones: fan-out at the head (D1), the shorter branch of a
shared result first (D2), getters, shared state loader — the expression is constructed and delivers the
dependency-ordered value (tests of the model on concrete tables, and non-vacuity of `C02_pyfunc_partial`) -/
def exHeadFanout : Table :=
  [⟨.uid 0, .functor 0 .apply [], []⟩, ⟨.uid 1, .functor 1 .apply [], [.uid 0]⟩,
   ⟨.uid 2, .functor 2 .apply [], [.uid 0]⟩, ⟨.uid 3, .functor 3 .apply [], [.uid 1, .uid 2]⟩]

def exShortFirst : Table :=
  [⟨.uid 0, .functor 0 .apply [], []⟩, ⟨.uid 1, .functor 1 .apply [], [.uid 0]⟩,
   ⟨.uid 2, .functor 2 .apply [], [.uid 1]⟩, ⟨.uid 3, .functor 3 .apply [], [.uid 1, .uid 2]⟩]

def exServing : Table :=
  [⟨.loader 7, .loader 7, []⟩,
   ⟨.uid 0, .functor 0 .apply [.setState], [.loader 7]⟩,
   ⟨.uid 1, .functor 1 .apply [], [.uid 0]⟩,
   ⟨.getter 1 0, .getter 0, [.uid 1]⟩,
   ⟨.getter 1 2, .getter 2, [.uid 1]⟩,
   ⟨.loader 8, .loader 8, []⟩,
   ⟨.uid 2, .functor 2 .apply [.setState], [.loader 8, .getter 1 2]⟩,
   ⟨.uid 3, .functor 2 .apply [.setState], [.loader 8, .getter 1 0, .uid 2, .uid 0]⟩]

def exAssets : Option Assets := some ⟨[8, 9, 7], [.stored 0, .stored 1]⟩

def idRank : Key → Nat
  | .uid n => n | _ => 0

def servRank : Key → Nat
  | .uid 0 => 1 | .uid 1 => 2 | .getter _ _ => 3 | .uid 2 => 4 | .uid 3 => 5 | _ => 0

example : exHeadFanout.ranked idRank = true ∧ exHeadFanout.applyMode none = true := by decide
example : exShortFirst.ranked idRank = true ∧ exShortFirst.applyMode none = true := by decide
example : exServing.ranked servRank = true ∧ exServing.applyMode exAssets = true := by decide
example : (expression none exHeadFanout).toOption.isSome = true := by rfl
example : (expression none exShortFirst).toOption.isSome = true := by rfl
example : (expression exAssets exServing).toOption.isSome = true := by rfl
example : exHeadFanout.heads = [.uid 0] ∧ exShortFirst.heads = [.uid 0] ∧ exServing.heads = [.uid 0] := by decide

/-! ### the code before the repair (for the record) -/

/-- the property as it would read for the code before the repair: every valid apply-mode table evaluates -/
def C02_pyfunc_legacy_full : Prop :=
  ∀ (A : Option Assets) (t : Table) (r : Key → Nat) (x : Val), t.ranked r = true → t.applyMode A = true →
    Legacy.outcome A t x = none

/-- D1: a head with two consumers — `IndexError: pop from an empty deque` while the expression is constructed -/
theorem C02_pyfunc_legacy_counterexample_fanout_head :
    exHeadFanout.ranked idRank = true ∧ exHeadFanout.applyMode none = true ∧
      Legacy.outcome none exHeadFanout (.input 0) = some .indexError := by decide

/-- D2: a shared result whose shorter branch comes first in the consumer's argument order — the `Pop` is evaluated
before its `Push`: `IndexError` at call time -/
theorem C02_pyfunc_legacy_counterexample_short_branch_first :
    exShortFirst.ranked idRank = true ∧ exShortFirst.applyMode none = true ∧
      (Legacy.expression none exShortFirst).toOption.isSome = true ∧
      Legacy.outcome none exShortFirst (.input 0) = some .indexError := by decide

theorem C02_pyfunc_legacy_counterexample : ¬ C02_pyfunc_legacy_full := by
  intro h
  have := h none exHeadFanout idRank (.input 0) (by decide) (by decide)
  exact absurd this (by decide)

end ForML.Flow
