/-
C02 — every runner executes a compiled table with identical results.

Models: `ForML/Model/Symbols.lean` (tables, `run`, the denotation `Table.value`), `ForML/Model/Dask.lean`
(`mkjob`, `evalDask`), `ForML/Model/PyFunc.lean` (`expression`, `eval`), `ForML/Model/TableWF.lean` (`ranked`).

A *valid* table is one accepted by `Table.ranked t r` for some numbering `r` (unique instructions, every
argument bound, arguments numbered strictly below their consumer): a decidable hypothesis; the harness
computes the numbering for every generated table and the driver evaluates the predicate.

The direct dependency-ordered evaluation of the property statement is the denotation `Table.value A t t.fuel`
(every instruction applied to the denotations of its arguments); `C02_run` shows that the executing reference
interpreter `run` (memoised, every instruction once) computes exactly it.
-/
import ForML.Lemmas.C02Dask
import ForML.Lemmas.C02PyExpr
import ForML.Lemmas.C02PyFull
import ForML.Lemmas.C02PyOnce
import ForML.Lemmas.C02Builder
import ForML.Lemmas.C02Token
import ForML.Model.PyFuncLegacy

namespace ForML.Flow

/-! ### reference interpreter -/

/-- The reference interpreter `run` holds, for every instruction of a valid table, the value of the direct
dependency-ordered evaluation, and executes every instruction exactly once. -/
theorem C02_run (A : Option Assets) (t : Table) (r : Key → Nat) (h : t.ranked r = true) :
    (∀ s ∈ t, (run A t).get s.id = some (Table.value A t t.fuel s.id)) ∧
    (run A t).trace.Nodup ∧ (∀ s ∈ t, s.id ∈ (run A t).trace) := by
  have hr := ranked_iff h
  have hfold := evalM_fold A (hr.sem A) t.fuel (t.map (·.id)) ⟨[], []⟩
    (by
      intro k hk
      obtain ⟨s, hs, rfl⟩ := List.mem_map.1 hk
      exact ⟨by have := hr.bound s hs; simp only [Table.fuel]; omega, Table.find_isSome_of_mem hs⟩)
    (MInv.empty _ t)
  simp only [List.foldl_map] at hfold
  obtain ⟨hinv, _, hvals⟩ := hfold
  refine ⟨fun s hs => hvals s.id (List.mem_map_of_mem hs), hinv.nodup, ?_⟩
  intro s hs
  have := hvals s.id (List.mem_map_of_mem hs)
  exact (Memo.get_isSome_iff hinv.keys).1 (by rw [this]; rfl)

/-! ### Dask runner -/

/-- **Dask runner = dependency-ordered evaluation.** For every valid non-empty table `mkjob` succeeds, hands
exactly the sinks of the table to `dask.compute`, and the memoised evaluation of the linked graph delivers for
every sink the value the reference interpreter delivers (which is the direct dependency-ordered evaluation);
no task runs twice. Store effects are values in this model (`dumped`, `committed` terms of the dumper /
committer instructions), so persisted states are covered by the sink values. -/
theorem C02_dask (A : Option Assets) (t : Table) (r : Key → Nat) (h : t.ranked r = true) (hne : t ≠ []) :
    ∃ job, mkjob t = .ok job ∧ job.outputs = t.sinks ∧
      (∀ k ∈ t.sinks, (evalDask A job).get k = (run A t).get k ∧
                      (evalDask A job).get k = some (Table.value A t t.fuel k)) ∧
      (evalDask A job).trace.Nodup := by
  have hr := ranked_iff h
  obtain ⟨job, hjob, hout, hfuel, hg, hhas⟩ := mkjob_ok hr hne
  refine ⟨job, hjob, hout, ?_, ?_⟩
  all_goals
    have hfold := evalM_fold A (hg.sem A hr) job.fuel job.outputs ⟨[], []⟩
      (by
        intro k hk
        rw [hout] at hk
        refine ⟨?_, hhas k hk⟩
        obtain ⟨s, hs, rfl⟩ := List.mem_map.1 (mem_sinks.1 hk).1
        have := hr.bound s hs
        rw [hfuel]; simp only [Table.fuel]; omega)
      (MInv.empty _ _)
    obtain ⟨hinv, _, hvals⟩ := hfold
  · intro k hk
    have h1 : (evalDask A job).get k = some (den A t k) := hvals k (hout ▸ hk)
    obtain ⟨s, hs, rfl⟩ := List.mem_map.1 (mem_sinks.1 hk).1
    have h2 := (C02_run A t r h).1 s hs
    exact ⟨by rw [h1, h2]; rfl, h1⟩
  · exact hinv.nodup

/-- a cycle reachable from a leaf makes `link` recurse forever (Python: `RecursionError`), a table without any
leaf is refused ('Not acyclic'), a table binding an instruction twice is refused ('Duplicated symbols') — the
error branches of the model are exercised (tests, not theorems about all tables) -/
example : mkjob [⟨.uid 0, .functor 0 .apply [], [.uid 2]⟩, ⟨.uid 1, .functor 1 .apply [], [.uid 0]⟩,
                 ⟨.uid 2, .functor 2 .apply [], [.uid 1]⟩, ⟨.uid 3, .functor 3 .apply [], [.uid 2]⟩]
    = .error .recursion := by rfl
example : mkjob [⟨.uid 0, .functor 0 .apply [], [.uid 1]⟩, ⟨.uid 1, .functor 1 .apply [], [.uid 0]⟩]
    = .error .notAcyclic := by rfl
example : mkjob [⟨.uid 0, .functor 0 .apply [], []⟩, ⟨.uid 0, .functor 1 .apply [], []⟩]
    = .error .duplicated := by rfl

/-- non-vacuity: a train-mode table with a multi-output worker, a trainer, an applied fork taking the fresh
state, a state loader, dumper and committer satisfies the hypothesis of `C02_run` / `C02_dask` -/
def exTrain : Table :=
  [⟨.uid 0, .functor 0 .apply [], []⟩,
   ⟨.uid 1, .functor 1 .apply [], [.uid 0]⟩,
   ⟨.getter 1 0, .getter 0, [.uid 1]⟩,
   ⟨.getter 1 1, .getter 1, [.uid 1]⟩,
   ⟨.loader 2, .loader 2, []⟩,
   ⟨.uid 2, .functor 2 .train [.setState], [.loader 2, .getter 1 0, .getter 1 1]⟩,
   ⟨.uid 3, .functor 2 .apply [.setState], [.uid 2, .getter 1 0]⟩,
   ⟨.dumper 2, .dumper, [.uid 2]⟩,
   ⟨.committer, .committer, [.dumper 2]⟩]

def exTrainRank : Key → Nat
  | .uid 0 => 0 | .uid 1 => 1 | .getter 1 _ => 2 | .loader _ => 0 | .uid 2 => 3 | .uid 3 => 4
  | .dumper _ => 4 | .committer => 5 | _ => 0

example : exTrain.ranked exTrainRank = true := by decide
example : exTrain.sinks = [.uid 3, .committer] := by decide

/-! ### single-function runner (pyfunc) -/

open PyFunc

/-- **Full statement**: for every valid apply-mode table (`Table.applyMode`: apply functors whose state presets are
fed by loaders of persistent groups, getters, argument-free loaders, one sink, one head — any fan-out, any branch
lengths, any argument order, shared results, multi-output getters, shared loaders) the `Expression` is constructed
and every call returns the value of the direct dependency-ordered evaluation of the table whose head received the
input. (The code before fixes/C02-pyfunc-replica-fork.diff violated this: DESIGN.md D1, D2 — see
`C02_pyfunc_legacy_counterexample` below.) Proved for the repaired code as `C02_pyfunc`. -/
def C02_pyfunc_full : Prop :=
  ∀ (A : Option Assets) (t : Table) (r : Key → Nat), t.ranked r = true → t.applyMode A = true →
    ∃ U hd sink, expression A t = .ok U ∧ t.sinks = [sink] ∧ t.heads = [hd] ∧
      ∀ x, U.run x = valueIn A t hd x t.fuel sink

/-- **Whenever the expression is constructed, every call is right**: on a valid table whose loaders take no
arguments and whose sink is a functor / getter, a constructed `Expression` returns — on every input, on every call,
whatever the order in which the consumers of a shared result evaluate their arguments — the value that the
direct dependency-ordered evaluation assigns to the table's only sink when the head `hd` (a functor / getter of
the table) receives the input. The single-function runner can refuse a table, it cannot deliver different data. -/
theorem C02_pyfunc_partial (A : Option Assets) (t : Table) (r : Key → Nat) (h : t.ranked r = true)
    (hs : t.pyShape = true) (U : Term) (he : expression A t = .ok U) :
    ∃ hd sink, t.sinks = [sink] ∧ t.isNode hd = true ∧
      ∀ x, U.run x = valueIn A t hd x t.fuel sink ∧ evalExpr A t x = .ok (valueIn A t hd x t.fuel sink) := by
  obtain ⟨hd, sink, h1, h2, _, h3⟩ := expression_sound (ranked_iff h) hs he
  refine ⟨hd, sink, h1, h2, fun x => ⟨h3 x, ?_⟩⟩
  simp only [evalExpr, he]
  exact congrArg Except.ok (h3 x)

/-- **The single-function runner = dependency-ordered evaluation** on every valid apply-mode table: construction
never fails (`_order` terminates and lists every argument before its consumer, `_build` finds every term, no
provider deque is ever empty when popped, nothing is outstanding) and every call delivers the sink's value. -/
theorem C02_pyfunc : C02_pyfunc_full := by
  intro A t r h ham
  obtain ⟨U, hd, he, hh, sink, hs, hv⟩ := expression_ok (ranked_iff h) (applyMode_iff ham)
  exact ⟨U, hd, sink, he, hs, hh, hv⟩

/-- the two defect shapes of DESIGN.md section 7 and richer ones: fan-out at the head (D1), the shorter branch of a
shared result first (D2), getters, shared state loader — the expression is constructed and delivers the
dependency-ordered value (tests of the model on concrete tables, and non-vacuity of `C02_pyfunc_partial`) -/
def exHeadFanout : Table :=
  [⟨.uid 0, .functor 0 .apply [], []⟩, ⟨.uid 1, .functor 1 .apply [], [.uid 0]⟩,
   ⟨.uid 2, .functor 2 .apply [], [.uid 0]⟩, ⟨.uid 3, .functor 3 .apply [], [.uid 1, .uid 2]⟩]

def exShortFirst : Table :=
  [⟨.uid 0, .functor 0 .apply [], []⟩, ⟨.uid 1, .functor 1 .apply [], [.uid 0]⟩,
   ⟨.uid 2, .functor 2 .apply [], [.uid 1]⟩, ⟨.uid 3, .functor 3 .apply [], [.uid 1, .uid 2]⟩]

def exServing : Table :=
  [⟨.loader 7, .loader 7, []⟩,
   ⟨.uid 0, .functor 0 .apply [.setState], [.loader 7]⟩,
   ⟨.uid 1, .functor 1 .apply [], [.uid 0]⟩,
   ⟨.getter 1 0, .getter 0, [.uid 1]⟩,
   ⟨.getter 1 2, .getter 2, [.uid 1]⟩,
   ⟨.loader 8, .loader 8, []⟩,
   ⟨.uid 2, .functor 2 .apply [.setState], [.loader 8, .getter 1 2]⟩,
   ⟨.uid 3, .functor 2 .apply [.setState], [.loader 8, .getter 1 0, .uid 2, .uid 0]⟩]

def exAssets : Option Assets := some ⟨[8, 9, 7], [.stored 0, .stored 1]⟩

def idRank : Key → Nat
  | .uid n => n | _ => 0

def servRank : Key → Nat
  | .uid 0 => 1 | .uid 1 => 2 | .getter _ _ => 3 | .uid 2 => 4 | .uid 3 => 5 | _ => 0

example : exHeadFanout.ranked idRank = true ∧ exHeadFanout.applyMode none = true := by decide
example : exShortFirst.ranked idRank = true ∧ exShortFirst.applyMode none = true := by decide
example : exServing.ranked servRank = true ∧ exServing.applyMode exAssets = true := by decide
example : (expression none exHeadFanout).toOption.isSome = true := by rfl
example : (expression none exShortFirst).toOption.isSome = true := by rfl
example : (expression exAssets exServing).toOption.isSome = true := by rfl
example : exHeadFanout.heads = [.uid 0] ∧ exShortFirst.heads = [.uid 0] ∧ exServing.heads = [.uid 0] := by decide

/-! ### which instructions a request executes (single-function runner) -/

/-- the instructions of a table that a request has to execute: functors and getters (loaders are read once, when
the expression is built, and condensed into the prepared actors) -/
def Table.requestNodes (t : Table) : List Key :=
  (t.filter fun s => match s.instr with | .functor _ _ _ => true | .getter _ => true | _ => false).map (·.id)

/-- **Full statement (open: stated, neither proved nor refuted)**: on every valid apply-mode table every request
executes every functor / getter of the table exactly once and nothing else — like the direct dependency-ordered
evaluation (`C02_run`). On the real code this is observed by the harness (execution nonces, signature
`pyfunc:execution-count`); the model's instrumented evaluator `evalT` is compared with those observations. -/
def C02_pyfunc_once_full : Prop :=
  ∀ (A : Option Assets) (t : Table) (r : Key → Nat), t.ranked r = true → t.applyMode A = true →
    ∀ U, expression A t = .ok U → ∀ x k, (U.executed x).count k = if k ∈ t.requestNodes then 1 else 0

/-- **The instrumented evaluator is the evaluator**: erasing the execution trace of `evalT` gives `eval` from every
queue state, so `Term.run` (and with it `C02_pyfunc`, `C02_pyfunc_partial`) speaks about the very evaluation whose
executions are listed. -/
theorem C02_pyfunc_trace_erasure (x : Val) (U : Term) (q : Queues) :
    ((evalT x U q).1, (evalT x U q).2.1) = eval x U q ∧ U.run x = (evalT x U []).1 := by
  refine ⟨evalT_erase x U q, ?_⟩
  have := evalT_erase x U []
  simp only [Term.run, ← this]

/-- **What is proved about executions, for every term and every input**: (1) a request executes nothing but nodes
of the term — from whatever queue state; (2) a term without replica cells (no shared result) executes each of its
nodes exactly once, arguments before consumers (post-order), and leaves the queues as they were; (3) of the
replica cells of a fork the one evaluated while the queue is empty executes the shared term and queues its value
once per remaining consumer, a cell that finds a queued value executes nothing. -/
theorem C02_pyfunc_once_partial (x : Val) (U : Term) :
    (∀ q k, k ∈ (evalT x U q).2.2 → k ∈ U.nodes) ∧
    (U.plain = true → U.executed x = U.nodes ∧ ∀ q, (evalT x U q).2.2 = U.nodes ∧ (evalT x U q).2.1 = q) ∧
    (∀ k n q, q.get k = [] →
      (evalT x (.replica k U n) q).2.2 = (evalT x U q).2.2 ∧
      (evalT x (.replica k U n) q).2.1.get k = (evalT x U q).2.1.get k ++ List.replicate n (evalT x U q).1) ∧
    (∀ k n q v d, q.get k = v :: d → evalT x (.replica k U n) q = (v, q.set k d, [])) :=
  ⟨evalT_sound x U, fun h => ⟨(evalT_plain x U [] h).1, fun q => evalT_plain x U q h⟩,
   fun k n q h => evalT_replica_first x k U n q h, fun k n q v d h => evalT_replica_served x k U n q v d h⟩

/-- **Every node at least once, nothing else**: if all replica cells of one fork wrap one shared term (`cellsOk`:
the cell named `k` wraps a term with nodes `C k` — what `Branch.fork` builds), a request, started from empty queues,
executes exactly the *set* of nodes of the term: no node is skipped because a consumer was served from a queue (a
queue holds values only after the shared term ran in this request), no other node runs. What separates this from
`C02_pyfunc_once_full` is the multiplicity on terms with replica cells. -/
theorem C02_pyfunc_executes_all (C : Key → List Key) (x : Val) (U : Term) (h : U.cellsOk C = true) (k : Key) :
    k ∈ U.executed x ↔ k ∈ U.nodes :=
  executed_iff_node C x U h k

/-- non-vacuity of `C02_pyfunc_executes_all`: the forks of the example expressions satisfy `cellsOk` -/
example : (expression none exHeadFanout).toOption.map
    (·.cellsOk fun k => if k = .uid 0 then [.uid 0] else []) = some true := by decide
example : (expression none exShortFirst).toOption.map
    (·.cellsOk fun k => if k = .uid 1 then [.uid 0, .uid 1] else []) = some true := by decide

example : (expression exAssets exServing).toOption.map (·.uniform) = some true := by decide

/-- instances of `C02_pyfunc_once_full` (tests of the model, non-vacuity): fan-out at the head, the shorter branch
of a shared result first, shared loader + getters + stateful head — every functor / getter once per request, no
loader, although `exHeadFanout`'s head and `exShortFirst`'s node 1 occur in two replica cells each -/
example : (expression none exHeadFanout).toOption.map (·.executed (.input 0)) =
    some [.uid 0, .uid 1, .uid 2, .uid 3] := by rfl
example : (expression none exShortFirst).toOption.map (·.executed (.input 0)) =
    some [.uid 0, .uid 1, .uid 2, .uid 3] := by rfl
example : (expression none exHeadFanout).toOption.map (·.nodes) =
    some [.uid 0, .uid 1, .uid 0, .uid 2, .uid 3] := by rfl
example : ((expression exAssets exServing).toOption.map fun U =>
    exServing.requestNodes.map fun k => (U.executed (.input 0)).count k) = some [1, 1, 1, 1, 1, 1] ∧
    ((expression exAssets exServing).toOption.map fun U =>
      ((U.executed (.input 0)).length, (U.executed (.input 0)).count (.loader 7))) = some (6, 0) := by decide

/-! ### the two ways a state preset reaches the actor -/

/-- **Both preset paths configure the actor identically - for every preset value, falsy or not.** `Functor.execute`
(dask under every scheduler, the direct evaluation) runs `Preset.__call__` on a fresh actor with the *values* of all
arguments (`execFunctor`); the single-function runner runs `Preset.reduce` once, when the expression is built, on the
loaded values `evs` (the remaining arguments still being instructions) and keeps the prepared actor `Task(actor,
action)` (`PyFunc.reduce`, `Raw.task`). Whenever the build-time reduction goes through, the prepared actor applied to
the values of the remaining arguments (`D` = any valuation of the instructions, `extra` = the external input of the
head) is what the inline path computes from all the values: the same state was set or - `None`, `b''`, an empty
sequence, `0`: any falsy value - skipped on both paths. -/
theorem C02_preset_paths (D : Key → Val) (a : Actor) (act : Action) (ps : List Preset) (evs : List Evaluated)
    (st : Val) (rem : List Evaluated) (h : PyFunc.reduce ps .none evs = .ok (st, rem)) (extra : List Val) :
    execFunctor a act ps (evs.map (rho D) ++ extra) = (Raw.task a st act).call (rem.map (rho D) ++ extra) := by
  simp only [execFunctor]
  rw [reduce_spec D h extra]
  exact task_call a st act _

/-- one state preset fed by a loader: the value is set iff it is truthy, on both paths -/
theorem C02_preset_paths_one (a : Actor) (v : Val) (args : List Val) :
    PyFunc.reduce [.setState] .none [.value v] = .ok (if v.truthy then v else .none, []) ∧
    execFunctor a .apply [.setState] (v :: args) = .apply a (if v.truthy then v else .none) args := by
  constructor
  · simp [PyFunc.reduce]
  · simp [execFunctor, reducePresets]

/-- non-vacuity: a falsy payload that is not `None` exists in the model, is skipped by both paths, and is told apart
from `None` wherever it travels as data -/
example : (Val.stored falsyBase).truthy = false ∧ (Val.stored 0).truthy = true ∧
    execFunctor 7 .apply [.setState] [.stored falsyBase, .stored falsyBase] = .apply 7 .none [.stored falsyBase] ∧
    execFunctor 7 .apply [.setState] [.stored 0, .stored 0] = .apply 7 (.stored 0) [.stored 0] :=
  ⟨by decide, by decide, by rfl, by rfl⟩

/-! ### builders, hyper-parameters and the process boundary -/

/-- **Pickling contract of a builder**: `pickle.loads(pickle.dumps(spec))` - `Spec.__getnewargs_ex__` followed by
`Spec.__new__` - is the same builder, for every builder `Spec.__new__` has accepted: same class, same positional
arguments, same keyword arguments whatever their values (an explicit `None`, a falsy value, the default itself). -/
theorem C02_spec_pickle (s : Spec) (h : s.valid = true) : s.roundtrip = some s :=
  Spec.roundtrip_valid h

/-- builders come into being through `Spec.__new__` only, so every one of them is valid -/
theorem C02_spec_new_valid (c : ActorClass) (a : List Hyper) (k : Kwargs) (s : Spec) (h : Spec.new c a k = some s) :
    s.valid = true ∧ s.roundtrip = some s :=
  ⟨(Spec.new_spec h).2, Spec.roundtrip_valid (Spec.new_spec h).2⟩

/-- **What a builder configures**: if the actor can be instantiated, the instance lists every constructor parameter
once, in signature order; every keyword argument of the builder is bound as given (also `name=None` over a non-`None`
default); positional arguments are bound to the leading parameters; whatever was not passed holds the constructor
default. -/
theorem C02_builder_call (s : Spec) (i : Instance) (h : s.call = some i) :
    i.sym = s.cls.sym ∧ i.params.map (·.1) = s.cls.params.map (·.name) ∧
    (∀ n v, (n, v) ∈ s.kwargs → (n, v) ∈ i.params) ∧
    (∀ e ∈ List.zip ((s.cls.params.take s.args.length).map (·.name)) s.args, e ∈ i.params) ∧
    (∀ p ∈ s.cls.params.drop s.args.length, s.kwargs.get p.name = none →
      ∃ d, p.default = some d ∧ (p.name, d) ∈ i.params) := by
  unfold Spec.call at h
  split at h
  · cases h
  · rename_i ps hps
    cases h
    have hps' := hps
    unfold bindCall at hps'
    split at hps'
    · cases hps'
    · rename_i b rest hb
      obtain ⟨h1, h2, _⟩ := bindPos_spec hb
      refine ⟨rfl, bindCall_names hps, fun n v hm => bindCall_kw hps hm, ?_, ?_⟩
      · intro e he
        split at hps'
        · split at hps'
          · cases hps'
          · cases hps'
            exact List.mem_append_left _ (h1 ▸ he)
        · cases hps'
      · intro p hp hk
        exact bindCall_default hps hb (h2 ▸ hp) hk

/-- non-vacuity and sensitivity: `Clip(upper=100)`; the builder with the explicit `upper=None` makes an actor holding
`None`, the builder without arguments one holding `100`; both survive pickling unchanged, so the two stay different
behind a process boundary -/
def exClip : ActorClass := ⟨1, [⟨0, some (.int 100), false⟩]⟩

example : (Spec.new exClip [] [(0, .none)]).bind Spec.call = some ⟨1, [(0, .none)]⟩ ∧
    (Spec.new exClip [] []).bind Spec.call = some ⟨1, [(0, .int 100)]⟩ ∧
    (Spec.new exClip [.none] []).bind Spec.call = some ⟨1, [(0, .none)]⟩ ∧
    ((Spec.new exClip [] [(0, .none)]).bind Spec.roundtrip).bind Spec.call = some ⟨1, [(0, .none)]⟩ ∧
    Spec.new exClip [.none] [(0, .none)] = none ∧ Spec.new exClip [] [(1, .none)] = none ∧
    Spec.new exClip [.none, .none] [] = none := by decide

/-- **The `processes` scheduler executes what the in-process schedulers execute**: shipping every instruction of a
table of accepted builders through its pickle changes nothing, so the run delivers the very same values. -/
theorem C02_processes (code : Instance → Actor) (A : Option Assets) (T : PTable) (h : T.valid = true) :
    T.ship = some T ∧ runDaskProcesses code A T = runDaskLocal code A T :=
  ⟨PTable.ship_valid h, runDaskProcesses_eq code A h⟩

/-- **Every back-end evaluates the table with the actors its builders configure.** For a table of accepted builders
whose actors can be instantiated (`T.lower code = some t`, `code` any naming of the configured instances) and that is
valid: the Dask runner under the in-process schedulers and under `processes` delivers for every sink the value of the
direct dependency-ordered evaluation of `t` - in which every functor is applied by the instance its builder makes -
and, if the table is an apply-mode table, so does every call of the single-function runner's expression (which
instantiates the builders once, at construction). -/
theorem C02_builders (code : Instance → Actor) (A : Option Assets) (T : PTable) (t : Table) (r : Key → Nat)
    (hv : T.valid = true) (hl : T.lower code = some t) (h : t.ranked r = true) (hne : t ≠ []) :
    (∃ m, runDaskLocal code A T = .ok m ∧ runDaskProcesses code A T = .ok m ∧
      ∀ k ∈ t.sinks, m.get k = some (Table.value A t t.fuel k) ∧ m.get k = (run A t).get k) ∧
    (t.applyMode A = true → ∃ U hd sink, expression A t = .ok U ∧ t.sinks = [sink] ∧ t.heads = [hd] ∧
      ∀ x, U.run x = valueIn A t hd x t.fuel sink) := by
  constructor
  · obtain ⟨job, hjob, _, hvals, _⟩ := C02_dask A t r h hne
    refine ⟨evalDask A job, ?_, ?_, fun k hk => ⟨(hvals k hk).2, (hvals k hk).1⟩⟩
    · simp [runDaskLocal, hl, runDask, hjob]
    · rw [runDaskProcesses_eq code A hv]
      simp [runDaskLocal, hl, runDask, hjob]
  · intro ham
    exact C02_pyfunc A t r h ham

/-- **The assignment is observable**: two builders that configure different instances (another class, or one
parameter with another value - `None` instead of the default, say) yield different results on the same arguments,
under any injective naming of instances: no back-end may confuse them. -/
theorem C02_builder_observable (code : Instance → Actor) (hinj : ∀ i j, code i = code j → i = j)
    (b1 b2 : Spec) (i1 i2 : Instance) (h1 : b1.call = some i1) (h2 : b2.call = some i2) (hne : i1 ≠ i2)
    (A : Option Assets) (ps : List Preset) (args : List Val) (hp : (reducePresets ps .none args).isSome = true)
    (f1 f2 : Instr) (hf1 : (PInstr.functor b1 .apply ps).lower code = some f1)
    (hf2 : (PInstr.functor b2 .apply ps).lower code = some f2) : exec A f1 args ≠ exec A f2 args := by
  simp only [PInstr.lower, h1, h2, Option.some.injEq] at hf1 hf2
  subst hf1 hf2
  simp only [exec, execFunctor]
  cases hr : reducePresets ps .none args with
  | none => simp [hr] at hp
  | some p =>
    simp only
    intro heq
    injection heq with ha
    exact hne (hinj _ _ ha)

/-- non-vacuity of `C02_builders`: a train-mode table whose trained group is built by `Clip.builder(upper=None)` -/
def exClipTable : PTable :=
  [⟨.uid 0, .functor ⟨⟨0, []⟩, [], []⟩ .apply [], []⟩,
   ⟨.uid 2, .functor ⟨exClip, [], [(0, .none)]⟩ .train [], [.uid 0, .uid 0]⟩,
   ⟨.uid 3, .functor ⟨exClip, [], [(0, .none)]⟩ .apply [.setState], [.uid 2, .uid 0]⟩,
   ⟨.dumper 2, .dumper, [.uid 2]⟩,
   ⟨.committer, .committer, [.dumper 2]⟩]

def exClipRank : Key → Nat
  | .uid 0 => 0 | .uid 2 => 1 | .uid 3 => 2 | .dumper _ => 2 | .committer => 3 | _ => 0

example : exClipTable.valid = true ∧
    (exClipTable.lower (internCode [⟨1, [(0, .none)]⟩])).isSome = true ∧
    ((exClipTable.lower (internCode [⟨1, [(0, .none)]⟩])).map fun t => t.ranked exClipRank) = some true := by decide

/-! ### dask's pure tasks -/

/-- **Merging equally named pure tasks is invisible in the data.** `dask.delayed(leaf, pure=True)` names a task by the
content of the instruction and the names of its argument tasks (`Table.token`); instructions with the same name become
one task whose single result all their consumers receive. The value of an instruction is a function of that name, so
every consumer receives exactly the value of the instruction it asked for. Here the name is built from the instruction
*content itself* (`Table.token`: equal names = equal instructions over equally named arguments); for an arbitrary
content naming see `C02_dask_merged_partial` / `_counterexample` below: equal names must imply equal content. -/
theorem C02_dask_pure_tasks (A : Option Assets) (t : Table) (k₁ k₂ : Key)
    (h : t.token t.fuel k₁ = t.token t.fuel k₂) : Table.value A t t.fuel k₁ = Table.value A t t.fuel k₂ :=
  value_of_token A t t.fuel k₁ k₂ h

/-- the same where it matters for configured actors: the content of a functor is its builder - class, positional and
keyword arguments - and its action chain; only functors that agree in all of that (and hence make the same actor) over
equally named arguments are merged -/
theorem C02_dask_pure_tasks_builders (code : Instance → Actor) (A : Option Assets) (T : PTable) (t : Table)
    (hl : T.lower code = some t) (k₁ k₂ : Key) (h : T.token t.fuel k₁ = T.token t.fuel k₂) :
    Table.value A t t.fuel k₁ = Table.value A t t.fuel k₂ :=
  value_of_token A t t.fuel k₁ k₂ (ptoken_lower hl t.fuel k₁ k₂ h)

/-- non-vacuity: the two equal workers of `[h; a(h); a(h); s(a, a)]` carry the same name, the head does not -/
example : let t : Table := [⟨.uid 0, .functor 0 .apply [], []⟩, ⟨.uid 1, .functor 1 .apply [], [.uid 0]⟩,
                            ⟨.uid 2, .functor 1 .apply [], [.uid 0]⟩, ⟨.uid 3, .functor 3 .apply [], [.uid 1, .uid 2]⟩]
    t.token t.fuel (.uid 1) = t.token t.fuel (.uid 2) := by rfl

/-! ### what "equally named" has to mean -/

/-- the statement for an arbitrary content naming `nm` (dask's `normalize_token` of the instruction object): on every
valid table the graph in which equally named tasks are one task delivers the dependency-ordered value of every sink.
False in general - it needs `nm` to tell instruction contents apart (`C02_dask_merged_partial`); a naming by what a
functor *prints* does not (`C02_dask_merged_counterexample`, `C02_repr_not_injective`). The runner leaves the naming to
dask's default (the pickled content of `Functor(builder, action)`: class, positional and keyword arguments, action
chain), which the harness checks to be injective on the instruction sets it generates. -/
def C02_dask_merged_full : Prop :=
  ∀ (nm : Instr → Nat) (A : Option Assets) (t : Table) (r : Key → Nat), t.ranked r = true →
    ∀ k ∈ t.sinks, Table.valueMerged nm A t t.fuel k = Table.value A t t.fuel k

/-- **Merging equally named tasks is invisible whenever equal names imply equal instruction content** (actor identity
- class and every constructor argument -, action, presets, getter index, loader key): then the merged graph computes
the dependency-ordered value of every instruction, whichever of the equally named instructions dask keeps. -/
theorem C02_dask_merged_partial [DecidableEq N] (nm : Instr → N) (A : Option Assets) (t : Table)
    (hinj : t.namesInjective nm) (k : Key) :
    Table.valueMerged nm A t t.fuel k = Table.value A t t.fuel k :=
  valueMerged_eq A hinj t.fuel k

/-- the content itself is such a naming: `C02_dask_pure_tasks` is the instance `nm = id` -/
theorem C02_dask_merged_id (A : Option Assets) (t : Table) (k : Key) :
    Table.valueMerged id A t t.fuel k = Table.value A t t.fuel k :=
  valueMerged_eq A (fun _ _ _ _ h => h) t.fuel k

/-- a naming that forgets which configured instance a functor applies (as a printed builder does when the differing
argument is not printed): two parallel branches over the same result, actors 4001 and 8001 of one class -/
def nmPrinted : Instr → Nat
  | .functor a _ _ => a % 4000
  | _ => 0

def exPrinted : Table :=
  [⟨.uid 0, .functor 0 .apply [], []⟩, ⟨.uid 1, .functor 4001 .apply [], [.uid 0]⟩,
   ⟨.uid 2, .functor 8001 .apply [], [.uid 0]⟩, ⟨.uid 3, .functor 3 .apply [], [.uid 1, .uid 2]⟩]

/-- which actor made the second argument of an `apply` term -/
def secondMaker : Val → Nat
  | .apply _ _ [_, .apply a _ _] => a
  | _ => 0

/-- under the printed naming the two branches are one task: the sink receives the result of actor 4001 twice, the
dependency-ordered evaluation hands it the results of 4001 and 8001 -/
theorem C02_dask_merged_counterexample : ¬ C02_dask_merged_full := by
  intro h
  have h3 := h nmPrinted none exPrinted idRank (by decide) (.uid 3) (by decide)
  have : secondMaker (Table.valueMerged nmPrinted none exPrinted exPrinted.fuel (.uid 3)) =
      secondMaker (Table.value none exPrinted exPrinted.fuel (.uid 3)) := by rw [h3]
  exact absurd this (by decide)

example : exPrinted.ranked idRank = true ∧ exPrinted.sinks = [.uid 3] ∧
    exPrinted.sameName nmPrinted exPrinted.fuel (.uid 1) (.uid 2) = true ∧
    exPrinted.sameName id exPrinted.fuel (.uid 1) (.uid 2) = false := by decide

/-- **What a builder prints does not determine it**: `Clip.builder(upper=None)` and `Clip.builder()` print the same
(`flow.name` drops `None` keyword arguments) and configure different actors - so a task name derived from the printed
form is not injective on instruction content. -/
theorem C02_repr_not_injective :
    ∃ b₁ b₂ : Spec, b₁.valid = true ∧ b₂.valid = true ∧ b₁.repr = b₂.repr ∧ b₁.call ≠ b₂.call :=
  ⟨⟨exClip, [], [(0, .none)]⟩, ⟨exClip, [], []⟩, by decide, by decide, by decide, by decide⟩

/-! ### the code before the repair (for the record) -/

/-- the property as it would read for the code before the repair: every valid apply-mode table evaluates -/
def C02_pyfunc_legacy_full : Prop :=
  ∀ (A : Option Assets) (t : Table) (r : Key → Nat) (x : Val), t.ranked r = true → t.applyMode A = true →
    Legacy.outcome A t x = none

/-- D1: a head with two consumers — `IndexError: pop from an empty deque` while the expression is constructed -/
theorem C02_pyfunc_legacy_counterexample_fanout_head :
    exHeadFanout.ranked idRank = true ∧ exHeadFanout.applyMode none = true ∧
      Legacy.outcome none exHeadFanout (.input 0) = some .indexError := by decide

/-- D2: a shared result whose shorter branch comes first in the consumer's argument order — the `Pop` is evaluated
before its `Push`: `IndexError` at call time -/
theorem C02_pyfunc_legacy_counterexample_short_branch_first :
    exShortFirst.ranked idRank = true ∧ exShortFirst.applyMode none = true ∧
      (Legacy.expression none exShortFirst).toOption.isSome = true ∧
      Legacy.outcome none exShortFirst (.input 0) = some .indexError := by decide

theorem C02_pyfunc_legacy_counterexample : ¬ C02_pyfunc_legacy_full := by
  intro h
  have := h none exHeadFanout idRank (.input 0) (by decide) (by decide)
  exact absurd this (by decide)

end ForML.Flow
