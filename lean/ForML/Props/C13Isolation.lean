/-
C13 — live instances of one actor definition are isolated from each other (session 5).

The world machine `stepW` (Model/ActorMachine.lean) runs a program over one builder, any number of live
instances (registers) and any number of exported states (slots).  The contract talks about "an actor" and "its
state": nothing that is done to ONE live instance -- building it, training it, giving it hyper-parameters, an
imported / empty / preset state, pickling it, asking it -- may be visible through ANOTHER instance, the builder
or an exported state.  `C13_instances_isolated` proves this for EVERY machine (hence every flavour's model, the
contract machine and every memo variant), for every operation sequence, from any pair of worlds that agree
outside register `r`: deleting all operations local to `r` from a program that never exports from `r` leaves
every remaining observation unchanged.  The hypothesis "never exports from `r`" is necessary
(`C13_instances_isolated_export_counterexample`): an export is the one channel between instances.
The harness ties `stepW` to the real code on live sequences over 3 registers / 3 slots.
-/
import ForML.Props.C13Live

namespace ForML.Actor

variable {ω β σ : Type}

/-- operations that touch only the instance in register `r` (builder and slots are read at most) -/
def MOp.localTo (r : Nat) : MOp → Bool
  | .build r' _ _ => r' == r
  | .train r' _ _ => r' == r
  | .apply r' _ => r' == r
  | .params r' => r' == r
  | .setParams r' _ => r' == r
  | .setState r' _ => r' == r
  | .setEmpty r' => r' == r
  | .preset r' _ => r' == r
  | .pickle r' => r' == r
  | _ => false

/-- `slots[k] = regs[r].get_state()`: the instance in `r` hands something out -/
def MOp.exportsFrom (r : Nat) : MOp → Bool
  | .getState r' _ => r' == r
  | _ => false

/-- the program as it was observed: every operation with what it showed -/
def trace (m : Mach ω β) : World ω β → List MOp → List (MOp × Out)
  | _, [] => []
  | w, op :: rest => (op, (stepW m w op).2) :: trace m (stepW m w op).1 rest

/-- the observed program started from nothing -/
def traceInit (m : Mach ω β) (ops : List MOp) : List (MOp × Out) := trace m (World.init m) ops

theorem trace_observations (m : Mach ω β) (w : World ω β) (ops : List MOp) :
    (trace m w ops).map Prod.snd = (runW m w ops).2 := by
  induction ops generalizing w with
  | nil => rfl
  | cons op rest ih => simp [trace, runW, ih]

/-- same builder, same exported states, same instances everywhere except (possibly) in register `r` -/
def World.AgreeOff (r : Nat) (w w' : World ω β) : Prop :=
  w.builder = w'.builder ∧ w.blobs = w'.blobs ∧ ∀ i, i ≠ r → w.regs i = w'.regs i

theorem World.AgreeOff.refl (r : Nat) (w : World ω β) : World.AgreeOff r w w := ⟨rfl, rfl, fun _ _ => rfl⟩

private theorem agree_setReg_left {r : Nat} {w w' : World ω β} (h : World.AgreeOff r w w') (o : ω) :
    World.AgreeOff r (w.setReg r o) w' := by
  obtain ⟨hb, hbl, hr⟩ := h
  refine ⟨hb, hbl, fun i hi => ?_⟩
  simp [World.setReg, hi, hr i hi]

private theorem agree_onReg_local {r : Nat} {w w' : World ω β} (h : World.AgreeOff r w w')
    (f : ω → Except Err ω) : World.AgreeOff r (w.onReg r f).1 w' := by
  unfold World.onReg
  split
  · exact h
  · split
    · exact agree_setReg_left h _
    · exact h

private theorem agree_readReg {r : Nat} (w : World ω β) (g : ω → Out) : (w.readReg r g).1 = w := by
  unfold World.readReg; split <;> rfl

private theorem onReg_other {r r' : Nat} {w w' : World ω β} (h : World.AgreeOff r w w') (hne : r' ≠ r)
    (f : ω → Except Err ω) :
    (w.onReg r' f).2 = (w'.onReg r' f).2 ∧ World.AgreeOff r (w.onReg r' f).1 (w'.onReg r' f).1 := by
  obtain ⟨hb, hbl, hr⟩ := h
  have h1 := hr r' hne
  unfold World.onReg
  rw [h1]
  split
  · exact ⟨rfl, hb, hbl, hr⟩
  · split
    · refine ⟨rfl, hb, hbl, fun i hi => ?_⟩
      simp [World.setReg, hr i hi]
    · exact ⟨rfl, hb, hbl, hr⟩

private theorem readReg_other {r r' : Nat} {w w' : World ω β} (h : World.AgreeOff r w w') (hne : r' ≠ r)
    (g : ω → Out) :
    (w.readReg r' g).2 = (w'.readReg r' g).2 ∧ World.AgreeOff r (w.readReg r' g).1 (w'.readReg r' g).1 := by
  have h1 := h.2.2 r' hne
  rw [agree_readReg, agree_readReg]
  refine ⟨?_, h⟩
  unfold World.readReg
  rw [h1]
  split <;> rfl

private theorem onBuilder_agree {r : Nat} {w w' : World ω β} (h : World.AgreeOff r w w')
    (f : Option Spec → Except Err Spec) :
    (w.onBuilder f).2 = (w'.onBuilder f).2 ∧ World.AgreeOff r (w.onBuilder f).1 (w'.onBuilder f).1 := by
  obtain ⟨hb, hbl, hr⟩ := h
  unfold World.onBuilder
  rw [hb]
  split
  · exact ⟨rfl, rfl, hbl, hr⟩
  · exact ⟨rfl, hb, hbl, hr⟩

/-- an operation local to `r` changes nothing outside register `r` -/
theorem step_local (m : Mach ω β) {r : Nat} {w w' : World ω β} (h : World.AgreeOff r w w') (op : MOp)
    (hl : op.localTo r = true) : World.AgreeOff r (stepW m w op).1 w' := by
  cases op <;> simp only [MOp.localTo, beq_iff_eq] at hl <;> try (exact absurd hl (by simp))
  all_goals subst hl
  all_goals simp only [stepW]
  case build r' a kw =>
    split
    · exact agree_setReg_left h _
    · exact h
  case apply r' x => rw [agree_readReg]; exact h
  case params r' => rw [agree_readReg]; exact h
  all_goals exact agree_onReg_local h _

/-- any other operation that does not export from `r` shows the same and keeps the agreement -/
theorem step_other (m : Mach ω β) {r : Nat} {w w' : World ω β} (h : World.AgreeOff r w w') (op : MOp)
    (hl : op.localTo r = false) (he : op.exportsFrom r = false) :
    (stepW m w op).2 = (stepW m w' op).2 ∧ World.AgreeOff r (stepW m w op).1 (stepW m w' op).1 := by
  have hb := h.1
  have hbl := h.2.1
  have hr := h.2.2
  cases op <;> simp only [MOp.localTo, MOp.exportsFrom, beq_eq_false_iff_ne, ne_eq] at hl he <;>
    simp only [stepW]
  case spec a kw => exact onBuilder_agree h _
  case update a kw => exact onBuilder_agree h _
  case reset a kw => exact onBuilder_agree h _
  case bpickle => exact onBuilder_agree h _
  case build r' a kw =>
    rw [hb]
    split
    · refine ⟨rfl, hb, hbl, fun i hi => ?_⟩
      simp [World.setReg, hr i hi]
    · exact ⟨rfl, h⟩
  case train r' x y => exact onReg_other h hl _
  case apply r' x => exact readReg_other h hl _
  case params r' => exact readReg_other h hl _
  case setParams r' kw => exact onReg_other h hl _
  case stateful => exact ⟨trivial, h⟩
  case forge k =>
    refine ⟨trivial, hb, ?_, hr⟩
    simp [World.setBlob, hbl]
  case getState r' k =>
    rw [hr r' he]
    split
    · exact ⟨rfl, h⟩
    · refine ⟨rfl, hb, ?_, fun i hi => ?_⟩
      · simp [World.setBlob, World.setReg, hbl]
      · simp [World.setBlob, World.setReg, hr i hi]
  case setState r' k => rw [hbl]; exact onReg_other h hl _
  case setEmpty r' => exact onReg_other h hl _
  case preset r' k => rw [hbl]; exact onReg_other h hl _
  case pickle r' => exact onReg_other h hl _
  case fapply k x => rw [hb, hbl]; exact ⟨rfl, h⟩
  case ftrain k x y j =>
    rw [hb, hbl]
    split
    · refine ⟨rfl, hb, ?_, hr⟩
      simp [World.setBlob, hbl]
    · exact ⟨rfl, h⟩

/-- **isolation of live instances**, every machine, every operation sequence: from worlds that agree outside
register `r`, a program that never exports from `r` shows -- on all its operations that are not local to `r` --
exactly what the program without the operations local to `r` shows. -/
theorem C13_instances_isolated (m : Mach ω β) (r : Nat) (ops : List MOp) (w w' : World ω β)
    (h : World.AgreeOff r w w') (hexp : ∀ op ∈ ops, op.exportsFrom r = false) :
    (trace m w ops).filter (fun p => !p.1.localTo r) = trace m w' (ops.filter (fun op => !op.localTo r)) := by
  induction ops generalizing w w' with
  | nil => rfl
  | cons op rest ih =>
    have hexp' : ∀ op ∈ rest, op.exportsFrom r = false := fun o ho => hexp o (List.mem_cons_of_mem _ ho)
    cases hl : op.localTo r with
    | true =>
      simp only [trace, List.filter_cons, hl, Bool.not_true, Bool.false_eq_true, if_false]
      exact ih _ _ (step_local m h op hl) hexp'
    | false =>
      obtain ⟨ho, hw⟩ := step_other m h op hl (hexp op (List.mem_cons_self ..))
      simp only [trace, List.filter_cons, hl, Bool.not_false, if_true, ho]
      rw [ih _ _ hw hexp']

/-- the same for a program started from nothing, on every flavour's model (and, by `C13_live_refines`, in terms
of the contract machine) -/
theorem C13_instances_isolated_flavour [Inhabited σ] (u : User σ) (fs : FlavourSpec) (r : Nat) (ops : List MOp)
    (hexp : ∀ op ∈ ops, op.exportsFrom r = false) :
    (traceInit (fs.toMach u) ops).filter (fun p => !p.1.localTo r)
      = traceInit (fs.toMach u) (ops.filter (fun op => !op.localTo r)) :=
  C13_instances_isolated (fs.toMach u) r ops _ _ (World.AgreeOff.refl r _) hexp

/-- isolation claimed also for programs that export from `r` -/
def C13_instances_isolated_export_full : Prop :=
  ∀ (ops : List MOp) (r : Nat),
    ((traceInit ((FlavourSpec.decorated exKwSig true).toMach toyUser) ops).filter
        (fun p => !p.1.localTo r)).map (fun p => p.2.int?)
      = (traceInit ((FlavourSpec.decorated exKwSig true).toMach toyUser)
          (ops.filter (fun op => !op.localTo r))).map (fun p => p.2.int?)

def exportOps : List MOp :=
  [.spec [] [(0, 2)], .build 0 [] [], .train 0 1 2, .getState 0 0, .build 1 [] [], .setState 1 0, .apply 1 5]

/-- the hypothesis is necessary: the export is the channel (training of instance 0 reaches instance 1 through
slot 0; without the training the receiver is untrained) -/
theorem C13_instances_isolated_export_counterexample : ¬ C13_instances_isolated_export_full := by
  intro h
  have := h exportOps 0
  revert this
  decide

/-- non-vacuity: a program over two instances where register 0 is built, trained, re-parameterised, pickled and
given states but never exported; the observations on register 1 are those of the program without register 0 -/
def isoOps : List MOp :=
  [.spec [] [(0, 2)], .build 0 [] [], .build 1 [] [], .train 0 1 2, .train 1 3 4, .setParams 0 [(0, 9)],
   .getState 1 0, .setState 0 0, .pickle 0, .apply 0 5, .apply 1 5, .params 1, .fapply 0 5]

example : (∀ op ∈ isoOps, op.exportsFrom 0 = false) ∧ (isoOps.filter (fun op => !op.localTo 0)).length = 7 ∧
    ((traceInit ((FlavourSpec.native exKwSig true).toMach toyUser) isoOps).filter
        (fun p => !p.1.localTo 0)).map (fun p => p.2.int?)
      = (traceInit ((FlavourSpec.native exKwSig true).toMach toyUser)
          (isoOps.filter (fun op => !op.localTo 0))).map (fun p => p.2.int?) := by decide

end ForML.Actor
