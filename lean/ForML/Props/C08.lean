/-
C08 — DSL objects are equal exactly when they are structurally identical.

Specification = the derived structural equality of `ForML.Model.Dsl`.  Implementation = `identEq` / `hashAgree` /
`repickle` / `dictGet` of `ForML.Model.DslIdent` (the code as repaired by fixes/C08-*.diff: class test + `tuple.__eq__`
on features, class name test + `tuple.__eq__` on sources) over the hash model `H` of `ForML.Model.DslEq` (`pyIntHash`
exact, every other component of `hash` a parameter: the theorems hold for *every* hash environment, collisions
included).  The theorems about the code before the repair are in `ForML.Lemmas.C08Legacy`.

  C08_pyIntHash_*        CPython's integer hash: identity below 2^61-1 (except -1), the collision families
  C08_sound_hash         a = b → H a = H b                                              (all objects, all environments)
  C08_kind_iff / C08_schema_iff / C08_lit_iff     kinds, schemas, literals: `==` is the structural equality
  C08_eq_structural      identEq a b = true → a = b          (ALL features / sources: different objects never compare equal,
                                                              whatever their hashes)
  C08_feature_iff / C08_source_iff   identEq a b = true ↔ a = b   for window-free a
  C08_full               (a == b ∧ hash a = hash b) ↔ a = b, and pickling is the identity, for all objects — stated;
                         FALSE for the code that exists because of `Window` (finding C08-F1):
  C08_counterexample       a window built twice is neither equal nor hash-equal nor picklable
  C08_partial              … and holds for all window-free objects
  C08_symm               `==` is symmetric on window-free objects
  C08_raise_distinct     a raising comparison (optional clause on one side only) happens only between different objects
  C08_hier_table         tables of class statements of ANY two hierarchies: equal and hash-equal exactly when the class
                         name and the resolved ordered field list agree; the table survives pickling of its classes
                         (schemas from hierarchies: ForML.Lemmas.C08Schema — C08_schema_pickle, C08_schema_eq_iff,
                         C08_schema_extend, C08_schema_names_*, C08_kind_singleton*, C08_reflect_*)
  C08_anon_shipped_iff / C08_anon_fresh_iff   anonymous references after shipping: equal ⇔ equal names; "distinct creations
                         stay distinct wherever copies meet" (C08_anon_full) ⇔ the naming scheme is injective over
                         (process, serial) — fresh ACROSS processes
  C08_anon_counter_counterexample / _collapse   a per-process counter refutes it with two processes (equal, hash-equal, one
                         dict key, self-join with one origin)
  C08_dict_feature / C08_dict_source   a hash-table lookup that does not raise returns exactly what a structural
                         dictionary returns, in every hash environment and probe order (no confusion by collisions)
-/
import ForML.Model.DslIdent
import ForML.Lemmas.C08Schema

namespace ForML.Dsl

/-! ### the integer hash -/

theorem C08_modulus : pyHashModulus = 2 ^ 61 - 1 := by decide

/-- `hash(n) = n` for every n with |n| < 2^61 - 1 except n = -1 -/
theorem C08_pyIntHash_small (n : Int) (h : n.natAbs < pyHashModulus) (h1 : n ≠ -1) : pyIntHash n = n := by
  unfold pyIntHash
  simp only [Nat.mod_eq_of_lt h, Int.ofNat_eq_natCast]
  split <;> split <;> omega

/-- … hence the integer hash is injective there: small literals never collide -/
theorem C08_pyIntHash_inj_small (a b : Int) (ha : a.natAbs < pyHashModulus) (hb : b.natAbs < pyHashModulus)
    (ha1 : a ≠ -1) (hb1 : b ≠ -1) (h : pyIntHash a = pyIntHash b) : a = b := by
  rw [C08_pyIntHash_small a ha ha1, C08_pyIntHash_small b hb hb1] at h
  exact h

/-- the collision families: `-1 / -2`, and `n / n + k·(2^61-1)` -/
theorem C08_pyIntHash_neg1 : pyIntHash (-1) = pyIntHash (-2) := by decide

theorem C08_pyIntHash_period (n : Int) (k : Nat) (h : 0 ≤ n) :
    pyIntHash (n + k * pyHashModulus) = pyIntHash n := by
  unfold pyIntHash
  have h1 : ¬ (n + (k : Int) * (pyHashModulus : Int) < 0) := by
    have : (0 : Int) ≤ (k : Int) * (pyHashModulus : Int) := Int.mul_nonneg (by omega) (by decide)
    omega
  have h2 : ¬ (n < 0) := by omega
  have h3 : (n + (k : Int) * (pyHashModulus : Int)).natAbs = n.natAbs + k * pyHashModulus := by
    have : (0 : Int) ≤ (k : Int) * (pyHashModulus : Int) := Int.mul_nonneg (by omega) (by decide)
    have e : ((k * pyHashModulus : Nat) : Int) = (k : Int) * (pyHashModulus : Int) := by simp
    omega
  simp only [h1, h2, if_false, h3, Nat.add_mul_mod_self_right]

/-! ### hashes, kinds, schemas, literals -/

/-- equal structure, equal hash (congruence; this is all that is assumed about `hash`) -/
theorem C08_sound_hash {α : Type} (env : HashEnv α) :
    (∀ a b : Feature, a = b → a.H env = b.H env) ∧ (∀ a b : Source, a = b → a.H env = b.H env)
    ∧ (∀ a b : Kind, a = b → a.H env = b.H env) :=
  ⟨fun _ _ h => h ▸ rfl, fun _ _ h => h ▸ rfl, fun _ _ h => h ▸ rfl⟩

/-- kinds and schemas: the implementation's equality *is* the structural one -/
theorem C08_kind_iff (a b : Kind) : Kind.implEq a b = true ↔ a = b := by simp [Kind.implEq]

theorem C08_schema_iff (a b : Fields) : fieldsEq a b = true ↔ a = b := by simp [fieldsEq]

/-- literals `(value, kind)`: equal iff the same value of the same type (`1`, `1.0`, `True` are three literals),
whatever a float/int comparison says -/
theorem C08_lit_iff (cf : Lit → Lit → Bool) (v w : Lit) : Lit.identEq cf v w = true ↔ v = w := by
  cases v <;> cases w <;> simp [Lit.identEq, Lit.valueEq, Lit.kind, Kind.implEq]

/-! ### `==` is the structural equality -/

private theorem eqAnd_true {r : EqRes} {k : Unit → EqRes} (h : eqAnd r k = some true) :
    r = some true ∧ k () = some true := by
  unfold eqAnd at h
  split at h
  · cases h
  · cases h
  · exact ⟨rfl, h⟩

mutual
private theorem Feature.identEq_sound (cf : Lit → Lit → Bool) :
    (a b : Feature) → Feature.identEq cf a b = some true → a = b
  | .lit v, b, h => by
    cases b with
    | lit w => simp [Feature.identEq] at h; rw [(C08_lit_iff cf v w).mp h]
    | _ => simp [Feature.identEq] at h
  | .elem oa na, b, h => by
    cases b with
    | elem ob nb =>
      simp only [Feature.identEq] at h
      split at h
      · obtain ⟨h1, h2⟩ := eqAnd_true h
        simp at h2
        rw [Source.identEq_sound cf oa ob h1, h2]
      · cases h
    | _ => simp [Feature.identEq] at h
  | .alias fa na, b, h => by
    cases b with
    | alias fb nb =>
      simp only [Feature.identEq] at h
      obtain ⟨h1, h2⟩ := eqAnd_true h
      simp at h2
      rw [Feature.identEq_sound cf fa fb h1, h2]
    | _ => simp [Feature.identEq] at h
  | .expr opa as, b, h => by
    cases b with
    | expr opb bs =>
      simp only [Feature.identEq] at h
      split at h
      · rename_i hop
        rw [hop, Features.identEq_sound cf as bs h]
      · cases h
    | _ => simp [Feature.identEq] at h
  | .cast fa ka, b, h => by
    cases b with
    | cast fb kb =>
      simp only [Feature.identEq] at h
      obtain ⟨h1, h2⟩ := eqAnd_true h
      simp [Kind.implEq] at h2
      rw [Feature.identEq_sound cf fa fb h1, h2]
    | _ => simp [Feature.identEq] at h
  | .window _ _ _, b, h => by
    cases b <;> simp [Feature.identEq] at h
private theorem Features.identEq_sound (cf : Lit → Lit → Bool) :
    (as bs : Features) → Features.identEq cf as bs = some true → as = bs
  | .nil, bs, h => by
    cases bs with
    | nil => rfl
    | cons _ _ => simp [Features.identEq] at h
  | .cons a as, bs, h => by
    cases bs with
    | nil => simp [Features.identEq] at h
    | cons b bs =>
      simp only [Features.identEq] at h
      obtain ⟨h1, h2⟩ := eqAnd_true h
      rw [Feature.identEq_sound cf a b h1, Features.identEq_sound cf as bs h2]
private theorem FeatureOpt.identEq_sound (cf : Lit → Lit → Bool) :
    (a b : FeatureOpt) → FeatureOpt.identEq cf a b = Option.some true → a = b
  | .none, b, h => by
    cases b with
    | none => rfl
    | some _ => simp [FeatureOpt.identEq] at h
  | .some x, b, h => by
    cases b with
    | none => simp [FeatureOpt.identEq] at h
    | some y =>
      simp only [FeatureOpt.identEq] at h
      rw [Feature.identEq_sound cf x y h]
private theorem Ordering.identEq_sound (cf : Lit → Lit → Bool) :
    (a b : Ordering) → Ordering.identEq cf a b = some true → a = b
  | .mk fa da, .mk fb db, h => by
    simp only [Ordering.identEq] at h
    obtain ⟨h1, h2⟩ := eqAnd_true h
    simp at h2
    rw [Feature.identEq_sound cf fa fb h1, h2]
private theorem Orderings.identEq_sound (cf : Lit → Lit → Bool) :
    (as bs : Orderings) → Orderings.identEq cf as bs = some true → as = bs
  | .nil, bs, h => by
    cases bs with
    | nil => rfl
    | cons _ _ => simp [Orderings.identEq] at h
  | .cons a as, bs, h => by
    cases bs with
    | nil => simp [Orderings.identEq] at h
    | cons b bs =>
      simp only [Orderings.identEq] at h
      obtain ⟨h1, h2⟩ := eqAnd_true h
      rw [Ordering.identEq_sound cf a b h1, Orderings.identEq_sound cf as bs h2]
private theorem Source.identEq_sound (cf : Lit → Lit → Bool) :
    (a b : Source) → Source.identEq cf a b = some true → a = b
  | .table na fa, b, h => by
    cases b with
    | table nb fb =>
      simp [Source.identEq, fieldsEq] at h
      rw [h.1, h.2]
    | _ => simp [Source.identEq] at h
  | .ref sa na, b, h => by
    cases b with
    | ref sb nb =>
      simp only [Source.identEq] at h
      obtain ⟨h1, h2⟩ := eqAnd_true h
      simp at h2
      rw [Source.identEq_sound cf sa sb h1, h2]
    | _ => simp [Source.identEq] at h
  | .join la ra ka ca, b, h => by
    cases b with
    | join lb rb kb cb =>
      simp only [Source.identEq] at h
      obtain ⟨h1, h⟩ := eqAnd_true h
      obtain ⟨h2, h⟩ := eqAnd_true h
      obtain ⟨h3, h4⟩ := eqAnd_true h
      simp at h3
      rw [Source.identEq_sound cf la lb h1, Source.identEq_sound cf ra rb h2, h3, FeatureOpt.identEq_sound cf ca cb h4]
    | _ => simp [Source.identEq] at h
  | .set la ra ka, b, h => by
    cases b with
    | set lb rb kb =>
      simp only [Source.identEq] at h
      obtain ⟨h1, h⟩ := eqAnd_true h
      obtain ⟨h2, h3⟩ := eqAnd_true h
      simp at h3
      rw [Source.identEq_sound cf la lb h1, Source.identEq_sound cf ra rb h2, h3]
    | _ => simp [Source.identEq] at h
  | .query sa sela prea grpa posta orda rowsa, b, h => by
    cases b with
    | query sb selb preb grpb postb ordb rowsb =>
      simp only [Source.identEq] at h
      obtain ⟨h1, h⟩ := eqAnd_true h
      obtain ⟨h2, h⟩ := eqAnd_true h
      obtain ⟨h3, h⟩ := eqAnd_true h
      obtain ⟨h4, h⟩ := eqAnd_true h
      obtain ⟨h5, h⟩ := eqAnd_true h
      obtain ⟨h6, h7⟩ := eqAnd_true h
      simp at h7
      rw [Source.identEq_sound cf sa sb h1, Features.identEq_sound cf sela selb h2,
        FeatureOpt.identEq_sound cf prea preb h3, Features.identEq_sound cf grpa grpb h4,
        FeatureOpt.identEq_sound cf posta postb h5, Orderings.identEq_sound cf orda ordb h6, h7]
    | _ => simp [Source.identEq] at h
end

mutual
private theorem Feature.identEq_refl (cf : Lit → Lit → Bool) :
    (f : Feature) → f.windowFree = true → Feature.identEq cf f f = some true
  | .lit v, _ => by simp [Feature.identEq, (C08_lit_iff cf v v).mpr rfl]
  | .elem o n, h => by
    simp only [Feature.windowFree] at h
    simp [Feature.identEq, eqAnd, Source.identEq_refl cf o h]
  | .alias f n, h => by
    simp only [Feature.windowFree] at h
    simp [Feature.identEq, eqAnd, Feature.identEq_refl cf f h]
  | .expr op args, h => by
    simp only [Feature.windowFree] at h
    simp [Feature.identEq, Features.identEq_refl cf args h]
  | .cast f k, h => by
    simp only [Feature.windowFree] at h
    simp [Feature.identEq, eqAnd, Feature.identEq_refl cf f h, Kind.implEq]
  | .window _ _ _, h => by simp [Feature.windowFree] at h
private theorem Features.identEq_refl (cf : Lit → Lit → Bool) :
    (fs : Features) → fs.windowFree = true → Features.identEq cf fs fs = some true
  | .nil, _ => by simp [Features.identEq]
  | .cons f fs, h => by
    simp [Features.windowFree] at h
    simp [Features.identEq, eqAnd, Feature.identEq_refl cf f h.1, Features.identEq_refl cf fs h.2]
private theorem FeatureOpt.identEq_refl (cf : Lit → Lit → Bool) :
    (o : FeatureOpt) → o.windowFree = true → FeatureOpt.identEq cf o o = Option.some true
  | .none, _ => by simp [FeatureOpt.identEq]
  | .some f, h => by
    simp only [FeatureOpt.windowFree] at h
    simp [FeatureOpt.identEq, Feature.identEq_refl cf f h]
private theorem Ordering.identEq_refl (cf : Lit → Lit → Bool) :
    (o : Ordering) → o.windowFree = true → Ordering.identEq cf o o = some true
  | .mk f d, h => by
    simp only [Ordering.windowFree] at h
    simp [Ordering.identEq, eqAnd, Feature.identEq_refl cf f h]
private theorem Orderings.identEq_refl (cf : Lit → Lit → Bool) :
    (os : Orderings) → os.windowFree = true → Orderings.identEq cf os os = some true
  | .nil, _ => by simp [Orderings.identEq]
  | .cons o os, h => by
    simp [Orderings.windowFree] at h
    simp [Orderings.identEq, eqAnd, Ordering.identEq_refl cf o h.1, Orderings.identEq_refl cf os h.2]
private theorem Source.identEq_refl (cf : Lit → Lit → Bool) :
    (s : Source) → s.windowFree = true → Source.identEq cf s s = some true
  | .table n fs, _ => by simp [Source.identEq, fieldsEq]
  | .ref s n, h => by
    simp only [Source.windowFree] at h
    simp [Source.identEq, eqAnd, Source.identEq_refl cf s h]
  | .join l r k c, h => by
    simp [Source.windowFree] at h
    simp [Source.identEq, eqAnd, Source.identEq_refl cf l h.1.1, Source.identEq_refl cf r h.1.2,
      FeatureOpt.identEq_refl cf c h.2]
  | .set l r k, h => by
    simp [Source.windowFree] at h
    simp [Source.identEq, eqAnd, Source.identEq_refl cf l h.1, Source.identEq_refl cf r h.2]
  | .query s sel pre grp post ord rows, h => by
    simp [Source.windowFree] at h
    simp [Source.identEq, eqAnd, Source.identEq_refl cf s h.1.1.1.1.1, Features.identEq_refl cf sel h.1.1.1.1.2,
      FeatureOpt.identEq_refl cf pre h.1.1.1.2, Features.identEq_refl cf grp h.1.1.2,
      FeatureOpt.identEq_refl cf post h.1.2, Orderings.identEq_refl cf ord h.2]
end

/-- Different objects never compare equal — no hypothesis on hashes, windows or well-formedness: whatever `hash`
does, `==` holds only between structurally identical features / sources. -/
theorem C08_eq_structural (cf : Lit → Lit → Bool) :
    (∀ a b : Feature, Feature.identEq cf a b = some true → a = b)
    ∧ (∀ a b : Source, Source.identEq cf a b = some true → a = b) :=
  ⟨Feature.identEq_sound cf, Source.identEq_sound cf⟩

/-- features: equal exactly when structurally identical (rebuilt window-free features compare equal) -/
theorem C08_feature_iff (cf : Lit → Lit → Bool) (a b : Feature) (ha : a.windowFree = true) :
    Feature.identEq cf a b = some true ↔ a = b :=
  ⟨Feature.identEq_sound cf a b, fun h => h ▸ Feature.identEq_refl cf a ha⟩

/-- sources: equal exactly when structurally identical -/
theorem C08_source_iff (cf : Lit → Lit → Bool) (a b : Source) (ha : a.windowFree = true) :
    Source.identEq cf a b = some true ↔ a = b :=
  ⟨Source.identEq_sound cf a b, fun h => h ▸ Source.identEq_refl cf a ha⟩

/-- `==` is symmetric -/
theorem C08_symm (cf : Lit → Lit → Bool) :
    (∀ a b : Feature, a.windowFree = true → b.windowFree = true →
      (Feature.identEq cf a b = some true ↔ Feature.identEq cf b a = some true))
    ∧ (∀ a b : Source, a.windowFree = true → b.windowFree = true →
      (Source.identEq cf a b = some true ↔ Source.identEq cf b a = some true)) := by
  refine ⟨fun a b ha hb => ?_, fun a b ha hb => ?_⟩
  · rw [C08_feature_iff cf a b ha, C08_feature_iff cf b a hb]; exact eq_comm
  · rw [C08_source_iff cf a b ha, C08_source_iff cf b a hb]; exact eq_comm

/-- a comparison raises (an optional clause present on one side only) only between different objects -/
theorem C08_raise_distinct (cf : Lit → Lit → Bool) :
    (∀ a b : Feature, a.windowFree = true → Feature.identEq cf a b = none → a ≠ b)
    ∧ (∀ a b : Source, a.windowFree = true → Source.identEq cf a b = none → a ≠ b) := by
  refine ⟨fun a b ha h e => ?_, fun a b ha h e => ?_⟩
  · rw [← e, Feature.identEq_refl cf a ha] at h; cases h
  · rw [← e, Source.identEq_refl cf a ha] at h; cases h

/-! ### the statement at full strength -/

/-- "compare equal — and hash equal — iff built from the same structure; identity survives pickling", for all
features, sources and kinds, in every hash environment -/
def C08_full : Prop :=
  ∀ (α : Type) [DecidableEq α] (env : HashEnv α) (cf : Lit → Lit → Bool),
    (∀ a b : Feature, (Feature.identEq cf a b = some true ∧ Feature.hashAgree env a b = true) ↔ a = b)
    ∧ (∀ a b : Source, (Source.identEq cf a b = some true ∧ Source.hashAgree env a b = true) ↔ a = b)
    ∧ (∀ a b : Kind, (Kind.implEq a b = true ∧ a.H env = b.H env) ↔ a = b)
    ∧ (∀ f : Feature, f.repickle = some f) ∧ (∀ s : Source, s.repickle = some s) ∧ (∀ k : Kind, k.repickle = some k)

/-- the window `RowNumber() OVER ()` -/
def rowNumberWindow : Feature := .window (.expr .rownumber .nil) .nil .nil

/-- finding C08-F1: a window built twice is not equal to itself, does not hash equal and does not pickle -/
theorem C08_window (cf : Lit → Lit → Bool) :
    Feature.identEq cf rowNumberWindow rowNumberWindow = some false
    ∧ Feature.hashAgree freeEnv rowNumberWindow rowNumberWindow = false
    ∧ rowNumberWindow.repickle = none := by
  refine ⟨by simp [rowNumberWindow, Feature.identEq], by simp [rowNumberWindow, Feature.hashAgree, Feature.windowFree],
    by simp [rowNumberWindow, Feature.repickle, Feature.windowFree]⟩

theorem C08_counterexample : ¬ C08_full := by
  intro h
  have := ((h HTerm freeEnv (fun _ _ => false)).1 rowNumberWindow rowNumberWindow).mpr rfl
  rw [(C08_window _).1] at this
  exact absurd this.1 (by decide)

/-- the full statement for every window-free object (all hash environments, collisions included) -/
theorem C08_partial {α : Type} [DecidableEq α] (env : HashEnv α) (cf : Lit → Lit → Bool) :
    (∀ a b : Feature, a.windowFree = true →
      ((Feature.identEq cf a b = some true ∧ Feature.hashAgree env a b = true) ↔ a = b))
    ∧ (∀ a b : Source, a.windowFree = true →
      ((Source.identEq cf a b = some true ∧ Source.hashAgree env a b = true) ↔ a = b))
    ∧ (∀ a b : Kind, (Kind.implEq a b = true ∧ a.H env = b.H env) ↔ a = b)
    ∧ (∀ f : Feature, f.windowFree = true → f.repickle = some f)
    ∧ (∀ s : Source, s.windowFree = true → s.repickle = some s) ∧ (∀ k : Kind, k.repickle = some k) := by
  refine ⟨fun a b ha => ⟨fun h => Feature.identEq_sound cf a b h.1, fun h => ?_⟩,
    fun a b ha => ⟨fun h => Source.identEq_sound cf a b h.1, fun h => ?_⟩,
    fun a b => ⟨fun h => (C08_kind_iff a b).mp h.1, fun h => ?_⟩,
    fun f hf => by simp [Feature.repickle, hf], fun s hs => by simp [Source.repickle, hs], fun k => rfl⟩
  · subst h; exact ⟨Feature.identEq_refl cf a ha, by simp [Feature.hashAgree, ha]⟩
  · subst h; exact ⟨Source.identEq_refl cf a ha, by simp [Source.hashAgree, ha]⟩
  · subst h; exact ⟨(C08_kind_iff a a).mpr rfl, rfl⟩

/-! ### tables of schemas built by inheritance -/

theorem tableOf_windowFree (ds : List Decl) (h : Heap) (i : Nat) (t : Source) (ht : tableOf ds h i = some t) :
    t.windowFree = true := by
  unfold tableOf at ht
  split at ht
  · cases ht
    rfl
  · cases ht

/-- The tables of two class statements — of any two programs, whatever their inheritance — compare equal and hash equal
exactly when they are the same structure (class name + resolved ordered fields), in every hash environment; and the
table a statement denotes is the same after every class of its program went through the `copyreg` reducer. -/
theorem C08_hier_table {α : Type} [DecidableEq α] (env : HashEnv α) (cf : Lit → Lit → Bool) (ds ds' : List Decl) (i j : Nat)
    (t t' : Source) (ht : tableOf ds (buildAll ds) i = some t) (ht' : tableOf ds' (buildAll ds') j = some t') :
    ((Source.identEq cf t t' = some true ∧ Source.hashAgree env t t' = true) ↔ t = t')
    ∧ tableOf (encode ds (buildAll ds)) (buildAll (encode ds (buildAll ds))) i = some t
    ∧ t.repickle = some t := by
  have hw := tableOf_windowFree ds _ i t ht
  have _ := ht'
  exact ⟨(C08_partial env cf).2.1 t t' hw, by rw [C08_schema_table_pickle]; exact ht, (C08_partial env cf).2.2.2.2.1 t hw⟩

/-! ### anonymous references across processes -/

/-- two anonymous references to one (window-free) source, made anywhere, compare equal after shipping exactly when
their names are equal — and then they hash equal too, in every hash environment -/
theorem C08_anon_shipped_iff {P : Type} {α : Type} [DecidableEq α] (env : HashEnv α) (cf : Lit → Lit → Bool)
    (name : AnonNamer P) (s : Source) (hs : s.windowFree = true) (p q : P) (i j : Nat) :
    ((Source.identEq cf (anonRef name s p i) (anonRef name s q j) = some true
      ∧ Source.hashAgree env (anonRef name s p i) (anonRef name s q j) = true) ↔ name p i = name q j) := by
  have hw : (anonRef name s p i).windowFree = true := by simp [anonRef, Source.windowFree, hs]
  rw [(C08_partial env cf).2.1 _ _ hw]
  simp [anonRef]

/-- "distinct anonymous references stay distinct wherever their copies meet" for a naming scheme -/
def C08_anon_full {P : Type} (name : AnonNamer P) : Prop :=
  ∀ (cf : Lit → Lit → Bool) (s : Source), s.windowFree = true → ∀ (p q : P) (i j : Nat), (p, i) ≠ (q, j) →
    Source.identEq cf (anonRef name s p i) (anonRef name s q j) ≠ some true

/-- **identity after shipping requires names that are fresh ACROSS processes**: the statement holds exactly for the naming
schemes that never give one name to two creations — of one process or of two -/
theorem C08_anon_fresh_iff {P : Type} (name : AnonNamer P) :
    C08_anon_full name ↔ ∀ (p q : P) (i j : Nat), name p i = name q j → (p, i) = (q, j) := by
  constructor
  · intro h p q i j hn
    by_cases hpq : (p, i) = (q, j)
    · exact hpq
    · exfalso
      have hs : (Source.table "T" []).windowFree = true := rfl
      refine h (fun _ _ => false) (.table "T" []) hs p q i j hpq ?_
      exact ((C08_anon_shipped_iff freeEnv (fun _ _ => false) name _ hs p q i j).2 hn).1
  · intro h cf s hs p q i j hne heq
    have hw : (anonRef name s p i).windowFree = true := by simp [anonRef, Source.windowFree, hs]
    have := (C08_source_iff cf _ _ hw).1 heq
    simp only [anonRef, Source.ref.injEq, true_and] at this
    exact hne (h p q i j this)

/-- a per-process counter is NOT such a scheme as soon as there are two processes: their first anonymous references
to any source are one object after shipping — equal, hash-equal, one dictionary key, and a self-join between them has
one origin on both sides -/
theorem C08_anon_counter_counterexample {P : Type} (p q : P) (hpq : p ≠ q) : ¬ C08_anon_full (counterNamer (P := P)) := by
  intro h
  have := (C08_anon_fresh_iff counterNamer).1 h p q 0 0 rfl
  exact hpq (Prod.ext_iff.1 this).1

theorem C08_anon_counter_collapse {P : Type} {α : Type} [DecidableEq α] (env : HashEnv α) (cf : Lit → Lit → Bool)
    (s : Source) (hs : s.windowFree = true) (p q : P) (i : Nat) :
    Source.identEq cf (anonRef counterNamer s p i) (anonRef counterNamer s q i) = some true
    ∧ Source.hashAgree env (anonRef counterNamer s p i) (anonRef counterNamer s q i) = true
    ∧ dictGet (fun x => x.H env) (Source.identEq cf) [(anonRef counterNamer s p i, 0)] (anonRef counterNamer s q i) = .ok (some 0)
    ∧ (∀ k c, Source.join (anonRef counterNamer s p i) (anonRef counterNamer s q i) k c
        = Source.join (anonRef counterNamer s p i) (anonRef counterNamer s p i) k c) := by
  have h := (C08_anon_shipped_iff env cf (counterNamer (P := P)) s hs p q i i).2 rfl
  refine ⟨h.1, h.2, ?_, fun _ _ => rfl⟩
  have hH : (anonRef (counterNamer (P := P)) s p i).H env = (anonRef (counterNamer (P := P)) s q i).H env := rfl
  simp [dictGet, hH, h.1]

/-- … while inside one process it does tell its references apart (why nothing shows in one interpreter) -/
example : (counterNamer () 0, counterNamer () 1, counterNamer () 9) = ("ref1", "ref2", "ref10") := by decide

/-! ### lookups are never confused -/

/-- A lookup that does not raise answers like a structural dictionary — for any hash function `h` and any probe order,
provided `==` against the key is sound and the key equals itself. -/
theorem C08_dict_structural {α K V : Type} [DecidableEq α] [DecidableEq K] (h : K → α) (eq : K → K → EqRes) (k : K)
    (hsound : ∀ k', eq k' k = some true → k' = k) (hrefl : eq k k = some true) :
    ∀ (d : List (K × V)) (r : Option V), dictGet h eq d k = .ok r → r = structGet d k := by
  intro d
  induction d with
  | nil => intro r hr; simp [dictGet] at hr; simp [structGet, hr]
  | cons e rest ih =>
    obtain ⟨k', v⟩ := e
    intro r hr
    by_cases hk : k' = k
    · subst hk
      simp [dictGet, hrefl] at hr
      simp [structGet, ← hr]
    · have hs : structGet ((k', v) :: rest) k = structGet rest k := by simp [structGet, List.find?, hk]
      rw [hs]
      simp only [dictGet] at hr
      split at hr
      · split at hr
        · rename_i heq
          exact absurd (hsound k' heq) hk
        · exact ih r hr
        · cases hr
      · exact ih r hr

/-- features as keys (sets of elements, `lru_cache` of `generate_feature`): never confused, in any hash environment -/
theorem C08_dict_feature {α V : Type} [DecidableEq α] (env : HashEnv α) (cf : Lit → Lit → Bool) (k : Feature)
    (hk : k.windowFree = true) (d : List (Feature × V)) (r : Option V)
    (h : dictGet (fun f => f.H env) (Feature.identEq cf) d k = .ok r) : r = structGet d k :=
  C08_dict_structural _ _ k (fun k' => Feature.identEq_sound cf k' k) (Feature.identEq_refl cf k hk) d r h

/-- statements as keys (feed source maps, `lru_cache` of `Source.__getitem__` and `Reader._parse_statement`) -/
theorem C08_dict_source {α V : Type} [DecidableEq α] (env : HashEnv α) (cf : Lit → Lit → Bool) (k : Source)
    (hk : k.windowFree = true) (d : List (Source × V)) (r : Option V)
    (h : dictGet (fun s => s.H env) (Source.identEq cf) d k = .ok r) : r = structGet d k :=
  C08_dict_structural _ _ k (fun k' => Source.identEq_sound cf k' k) (Source.identEq_refl cf k hk) d r h

/-! ### non-vacuity (tests, not theorems about all inputs) -/

section NonVacuity

private def tA : Source := .table "A" [("a", .integer), ("b", .string)]
private def tB : Source := .table "B" [("a", .integer), ("b", .string)]
private def colA (n : String) : Feature := .elem tA n
private def q (lim : Int) : Source :=
  .query tA (.cons (.alias (colA "a") "x") (.cons (colA "b") .nil))
    (.some (.expr .gt (.cons (colA "a") (.cons (.lit (.int lim)) .nil)))) .nil .none
    (.cons (.mk (colA "b") .desc) .nil) (some (10, 0))
private def nocf : Lit → Lit → Bool := fun _ _ => false

/-- a non-trivial window-free statement satisfies the hypothesis and the conclusion is used both ways -/
example : (q 1).windowFree = true ∧ Source.identEq nocf (q 1) (q 1) = some true
    ∧ Source.identEq nocf (q 1) (q 2) = some false := by decide

/-- the colliding pair hashes equal (in the free environment, hence in every one) and is told apart by `==`;
a dictionary holding the one does not answer for the other -/
example : (q (-1)).H freeEnv = (q (-2)).H freeEnv ∧ Source.identEq nocf (q (-1)) (q (-2)) = some false
    ∧ (dictGet (fun s => s.H freeEnv) (Source.identEq nocf) [(q (-1), 1)] (q (-2))).toOption = some none
    ∧ (dictGet (fun s => s.H freeEnv) (Source.identEq nocf) [(q (-1), 1), (q (-2), 2)] (q (-2))).toOption
      = some (some 2) := by decide

/-- twin tables, alias wrapping, cross-type literals -/
example : Source.identEq nocf tA tB = some false ∧ Feature.identEq nocf (colA "a") (.alias (colA "a") "x") = some false
    ∧ Feature.identEq nocf (.alias (colA "a") "x") (colA "a") = some false
    ∧ Feature.identEq (fun _ _ => true) (.lit (.int 1)) (.lit (.float "1.0")) = some false
    ∧ Feature.identEq nocf (.lit (.int 1)) (.lit (.bool true)) = some false := by decide

/-- an optional clause on one side only: the comparison raises -/
example : Source.identEq nocf (q 1) (.query tA (.cons (.alias (colA "a") "x") (.cons (colA "b") .nil)) .none .nil .none
    (.cons (.mk (colA "b") .desc) .nil) (some (10, 0))) = none := by decide

end NonVacuity

end ForML.Dsl
