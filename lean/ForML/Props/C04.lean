/-
C04 — persisted states are bound to the actors that produced them in every mode.

Model: ForML/Model/Persist.lean (composition graph as data, `Composition.persistent`, positional `asset.State`,
what `flow.compile` wires into stateful workers, mode drivers, registry of generations, histories on fresh expansions).

Proved here (for every composition graph, every history, every injective renaming of node/group ids):

* `C04_positional_stability` — two fresh expansions have persistent lists of the same length listing the same actor
  occurrence at every position;
* `C04_action_rename_invariant` — an action cannot tell a fresh expansion from the original: registry effect and
  observations coincide;
* `C04_binding_partial` — on a well-formed case (`Case.wf`, decidable, evaluated by the check on every explored
  expansion) every observation of every history satisfies the property: an applied stateful actor holds the own
  state of the selected generation, a re-trained one starts from it, members applied while training hold their own
  trainer's new state, hyper-parameters are the action's;
* `C04_registry_invariant` — every committed generation lists, position by position, states of the occurrences of
  `Composition.persistent`, all produced by the run that committed it;
* `C04_traversal_total` — the fuel of the traversal model never runs out (`Comp.visit` is the complete pre-order);
* `C04_perftrack_persistent`, `C04_perftrack_as_apply` — for the composition `eval_perftrack` works on, *derived* in
  the model from the plain composition (`Comp.perfOf`: forked copy of the apply segment carries `persistent`, the
  original apply workers are run): same persistent list, and the action hands every worker exactly what batch apply
  hands it (or is refused for a branching apply segment) — as long as the groups keep their trainers' registrations;
* `C04_binding_derived` — hence binding in all four modes under hypotheses on the *plain* composition only;
* `C04_generation_pinned` — all loads of one action read the generation selected at its first load, whatever other
  processes commit in between (`Level.key` stores the resolved key, the registry is append-only);
  `C04_generation_pinned_full` (no generation need be selected) is refuted: an action on an *empty* release racing
  with the very first commit (`C04_generation_pinned_counterexample`); without storing the key generations mix
  (`C04_unpinned_counterexample`, the seeded change C04-m2);
* `C04_listed_complete` — at every micro-step of a commit (= after a crash anywhere) every listed generation has all
  the states its tag lists; publishing the tag first breaks this (`C04_tag_first_counterexample`, seeded change C04-m3);
* `C04_copy_mech_persistent`, `C04_perftrack_mech_as_apply`, `C04_binding_mech` — the same with the copy produced the
  way `Traversal.copy` produces it (Model/PersistTraverse.lean: mapper paths depth first, subscriptions between the
  members of each path re-created once, an output port is an ordered set), under the decidable hypothesis that the
  copy is faithful on the graph (`Comp.copyFaithful`, evaluated on every explored real graph);
  `C04_copy_lifo_counterexample`: with the paths enumerated from an explicit LIFO stack (seeded change C04-m1) the
  two stateful branches of a fan-out swap their states in `eval_perftrack`;
* `C04_traversal_complete` — `Comp.visit` lists exactly the reachable nodes, each once;
* `C04_commit_atomic` — a commit is atomic for the readers: after any proper prefix of its micro-steps the registry
  reads exactly as before, after all of them as before plus exactly the committed generation;
  `C04_binding_faulty`, `C04_registry_invariant_faulty` — binding and registry invariant for histories in which any
  training may die at any micro-step of its commit and any other action may be overtaken by a committing re-training
  of another process;
* `C04_expansion_wellformed`, `C04_binding_expr`, `C04_binding_expr_faulty` — for every pipeline expression over
  `wrap.Operator`s (mappers, apply-only / train-only / label builders, stateful or not), `>>` and two-branch fan-outs
  the composition graph (expanded in the model, `compOf`) is well-formed, hence binding holds for these pipelines
  with no hypothesis left, in all four modes, also under faults;
* `C04_binding_handles`, `C04_handles_append_only` — binding for histories in which actions work through long-lived
  handles (a kept `asset.Instance` addresses the generation its key resolved at first use; a kept serving runner the
  states and hyper-parameters of the moment it was built), and no handle ever replaces a committed generation;
  `C04_stale_listing_counterexample`: a `Release` memoising its listing does (seeded change C04-mb2);
* `C04_params_current`, `C04_params_observed` — whatever the actor's own state handling, `SetState.set` leaves it with
  the loaded state and the hyper-parameters of the current code; `C04_params_unrestored_counterexample` (C04-mb3);
* `C04_numbering_fresh`, `C04_sparse_append_only`, `C04_binding_sparse` — sparse listings (an administrator removes
  generations): a new generation is numbered with the successor of the greatest listed key, never an existing one;
  binding for histories with removals (every action in a process of its own); `C04_binding_sparse_cached_full` is
  refuted (`_counterexample`, finding C04-F3: process-wide caches keyed by the generation number survive the re-use
  of a removed number); `C04_numbering_len_counterexample` (seeded change C04-mc2);
* `C04_binding_per_group` — several groups may be built from one builder: the state a worker holds comes from a trainer
  of its own group; `C04_shared_actor_counterexample` (one actor per builder in the serving expression, C04-mc1);
* `C04_binding_counterexample` — without well-formedness the statement is false: the witness is the composition of
  `m1 >> m2 >> PerfTrackScore` as forml built it *before* the repair fixes/C04-subscription-del.diff (the dangling
  head `Future`s of the pipeline's train/label segments died, `Subscription.__del__` un-registered the first
  trainer's ports): `m2` is handed the state of `m1`, `m1` none.
-/
import ForML.Lemmas.C04Modes
import ForML.Lemmas.C04Copy
import ForML.Lemmas.C04PerfWf
import ForML.Lemmas.C04Commit
import ForML.Lemmas.C04Mech
import ForML.Lemmas.C04Crash
import ForML.Lemmas.C04ExprWf
import ForML.Lemmas.C04Handles
import ForML.Lemmas.C04Sparse

namespace ForML.Persist

/-! ### positional stability -/

/-- Two fresh expansions (arbitrary injective renamings of node uids and group gids) of one composition have
persistent lists of equal length whose i-th entries are groups of the same actor occurrence. -/
theorem C04_positional_stability (c : Comp) (ρ₁ σ₁ ρ₂ σ₂ : Nat → Nat)
    (h₁ : Inj ρ₁) (k₁ : Inj σ₁) (h₂ : Inj ρ₂) (k₂ : Inj σ₂) :
    (c.rename ρ₁ σ₁).persistent.length = (c.rename ρ₂ σ₂).persistent.length ∧
    (c.rename ρ₁ σ₁).persistentTags = (c.rename ρ₂ σ₂).persistentTags ∧
    ∀ i : Nat, ((c.rename ρ₁ σ₁).persistent[i]?).map (c.rename ρ₁ σ₁).tagOfGid
       = ((c.rename ρ₂ σ₂).persistent[i]?).map (c.rename ρ₂ σ₂).tagOfGid := by
  have e : (c.rename ρ₁ σ₁).persistentTags = (c.rename ρ₂ σ₂).persistentTags := by
    rw [Comp.persistentTags_rename h₁ k₁, Comp.persistentTags_rename h₂ k₂]
  refine ⟨?_, e, ?_⟩
  · rw [Comp.persistent_rename h₁ k₁, Comp.persistent_rename h₂ k₂]
    simp
  · intro i
    have := congrArg (fun (l : List (Option Nat)) => l[i]?) e
    simpa [Comp.persistentTags, List.getElem?_map] using this

/-- The persistent list of a fresh expansion is the positional image of the original one. -/
theorem C04_persistent_fresh (c : Comp) (ρ σ : Nat → Nat) (hρ : Inj ρ) (hσ : Inj σ) :
    (c.rename ρ σ).persistent = c.persistent.map σ :=
  Comp.persistent_rename hρ hσ c

/-- An action performed on a fresh expansion has the same registry effect and hands the same states to the same
actor occurrences as on the original expansion (only list positions tie an expansion to the registry). -/
theorem C04_action_rename_invariant (cs : Case) (ρ σ : Nat → Nat) (hρ : Inj ρ) (hσ : Inj σ) (reg : Registry)
    (a : Action) : step (cs.rename ρ σ) reg a = step cs reg a :=
  step_rename hρ hσ cs reg a

/-! ### binding -/

/-- every observation of every successful action of a history satisfies the property -/
def HistoryOk (cs : Case) (hist : List (Action × Fresh)) : Prop :=
  ∀ entry ∈ runHistory cs [] hist, ∀ obs, entry.2.2 = .ok obs → ∀ o ∈ obs, obsOk entry.2.1 entry.1 o = true

def FreshOk (hist : List (Action × Fresh)) : Prop := ∀ e ∈ hist, Inj e.2.1 ∧ Inj e.2.2

/-- The property at full strength over the model's domain: every composition graph, every history. -/
def C04_binding_full : Prop := ∀ (cs : Case) (hist : List (Action × Fresh)), FreshOk hist → HistoryOk cs hist

theorem runHistory_ok (cs : Case) (hwf : cs.wf = true) :
    ∀ (hist : List (Action × Fresh)) (reg : Registry), RegInv cs.plain.persistentTags reg → FreshOk hist →
      ∀ entry ∈ runHistory cs reg hist,
        RegInv cs.plain.persistentTags entry.2.1 ∧
        ∀ obs, entry.2.2 = .ok obs → ∀ o ∈ obs, obsOk entry.2.1 entry.1 o = true := by
  intro hist
  induction hist with
  | nil => intro reg _ _ entry he; cases he
  | cons x rest ih =>
    intro reg hreg hfresh entry he
    obtain ⟨a, f⟩ := x
    have hx := hfresh (a, f) List.mem_cons_self
    have hrest : FreshOk rest := fun e h => hfresh e (List.mem_cons_of_mem _ h)
    simp only [runHistory, step_rename hx.1 hx.2] at he
    cases hs : step cs reg a with
    | error e =>
      rw [hs] at he
      cases he with
      | head => exact ⟨hreg, fun obs h => by cases h⟩
      | tail _ h' => exact ih reg hreg hrest entry h'
    | ok r =>
      obtain ⟨reg', obs⟩ := r
      rw [hs] at he
      have hok := step_ok hwf hreg hs
      cases he with
      | head =>
        refine ⟨hreg, ?_⟩
        intro obs' h
        cases h
        exact hok.2
      | tail _ h' => exact ih reg' hok.1 hrest entry h'

/-- **Binding.** On a well-formed case, for every history of lifecycle actions, each performed on its own fresh
expansion: every stateful actor applied while generation `k` is loaded (batch apply, serving, perftrack) holds the
state its own occurrence produced in the run that committed `k`; a re-trained actor starts from exactly that state
(or from scratch when nothing is stored for it); a member applied on the train path holds its own trainer's new
state; the hyper-parameters are those of the action's code. -/
theorem C04_binding_partial (cs : Case) (hwf : cs.wf = true) (hist : List (Action × Fresh)) (hfresh : FreshOk hist) :
    HistoryOk cs hist := by
  intro entry he obs hobs o ho
  exact (runHistory_ok cs hwf hist [] (RegInv.nil _) hfresh entry he).2 obs hobs o ho

/-- Every generation found in the registry at any point of a history lists, position by position, states of the
occurrences behind `Composition.persistent`, all of them produced by the run that committed the generation. -/
theorem C04_registry_invariant (cs : Case) (hwf : cs.wf = true) (hist : List (Action × Fresh)) (hfresh : FreshOk hist) :
    ∀ entry ∈ runHistory cs [] hist, ∀ g ∈ entry.2.1,
      g.states.map (fun s => some s.tag) = cs.plain.persistentTags ∧ ∀ s ∈ g.states, s.run = g.run := by
  intro entry he g hg
  exact (runHistory_ok cs hwf hist [] (RegInv.nil _) hfresh entry he).1 g hg

/-- A load never fails positionally on a well-formed case: once a generation is selected, every persistent worker
finds a state at its offset (no `IndexError`, no silent "no state"). -/
theorem C04_load_total (c : Comp) (reg : Registry) (hreg : RegInv c.persistentTags reg) (k : Option Nat)
    (g : Generation) (hsel : select reg k = .ok (some g)) (gid : Nat) (hmem : c.persistent.contains gid = true) :
    ∃ s, Assets.load ⟨c.persistent, select reg k⟩ gid = .ok (some s) := by
  have hg := hreg g (select_mem hsel)
  simp only [Assets.load, hmem, if_true, hsel]
  have hlen : g.states.length = c.persistent.length := by
    have := congrArg List.length hg.1
    simpa [Comp.persistentTags] using this
  have hidx : List.idxOf gid c.persistent < g.states.length := by
    rw [hlen]
    exact List.idxOf_lt_length_of_mem (List.contains_iff_mem.mp hmem)
  rw [List.getElem?_eq_getElem hidx]
  exact ⟨_, rfl⟩

/-! ### witnesses -/

/-- `flow.Composition(source, m1 >> m2)` with two stateful mappers, as extracted from forml (canonical ids):
0 source(apply) → 1 m1 → 2 m2;  3 source(train) → 4 label extractor → {5 trainer of m1, 6 m1 (train path) → {7 trainer
of m2, 8 m2 (train path)}};  9, 10 the prototype workers of the two groups. -/
def chain2 : Comp where
  nodes := [⟨0, 0, 0, false, false⟩, ⟨1, 1, 1, true, false⟩, ⟨2, 2, 2, true, false⟩, ⟨3, 3, 0, false, false⟩,
    ⟨4, 4, 0, false, false⟩, ⟨5, 1, 1, true, true⟩, ⟨6, 1, 1, true, false⟩, ⟨7, 2, 2, true, true⟩,
    ⟨8, 2, 2, true, false⟩, ⟨9, 1, 1, true, false⟩, ⟨10, 2, 2, true, false⟩]
  edges := [(0, 1), (1, 2), (3, 4), (4, 5), (4, 6), (4, 5), (4, 7), (6, 7), (6, 8)]
  applyHead := 0
  applyTail := 2
  trainHead := 3
  trainTail := 8

/-- the composition of `m1 >> m2 >> PerfTrackScore` (repaired forml): apply segment 0 → 1 → 2 (copy of the pipeline),
train segment 3 → 4 → 5 (m1) → 6 (m2) → 7 (metric); 10 and 13 are the trainers (not part of either segment) -/
def chain2Perf (firstTrainerRegistered : Bool) : Comp where
  nodes := [⟨0, 0, 0, false, false⟩, ⟨1, 1, 1, true, false⟩, ⟨2, 2, 2, true, false⟩, ⟨3, 3, 0, false, false⟩,
    ⟨4, 4, 0, false, false⟩, ⟨5, 1, 1, true, false⟩, ⟨6, 2, 2, true, false⟩, ⟨7, 5, 0, false, false⟩,
    ⟨8, 1, 1, true, false⟩, ⟨9, 1, 1, true, false⟩, ⟨10, 1, 1, true, firstTrainerRegistered⟩,
    ⟨11, 2, 2, true, false⟩, ⟨12, 2, 2, true, false⟩, ⟨13, 2, 2, true, true⟩]
  edges := [(0, 1), (1, 2), (3, 4), (4, 5), (4, 7), (5, 6), (6, 7), (9, 13), (9, 11)]
  applyHead := 0
  applyTail := 2
  trainHead := 3
  trainTail := 7

/-- the repaired code: the first trainer keeps its `Train`/`Label` registrations -/
def chain2Case : Case := ⟨chain2, .ok (chain2Perf true)⟩

/-- the code before the repair: the pipeline's dangling train/label head `Future`s die when `PerfTrackScore.compose`
returns, `Subscription.__del__` discards the ports of the first trainer (node 10) -/
def chain2Released : Case := ⟨chain2, .ok (chain2Perf false)⟩

def idFresh : Fresh := (id, id)

theorem inj_id : Inj id := fun _ _ h => h

/-- train, then perftrack on the latest generation -/
def trainThenPerftrack : List (Action × Fresh) :=
  [(⟨.train, none, 0, 3⟩, idFresh), (⟨.perftrack, none, 1, 5⟩, idFresh)]

/-- the observations of the successful actions of a history (`none`: the action was refused) -/
def outcomes (l : List (Action × Registry × Except Err (List Obs))) : List (Option (List Obs)) :=
  l.map (fun e => match e.2.2 with
    | .ok obs => some obs
    | .error _ => none)

/-- some observation of some successful action violates the property -/
def anyBad (l : List (Action × Registry × Except Err (List Obs))) : Bool :=
  l.any (fun e => match e.2.2 with
    | .ok obs => obs.any (fun o => !obsOk e.2.1 e.1 o)
    | .error _ => false)

theorem anyBad_spec {l : List (Action × Registry × Except Err (List Obs))} (h : anyBad l = true) :
    ∃ entry ∈ l, ∃ obs, entry.2.2 = .ok obs ∧ ∃ o ∈ obs, obsOk entry.2.1 entry.1 o = false := by
  simp only [anyBad, List.any_eq_true] at h
  obtain ⟨entry, he, hb⟩ := h
  cases hr : entry.2.2 with
  | error e => rw [hr] at hb; cases hb
  | ok obs =>
    rw [hr] at hb
    simp only [List.any_eq_true, Bool.not_eq_true'] at hb
    obtain ⟨o, ho, hbad⟩ := hb
    exact ⟨entry, he, obs, hr, o, ho, hbad⟩

/-- non-vacuity: the witness of the repaired code is well-formed, persists two groups, and its history produces
observations that load real states -/
example : chain2Case.wf = true := by decide
example : chain2.persistentTags = [some 1, some 2] := by decide
example : outcomes (runHistory chain2Case [] trainThenPerftrack) =
    [some [.trained 1 3 none, .applied 1 3 (some ⟨1, 0, 3, none⟩), .trained 2 3 none, .applied 2 3 (some ⟨2, 0, 3, none⟩)],
     some [.applied 1 5 (some ⟨1, 0, 3, none⟩), .applied 2 5 (some ⟨2, 0, 3, none⟩)]] := by decide
example : anyBad (runHistory chain2Case [] trainThenPerftrack) = false := by decide

/-- the defect on the model: with the released trainer `m1` gets no state and `m2` gets the state of `m1` -/
example : outcomes (runHistory chain2Released [] trainThenPerftrack) =
    [some [.trained 1 3 none, .applied 1 3 (some ⟨1, 0, 3, none⟩), .trained 2 3 none, .applied 2 3 (some ⟨2, 0, 3, none⟩)],
     some [.applied 1 5 none, .applied 2 5 (some ⟨1, 0, 3, none⟩)]] := by decide

example : chain2Released.wf = false := by decide

theorem freshOk_trainThenPerftrack : FreshOk trainThenPerftrack := by
  intro e he
  simp only [trainThenPerftrack, List.mem_cons, List.mem_nil_iff, or_false] at he
  rcases he with rfl | rfl <;> exact ⟨inj_id, inj_id⟩

/-- The statement is false without well-formedness: the perftrack composition of the unrepaired code mis-binds. -/
theorem C04_binding_counterexample : ¬ C04_binding_full := by
  intro h
  have hh := h chain2Released trainThenPerftrack freshOk_trainThenPerftrack
  have : ∃ entry ∈ runHistory chain2Released [] trainThenPerftrack, ∃ obs, entry.2.2 = .ok obs ∧
      ∃ o ∈ obs, obsOk entry.2.1 entry.1 o = false := anyBad_spec (by decide)
  obtain ⟨entry, he, obs, hobs, o, ho, hbad⟩ := this
  have := hh entry he obs hobs o ho
  rw [this] at hbad
  cases hbad

/-! ### the traversal model is total -/

/-- `Comp.fuel` steps always suffice: any additional fuel leaves the visit order unchanged. -/
theorem C04_traversal_total (c : Comp) (head tail extra : Nat) :
    c.dfs tail (c.fuel + extra) [head] [] = c.visit head tail :=
  Comp.visit_fuel c head tail extra

/-- `Comp.visit` is exactly the pre-order of what `Traversal.each` can reach: no node is listed twice, and a node is
listed iff it is reachable from the head over the subscriptions `each` follows (all of them, at the tail only the
trained subscribers). -/
theorem C04_traversal_complete (c : Comp) (head tail : Nat) :
    (c.visit head tail).Nodup ∧ ∀ v, v ∈ c.visit head tail ↔ Comp.Reach c tail head v :=
  Comp.visit_spec c head tail

/-! ### perftrack, derived from the plain composition -/

/-- `Composition.persistent` of `pipeline >> PerfTrackScore` (computed on the forked copy of the apply segment) is
the persistent list of the plain composition — same groups, same positions. -/
theorem C04_perftrack_persistent (c : Comp) (ρ : Nat → Nat) (hf : FreshFor ρ c) (htail : c.tailClean = true)
    (hdist : c.uidsDistinct = true) (hnt : c.noTrainer c.applyHead c.applyTail = true) :
    (c.copied ρ).persistent = c.persistent ∧ (c.copied ρ).persistentTags = c.persistentTags := by
  have h := Comp.persistent_copied hf htail hdist hnt
  refine ⟨h, ?_⟩
  simp only [Comp.persistentTags, h]
  congr 1
  funext g
  exact Comp.tagOfGid_copied ρ c g

/-- `eval_perftrack` hands every stateful worker exactly what batch apply of the same generation hands it; it is
refused when the composition has no sink and the apply segment is not a simple chain. -/
theorem C04_perftrack_as_apply (c : Comp) (ρ : Nat → Nat) (hf : FreshFor ρ c) (htail : c.tailClean = true)
    (hdist : c.uidsDistinct = true) (hnt : c.noTrainer c.applyHead c.applyTail = true) (reg : Registry)
    (closed : Bool) (gen : Option Nat) (run hp : Nat) :
    step ⟨c, c.perfOf ρ closed⟩ reg ⟨.perftrack, gen, run, hp⟩ =
      if closed || c.isChain then step ⟨c, c.perfOf ρ closed⟩ reg ⟨.apply, gen, run, hp⟩ else .error .topology := by
  cases hch : (closed || c.isChain) with
  | false => simp only [step, Comp.perfOf, hch, Bool.false_eq_true, if_false]
  | true =>
    simp only [step, Comp.perfOf, hch, if_true]
    show runSegment (c.copied ρ) c.applyHead c.applyTail reg ⟨.perftrack, gen, run, hp⟩ = _
    rw [runSegment_copied hf htail hdist hnt]
    simp only [runSegment]

/-- **Binding, hypotheses on the plain composition only**: with the perftrack composition derived in the model, every
history on a well-formed plain composition (whose apply tail feeds no trainer) satisfies the property in all four
modes. -/
theorem C04_binding_derived (c : Comp) (ρ : Nat → Nat) (closed : Bool) (hf : FreshFor ρ c) (hwf : c.wfPlain = true)
    (htail : c.tailClean = true) (hist : List (Action × Fresh)) (hfresh : FreshOk hist) :
    HistoryOk ⟨c, c.perfOf ρ closed⟩ hist :=
  C04_binding_partial ⟨c, c.perfOf ρ closed⟩
    (by simp only [Case.wf, hwf, wfPerf_perfOf closed hf hwf htail, Bool.and_self]) hist hfresh

/-- non-vacuity: fresh uids `+ 100` for the two-mapper chain; the derived perftrack composition exists and persists
the same two occurrences -/
example : chain2.isChain = true ∧ chain2.tailClean = true ∧ chain2.uidsDistinct = true
    ∧ chain2.noTrainer chain2.applyHead chain2.applyTail = true := by decide
example : (chain2.copied (· + 100)).persistentTags = [some 1, some 2] := by decide
example : chain2.wfPlain = true := by decide
example : FreshFor (· + 100) chain2 :=
  ⟨fun a b h => by simpa using h, fun u v hv => by
    have : ∀ w ∈ chain2.uids, w < 100 := by decide
    have := this v hv
    show u + 100 ≠ v
    omega⟩

/-! ### the copy as `Traversal.copy` produces it -/

/-- `Composition.persistent` of the evaluation's composition, with the copy of the apply segment produced the way
`Traversal.copy` produces it (mapper paths depth first, the subscriptions between the members of each path re-created
once, per output port in creation order): the persistent list of the plain composition — provided the copy is
*faithful* on this graph (`Comp.copyFaithful`, decidable: every visited worker is forked and its fork publishes to
the forks of its subscribers in the original order). -/
theorem C04_copy_mech_persistent (c : Comp) (ρ : Nat → Nat) (pe : List PEdge) (m : Comp) (hf : FreshFor ρ c)
    (htail : c.tailClean = true) (hdist : c.uidsDistinct = true) (hnt : c.noTrainer c.applyHead c.applyTail = true)
    (hcf : c.copyFaithful pe = true) (hm : c.copiedMech ρ pe = .ok m) :
    m.persistent = c.persistent ∧ m.persistentTags = c.persistentTags := by
  obtain ⟨paths, hp, rfl⟩ := Comp.copiedMech_ok hm
  have hE := Comp.copyFaithful_spec hp hcf
  exact ⟨Comp.persistent_withCopy hf htail hdist hnt hE, Comp.persistentTags_withCopy hf htail hdist hnt hE⟩

/-- `eval_perftrack` on that composition hands every stateful worker exactly what batch apply hands it (or is
refused: no sink and a branching apply segment, a cyclic graph). -/
theorem C04_perftrack_mech_as_apply (c : Comp) (ρ : Nat → Nat) (pe : List PEdge) (hf : FreshFor ρ c)
    (htail : c.tailClean = true) (hdist : c.uidsDistinct = true) (hnt : c.noTrainer c.applyHead c.applyTail = true)
    (hcf : c.copyFaithful pe = true) (reg : Registry) (closed : Bool) (gen : Option Nat) (run hp : Nat) :
    step ⟨c, c.perfMech ρ closed pe⟩ reg ⟨.perftrack, gen, run, hp⟩ =
      match c.perfMech ρ closed pe with
      | .error e => .error e
      | .ok _ => step ⟨c, c.perfMech ρ closed pe⟩ reg ⟨.apply, gen, run, hp⟩ := by
  cases hm : c.perfMech ρ closed pe with
  | error e => simp only [step]
  | ok m =>
    have hm' : c.copiedMech ρ pe = .ok m := by
      simp only [Comp.perfMech] at hm
      split at hm
      · exact hm
      · cases hm
    obtain ⟨paths, hp', rfl⟩ := Comp.copiedMech_ok hm'
    have hE := Comp.copyFaithful_spec hp' hcf
    simp only [step]
    show runSegment (c.withCopy ρ _ _) c.applyHead c.applyTail reg ⟨.perftrack, gen, run, hp⟩ = _
    rw [runSegment_withCopy hf htail hdist hnt hE]
    simp only [runSegment]

/-- **Binding with the mechanical copy**: hypotheses on the plain composition only (well-formed, no trainer off the
apply tail, `Traversal.copy` faithful on it). -/
theorem C04_binding_mech (c : Comp) (ρ : Nat → Nat) (closed : Bool) (pe : List PEdge) (hf : FreshFor ρ c)
    (hwf : c.wfPlain = true) (htail : c.tailClean = true) (hcf : c.copyFaithful pe = true)
    (hist : List (Action × Fresh)) (hfresh : FreshOk hist) : HistoryOk ⟨c, c.perfMech ρ closed pe⟩ hist :=
  C04_binding_partial ⟨c, c.perfMech ρ closed pe⟩
    (by simp only [Case.wf, hwf, wfPerf_perfMech closed pe hf hwf htail hcf, Bool.and_self]) hist hfresh

/-- `flow.Composition(source, Parallel(m1, m2), sink)` — two parallel stateful branches merged by one worker — as
extracted from forml (canonical ids): 0 source(apply) → {1 m1, 4 m2} → 2 merger → 3 sink;  5 source(train) → 6 label
extractor → {7 trainer of m1, 8 m1 (train path), 11 trainer of m2, 12 m2 (train path)}, 8 → 9 merger ← 12, 9 → 10 sink;
13..15 prototype workers. -/
def fan2 : Comp where
  nodes := [⟨0, 0, 0, false, false⟩, ⟨1, 1, 1, true, false⟩, ⟨2, 2, 3, false, false⟩, ⟨3, 3, 0, false, false⟩,
    ⟨4, 4, 2, true, false⟩, ⟨5, 5, 0, false, false⟩, ⟨6, 6, 0, false, false⟩, ⟨7, 1, 1, true, true⟩,
    ⟨8, 1, 1, true, false⟩, ⟨9, 2, 3, false, false⟩, ⟨10, 3, 0, false, false⟩, ⟨11, 4, 2, true, true⟩,
    ⟨12, 4, 2, true, false⟩, ⟨13, 1, 1, true, false⟩, ⟨14, 3, 0, false, false⟩, ⟨15, 4, 2, true, false⟩]
  edges := [(0, 1), (0, 4), (1, 2), (2, 3), (4, 2), (5, 6), (6, 7), (6, 8), (6, 11), (6, 12), (6, 7), (6, 11), (8, 9),
    (9, 10), (12, 9)]
  applyHead := 0
  applyTail := 3
  trainHead := 5
  trainTail := 10

/-- its subscriptions with ports -/
def fan2Ports : List PEdge :=
  [⟨0, 1, 0, 0⟩, ⟨0, 4, 0, 0⟩, ⟨1, 2, 0, 0⟩, ⟨2, 3, 0, 0⟩, ⟨4, 2, 0, 1⟩, ⟨5, 6, 0, 0⟩, ⟨6, 7, 0, 1000⟩, ⟨6, 8, 0, 0⟩,
    ⟨6, 11, 0, 1000⟩, ⟨6, 12, 0, 0⟩, ⟨6, 7, 1, 1001⟩, ⟨6, 11, 1, 1001⟩, ⟨8, 9, 0, 0⟩, ⟨9, 10, 0, 0⟩, ⟨12, 9, 0, 1⟩]

/-- non-vacuity: the hypotheses hold for the fan-out; the mechanical copy walks two paths and persists the two
occurrences in the order of the plain composition -/
example : fan2.portsOk fan2Ports = true ∧ fan2.wfPlain = true ∧ fan2.tailClean = true
    ∧ fan2.copyFaithful fan2Ports = true := by decide
example : fan2.mpaths.toOption = some [[3, 2, 1, 0], [3, 2, 4, 0]] := by decide
example : fan2.persistentTags = [some 1, some 2] := by decide
example : ((fan2.copiedMech (· + 100) fan2Ports).toOption.map Comp.persistentTags) = some [some 1, some 2] := by decide
example : FreshFor (· + 100) fan2 :=
  ⟨fun a b h => by simpa using h, fun u v hv => by
    have : ∀ w ∈ fan2.uids, w < 100 := by decide
    have := this v hv
    show u + 100 ≠ v
    omega⟩

/-- the evaluation's composition of the fan-out with the path enumeration of the seeded change C04-m1 (explicit LIFO
stack): the copy registers the subscribers of the source in reversed order -/
def fan2Lifo : Case := ⟨fan2, fan2.copiedLifo (· + 100) fan2Ports⟩

example : fan2.mpathsLifo.toOption = some [[3, 2, 4, 0], [3, 2, 1, 0]] := by decide
example : ((fan2.copiedLifo (· + 100) fan2Ports).toOption.map Comp.persistentTags) = some [some 2, some 1] := by decide

/-- With the LIFO enumeration the persistent list of the evaluation's composition is ordered differently from the
list the training run committed with: `eval_perftrack` hands `m1` the state of `m2` and vice versa. -/
theorem C04_copy_lifo_counterexample :
    outcomes (runHistory fan2Lifo [] trainThenPerftrack) =
      [some [.trained 1 3 none, .applied 1 3 (some ⟨1, 0, 3, none⟩), .trained 2 3 none, .applied 2 3 (some ⟨2, 0, 3, none⟩)],
       some [.applied 1 5 (some ⟨2, 0, 3, none⟩), .applied 2 5 (some ⟨1, 0, 3, none⟩)]]
    ∧ anyBad (runHistory fan2Lifo [] trainThenPerftrack) = true := by decide

/-! ### from the expression: every expansion is well-formed -/

/-- **Every expansion is well-formed.** The composition graph of every pipeline expression over `wrap.Operator`s
(mapper, apply-only, train-only and label builders, stateful or stateless), `>>` and two-branch fan-outs merged by one
worker (`compOf`, Model/PersistExpr.lean — compared by the check with the graph extracted from the real expansion on
every generated pipeline of this grammar), with or without a sink, satisfies `Comp.wfPlain` and `Comp.tailClean`: one builder per group, distinct uids, only stateful workers
trained, a trainer of every persistent group visited on the train segment, every applied stateful worker derived,
no trainer on the apply segment or off its tail. -/
theorem C04_expansion_wellformed (e : PExpr) (sink : Bool) :
    (compOf e sink).wfPlain = true ∧ (compOf e sink).tailClean = true :=
  ⟨wfPlain_compOf e sink, tailClean_compOf e sink⟩

/-- **Binding for every such pipeline — no hypothesis left**: every expression, every history of lifecycle actions on
fresh expansions (any injective renamings of node and group ids), all four modes. -/
theorem C04_binding_expr (e : PExpr) (sink closed : Bool) (hist : List (Action × Fresh)) (hfresh : FreshOk hist) :
    HistoryOk ⟨compOf e sink, (compOf e sink).perfOf (· + (compOf e sink).bound) closed⟩ hist :=
  C04_binding_derived (compOf e sink) _ closed (Comp.freshFor_bound _) (wfPlain_compOf e sink)
    (tailClean_compOf e sink) hist hfresh

/-- non-vacuity: an operator with three different stateful builders (label 1, apply 2, train 3) followed by a mapper 4:
the apply-only actor 2 and the mapper 4 are persisted (the train-only and the label actor are not: they are never
applied in apply mode), batch apply hands both their own states -/
def wrapExpr : PExpr := .seq (.seq (.seq (.labelOp 1 true) (.applyOnly 2 true)) (.trainOnly 3 true)) (.mapper 4 true)

example : (compOf wrapExpr false).persistentTags = [some 2, some 4] := by decide
example : (outcomes (runHistory ⟨compOf wrapExpr false, (compOf wrapExpr false).perfOf (· + 1000) false⟩ []
      [(⟨.train, none, 0, 3⟩, idFresh), (⟨.apply, none, 1, 5⟩, idFresh)])).getLast? =
    some (some [.applied 2 5 (some ⟨2, 0, 3, none⟩), .applied 4 5 (some ⟨4, 0, 3, none⟩)]) := by decide

/-- non-vacuity: `m1 >> Parallel(m2 >> m3, m4) >> m5` with a sink persists its five stateful occurrences in the
depth-first order of the apply segment (the merger's successor `m5` before the second branch), and a train / perftrack
history hands every one of them its own state -/
def fanExpr : PExpr :=
  .seq (.seq (.mapper 1 true) (.par (.seq (.mapper 2 true) (.mapper 3 true)) (.mapper 4 true) 6)) (.mapper 5 true)

example : (compOf fanExpr true).persistentTags = [some 1, some 2, some 3, some 5, some 4] := by decide
example : outcomes (runHistory ⟨compOf fanExpr true, (compOf fanExpr true).perfOf (· + 1000) true⟩ []
      [(⟨.train, none, 0, 3⟩, idFresh), (⟨.perftrack, none, 1, 5⟩, idFresh)]) =
    [some [.trained 1 3 none, .applied 1 3 (some ⟨1, 0, 3, none⟩), .trained 2 3 none, .applied 2 3 (some ⟨2, 0, 3, none⟩),
           .trained 3 3 none, .applied 3 3 (some ⟨3, 0, 3, none⟩), .trained 5 3 none, .applied 5 3 (some ⟨5, 0, 3, none⟩),
           .trained 4 3 none, .applied 4 3 (some ⟨4, 0, 3, none⟩)],
     some [.applied 1 5 (some ⟨1, 0, 3, none⟩), .applied 2 5 (some ⟨2, 0, 3, none⟩), .applied 3 5 (some ⟨3, 0, 3, none⟩),
           .applied 5 5 (some ⟨5, 0, 3, none⟩), .applied 4 5 (some ⟨4, 0, 3, none⟩)]] := by decide

/-! ### one action reads one generation -/

/-- **Pinned generation.** Once the first load of an action has resolved the generation (explicit key or `latest`),
every later load of that action reads the same generation — the one `select` names on the registry as it was at the
first load — no matter how many generations other processes commit between the loads. -/
theorem C04_generation_pinned (P : List Nat) (sel : Option Nat) (reg : Registry) (g : Generation)
    (hsel : select reg sel = .ok (some g)) (gid₀ : Nat) (h₀ : P.contains gid₀ = true) (evs : List Ev) :
    runEvents P ⟨sel⟩ reg (.load gid₀ :: evs)
      = (gid₀ :: loadsOf evs).map (fun gid => Assets.load ⟨P, select reg sel⟩ gid) := by
  obtain ⟨k, hk0, hk, hfirst⟩ := first_load_pins P hsel h₀
  simp only [runEvents, hfirst, List.map_cons, hsel, runEvents_pinned P hk0 evs reg hk]

/-- the same without requiring that a generation is selected at the first load -/
def C04_generation_pinned_full : Prop :=
  ∀ (P : List Nat) (sel : Option Nat) (reg : Registry) (gid₀ : Nat) (evs : List Ev), P.contains gid₀ = true →
    runEvents P ⟨sel⟩ reg (.load gid₀ :: evs)
      = (gid₀ :: loadsOf evs).map (fun gid => Assets.load ⟨P, select reg sel⟩ gid)

/-- An action on a release without generations pins nothing (`Listing.Empty` → null tag): if the first generation
is committed between two of its loads, the first actor runs without state and the second with a state of generation 1. -/
theorem C04_generation_pinned_counterexample : ¬ C04_generation_pinned_full := by
  intro h
  have h1 := h [7, 8] none [] 7 [.commit ⟨0, [⟨1, 0, 0, none⟩, ⟨2, 0, 0, none⟩]⟩, .load 8] (by decide)
  have h2 := congrArg (List.map Except.toOption) h1
  revert h2
  decide

/-- Without storing the resolved key (`latest` looked up again by every load) one action mixes generations. -/
theorem C04_unpinned_counterexample :
    (runEventsUnpinned [7, 8] none [⟨0, [⟨1, 0, 0, none⟩, ⟨2, 0, 0, none⟩]⟩]
        [.load 7, .commit ⟨1, [⟨1, 1, 0, some (1, 0)⟩, ⟨2, 1, 0, some (2, 0)⟩]⟩, .load 8]).map Except.toOption
      = [some (some ⟨1, 0, 0, none⟩), some (some ⟨2, 1, 0, some (2, 0)⟩)] := by decide

/-! ### a listed generation is complete, at every micro-step of a commit -/

/-- **Crash consistency of the binding.** Whatever prefix of the micro-steps of a training run's commit has been
executed (stage the state files, create the directory, move the files, write and publish the tag), every *listed*
generation holds every state its tag lists — so no load of a listed generation can answer "no state". -/
theorem C04_listed_complete (s : Store) (hs : s.ok = true) (k run : Nat) (states : List (Nat × Origin)) (n : Nat) :
    (runOps s ((trainOps k run states).take n)).ok = true := by
  by_cases hn : n ≤ (prepareOps k states).length
  · rw [trainOps, List.take_append_of_le_length hn]
    exact runOps_ok_safe _ s hs (fun op hop => prepareOps_safe k states op (List.mem_of_mem_take hop))
  · have hlen : (trainOps k run states).length ≤ n := by
      simp only [trainOps, List.length_append, List.length_cons, List.length_nil]
      omega
    rw [List.take_of_length_le hlen, trainOps, runOps_append]
    cases hp : runAll s (prepareOps k states) with
    | none => exact runOps_ok_safe _ s hs (prepareOps_safe k states)
    | some s' =>
      have hs' := runAll_ok_safe _ s s' hs (prepareOps_safe k states) hp
      have hfiles := prepare_hasFiles k states s s' hp
      simp only [runOps]
      cases ha : applyOp s' (Op.publishTag k run (states.map (·.1))) with
      | none => exact hs'
      | some s'' => exact publish_ok hs' hfiles s'' ha

/-- Publishing the tag before the state files are moved leaves a window in which a listed generation lacks a state. -/
theorem C04_tag_first_counterexample :
    (runOps ⟨[], []⟩ ((tagFirstOps 1 0 [(11, ⟨1, 0, 0, none⟩), (12, ⟨2, 0, 0, none⟩)]).take 6)).ok = false := by
  decide

/-- **A commit is atomic for the readers.** Whatever prefix of its micro-steps a training run completes before it
dies, the registry reads either exactly as before (any proper prefix) or as before plus exactly the committed
generation with exactly the states of that run (all micro-steps) — never a generation with a state missing,
replaced or out of position. -/
theorem C04_commit_atomic (reg : Registry) (g : Generation) (n : Nat) :
    (n < (commitOps reg g).length → crashedCommit reg g n = reg) ∧
    ((commitOps reg g).length ≤ n → crashedCommit reg g n = reg ++ [g]) :=
  ⟨crashedCommit_crashed reg g n, crashedCommit_complete reg g n⟩

/-- non-vacuity: a complete commit is listed with both states, a crashed one is not listed at all -/
example : crashedCommit [] ⟨0, [⟨1, 0, 0, none⟩, ⟨2, 0, 0, none⟩]⟩ 7 = [⟨0, [⟨1, 0, 0, none⟩, ⟨2, 0, 0, none⟩]⟩] := by
  decide
example : crashedCommit [] ⟨0, [⟨1, 0, 0, none⟩, ⟨2, 0, 0, none⟩]⟩ 6 = [] := by decide
example : (commitOps [] ⟨0, [⟨1, 0, 0, none⟩, ⟨2, 0, 0, none⟩]⟩).length = 7 := by decide

/-! ### histories with crashes inside commits and re-trainings racing with loads -/

/-- every observation of every successful action of a history with faults satisfies the property (judged against the
registry the action started from: its loads are pinned, `C04_generation_pinned`) -/
def FaultyHistoryOk (cs : Case) (hist : List (Action × Fresh × Fault)) : Prop :=
  ∀ entry ∈ runFaulty cs [] hist, ∀ obs, entry.2.2 = .ok obs → ∀ o ∈ obs, obsOk entry.2.1 entry.1 o = true

/-- **Binding under faults.** On a well-formed case, for every history in which any training run may die after any
number of micro-steps of its commit and any other action may be overtaken by a re-training of another process that
commits a new generation after the action's first state load: every stateful actor applied while generation `k` is
loaded holds the state its own occurrence produced in the run that committed `k`, re-training starts from exactly
that state, hyper-parameters are the action's. -/
theorem C04_binding_faulty (cs : Case) (hwf : cs.wf = true) (hist : List (Action × Fresh × Fault))
    (hfresh : FaultyFreshOk hist) : FaultyHistoryOk cs hist := by
  intro entry he obs hobs o ho
  exact (runFaulty_ok cs hwf hist [] (RegInv.nil _) hfresh entry he).2 obs hobs o ho

/-- ... and every generation listed at any point of such a history holds, position by position, the states of the
occurrences behind `Composition.persistent`, all of the run that committed it: a crashed commit leaves nothing
half-listed behind (so `C04_load_total` applies: no later load answers "no state"). -/
theorem C04_registry_invariant_faulty (cs : Case) (hwf : cs.wf = true) (hist : List (Action × Fresh × Fault))
    (hfresh : FaultyFreshOk hist) :
    ∀ entry ∈ runFaulty cs [] hist, ∀ g ∈ entry.2.1,
      g.states.map (fun s => some s.tag) = cs.plain.persistentTags ∧ ∀ s ∈ g.states, s.run = g.run := by
  intro entry he g hg
  exact (runFaulty_ok cs hwf hist [] (RegInv.nil _) hfresh entry he).1 g hg

/-- non-vacuity: train; a re-training that dies right before publishing its tag; apply overtaken by another
re-training; apply of the latest generation.  Generation 2 is the racing run's (run 9), not the crashed one's. -/
def faultyWitness : List (Action × Fresh × Fault) :=
  [(⟨.train, none, 0, 3⟩, idFresh, ⟨none, none⟩), (⟨.train, none, 1, 4⟩, idFresh, ⟨some 6, none⟩),
   (⟨.apply, none, 2, 5⟩, idFresh, ⟨none, some (9, 7, idFresh)⟩), (⟨.apply, none, 3, 6⟩, idFresh, ⟨none, none⟩)]

example : outcomes (runFaulty chain2Case [] faultyWitness) =
    [some [.trained 1 3 none, .applied 1 3 (some ⟨1, 0, 3, none⟩), .trained 2 3 none, .applied 2 3 (some ⟨2, 0, 3, none⟩)],
     some [.trained 1 4 (some ⟨1, 0, 3, none⟩), .applied 1 4 (some ⟨1, 1, 4, some (1, 0)⟩),
           .trained 2 4 (some ⟨2, 0, 3, none⟩), .applied 2 4 (some ⟨2, 1, 4, some (2, 0)⟩)],
     some [.applied 1 5 (some ⟨1, 0, 3, none⟩), .applied 2 5 (some ⟨2, 0, 3, none⟩)],
     some [.applied 1 6 (some ⟨1, 9, 7, some (1, 0)⟩), .applied 2 6 (some ⟨2, 9, 7, some (2, 0)⟩)]] := by decide

/-! ### sparse generation listings -/

/-- **Numbering.** `Release.put` numbers a new generation with the successor of the greatest listed key: on every
ascending listing — gap-free or not, whatever an administrator has removed — that key is greater than every listed one,
in particular not listed. -/
theorem C04_numbering_fresh (r : SReg) (h : r.Ascending) : (∀ k ∈ r.keys, k < r.nextKey) ∧ r.nextKey ∉ r.keys := by
  refine ⟨?_, SReg.nextKey_not_mem r h⟩
  intro k hk
  simp only [SReg.keys, List.mem_map] at hk
  obtain ⟨e, he, rfl⟩ := hk
  exact SReg.lt_nextKey r h e he

/-- an action on a sparse registry keeps every listed generation as it is and lists at most one more, under a new key -/
theorem C04_sparse_append_only (cs : Case) (hwf : cs.wf = true) (r r' : SReg) (hinv : SInv cs.plain.persistentTags r)
    (hasc : r.Ascending) (a : Action) (obs : List Obs) (h : stepS cs r a = .ok (r', obs)) :
    (r' = r ∨ ∃ g, r' = r ++ [(r.nextKey, g)]) ∧ r'.Ascending := by
  have hok := stepS_ok hwf hinv h
  refine ⟨hok.2.1, ?_⟩
  rcases hok.2.1 with h1 | ⟨g, h1⟩
  · rw [h1]; exact hasc
  · rw [h1]; exact SReg.ascending_append r hasc g

/-- **Binding with housekeeping.** On a well-formed case, for every history of lifecycle actions (each on a fresh
expansion) and removals of generations: every listed generation stays bound to the occurrences behind
`Composition.persistent`, and every observation satisfies the property with respect to the generation the action
selects on the sparse listing (the latest listed one, or the explicit one if it is listed). -/
theorem C04_binding_sparse (cs : Case) (hwf : cs.wf = true) (hist : List SAct) (hfresh : SparseFreshOk hist) :
    ∀ entry ∈ runSparse cs [] hist,
      SInv cs.plain.persistentTags entry.1 ∧ entry.1.Ascending ∧
      ∀ a obs, entry.2.2 = some (a, .ok obs) → ∀ o ∈ obs, obsOk (judged entry.1 a).1 (judged entry.1 a).2 o = true :=
  runSparse_ok cs hwf hist [] (fun e he => by cases he) List.Pairwise.nil hfresh

/-- non-vacuity: three trainings, generation 1 removed, a fourth training is listed as 4 (not 3), generations 2 and 3
are untouched; applying the removed generation is refused -/
def sparseWitness : List SAct :=
  [.act ⟨.train, none, 0, 1⟩ idFresh, .act ⟨.train, none, 1, 2⟩ idFresh, .act ⟨.train, none, 2, 3⟩ idFresh, .prune 1,
   .act ⟨.train, none, 3, 4⟩ idFresh, .act ⟨.apply, some 3, 4, 5⟩ idFresh, .act ⟨.apply, some 1, 5, 6⟩ idFresh]

example : (runSparse chain2Case [] sparseWitness).map (·.2.1) =
    [[1], [1, 2], [1, 2, 3], [2, 3], [2, 3, 4], [2, 3, 4], [2, 3, 4]] := by decide
example : ((runSparse chain2Case [] sparseWitness).map (fun e => e.2.2.map (fun r => r.2.toOption))).drop 5 =
    [some (some [.applied 1 5 (some ⟨1, 2, 3, some (1, 1)⟩), .applied 2 5 (some ⟨2, 2, 3, some (2, 1)⟩)]), some none] := by
  decide

/-- the same for histories whose actions all run in ONE process (warm `TAGS`/`STATES` caches): every observation is
bound to the generation *listed* under the key the action addresses -/
def C04_binding_sparse_cached_full : Prop :=
  ∀ (cs : Case) (hist : List SAct), cs.wf = true → SparseFreshOk hist →
    ∀ entry ∈ runSparseShared cs [] [] hist, ∀ a obs, entry.2.2 = some (a, .ok obs) →
      ∀ o ∈ obs, obsOk (judged entry.1 a).1 (judged entry.1 a).2 o = true

/-- some observation of some successful action is not bound to the listed generation -/
def sparseBad (l : List (SReg × List Nat × Option (Action × Except Err (List Obs)))) : Bool :=
  l.any (fun e => match e.2.2 with
    | some (a, .ok obs) => obs.any (fun o => !obsOk (judged e.1 a).1 (judged e.1 a).2 o)
    | _ => false)

theorem sparseBad_spec {l : List (SReg × List Nat × Option (Action × Except Err (List Obs)))} (h : sparseBad l = true) :
    ∃ entry ∈ l, ∃ a obs, entry.2.2 = some (a, .ok obs) ∧
      ∃ o ∈ obs, obsOk (judged entry.1 a).1 (judged entry.1 a).2 o = false := by
  simp only [sparseBad, List.any_eq_true] at h
  obtain ⟨entry, he, hb⟩ := h
  cases hr : entry.2.2 with
  | none => rw [hr] at hb; cases hb
  | some p =>
    obtain ⟨a, res⟩ := p
    cases res with
    | error e => rw [hr] at hb; cases hb
    | ok obs =>
      rw [hr] at hb
      simp only [List.any_eq_true, Bool.not_eq_true'] at hb
      obtain ⟨o, ho, hbad⟩ := hb
      exact ⟨entry, he, a, obs, hr, o, ho, hbad⟩

/-- train, apply generation 1, the administrator removes generation 1, train again (generation 1 once more), apply
generation 1 — in one process -/
def staleWitness : List SAct :=
  [.act ⟨.train, none, 0, 3⟩ idFresh, .act ⟨.apply, some 1, 1, 0⟩ idFresh, .prune 1, .act ⟨.train, none, 3, 4⟩ idFresh,
   .act ⟨.apply, some 1, 4, 1⟩ idFresh]

/-- In one process the caches are never invalidated: once the number of a removed generation is used again, the
process keeps applying the removed generation's states (finding C04-F3, reproduced on the real code on every run);
with every action in a process of its own (`C04_binding_sparse`) the binding holds. -/
theorem C04_binding_sparse_cached_counterexample : ¬ C04_binding_sparse_cached_full := by
  intro h
  have hh := h chain2Case staleWitness (by decide) (by
    intro x hx
    simp only [staleWitness, List.mem_cons, List.mem_nil_iff, or_false] at hx
    rcases hx with rfl | rfl | rfl | rfl | rfl <;> first | trivial | exact ⟨inj_id, inj_id⟩)
  have hbad := sparseBad_spec (l := runSparseShared chain2Case [] [] staleWitness) (by decide)
  obtain ⟨entry, he, a, obs, hobs, o, ho, hfalse⟩ := hbad
  have := hh entry he a obs hobs o ho
  rw [this] at hfalse
  cases hfalse

/-- The seeded change C04-mc2 on the model: numbering with `len(listing) + 1` hits an existing key as soon as the
listing has a gap. -/
theorem C04_numbering_len_counterexample :
    SReg.nextKeyLen [(2, ⟨1, []⟩), (3, ⟨2, []⟩)] ∈ SReg.keys [(2, ⟨1, []⟩), (3, ⟨2, []⟩)]
      ∧ SReg.nextKey [(2, ⟨1, []⟩), (3, ⟨2, []⟩)] = 4 := by decide

/-! ### groups are not determined by their builders -/

/-- **Binding is per group.** When the occurrence tags tell the stateful groups apart (`Comp.groupsDistinct`; the
harness numbers the groups built from one builder object `builder * 100 + rank`), the state an applied worker holds
was produced by a trainer of *its own group* — whatever other groups were built from the same builder
(`builderOf`): any stateful worker carrying the tag of the held state is a member of the applied worker's group. -/
theorem C04_binding_per_group (cs : Case) (hwf : cs.wf = true) (hgd : cs.plain.groupsDistinct = true)
    (hist : List (Action × Fresh)) (hfresh : FreshOk hist) :
    ∀ entry ∈ runHistory cs [] hist, ∀ obs, entry.2.2 = .ok obs → ∀ tag hp s, Obs.applied tag hp (some s) ∈ obs →
      (entry.1.kind = .train ∨ (loaded entry.2.1 entry.1).isSome) →
      ∀ n ∈ cs.plain.nodes, ∀ m ∈ cs.plain.nodes, n.stateful = true → m.stateful = true → n.tag = tag → m.tag = s.tag →
        m.gid = n.gid := by
  intro entry he obs hobs tag hp s hmem hsel n hn m hm hns hms hnt hmt
  have hok := C04_binding_partial cs hwf hist hfresh entry he obs hobs _ hmem
  have htag : s.tag = tag := by
    simp only [obsOk, Bool.and_eq_true, beq_iff_eq] at hok
    cases hk : entry.1.kind with
    | train =>
      rw [hk] at hok
      simp only [Bool.and_eq_true, beq_iff_eq] at hok
      exact hok.2.1
    | apply | serve | perftrack =>
      rw [hk] at hok
      rcases hsel with h | h
      · rw [hk] at h; cases h
      · cases hl : loaded entry.2.1 entry.1 with
        | none => rw [hl] at h; cases h
        | some g =>
          rw [hl] at hok
          simp only [boundTo, Bool.and_eq_true, beq_iff_eq] at hok
          exact hok.2.1
  simp only [Comp.groupsDistinct, List.all_eq_true, Bool.or_eq_true, Bool.not_eq_true', Bool.and_eq_false_imp,
    bne_iff_ne, ne_eq, beq_iff_eq] at hgd
  have := hgd m hm n hn
  rcases this with (h | h) | h
  · exact absurd hns (by simpa [hms] using h)
  · exact absurd (by rw [hmt, htag, hnt]) h
  · exact h

/-- two consecutive passes of ONE builder (builder 1: occurrences 100 and 101) followed by a mapper (200) -/
def passesExpr : PExpr := .seq (.seq (.mapper 100 true) (.mapper 101 true)) (.mapper 200 true)

example : builderOf 100 = builderOf 101 ∧ (compOf passesExpr true).groupsDistinct = true
    ∧ (compOf passesExpr true).wfPlain = true := by decide
example : (outcomes (runHistory ⟨compOf passesExpr true, (compOf passesExpr true).perfOf (· + 1000) true⟩ []
      [(⟨.train, none, 0, 3⟩, idFresh), (⟨.serve, none, 1, 5⟩, idFresh)])).getLast? =
    some (some [.applied 100 5 (some ⟨100, 0, 3, none⟩), .applied 101 5 (some ⟨101, 0, 3, none⟩),
                .applied 200 5 (some ⟨200, 0, 3, none⟩)]) := by decide

/-- The seeded change C04-mc1 on the model: one actor per builder in the serving expression — the first pass runs with
the state of the second one. -/
theorem C04_shared_actor_counterexample :
    shareByBuilder [.applied 100 5 (some ⟨100, 0, 3, none⟩), .applied 101 5 (some ⟨101, 0, 3, none⟩),
                    .applied 200 5 (some ⟨200, 0, 3, none⟩)]
      = [.applied 100 5 (some ⟨101, 0, 3, none⟩), .applied 101 5 (some ⟨101, 0, 3, none⟩),
         .applied 200 5 (some ⟨200, 0, 3, none⟩)] := by decide

/-! ### long-lived handles -/

/-- **Binding through long-lived handles.** On a well-formed case, for every history in which each action works
through a fresh chain of objects or through one of any number of long-lived handles (an `asset.Instance` kept across
actions, possibly together with its runners): every observation satisfies the property with respect to the generation
the handle *addresses* — the key its instance resolved at its first use on a non-empty release (`Outcome.act.gen`),
for a kept serving runner the generation and the hyper-parameters of the moment it was built. -/
theorem C04_binding_handles (cs : Case) (hwf : cs.wf = true) (hist : List (Action × Fresh × Option Via))
    (hfresh : ViaFreshOk hist) (vs : Views) :
    ∀ out ∈ runHandles cs [] vs hist, ∀ obs, out.result = .ok obs → ∀ o ∈ obs, obsOk out.seen out.act o = true :=
  fun out ho => (runHandles_ok cs hwf hist [] vs (RegInv.nil _) hfresh out ho).2

/-- Whatever a handle has cached, an action through it only appends to the registry: a committed generation is never
replaced (`Release.put` numbers the new generation from a fresh listing). -/
theorem C04_handles_append_only (cs : Case) (reg : Registry) (v : HandleView) (keeps : Bool) (a : Action) :
    ∃ l, (stepVia cs reg v keeps a).1 = reg ++ l :=
  stepVia_prefix cs reg v keeps a

/-- non-vacuity (and the behaviour of the real code, reproduced by the check): three trainings through one instance —
the second one pins generation 1, so the third one re-trains from generation 1 again and commits generation 3; batch
apply through the same handle still addresses generation 1, a fresh chain the latest one -/
def viaA : Option Via := some ⟨1, false⟩

def handleWitness : List (Action × Fresh × Option Via) :=
  [(⟨.train, none, 0, 1⟩, idFresh, viaA), (⟨.train, none, 1, 2⟩, idFresh, viaA), (⟨.train, none, 2, 3⟩, idFresh, viaA),
   (⟨.apply, none, 3, 4⟩, idFresh, viaA), (⟨.apply, none, 4, 5⟩, idFresh, none)]

example : (runHandles chain2Case [] [] handleWitness).map (fun o => (o.act.gen, o.seen.length)) =
    [(none, 0), (some 1, 1), (some 1, 2), (some 1, 3), (none, 3)] := by decide
example : ((runHandles chain2Case [] [] handleWitness).map (fun o => o.result.toOption)).drop 2 =
    [some [.trained 1 3 (some ⟨1, 0, 1, none⟩), .applied 1 3 (some ⟨1, 2, 3, some (1, 0)⟩),
           .trained 2 3 (some ⟨2, 0, 1, none⟩), .applied 2 3 (some ⟨2, 2, 3, some (2, 0)⟩)],
     some [.applied 1 4 (some ⟨1, 0, 1, none⟩), .applied 2 4 (some ⟨2, 0, 1, none⟩)],
     some [.applied 1 5 (some ⟨1, 2, 3, some (1, 0)⟩), .applied 2 5 (some ⟨2, 2, 3, some (2, 0)⟩)]] := by decide

/-- The seeded change C04-mb2 on the model: a `Release` object that memoises its first non-empty listing numbers every
further generation from it — the third training through one handle replaces generation 2, which then holds the states
of run 2 although run 1 committed it, and generation 3 never appears. -/
theorem C04_stale_listing_counterexample :
    trainStale chain2Case [] none [⟨.train, none, 0, 1⟩, ⟨.train, none, 1, 2⟩, ⟨.train, none, 2, 3⟩]
      = [⟨0, [⟨1, 0, 1, none⟩, ⟨2, 0, 1, none⟩]⟩, ⟨2, [⟨1, 2, 3, some (1, 1)⟩, ⟨2, 2, 3, some (2, 1)⟩]⟩] := by decide

/-! ### the hyper-parameters of the current code -/

/-- **Current hyper-parameters.** Whatever the actor's state handling (`Flavour`: forml's default, an own codec
whose snapshot carries the training-time hyper-parameters, a pickled `__dict__` installed as it is, a codec without
hyper-parameters), after `SetState.set` the actor holds exactly the loaded state together with the hyper-parameters it
was built with — those of the current code; an empty state leaves the actor as built. -/
theorem C04_params_current (fl : Flavour) (a : ActorCfg) (s : Option Origin) :
    (presetActor fl a s).hp = a.hp ∧ (presetActor fl a s).state = (match s with | some o => some o | none => a.state) := by
  cases s with
  | none => exact ⟨rfl, rfl⟩
  | some o => cases fl <;> exact ⟨rfl, rfl⟩

/-- what the model's observations say is therefore what the actor runs with: the hyper-parameter of the action -/
theorem C04_params_observed (fl : Flavour) (hp : Nat) (s : Option Origin) (tag : Nat) :
    Obs.applied tag (presetActor fl ⟨hp, none⟩ s).hp (presetActor fl ⟨hp, none⟩ s).state = Obs.applied tag hp s := by
  cases s with
  | none => rfl
  | some o => cases fl <;> rfl

/-- The seeded change C04-mb3 on the model: without saving and restoring the hyper-parameters around `set_state`, an
actor whose snapshot carries them runs with those of the training-time code. -/
theorem C04_params_unrestored_counterexample :
    (presetActorUnrestored .ownCodec ⟨5, none⟩ (some ⟨1, 0, 3, none⟩)).hp = 3 ∧
    (presetActorUnrestored .default ⟨5, none⟩ (some ⟨1, 0, 3, none⟩)).hp = 5 := by decide

/-- ... and under faults: trainings that die at any micro-step of their commit, re-trainings of other processes
committing between the loads of an action. -/
theorem C04_binding_expr_faulty (e : PExpr) (sink closed : Bool) (hist : List (Action × Fresh × Fault))
    (hfresh : FaultyFreshOk hist) :
    FaultyHistoryOk ⟨compOf e sink, (compOf e sink).perfOf (· + (compOf e sink).bound) closed⟩ hist :=
  C04_binding_faulty _
    (by simp only [Case.wf, wfPlain_compOf e sink,
      wfPerf_perfOf closed (Comp.freshFor_bound _) (wfPlain_compOf e sink) (tailClean_compOf e sink), Bool.and_self])
    hist hfresh

end ForML.Persist
