/-
C07 — a statement is constructible exactly when it obeys the documented DSL grammar.

Model: ForML.Model.Grammar (`construct`: the constructors' checks in their order, exceptions as values;
`WellFormed`: the documented rules).  `construct` is parametrised by the implementation's feature equality
(hash equality in the code that exists, see C08); the theorems are stated for the structural one, which is what it is
on any statement without hash collisions (`C07_iff_eqv` transfers them to every equality that is structural).

  C07_iff_full / _partial / _counterexample      construct succeeds ⟺ WellFormed            (findings C07-F1, C07-F2)
  C07_stored                                      a constructed statement stores the script itself
  C07_error_kind_full / _partial / _counterexample  every rejection is the grammar error     (findings C07-F1, C07-F3)
  C07_schema_full / _partial / _counterexample    `.schema` = names and kinds of the outputs  (findings C07-F1, C07-F2)
  C07_tables_*                                    kind lattice / expression-class tables re-extracted from the live code
-/
import ForML.Model.Grammar
import ForML.Generated.C07Tables
import ForML.Lemmas.C07Main
import ForML.Lemmas.C07ErrKind

namespace ForML.Dsl

/-! ### tables extracted from the live forml objects agree with the model -/

/-- rank and class membership of every primitive kind (`kind.py`) -/
theorem C07_tables_kinds :
    ForML.Generated.C07.kindTable.all (fun (k, rank, numeric, date, boolean) =>
      k.rank == rank && k.isNumeric == numeric && k.isDate == date && (k == Kind.boolean) == boolean) = true ∧
    ForML.Generated.C07.kindTable.map (·.1) =
      [Kind.boolean, Kind.integer, Kind.float, Kind.decimal, Kind.string, Kind.date, Kind.timestamp] := by decide

/-- `Compound.__rank__` is the number of components -/
theorem C07_tables_compound :
    ForML.Generated.C07.compoundRanks =
      [(Kind.array .integer).rank, (Kind.map .integer .string).rank,
        (Kind.struct ["a", "b", "c"] (.cons .integer (.cons .integer (.cons .integer .nil)))).rank] := by decide

/-- operand count, family of constructor checks and aggregate-ness of every expression class
(`series.py`, `function/*.py`) -/
theorem C07_tables_ops :
    ForML.Generated.C07.opTable.all (fun (op, arity, group, agg) =>
      op.arity == arity && decide (op.group = group) && op.isAggregate == agg) = true ∧
    ForML.Generated.C07.opTable.map (·.1) = Op.all := by decide

/-- the join / set kinds and ordering directions the script alphabet uses are those of the code -/
theorem C07_tables_enums :
    ForML.Generated.C07.joinKinds = [JoinKind.inner, .left, .right, .full, .cross].map JoinKind.wire ∧
    ForML.Generated.C07.setKinds = [SetKind.union, .intersection, .difference].map SetKind.wire ∧
    ForML.Generated.C07.directions = [("asc", "ascending"), ("ascending", "ascending"), ("desc", "descending"),
      ("descending", "descending"), ("ASC", "ascending"), ("Desc", "descending")] := by decide

/-! ### constructible ⟺ well-formed -/

/-- the implementation's equality on features is the structural one (C08: true of hash equality on any set of
features without hash collisions; false in general — finding of C08) -/
def ImplEqIsStructural (eqv : Feature → Feature → Bool) : Prop := ∀ a b, eqv a b = decide (a = b)

/-- the statement at full strength: for every script, construction succeeds iff the documented grammar holds -/
def C07_iff_full : Prop := ∀ r : RawStmt, (construct structEqv r).isOk = true ↔ WellFormed r

/-- proved: inside the region where schemas are defined (`tame`), for scripts that denote themselves (`normal`) -/
theorem C07_iff_partial (r : RawStmt) (hn : Source.normal r = true) (ht : Source.tame r = true) :
    (construct structEqv r).isOk = true ↔ WellFormed r := by
  unfold construct WellFormed
  cases h : Source.construct structEqv r with
  | error e =>
    simp only [Except.isOk, Except.toBool, Bool.false_eq_true, false_iff]
    intro hw
    have := (Source.construct_iff r hn ht r).mpr ⟨rfl, hw⟩
    rw [h] at this
    cases this
  | ok s =>
    simp only [Except.isOk, Except.toBool, true_iff]
    exact ((Source.construct_iff r hn ht s).mp h).2

/-- the same for every equality that is structural -/
theorem C07_iff_eqv (eqv : Feature → Feature → Bool) (he : ImplEqIsStructural eqv) (r : RawStmt)
    (hn : Source.normal r = true) (ht : Source.tame r = true) :
    (construct eqv r).isOk = true ↔ WellFormed r := by
  have : eqv = structEqv := by
    funext a b
    exact he a b
  rw [this]
  exact C07_iff_partial r hn ht

/-- what a successful construction stores is the script itself -/
theorem C07_stored (r : RawStmt) (hn : Source.normal r = true) (ht : Source.tame r = true) (s : Stmt)
    (h : construct structEqv r = Except.ok s) : s = r :=
  ((Source.construct_iff r hn ht s).mp h).1

/-- a well-formed script is constructed (and never rejected) -/
theorem C07_conforming_never_raises (r : RawStmt) (hn : Source.normal r = true) (ht : Source.tame r = true)
    (hw : WellFormed r) : construct structEqv r = Except.ok r :=
  (Source.construct_iff r hn ht r).mpr ⟨rfl, hw⟩

/-! #### witnesses -/

def tStudent : Source := .table "Student" [("id", .integer), ("name", .string), ("score", .float), ("born", .date)]
def tSchool : Source := .table "School" [("id", .integer), ("name", .string), ("rank", .integer)]
def sId : Feature := .elem tStudent "id"
def sName : Feature := .elem tStudent "name"
def sScore : Feature := .elem tStudent "score"
def kId : Feature := .elem tSchool "id"
def lit1 : Feature := .lit (.int 1)
def fs (l : List Feature) : Features := Features.ofList l
def q (s : Source) (sel : List Feature) (pre : FeatureOpt := .none) (grp : List Feature := []) (post : FeatureOpt := .none)
    (ord : List Ordering := []) : Source :=
  .query s (fs sel) pre (fs grp) post (Orderings.ofList ord) none
def bin (op : Op) (a b : Feature) : Feature := .expr op (fs [a, b])
def un (op : Op) (a : Feature) : Feature := .expr op (fs [a])

/-- two queries selecting an un-aliased expression: well-formed (equal schemas), yet `Set.__new__` dies reading the
schema (C07-F1) -/
def unnamedSet : Source := .set (q tStudent [bin .add sId lit1]) (q tStudent [bin .add sId lit1]) .union

/-- `Student[id, id] ∪ Student[id]`: the schemas differ, yet the dictionary collapses the repeated name (C07-F2) -/
def collapsedSet : Source := .set (q tStudent [sId, sId]) (q tStudent [sId]) .union

theorem C07_iff_counterexample : ¬ C07_iff_full := by
  intro h
  have := (h unnamedSet).mpr (by decide)
  revert this
  decide

/-- the second root cause refutes it as well: a non-conforming set that is constructed -/
theorem C07_iff_counterexample_duplicate :
    (construct structEqv collapsedSet).isOk = true ∧ ¬ WellFormed collapsedSet := by decide

/-! ### `.schema` -/

/-- full strength: the schema of every constructed statement lists its output features' names and kinds in order -/
def C07_schema_full : Prop :=
  ∀ (r : RawStmt) (s : Stmt), construct structEqv r = Except.ok s → ∃ S, s.schemaOf = Except.ok S ∧ s.schemaS = some S

/-- proved where every output has a name and a kind and the names are distinct (`plain`) -/
theorem C07_schema_partial (r : RawStmt) (hn : Source.normal r = true) (ht : Source.tame r = true)
    (hp : Source.plain r = true) (s : Stmt) (h : construct structEqv r = Except.ok s) :
    ∃ S, s.schemaOf = Except.ok S ∧ s.schemaS = some S := by
  obtain ⟨rfl, hw⟩ := (Source.construct_iff r hn ht s).mp h
  obtain ⟨es, he, hs⟩ := Source.entries_spec s hw ht hp
  refine ⟨collapse es, by simp [Source.schemaOf, he, bind, Except.bind], ?_⟩
  unfold Source.schemaS
  exact schemaS_lift _ _ hs

/-- an un-aliased expression in the projection: `.schema` raises (C07-F1) -/
def unnamedQuery : Source := q tStudent [bin .add sId lit1, sName]

/-- equal column names on both sides of a join: one field per name (C07-F2) -/
def equalNamesJoin : Source := .join tStudent tSchool .inner (.some (bin .eq sId kId))

theorem C07_schema_counterexample : ¬ C07_schema_full := by
  intro h
  obtain ⟨S, h1, _⟩ := h unnamedQuery unnamedQuery (by decide)
  have : unnamedQuery.schemaOf = Except.error CtorErr.recursion := by decide
  rw [this] at h1
  cases h1

theorem C07_schema_counterexample_duplicate :
    construct structEqv equalNamesJoin = Except.ok equalNamesJoin ∧
    equalNamesJoin.schemaOf = Except.ok [("id", .integer), ("name", .string), ("score", .float), ("born", .date), ("rank", .integer)] ∧
    equalNamesJoin.schemaS = some [("id", .integer), ("name", .string), ("score", .float), ("born", .date),
      ("id", .integer), ("name", .string), ("rank", .integer)] := by decide

/-! ### every rejection is the grammar error -/

/-- full strength: whatever is rejected is rejected with `dsl.GrammarError` -/
def C07_error_kind_full : Prop :=
  ∀ (r : RawStmt) (e : CtorErr), construct structEqv r = Except.error e → e = CtorErr.grammar

/-- proved where schemas are defined (`tame`) and every element names an output of its origin, every expression
has the operand count of its class (`resolvable`) -/
theorem C07_error_kind_partial (r : RawStmt) (hn : Source.normal r = true) (ht : Source.tame r = true)
    (hr : Source.resolvable r = true) (e : CtorErr) (h : construct structEqv r = Except.error e) :
    e = CtorErr.grammar :=
  Source.construct_gonly r hn ht hr e h

/-- so in that region `construct` is the characteristic function of the grammar -/
theorem C07_construct_eq (r : RawStmt) (hn : Source.normal r = true) (ht : Source.tame r = true)
    (hr : Source.resolvable r = true) :
    construct structEqv r = if Source.wf r then Except.ok r else Except.error CtorErr.grammar := by
  by_cases hw : Source.wf r = true
  · simp only [hw, if_true]
    exact C07_conforming_never_raises r hn ht hw
  · simp only [hw, Bool.false_eq_true, if_false]
    cases h : construct structEqv r with
    | ok s => exact absurd ((Source.construct_iff r hn ht s).mp h).2 hw
    | error e => rw [C07_error_kind_partial r hn ht hr e h]

/-- an element that names no field, compared with a literal: `KeyError` (C07-F3) -/
def unknownCompared : Source := q tStudent [sId] (.some (bin .gt (.elem tStudent "nope") lit1))

theorem C07_error_kind_counterexample : ¬ C07_error_kind_full := by
  intro h
  have := h unnamedSet CtorErr.recursion (by decide)
  cases this

theorem C07_error_kind_counterexample_lookup :
    construct structEqv unknownCompared = Except.error CtorErr.lookup ∧ ¬ WellFormed unknownCompared := by decide

/-! ### non-vacuity: concrete scripts on both sides of every rule (tests, not theorems about all inputs) -/

/-- a conforming statement using every clause satisfies the hypotheses of the partial theorems -/
def everything : Source :=
  q (.join tStudent tSchool .inner (.some (bin .eq sId kId)))
    [sName, .alias (un .avg sScore) "avg", .alias (bin .add (un .count sId) lit1) "n"]
    (.some (bin .gt sScore lit1)) [sName] (.some (bin .gt (un .count sId) lit1)) [.mk sName .desc]

example : Source.normal everything = true ∧ Source.tame everything = true ∧ Source.resolvable everything = true ∧
    WellFormed everything ∧
    construct structEqv everything = Except.ok everything ∧ construct implEqv everything = Except.ok everything := by decide

example : Source.plain (q tStudent [sId, .alias (bin .add sId sScore) "x"]) = true ∧
    (q tStudent [sId, .alias (bin .add sId sScore) "x"]).schemaOf = Except.ok [("id", .integer), ("x", .float)] := by decide

/-- a reference of a query, queried through its own elements; a set of two of them -/
def refQ : Source := .ref (q tStudent [sId, .alias sName "n"]) "r"
example : Source.tame (q refQ [.elem refQ "n"]) = true ∧ WellFormed (q refQ [.elem refQ "n"]) ∧
    ¬ WellFormed (q refQ [.elem (.ref (q tStudent [sId, .alias sName "n"]) "other") "n"]) ∧
    ¬ WellFormed (q refQ [sName]) := by decide
example : Source.tame (.set (q refQ []) (q tStudent [sId, .alias sName "n"]) .union) = true ∧
    WellFormed (.set (q refQ []) (q tStudent [sId, .alias sName "n"]) .union) ∧
    ¬ WellFormed (.set (q refQ []) (q tStudent [.alias sName "n", sId]) .union) := by decide

-- one violated rule each (all `normal` and `tame`, so `C07_iff_partial` applies to them)
example : ¬ WellFormed (q tStudent [kId]) ∧ Source.tame (q tStudent [kId]) = true ∧ Source.resolvable (q tStudent [kId]) = true ∧
    construct structEqv (q tStudent [kId]) = Except.error CtorErr.grammar := by decide                 -- foreign element selected
example : ¬ WellFormed (q tStudent [sId] (.some (bin .add sId lit1))) := by decide                              -- filter not boolean
example : WellFormed (q tStudent [sId] (.some (.lit (.bool true)))) := by decide                                -- literal-only predicate
example : ¬ WellFormed (q tStudent [sId] (.some (.alias (bin .gt sId lit1) "p"))) := by decide                  -- aliased filter
example : ¬ WellFormed (q tStudent [sId] (.some (bin .gt (un .count sId) lit1))) := by decide                   -- aggregate in where
example : WellFormed (q tStudent [sId] .none [] (.some (bin .gt (un .count sId) lit1))) := by decide             -- … but fine in having
example : ¬ WellFormed (q tStudent [sId] .none [] (.some (bin .gt (.window (.expr .rownumber .nil) (fs [sId]) .nil) lit1))) := by decide
example : ¬ WellFormed (q tStudent [sId, sName] .none [sId]) := by decide                                        -- non-aggregate outside the grouping
example : WellFormed (q tStudent [.alias sId "i", bin .add (un .sum sScore) lit1] .none [sId]) := by decide      -- alias of a grouped feature, nested aggregate
example : ¬ WellFormed (q tStudent [sId] .none [.alias sId "g"]) := by decide                                    -- alias inside grouping
example : ¬ WellFormed (q tStudent [sId] .none [un .count sId]) := by decide                                     -- aggregate in grouping
example : ¬ WellFormed (q tStudent [sId] (.some (bin .gt sId sName))) := by decide                               -- comparison kinds
example : WellFormed (q tStudent [sId] (.some (bin .gt sId sScore))) := by decide                                -- numeric kinds mix
example : ¬ WellFormed (q tStudent [.alias (bin .add sName lit1) "x"]) := by decide                              -- arithmetic kinds
example : ¬ WellFormed (q tStudent [sId] (.some (bin .and sId (.lit (.bool true))))) := by decide                -- logical operand
example : ¬ WellFormed (q tStudent [.alias (un .year sId) "y"]) ∧ WellFormed (q tStudent [.alias (un .year (.elem tStudent "born")) "y"]) := by decide
example : ¬ WellFormed (.join tStudent tSchool .cross (.some (bin .eq sId kId))) ∧ ¬ WellFormed (.join tStudent tSchool .left .none) ∧
    WellFormed (.join tStudent tSchool .cross .none) := by decide
example : ¬ WellFormed (.join tStudent tSchool .inner (.some (bin .eq (un .sum sId) kId))) := by decide          -- aggregate in join condition
example : ¬ WellFormed (.set (q tStudent [sId, sName]) (q tStudent [sName, sId]) .union) := by decide            -- permuted schemas
example : ¬ WellFormed (q tStudent [sId] .none [] .none [.mk kId .asc]) ∧ ¬ WellFormed (q tStudent [sId] .none [] .none [.mk (.alias sId "o") .asc]) := by decide

/-- hash equality and structural equality disagree only through a hash collision: a statement built around the
colliding literals `-1` / `-2` (C08) selects a foreign element and is accepted by the implementation's equality -/
def refNeg (n : Int) : Source := .ref (q tStudent [sId] (.some (bin .gt sId (.lit (.int n))))) "r"
example : (construct implEqv (q (refNeg (-1)) [.elem (refNeg (-2)) "id"])).isOk = true ∧
    (construct structEqv (q (refNeg (-1)) [.elem (refNeg (-2)) "id"])).isOk = false ∧
    ¬ WellFormed (q (refNeg (-1)) [.elem (refNeg (-2)) "id"]) := by decide

end ForML.Dsl
