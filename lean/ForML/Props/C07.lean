/-
C07 — a statement is constructible exactly when it obeys the documented DSL grammar.

Model: ForML.Model.Grammar (`construct`: the constructors' checks in their order, exceptions as values;
`WellFormed`: the documented rules).  `construct` is parametrised by the implementation's feature equality
(hash equality in the code that exists, see C08); the theorems are stated for the structural one, which is what it is
on any statement without hash collisions (`C07_iff_eqv` transfers them to every equality that is structural).

  C07_iff_full / _partial / _counterexample      construct succeeds ⟺ WellFormed            (findings C07-F1, C07-F2)
  C07_stored                                      a constructed statement stores the script itself
  C07_error_kind_full / _partial / _counterexample  every rejection is the grammar error     (findings C07-F1, C07-F3)
  C07_schema_full / _partial / _counterexample    `.schema` = names and kinds of the outputs  (findings C07-F1, C07-F2)
  C07_tables_*                                    kind lattice / expression-class tables re-extracted from the live code

What the hypotheses exclude, exactly (second half of the file):

  C07_denotation_*            `normal` is no restriction: every script is constructed like its denotation `r.norm`
  C07_iff_denotation / C07_stored_denotation / C07_error_kind_denotation / C07_schema_denotation
                              the partial theorems for every script whose denotation is `tame`
  C07_tame_exact              `¬ tame` ⟺ a table with a repeated field name (no such dsl.Schema exists) ∨ a consulted
                              source with an un-named output (F1) ∨ with a repeated name (F2) ∨ with an un-kinded output
  C07_unkinded_unresolvable   the fourth region lies inside `¬ resolvable`
  C07_resolvable_exact        `¬ resolvable` ⟺ an element naming no output of its origin (F3) ∨ an ill-typed call
  C07_outside_findings        outside F1, F2, F3 and the two unreachable regions all three statements hold
  C07_*_refuses_* / C07_cumulative_any_depth      aggregates and windows are refused at any depth of nesting
  C07_rows_irrelevant         `rows` never influences the verdict
-/
import ForML.Model.Grammar
import ForML.Generated.C07Tables
import ForML.Lemmas.C07Main
import ForML.Lemmas.C07ErrKind
import ForML.Lemmas.C07Norm
import ForML.Lemmas.C07Regions
import ForML.Lemmas.C07Depth

namespace ForML.Dsl

/-! ### tables extracted from the live forml objects agree with the model -/

/-- rank and class membership of every primitive kind (`kind.py`) -/
theorem C07_tables_kinds :
    ForML.Generated.C07.kindTable.all (fun (k, rank, numeric, date, boolean) =>
      k.rank == rank && k.isNumeric == numeric && k.isDate == date && (k == Kind.boolean) == boolean) = true ∧
    ForML.Generated.C07.kindTable.map (·.1) =
      [Kind.boolean, Kind.integer, Kind.float, Kind.decimal, Kind.string, Kind.date, Kind.timestamp] := by decide

/-- `Compound.__rank__` is the number of components -/
theorem C07_tables_compound :
    ForML.Generated.C07.compoundRanks =
      [(Kind.array .integer).rank, (Kind.map .integer .string).rank,
        (Kind.struct ["a", "b", "c"] (.cons .integer (.cons .integer (.cons .integer .nil)))).rank] := by decide

/-- operand count, family of constructor checks and aggregate-ness of every expression class
(`series.py`, `function/*.py`) -/
theorem C07_tables_ops :
    ForML.Generated.C07.opTable.all (fun (op, arity, group, agg) =>
      op.arity == arity && decide (op.group = group) && op.isAggregate == agg) = true ∧
    ForML.Generated.C07.opTable.map (·.1) = Op.all := by decide

/-- the join / set kinds and ordering directions the script alphabet uses are those of the code -/
theorem C07_tables_enums :
    ForML.Generated.C07.joinKinds = [JoinKind.inner, .left, .right, .full, .cross].map JoinKind.wire ∧
    ForML.Generated.C07.setKinds = [SetKind.union, .intersection, .difference].map SetKind.wire ∧
    ForML.Generated.C07.directions = [("asc", "ascending"), ("ascending", "ascending"), ("desc", "descending"),
      ("descending", "descending"), ("ASC", "ascending"), ("Desc", "descending")] := by decide

/-! ### constructible ⟺ well-formed -/

/-- the implementation's equality on features is the structural one (C08: true of hash equality on any set of
features without hash collisions; false in general — finding of C08) -/
def ImplEqIsStructural (eqv : Feature → Feature → Bool) : Prop := ∀ a b, eqv a b = decide (a = b)

/-- the statement at full strength: for every script, construction succeeds iff the documented grammar holds -/
def C07_iff_full : Prop := ∀ r : RawStmt, (construct structEqv r).isOk = true ↔ WellFormed r

/-- proved: inside the region where schemas are defined (`tame`), for scripts that denote themselves (`normal`) -/
theorem C07_iff_partial (r : RawStmt) (hn : Source.normal r = true) (ht : Source.tame r = true) :
    (construct structEqv r).isOk = true ↔ WellFormed r := by
  unfold construct WellFormed
  cases h : Source.construct structEqv r with
  | error e =>
    simp only [Except.isOk, Except.toBool, Bool.false_eq_true, false_iff]
    intro hw
    have := (Source.construct_iff r hn ht r).mpr ⟨rfl, hw⟩
    rw [h] at this
    cases this
  | ok s =>
    simp only [Except.isOk, Except.toBool, true_iff]
    exact ((Source.construct_iff r hn ht s).mp h).2

/-- the same for every equality that is structural -/
theorem C07_iff_eqv (eqv : Feature → Feature → Bool) (he : ImplEqIsStructural eqv) (r : RawStmt)
    (hn : Source.normal r = true) (ht : Source.tame r = true) :
    (construct eqv r).isOk = true ↔ WellFormed r := by
  have : eqv = structEqv := by
    funext a b
    exact he a b
  rw [this]
  exact C07_iff_partial r hn ht

/-- what a successful construction stores is the script itself -/
theorem C07_stored (r : RawStmt) (hn : Source.normal r = true) (ht : Source.tame r = true) (s : Stmt)
    (h : construct structEqv r = Except.ok s) : s = r :=
  ((Source.construct_iff r hn ht s).mp h).1

/-- a well-formed script is constructed (and never rejected) -/
theorem C07_conforming_never_raises (r : RawStmt) (hn : Source.normal r = true) (ht : Source.tame r = true)
    (hw : WellFormed r) : construct structEqv r = Except.ok r :=
  (Source.construct_iff r hn ht r).mpr ⟨rfl, hw⟩

/-! #### witnesses -/

def tStudent : Source := .table "Student" [("id", .integer), ("name", .string), ("score", .float), ("born", .date)]
def tSchool : Source := .table "School" [("id", .integer), ("name", .string), ("rank", .integer)]
def sId : Feature := .elem tStudent "id"
def sName : Feature := .elem tStudent "name"
def sScore : Feature := .elem tStudent "score"
def kId : Feature := .elem tSchool "id"
def lit1 : Feature := .lit (.int 1)
def fs (l : List Feature) : Features := Features.ofList l
def q (s : Source) (sel : List Feature) (pre : FeatureOpt := .none) (grp : List Feature := []) (post : FeatureOpt := .none)
    (ord : List Ordering := []) : Source :=
  .query s (fs sel) pre (fs grp) post (Orderings.ofList ord) none
def bin (op : Op) (a b : Feature) : Feature := .expr op (fs [a, b])
def un (op : Op) (a : Feature) : Feature := .expr op (fs [a])

/-- two queries selecting an un-aliased expression: well-formed (equal schemas), yet `Set.__new__` dies reading the
schema (C07-F1) -/
def unnamedSet : Source := .set (q tStudent [bin .add sId lit1]) (q tStudent [bin .add sId lit1]) .union

/-- `Student[id, id] ∪ Student[id]`: the schemas differ, yet the dictionary collapses the repeated name (C07-F2) -/
def collapsedSet : Source := .set (q tStudent [sId, sId]) (q tStudent [sId]) .union

theorem C07_iff_counterexample : ¬ C07_iff_full := by
  intro h
  have := (h unnamedSet).mpr (by decide)
  revert this
  decide

/-- the second root cause refutes it as well: a non-conforming set that is constructed -/
theorem C07_iff_counterexample_duplicate :
    (construct structEqv collapsedSet).isOk = true ∧ ¬ WellFormed collapsedSet := by decide

/-! ### `.schema` -/

/-- full strength: the schema of every constructed statement lists its output features' names and kinds in order -/
def C07_schema_full : Prop :=
  ∀ (r : RawStmt) (s : Stmt), construct structEqv r = Except.ok s → ∃ S, s.schemaOf = Except.ok S ∧ s.schemaS = some S

/-- proved where every output has a name and a kind and the names are distinct (`plain`) -/
theorem C07_schema_partial (r : RawStmt) (hn : Source.normal r = true) (ht : Source.tame r = true)
    (hp : Source.plain r = true) (s : Stmt) (h : construct structEqv r = Except.ok s) :
    ∃ S, s.schemaOf = Except.ok S ∧ s.schemaS = some S := by
  obtain ⟨rfl, hw⟩ := (Source.construct_iff r hn ht s).mp h
  obtain ⟨es, he, hs⟩ := Source.entries_spec s hw ht hp
  refine ⟨collapse es, by simp [Source.schemaOf, he, bind, Except.bind], ?_⟩
  unfold Source.schemaS
  exact schemaS_lift _ _ hs

/-- an un-aliased expression in the projection: `.schema` raises (C07-F1) -/
def unnamedQuery : Source := q tStudent [bin .add sId lit1, sName]

/-- equal column names on both sides of a join: one field per name (C07-F2) -/
def equalNamesJoin : Source := .join tStudent tSchool .inner (.some (bin .eq sId kId))

theorem C07_schema_counterexample : ¬ C07_schema_full := by
  intro h
  obtain ⟨S, h1, _⟩ := h unnamedQuery unnamedQuery (by decide)
  have : unnamedQuery.schemaOf = Except.error CtorErr.recursion := by decide
  rw [this] at h1
  cases h1

theorem C07_schema_counterexample_duplicate :
    construct structEqv equalNamesJoin = Except.ok equalNamesJoin ∧
    equalNamesJoin.schemaOf = Except.ok [("id", .integer), ("name", .string), ("score", .float), ("born", .date), ("rank", .integer)] ∧
    equalNamesJoin.schemaS = some [("id", .integer), ("name", .string), ("score", .float), ("born", .date),
      ("id", .integer), ("name", .string), ("rank", .integer)] := by decide

/-! ### every rejection is the grammar error -/

/-- full strength: whatever is rejected is rejected with `dsl.GrammarError` -/
def C07_error_kind_full : Prop :=
  ∀ (r : RawStmt) (e : CtorErr), construct structEqv r = Except.error e → e = CtorErr.grammar

/-- proved where schemas are defined (`tame`) and every element names an output of its origin, every expression
has the operand count of its class (`resolvable`) -/
theorem C07_error_kind_partial (r : RawStmt) (hn : Source.normal r = true) (ht : Source.tame r = true)
    (hr : Source.resolvable r = true) (e : CtorErr) (h : construct structEqv r = Except.error e) :
    e = CtorErr.grammar :=
  Source.construct_gonly r hn ht hr e h

/-- so in that region `construct` is the characteristic function of the grammar -/
theorem C07_construct_eq (r : RawStmt) (hn : Source.normal r = true) (ht : Source.tame r = true)
    (hr : Source.resolvable r = true) :
    construct structEqv r = if Source.wf r then Except.ok r else Except.error CtorErr.grammar := by
  by_cases hw : Source.wf r = true
  · simp only [hw, if_true]
    exact C07_conforming_never_raises r hn ht hw
  · simp only [hw, Bool.false_eq_true, if_false]
    cases h : construct structEqv r with
    | ok s => exact absurd ((Source.construct_iff r hn ht s).mp h).2 hw
    | error e => rw [C07_error_kind_partial r hn ht hr e h]

/-- an element that names no field, compared with a literal: `KeyError` (C07-F3) -/
def unknownCompared : Source := q tStudent [sId] (.some (bin .gt (.elem tStudent "nope") lit1))

theorem C07_error_kind_counterexample : ¬ C07_error_kind_full := by
  intro h
  have := h unnamedSet CtorErr.recursion (by decide)
  cases this

theorem C07_error_kind_counterexample_lookup :
    construct structEqv unknownCompared = Except.error CtorErr.lookup ∧ ¬ WellFormed unknownCompared := by decide

/-! ### non-vacuity: concrete scripts on both sides of every rule (tests, not theorems about all inputs) -/

/-- a conforming statement using every clause satisfies the hypotheses of the partial theorems -/
def everything : Source :=
  q (.join tStudent tSchool .inner (.some (bin .eq sId kId)))
    [sName, .alias (un .avg sScore) "avg", .alias (bin .add (un .count sId) lit1) "n"]
    (.some (bin .gt sScore lit1)) [sName] (.some (bin .gt (un .count sId) lit1)) [.mk sName .desc]

example : Source.normal everything = true ∧ Source.tame everything = true ∧ Source.resolvable everything = true ∧
    WellFormed everything ∧
    construct structEqv everything = Except.ok everything ∧ construct implEqv everything = Except.ok everything := by decide

example : Source.plain (q tStudent [sId, .alias (bin .add sId sScore) "x"]) = true ∧
    (q tStudent [sId, .alias (bin .add sId sScore) "x"]).schemaOf = Except.ok [("id", .integer), ("x", .float)] := by decide

/-- a reference of a query, queried through its own elements; a set of two of them -/
def refQ : Source := .ref (q tStudent [sId, .alias sName "n"]) "r"
example : Source.tame (q refQ [.elem refQ "n"]) = true ∧ WellFormed (q refQ [.elem refQ "n"]) ∧
    ¬ WellFormed (q refQ [.elem (.ref (q tStudent [sId, .alias sName "n"]) "other") "n"]) ∧
    ¬ WellFormed (q refQ [sName]) := by decide
example : Source.tame (.set (q refQ []) (q tStudent [sId, .alias sName "n"]) .union) = true ∧
    WellFormed (.set (q refQ []) (q tStudent [sId, .alias sName "n"]) .union) ∧
    ¬ WellFormed (.set (q refQ []) (q tStudent [.alias sName "n", sId]) .union) := by decide

-- one violated rule each (all `normal` and `tame`, so `C07_iff_partial` applies to them)
example : ¬ WellFormed (q tStudent [kId]) ∧ Source.tame (q tStudent [kId]) = true ∧ Source.resolvable (q tStudent [kId]) = true ∧
    construct structEqv (q tStudent [kId]) = Except.error CtorErr.grammar := by decide                 -- foreign element selected
example : ¬ WellFormed (q tStudent [sId] (.some (bin .add sId lit1))) := by decide                              -- filter not boolean
example : WellFormed (q tStudent [sId] (.some (.lit (.bool true)))) := by decide                                -- literal-only predicate
example : ¬ WellFormed (q tStudent [sId] (.some (.alias (bin .gt sId lit1) "p"))) := by decide                  -- aliased filter
example : ¬ WellFormed (q tStudent [sId] (.some (bin .gt (un .count sId) lit1))) := by decide                   -- aggregate in where
example : WellFormed (q tStudent [sId] .none [] (.some (bin .gt (un .count sId) lit1))) := by decide             -- … but fine in having
example : ¬ WellFormed (q tStudent [sId] .none [] (.some (bin .gt (.window (.expr .rownumber .nil) (fs [sId]) .nil) lit1))) := by decide
example : ¬ WellFormed (q tStudent [sId, sName] .none [sId]) := by decide                                        -- non-aggregate outside the grouping
example : WellFormed (q tStudent [.alias sId "i", bin .add (un .sum sScore) lit1] .none [sId]) := by decide      -- alias of a grouped feature, nested aggregate
example : ¬ WellFormed (q tStudent [sId] .none [.alias sId "g"]) := by decide                                    -- alias inside grouping
example : ¬ WellFormed (q tStudent [sId] .none [un .count sId]) := by decide                                     -- aggregate in grouping
example : ¬ WellFormed (q tStudent [sId] (.some (bin .gt sId sName))) := by decide                               -- comparison kinds
example : WellFormed (q tStudent [sId] (.some (bin .gt sId sScore))) := by decide                                -- numeric kinds mix
example : ¬ WellFormed (q tStudent [.alias (bin .add sName lit1) "x"]) := by decide                              -- arithmetic kinds
example : ¬ WellFormed (q tStudent [sId] (.some (bin .and sId (.lit (.bool true))))) := by decide                -- logical operand
example : ¬ WellFormed (q tStudent [.alias (un .year sId) "y"]) ∧ WellFormed (q tStudent [.alias (un .year (.elem tStudent "born")) "y"]) := by decide
example : ¬ WellFormed (.join tStudent tSchool .cross (.some (bin .eq sId kId))) ∧ ¬ WellFormed (.join tStudent tSchool .left .none) ∧
    WellFormed (.join tStudent tSchool .cross .none) := by decide
example : ¬ WellFormed (.join tStudent tSchool .inner (.some (bin .eq (un .sum sId) kId))) := by decide          -- aggregate in join condition
example : ¬ WellFormed (.set (q tStudent [sId, sName]) (q tStudent [sName, sId]) .union) := by decide            -- permuted schemas
example : ¬ WellFormed (q tStudent [sId] .none [] .none [.mk kId .asc]) ∧ ¬ WellFormed (q tStudent [sId] .none [] .none [.mk (.alias sId "o") .asc]) := by decide

/-- hash equality and structural equality disagree only through a hash collision: a statement built around the
colliding literals `-1` / `-2` (C08) selects a foreign element and is accepted by the implementation's equality -/
def refNeg (n : Int) : Source := .ref (q tStudent [sId] (.some (bin .gt sId (.lit (.int n))))) "r"
example : (construct implEqv (q (refNeg (-1)) [.elem (refNeg (-2)) "id"])).isOk = true ∧
    (construct structEqv (q (refNeg (-1)) [.elem (refNeg (-2)) "id"])).isOk = false ∧
    ¬ WellFormed (q (refNeg (-1)) [.elem (refNeg (-2)) "id"]) := by decide

/-! ## what the hypotheses exclude, exactly -/

/-! ### `normal`: covered by the denotation -/

/-- a `normal` script is its own denotation … -/
theorem C07_denotation_of_normal (r : RawStmt) (hn : Source.normal r = true) : Source.norm r = r :=
  Source.norm_of_normal r hn

/-- … every denotation is `normal` … -/
theorem C07_denotation_normal (r : RawStmt) : Source.normal (Source.norm r) = true := Source.normal_norm r

/-- … and a script is constructed exactly like its denotation (same statement stored, same exception) -/
theorem C07_denotation_construct (r : RawStmt) (ht : Source.tame (Source.norm r) = true) :
    construct structEqv r = construct structEqv (Source.norm r) := Source.construct_norm r ht

/-- `C07_iff_partial` without `normal`: for EVERY script whose denotation lies where schemas are defined -/
theorem C07_iff_denotation (r : RawStmt) (ht : Source.tame (Source.norm r) = true) :
    (construct structEqv r).isOk = true ↔ WellFormed (Source.norm r) := by
  rw [C07_denotation_construct r ht]
  exact C07_iff_partial _ (Source.normal_norm r) ht

/-- what is stored is the denotation -/
theorem C07_stored_denotation (r : RawStmt) (ht : Source.tame (Source.norm r) = true) (s : Stmt)
    (h : construct structEqv r = Except.ok s) : s = Source.norm r := by
  rw [C07_denotation_construct r ht] at h
  exact C07_stored _ (Source.normal_norm r) ht s h

theorem C07_error_kind_denotation (r : RawStmt) (ht : Source.tame (Source.norm r) = true)
    (hr : Source.resolvable (Source.norm r) = true) (e : CtorErr) (h : construct structEqv r = Except.error e) :
    e = CtorErr.grammar := by
  rw [C07_denotation_construct r ht] at h
  exact C07_error_kind_partial _ (Source.normal_norm r) ht hr e h

theorem C07_schema_denotation (r : RawStmt) (ht : Source.tame (Source.norm r) = true)
    (hp : Source.plain (Source.norm r) = true) (s : Stmt) (h : construct structEqv r = Except.ok s) :
    ∃ S, s.schemaOf = Except.ok S ∧ s.schemaS = some S := by
  rw [C07_denotation_construct r ht] at h
  exact C07_schema_partial _ (Source.normal_norm r) ht hp s h

-- a reference of a reference, an alias of an alias, a set of two bare tables: not `normal`, covered all the same
def notNormal : Source :=
  q (.ref (.ref tStudent "a") "b") [.alias (.alias (.elem (.ref tStudent "b") "id") "x") "y"]
example : Source.normal notNormal = false ∧ Source.tame (Source.norm notNormal) = true ∧ WellFormed (Source.norm notNormal) ∧
    Source.norm notNormal = q (.ref tStudent "b") [.alias (.elem (.ref tStudent "b") "id") "y"] ∧
    construct structEqv notNormal = Except.ok (Source.norm notNormal) := by decide
example : Source.normal (.set tSchool tSchool .union) = false ∧
    construct structEqv (.set tSchool tSchool .union) = Except.ok (.set (q tSchool []) (q tSchool []) .union) ∧
    Source.norm (.set tSchool tSchool .union) = .set (q tSchool []) (q tSchool []) .union := by decide

/-! ### `tame` and `resolvable`: the regions -/

/-- `tame` fails in exactly four regions -/
theorem C07_tame_exact (r : RawStmt) :
    Source.tame r = false ↔
      (Source.dupTable r = true ∨ Source.unnamedAt r = true ∨ Source.duplicateAt r = true ∨ Source.unkindedAt r = true) :=
  Source.tame_false_iff r

/-- the fourth of which lies inside `¬ resolvable` -/
theorem C07_unkinded_unresolvable (r : RawStmt) (h : Source.unkindedAt r = true) : Source.resolvable r = false := by
  cases hr : Source.resolvable r with
  | false => rfl
  | true =>
    rw [Source.unkindedAt_of_resolvable r hr] at h
    cases h

/-- `resolvable` fails in exactly two regions -/
theorem C07_resolvable_exact (r : RawStmt) :
    Source.resolvable r = false ↔ (Source.unknownElement r = true ∨ Source.illTypedCall r = true) := by
  rw [← Bool.not_eq_true, Source.resolvable_iff_regions]
  cases Source.unknownElement r <;> cases Source.illTypedCall r <;> simp

/-- Outside the three findings — un-named outputs where a schema is read (F1), repeated output names there (F2), an
element naming no output of its origin (F3) — and outside the two regions no use of the public API leads into (a table
with a repeated field name; a call with the wrong number of operands), every script is constructed exactly when its
denotation is well-formed, what is stored is the denotation, and every rejection is the grammar error. -/
theorem C07_outside_findings (r : RawStmt)
    (h1 : Source.unnamedAt (Source.norm r) = false) (h2 : Source.duplicateAt (Source.norm r) = false)
    (h3 : Source.unknownElement (Source.norm r) = false)
    (u1 : Source.dupTable (Source.norm r) = false) (u2 : Source.illTypedCall (Source.norm r) = false) :
    construct structEqv r =
      if Source.wf (Source.norm r) then Except.ok (Source.norm r) else Except.error CtorErr.grammar := by
  have hr : Source.resolvable (Source.norm r) = true := (Source.resolvable_iff_regions _).mpr ⟨h3, u2⟩
  have ht : Source.tame (Source.norm r) = true := by
    cases h : Source.tame (Source.norm r) with
    | true => rfl
    | false =>
      rcases (C07_tame_exact _).mp h with h' | h' | h' | h'
      · rw [u1] at h'; cases h'
      · rw [h1] at h'; cases h'
      · rw [h2] at h'; cases h'
      · rw [Source.unkindedAt_of_resolvable _ hr] at h'; cases h'
  rw [C07_denotation_construct r ht]
  exact C07_construct_eq _ (Source.normal_norm r) ht hr

/-- … and, if the statement's own outputs are named and distinct, `.schema` lists their names and kinds in order -/
theorem C07_schema_outside_findings (r : RawStmt)
    (h1 : Source.unnamedAt (Source.norm r) = false) (h2 : Source.duplicateAt (Source.norm r) = false)
    (h3 : Source.unknownElement (Source.norm r) = false)
    (u1 : Source.dupTable (Source.norm r) = false) (u2 : Source.illTypedCall (Source.norm r) = false)
    (hp : Source.plainN (Source.norm r) = true) (hw : WellFormed (Source.norm r)) :
    ∃ S, (Source.norm r).schemaOf = Except.ok S ∧ (Source.norm r).schemaS = some S := by
  have hr : Source.resolvable (Source.norm r) = true := (Source.resolvable_iff_regions _).mpr ⟨h3, u2⟩
  have ht : Source.tame (Source.norm r) = true := by
    cases h : Source.tame (Source.norm r) with
    | true => rfl
    | false =>
      rcases (C07_tame_exact _).mp h with h' | h' | h' | h'
      · rw [u1] at h'; cases h'
      · rw [h1] at h'; cases h'
      · rw [h2] at h'; cases h'
      · rw [Source.unkindedAt_of_resolvable _ hr] at h'; cases h'
  have hpl : Source.plain (Source.norm r) = true := by
    rw [Source.plain_eq, hp, Bool.true_and]
    exact Source.kinded_of_resolvable _ hr
  exact C07_schema_partial _ (Source.normal_norm r) ht hpl _ (C07_conforming_never_raises _ (Source.normal_norm r) ht hw)

-- the regions are inhabited by the witnesses of the three findings and by nothing else of them
example : Source.unnamedAt unnamedSet = true ∧ Source.duplicateAt unnamedSet = false ∧ Source.unknownElement unnamedSet = false ∧
    Source.dupTable unnamedSet = false ∧ Source.illTypedCall unnamedSet = false := by decide
example : Source.duplicateAt collapsedSet = true ∧ Source.unnamedAt collapsedSet = false ∧ Source.unknownElement collapsedSet = false ∧
    Source.dupTable collapsedSet = false ∧ Source.illTypedCall collapsedSet = false := by decide
example : Source.unknownElement unknownCompared = true ∧ Source.unnamedAt unknownCompared = false ∧
    Source.duplicateAt unknownCompared = false ∧ Source.dupTable unknownCompared = false ∧
    Source.illTypedCall unknownCompared = false ∧ Source.tame unknownCompared = true := by decide
-- an un-named output / equal names that no schema lookup meets are outside the regions: the theorems apply
example : Source.unnamedAt unnamedQuery = false ∧ Source.tame unnamedQuery = true ∧
    Source.duplicateAt (q equalNamesJoin [sId]) = false ∧ Source.tame (q equalNamesJoin [sId]) = true := by decide
-- the two unreachable regions
example : Source.dupTable (.table "D" [("x", .integer), ("x", .string)]) = true ∧
    Source.illTypedCall (q tStudent [.expr .add (fs [sId])]) = true ∧ Source.illTypedCall (q tStudent [bin .add (.expr .rownumber .nil) lit1]) = true ∧
    Source.unkindedAt (.ref (q tStudent [.alias (.expr .add (fs [])) "x"]) "r") = true := by decide
-- everything of `everything` is outside all regions
example : Source.unnamedAt everything = false ∧ Source.duplicateAt everything = false ∧ Source.unknownElement everything = false ∧
    Source.dupTable everything = false ∧ Source.illTypedCall everything = false ∧ Source.norm everything = everything := by decide

/-! ### aggregates and windows at any depth -/

/-- an aggregate or a window below any number of aliases, casts and operands stays visible -/
theorem C07_cumulative_any_depth (c : Ctx) (f : Feature) :
    (f.hasAggregate = true → (c.plug f).hasAggregate = true) ∧ (f.hasWindow = true → (c.plug f).hasWindow = true) :=
  ⟨hasAggregate_plug c f, hasWindow_plug c f⟩

/-- no aggregate and no window anywhere in a where-condition -/
theorem C07_where_refuses_cumulative (c : Ctx) (f : Feature) (h : f.isCumulative = true) (s : Source) (sel grp : Features)
    (post : FeatureOpt) (ord : Orderings) (rows : Option Rows) :
    ¬ WellFormed (.query s sel (.some (c.plug f)) grp post ord rows) := by
  unfold WellFormed
  rw [not_wf_where c f h]
  exact Bool.false_ne_true

/-- … in a grouping term -/
theorem C07_grouping_refuses_cumulative (c : Ctx) (f : Feature) (h : f.isCumulative = true) (s : Source) (sel : Features)
    (pre : FeatureOpt) (before after : List Feature) (post : FeatureOpt) (ord : Orderings) (rows : Option Rows) :
    ¬ WellFormed (.query s sel pre (Features.ofList (before ++ c.plug f :: after)) post ord rows) := by
  unfold WellFormed
  rw [not_wf_grouping c f h]
  exact Bool.false_ne_true

/-- … in a join condition -/
theorem C07_join_refuses_cumulative (c : Ctx) (f : Feature) (h : f.isCumulative = true) (l r : Source) (k : JoinKind) :
    ¬ WellFormed (.join l r k (.some (c.plug f))) := by
  unfold WellFormed
  rw [not_wf_join c f h]
  exact Bool.false_ne_true

/-- no window anywhere in a having-condition (an aggregate is fine there) -/
theorem C07_having_refuses_window (c : Ctx) (f : Feature) (h : f.isWindow = true) (s : Source) (sel : Features)
    (pre : FeatureOpt) (grp : Features) (ord : Orderings) (rows : Option Rows) :
    ¬ WellFormed (.query s sel pre grp (.some (c.plug f)) ord rows) := by
  unfold WellFormed
  rw [not_wf_having c f h]
  exact Bool.false_ne_true

-- depth 4: `(abs(sum(score) + 1) * 2 > 1).alias…` — with `C07_iff_partial`, the constructors refuse it
def deep : Ctx := .arg .gt [] (.arg .mul [] (.arg .abs [] (.arg .add [] .hole [lit1]) []) [lit1]) [lit1]
example : deep.depth = 4 ∧ construct structEqv (q tStudent [sId] (.some (deep.plug (un .sum sScore)))) = Except.error CtorErr.grammar ∧
    construct structEqv (q tStudent [sId] .none [] (.some (deep.plug (un .sum sScore)))) =
      Except.ok (q tStudent [sId] .none [] (.some (deep.plug (un .sum sScore)))) ∧
    construct structEqv (q tStudent [sId] .none [] (.some (deep.plug (.window (un .sum sScore) (fs [sId]) .nil)))) =
      Except.error CtorErr.grammar := by decide
-- aggregates nest freely inside one another and inside windows (no rule forbids it)
example : WellFormed (q tStudent [un .sum (un .sum sScore), .window (un .sum (.window (.expr .rownumber .nil) (fs [sId]) .nil)) (fs [sName]) .nil]) := by decide

/-! ### `rows` -/

/-- the row limit takes no part in any check -/
theorem C07_rows_irrelevant (eqv : Feature → Feature → Bool) (s : Source) (sel : Features) (pre : FeatureOpt) (grp : Features)
    (post : FeatureOpt) (ord : Orderings) (rows rows' : Option Rows) :
    (construct eqv (.query s sel pre grp post ord rows)).isOk = (construct eqv (.query s sel pre grp post ord rows')).isOk ∧
    Source.wf (.query s sel pre grp post ord rows) = Source.wf (.query s sel pre grp post ord rows') := by
  refine ⟨?_, rfl⟩
  simp only [construct, Source.construct]
  cases Source.construct eqv s <;> try rfl
  cases Features.construct eqv sel <;> try rfl
  cases FeatureOpt.construct eqv pre <;> try rfl
  cases Features.construct eqv grp <;> try rfl
  cases FeatureOpt.construct eqv post <;> try rfl
  cases Orderings.construct eqv ord <;> try rfl
  simp only [bind, Except.bind]
  cases checkQuery eqv _ _ _ _ _ _ <;> rfl

end ForML.Dsl
