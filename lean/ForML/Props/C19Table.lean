/-
C19 — "encoding then decoding a table with a matching codec pair returns the same table", characterised exactly for the pairs
usable in the sandbox, and the schema cache every decoded frame of a process goes through.  Property theorems (model:
ForML/Model/CodecTable.lean; helper lemmas: ForML/Lemmas/C19Table*.lean, C19Schema.lean).  Every statement quantifies over all
tables / all texts / all sequences of frames; `example`s are non-vacuity tests.

The sentence is false at full strength for every usable pair (`*_full` + `*_counterexample`, each witness replayed by the
harness on the real code: findings C19-F1 … C19-F6).  It is proved under the decidable verdict of the model
(`Table.csvVerdict` / `Table.jsonVerdict` = `same`), which says for which tables the round trip holds:

  text/csv → text/csv                at least one column and one row; no cell or name with a carriage return outside quotes (F3);
                                     not a one-column table with a cell of blanks only (F4); every text column is read back as
                                     texts: no cell is a missing-value marker (`""`, `NA`, `null`, …) and the column is neither
                                     all numbers (`007`, ` 12`, `1e3`, `inf`) nor all `true`/`false` (F1)
  pandas-records → application/json  at least one column and one row; no boolean column with a missing cell (F6); no float
                                     cell with more than ten decimal places (F2)
  pandas-columns → application/json  the same, and no column called `instances` or `inputs` (F5)

Integer, float, text and boolean columns with missing cells, empty strings, numeric-looking strings, quoting (`,` `"` LF inside
cells and names), column order and the order of rows are inside the theorems.  Duplicate column names are not tables
(`dsl.Schema` refuses them: `Table.wf`).
-/
import ForML.Lemmas.C19TableJson
import ForML.Lemmas.C19Schema

namespace ForML.Codec

/-! ### `text/csv`: writer text against the reader's tokeniser -/

/-- the statement at full strength on the level of records: what the writer writes is taken apart into the same fields -/
def C19_codec_csv_lines_full : Prop :=
  ∀ records : List (List Str), (∀ r ∈ records, r ≠ []) → csvRead (csvText records) = records

/-- false: a carriage return is written unquoted and read as a record end; a one-field record of blanks is skipped -/
theorem C19_codec_csv_lines_counterexample : ¬ C19_codec_csv_lines_full := by
  intro h
  have := h [["x\ry".toList, ['1']]] (by simp)
  revert this
  decide +kernel

/-- a second witness of the same: the blank line -/
theorem C19_codec_csv_blank_line_counterexample : ¬ C19_codec_csv_lines_full := by
  intro h
  have := h [['a'] :: [], [' '] :: [], ['b'] :: []] (by simp)
  revert this
  decide +kernel

/-- it holds for every list of records whose fields keep a carriage return inside quotes and that has no one-field record of
blanks only — quoting (`,` `"` LF in fields, doubled quotes), empty fields, the `""` record and any number of fields included -/
theorem C19_codec_csv_lines_partial (records : List (List Str)) (hok : ∀ r ∈ records, recordOK r = true) :
    csvRead (csvText records) = records := csvRead_csvText records hok

/-! ### `text/csv`: one column through writer and type inference -/

/-- every column — integers (also written as floats when a cell is missing), floats, booleans, texts that are kept as texts —
is read back cell by cell as the same values -/
theorem C19_codec_csv_column (c : Column) (hcells : c.cells.all (Val.ofKind c.kind) = true) (hnn : c.cells.any (· != .null) = true)
    (hs : c.kind = .str → c.csvTextKept = true) : sameCells (readColumn c.csvTexts) c.cells = true :=
  column_csv c hcells hnn hs

/-- numbers as written are numbers as read: the texts of integers and floats look like numbers to the inference, are no
missing-value markers, and are read as the value written -/
theorem C19_codec_csv_number_texts (i : Int) (neg : Bool) (d : Dec) :
    NumCell (.int i) (csvCell false (.int i)) ∧ NumCell (.int i) (csvCell true (.int i)) ∧
    NumCell (.float neg d) (csvCell false (.float neg d)) :=
  ⟨numCell_int i, numCell_int_float i, numCell_float neg d⟩

/-! ### `text/csv`: the table -/

/-- the sentence of the property for `text/csv`, at full strength -/
def C19_codec_csv_roundtrip_full : Prop :=
  ∀ t : Table, t.wf = true → t.cols ≠ [] → t.nrows ≠ 0 →
    ∃ f, csvDecode t.csv = some f ∧ (Frame.table f (t.cols.map (·.kind))).same t = true

private def retypedTable : Table := ⟨[⟨['B'], .str, [.text "007".toList, .text "12".toList]⟩]⟩

/-- false: the text column `B = ['007', '12']` comes back as the numbers 7 and 12 (finding C19-F1) -/
theorem C19_codec_csv_roundtrip_counterexample : ¬ C19_codec_csv_roundtrip_full := by
  intro h
  obtain ⟨f, hf, hs⟩ := h retypedTable (by decide +kernel) (by decide +kernel) (by decide +kernel)
  have hd : csvDecode retypedTable.csv = some [(['B'], [.int 7, .int 12])] := by decide +kernel
  rw [hd] at hf
  cases hf
  revert hs
  decide +kernel

/-- it holds exactly under the verdict of the model: writer, quoting, tokeniser, transposition and type inference composed -/
theorem C19_codec_csv_roundtrip_partial (t : Table) (hwf : t.wf = true) (hv : t.csvVerdict = .same) :
    ∃ f, csvDecode t.csv = some f ∧ (Frame.table f (t.cols.map (·.kind))).same t = true :=
  table_csv_roundtrip t hwf hv

/-! ### the JSON layouts -/

/-- the sentence of the property for `pandas-records` → `application/json`, at full strength -/
def C19_codec_json_records_full : Prop :=
  ∀ t : Table, t.wf = true → t.cols ≠ [] → t.nrows ≠ 0 →
    ∃ f, jsonDecode t.jsonRecords = some f ∧ (Frame.table f (t.cols.map (·.kind))).same t = true

private def roundedTable : Table := ⟨[⟨['A'], .float, [.float false ⟨1, 12⟩]⟩]⟩
private def nullBoolTable : Table := ⟨[⟨['A'], .bool, [.bool true, .null]⟩]⟩

/-- false: the float cell `1e-12` is written as `0.0` by the encoder (finding C19-F2) -/
theorem C19_codec_json_records_counterexample : ¬ C19_codec_json_records_full := by
  intro h
  obtain ⟨f, hf, hs⟩ := h roundedTable (by decide +kernel) (by decide +kernel) (by decide +kernel)
  have hd : jsonDecode roundedTable.jsonRecords = some [(['A'], [.float false ⟨0, 10⟩])] := by decide +kernel
  rw [hd] at hf
  cases hf
  revert hs
  decide +kernel

/-- false also for booleans with a missing cell: the decoded frame holds an object column with `None`, which
`Schema.from_frame` cannot type (finding C19-F6) -/
theorem C19_codec_json_null_object_counterexample : ¬ C19_codec_json_records_full := by
  intro h
  obtain ⟨f, hf, _⟩ := h nullBoolTable (by decide +kernel) (by decide +kernel) (by decide +kernel)
  have hd : jsonDecode nullBoolTable.jsonRecords = none := by decide +kernel
  rw [hd] at hf
  cases hf

/-- it holds under the verdict of the model -/
theorem C19_codec_json_records_partial (t : Table) (hwf : t.wf = true) (hv : t.jsonVerdict false = .same) :
    ∃ f, jsonDecode t.jsonRecords = some f ∧ (Frame.table f (t.cols.map (·.kind))).same t = true := by
  have F := jsonFacts_of_verdict false t hv
  have W := wfFacts t hwf
  exact ⟨_, jsonDecode_of_frame _ t F.ne F.rows W.len W.kinds (json_bool_facts false t hv) (table_json_records_frame t hwf hv),
    table_json_frame_same false t hwf hv⟩

/-- the sentence of the property for `pandas-columns` → `application/json`, at full strength -/
def C19_codec_json_columns_full : Prop :=
  ∀ t : Table, t.wf = true → t.cols ≠ [] → t.nrows ≠ 0 →
    ∃ f, jsonDecode t.jsonColumns = some f ∧ (Frame.table f (t.cols.map (·.kind))).same t = true

private def sniffedTable : Table := ⟨[⟨"inputs".toList, .int, [.int 1, .int 2]⟩, ⟨['B'], .str, [.text ['a'], .text ['b']]⟩]⟩

/-- false: a column called `inputs` is taken for the TF-serving envelope (finding C19-F5) -/
theorem C19_codec_json_columns_counterexample : ¬ C19_codec_json_columns_full := by
  intro h
  obtain ⟨f, hf, _⟩ := h sniffedTable (by decide +kernel) (by decide +kernel) (by decide +kernel)
  have hd : jsonDecode sniffedTable.jsonColumns = none := by decide +kernel
  rw [hd] at hf
  cases hf

/-- it holds under the verdict of the model -/
theorem C19_codec_json_columns_partial (t : Table) (hwf : t.wf = true) (hv : t.jsonVerdict true = .same) :
    ∃ f, jsonDecode t.jsonColumns = some f ∧ (Frame.table f (t.cols.map (·.kind))).same t = true := by
  have F := jsonFacts_of_verdict true t hv
  have W := wfFacts t hwf
  exact ⟨_, jsonDecode_of_frame _ t F.ne F.rows W.len W.kinds (json_bool_facts true t hv) (table_json_columns_frame t hwf hv),
    table_json_frame_same true t hwf hv⟩

/-- the rounding of the encoder is the only thing that happens to a float cell: what comes back is `Dec.jsonRender` of it
(`C19_codec_float_rounding_bound` says how far that is) -/
theorem C19_codec_json_cell (asFloat : Bool) (v : Val) : (jsonCell asFloat v).cell = some (jsonBack asFloat v) :=
  jsonCell_cell asFloat v

/-! ### row order and row labels of the columns layout (table sizes) -/

/-- the labels written for the rows are pairwise distinct for every number of rows (`"0"` … `"9"`, `"10"`, … never collide as
keys of the JSON object) -/
theorem C19_codec_json_row_labels_distinct (n : Nat) : (rowLabels n).Nodup := by
  unfold rowLabels List.Nodup
  rw [List.pairwise_map]
  refine List.Pairwise.imp ?_ (List.pairwise_lt_range (n := n))
  intro a b hlt h
  have ha := (natText_spec a).1
  rw [h, (natText_spec b).1] at ha
  omega

/-- `from_dict(orient='columns')` takes the rows in **document order**, whatever their labels are (default, strings, unsorted):
every column comes back as its cells in the order written -/
theorem C19_codec_json_columns_document_order (members : List (Str × List (Str × Val))) :
    fromColumns (members.map fun m => (m.1, JVal.obj (m.2.map fun lc => (lc.1, jsonCell false lc.2))))
      = some (members.map fun m => (m.1, m.2.map fun lc => jsonBack false lc.2)) := by
  unfold fromColumns
  rw [List.mapM_map]
  have h := mapM_some members
    (fun m => ((m.2.map fun lc => (lc.1, jsonCell false lc.2)).mapM fun (kc : Str × JVal) => JVal.cell kc.2).map fun cs => (m.1, cs))
    (fun m => (m.1, m.2.map fun lc => jsonBack false lc.2)) ?_
  · exact h
  · intro m _
    rw [List.mapM_map, mapM_some m.2 _ (fun lc => jsonBack false lc.2)]
    · rfl
    · intro lc _; exact jsonCell_cell false lc.2

/-- for every number of rows the decoded columns layout has the rows in the order of the table (a corollary of
`C19_codec_json_columns_partial`, stated on the frame: ten rows or ten thousand) -/
theorem C19_codec_json_columns_row_order (t : Table) (hwf : t.wf = true) (hv : t.jsonVerdict true = .same) :
    jsonToPandas t.jsonColumns = some (t.cols.map fun c => (c.name, c.cells.map (jsonBack (c.kind == .int && c.hasNull)))) :=
  table_json_columns_frame t hwf hv

private def elevenRows : Table := ⟨[⟨['A'], .int, (List.range 11).map fun i => .int (Int.ofNat i)⟩]⟩

/-- a decoder that sorted the rows by their labels would break the round trip from eleven rows on: the labels are strings and
`"10"` sorts between `"1"` and `"2"` (up to ten rows nothing shows) -/
theorem C19_codec_json_label_sorting_counterexample :
    (∃ f, (match elevenRows.jsonColumns with | .obj ms => fromColumnsSorted ms | _ => none) = some f ∧
      (Frame.table f (elevenRows.cols.map (·.kind))).same elevenRows = false) ∧
    (∃ f, (match (Table.mk [⟨['A'], .int, (List.range 10).map fun i => .int (Int.ofNat i)⟩]).jsonColumns with | .obj ms => fromColumnsSorted ms | _ => none) = some f ∧
      (Frame.table f [.int]).same (Table.mk [⟨['A'], .int, (List.range 10).map fun i => .int (Int.ofNat i)⟩]) = true) := by
  constructor
  · refine ⟨[(['A'], [.int 0, .int 1, .int 10, .int 2, .int 3, .int 4, .int 5, .int 6, .int 7, .int 8, .int 9])], by decide +kernel, by decide +kernel⟩
  · refine ⟨[(['A'], (List.range 10).map fun i => .int (Int.ofNat i))], by decide +kernel, by decide +kernel⟩

/-! ### the schema cache of `Pandas.Schema.from_frame` -/

/-- for every sequence of frames decoded by one process, with any key function that determines the column names: every schema
handed out carries the names of the frame it was asked for; `Empty frame` is raised only for an empty frame and the
`None`-typing error only for a frame with such a column -/
theorem C19_schema_cache_key {κ : Type} [DecidableEq κ] (key : FrameSig → κ) (hkey : ∀ f g, key f = key g → f.names = g.names)
    (fs : List FrameSig) :
    (runFrames key [] fs).length = fs.length ∧
    ∀ fr ∈ fs.zip (runFrames key [] fs),
      (∀ ns, fr.2 = .schema ns → ns = fr.1.names) ∧ (fr.2 = .emptyFrame → fr.1.empty = true) ∧
      (fr.2 = .untypable → fr.1.untypable = true) :=
  ⟨runFrames_length key [] fs, runFrames_ok key hkey [] (by intro kv h; cases h) fs⟩

/-- the key of the code — `frame.dtypes.items()`: names *and* dtypes — is such a key -/
theorem C19_schema_cache (fs : List FrameSig) :
    ∀ fr ∈ fs.zip (runFrames keyItems [] fs), ∀ ns, fr.2 = .schema ns → ns = fr.1.names :=
  fun fr h => ((C19_schema_cache_key keyItems keyItems_names fs).2 fr h).1

/-- a frame that is neither empty nor untypable always gets its own names, whatever was decoded before -/
theorem C19_schema_cache_total (fs : List FrameSig) :
    ∀ fr ∈ fs.zip (runFrames keyItems [] fs), fr.1.empty = false → fr.1.untypable = false → fr.2 = .schema fr.1.names := by
  intro fr h he hu
  obtain ⟨h1, h2, h3⟩ := (C19_schema_cache_key keyItems keyItems_names fs).2 fr h
  cases hr : fr.2 with
  | schema ns => rw [h1 ns hr]
  | emptyFrame => rw [h2 hr] at he; cases he
  | untypable => rw [h3 hr] at hu; cases hu

/-- the names are needed in the key: with a key made of the dtypes alone, two frames of equal column types and different names
through one process — the second is described by the names of the first -/
theorem C19_schema_cache_needs_names :
    ¬ ∀ fs : List FrameSig, ∀ fr ∈ fs.zip (runFrames keyDtypes [] fs), ∀ ns, fr.2 = .schema ns → ns = fr.1.names := by
  intro h
  have := h [⟨[['A']], [['i']], false, false⟩, ⟨[['x']], [['i']], false, false⟩]
    (⟨[['x']], [['i']], false, false⟩, .schema [['A']]) (by decide +kernel) [['A']] rfl
  revert this
  decide +kernel

/-- a frame without rows is refused on first sight and accepted once its columns are known to the cache -/
theorem C19_schema_cache_empty_history :
    runFrames keyItems [] [⟨[['A']], [['o']], true, false⟩, ⟨[['A']], [['o']], false, false⟩, ⟨[['A']], [['o']], true, false⟩]
      = [.emptyFrame, .schema [['A']], .schema [['A']]] := by
  decide +kernel

/-! ### non-vacuity (tests on concrete objects, not part of the claim) -/

private def exTable : Table :=
  ⟨[⟨"id".toList, .int, [.int 1, .int (-20), .null]⟩,
    ⟨"note, \"q\"".toList, .str, [.text "a,b".toList, .text "x\"y".toList, .text "two\nlines".toList]⟩,
    ⟨"v".toList, .float, [.float false ⟨15, 1⟩, .float true ⟨5, 3⟩, .null]⟩,
    ⟨"ok".toList, .bool, [.bool true, .bool false, .bool true]⟩]⟩

example : exTable.wf = true := by decide +kernel
example : exTable.csvVerdict = .same ∧ exTable.jsonVerdict true = .same := by decide +kernel
example : exTable.csv
    = "id,\"note, \"\"q\"\"\",v,ok\n1.0,\"a,b\",1.5,True\n-20.0,\"x\"\"y\",-0.005,False\n,\"two\nlines\",,True\n".toList := by
  decide +kernel
example : ∃ f, csvDecode exTable.csv = some f ∧ (Frame.table f (exTable.cols.map (·.kind))).same exTable = true :=
  C19_codec_csv_roundtrip_partial exTable (by decide +kernel) (by decide +kernel)
example : retypedTable.csvVerdict = .csvRetyped ∧ roundedTable.jsonVerdict false = .jsonRounded
    ∧ sniffedTable.jsonVerdict true = .jsonSniffed ∧ sniffedTable.jsonVerdict false = .same
    ∧ nullBoolTable.jsonVerdict false = .jsonNullObject ∧ nullBoolTable.csvVerdict = .same := by decide +kernel
example : (Table.mk [⟨['B'], .str, [.text ['a'], .text [' '], .text ['b']]⟩]).csvVerdict = .csvBlankLine := by decide +kernel
example : (Table.mk [⟨['A'], .str, [.text "x\ry".toList]⟩, ⟨['B'], .int, [.int 1]⟩]).csvVerdict = .csvCR := by decide +kernel
example : inferKind ["007".toList, " 12".toList, "1e3".toList, "".toList] = .numbers := by decide +kernel
example : inferKind ["007".toList, "x".toList] = .texts ∧ inferKind ["TRUE".toList, "false".toList] = .bools := by decide +kernel
example : elevenRows.jsonVerdict true = .same ∧ elevenRows.csvVerdict = .same ∧ rowLabels 11 = ((List.range 11).map fun i => (toString i).toList) := by
  decide +kernel
example : recordOK ["a\r,b".toList, []] = true ∧ recordOK [[' ']] = false ∧ recordOK [[]] = true := by decide +kernel

end ForML.Codec
