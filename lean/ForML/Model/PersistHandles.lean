/-
C04 — long-lived handles and the hyper-parameters of the current code.

1. **Handles.**  A lifecycle action works through a chain of objects: registry provider → `asset.Directory` →
   `Project` → `Release` → `Generation` (held by an `asset.Instance`) → runner.  A session may build the chain anew for
   every action (a new process, a CLI call) or keep part of it alive.  What a kept object *remembers* (beside the shared
   registry):

   * provider / `Directory` / `Project` / `Release`: nothing that matters here — `Release.list()` asks the registry on
     every call and `Release.put()` computes `list().last.next` from that fresh listing; the `lru_cache`s
     (`TAGS`/`STATES`) are keyed by the resolved generation key and hold immutable content;
   * `asset.Instance`: the `Generation` level with its lazily resolved `_key` (`LevelKey`, PersistCommit.lean): the
     first key access on a non-empty release stores the then latest key — every later action through the same
     instance addresses *that* generation, whatever has been committed since (also by itself: a third training through
     one instance re-trains from the generation the second one pinned and commits a new, correctly numbered one);
     `Runner.train` reads the tag eagerly, a loading action resolves the key with its first state load;
   * a kept `pyfunc.Runner` (serving): actors and their states are set up once, in `__init__`
     (`flow.compile(composition.apply, instance.state(persistent))` + `Expression`): every later call applies the
     states — and the hyper-parameters — of that moment.

   `stepVia` is one action through a handle, `runHandles` a history in which every action chooses a fresh chain or
   one of the long-lived handles.  `stepViaStale` is the variant of the seeded change C04-mb2: the `Release` object
   memoises its first non-empty listing, `put` numbers the new generation from it.

2. **Hyper-parameters.**  `Preset.reduce`/`SetState.set` (forml/flow/_code/target/user.py) hand a loaded state to an
   actor: an empty state is skipped; otherwise `params = actor.get_params(); actor.set_state(value);
   actor.set_params(**params)`.  Actors differ in what their snapshot carries and what their `set_state` does
   (`Flavour`): `flow.Actor`'s default pickles `__dict__` (hyper-parameters included) and puts the current
   hyper-parameters back itself; an actor with a codec of its own may install the snapshot as it is.
   `presetActor` is what the actor is left with; `presetActorUnrestored` the variant of the seeded change C04-mb3.
-/
import ForML.Model.PersistCommit

namespace ForML.Persist

/-! ### handles -/

/-- the generation a level key addresses on a registry: the stored key, else the latest one (none: empty release) -/
def LevelKey.address (lk : LevelKey) (reg : Registry) : Option Nat :=
  match lk.cached with
  | some k => some k
  | none => if reg.length == 0 then none else some reg.length

/-- what a long-lived handle remembers -/
structure HandleView where
  /-- `Level._key` of the `Generation` its `asset.Instance` holds -/
  key : LevelKey
  /-- the kept serving runner: length of the registry, generation addressed and hyper-parameter when it was built -/
  serving : Option (Nat × Option Nat × Nat)
  deriving Repr, Inhabited

/-- does the action make the instance resolve its key?  `Runner.train` reads `instance.tag` eagerly; a loading action
resolves it with the first state load — if it gets that far and there is a persistent group to load -/
def pins (cs : Case) (a : Action) (ok : Bool) : Bool :=
  match a.kind with
  | .train => true
  | .perftrack =>
    ok && (match cs.perf with
      | .ok p => !p.persistent.isEmpty
      | .error _ => false)
  | _ => ok && !cs.plain.persistent.isEmpty

def isOk {α : Type} : Except Err α → Bool
  | .ok _ => true
  | .error _ => false

/-- the outcome of an action together with the action as executed and the registry as seen (what `obsOk` is about) -/
structure Outcome where
  act : Action
  seen : Registry
  result : Except Err (List Obs)
  deriving Repr, Inhabited

/-- a call of the kept serving runner: states and hyper-parameters of the moment it was built (`len` generations
existed then, `sel` was addressed, `hp` configured) -/
def serveKept (cs : Case) (reg : Registry) (v : HandleView) (a : Action) (len : Nat) (sel : Option Nat) (hp : Nat) :
    Registry × Outcome × HandleView :=
  match step cs (reg.take len) { a with gen := sel, hp := hp } with
  | .ok (_, obs) => (reg, ⟨{ a with gen := sel, hp := hp }, reg.take len, .ok obs⟩, v)
  | .error e => (reg, ⟨{ a with gen := sel, hp := hp }, reg.take len, .error e⟩, v)

/-- an action that goes through the handle's `asset.Instance`: the generation its key addresses; the key is stored
when the action resolves it; a serving runner built by a handle that keeps its runners is kept -/
def stepKey (cs : Case) (reg : Registry) (v : HandleView) (keeps : Bool) (a : Action) :
    Registry × Outcome × HandleView :=
  match step cs reg { a with gen := v.key.address reg } with
  | .ok (reg', obs) =>
    (reg', ⟨{ a with gen := v.key.address reg }, reg, .ok obs⟩,
      ⟨if pins cs a true then ⟨v.key.address reg⟩ else v.key,
       if a.kind == .serve && keeps then some (reg.length, v.key.address reg, a.hp) else v.serving⟩)
  | .error e =>
    (reg, ⟨{ a with gen := v.key.address reg }, reg, .error e⟩,
      ⟨if pins cs a false then ⟨v.key.address reg⟩ else v.key, v.serving⟩)

/-- one action through a long-lived handle (`keeps`: the handle keeps its runner objects, too) -/
def stepVia (cs : Case) (reg : Registry) (v : HandleView) (keeps : Bool) (a : Action) :
    Registry × Outcome × HandleView :=
  match a.kind, keeps, v.serving with
  | .serve, true, some (len, sel, hp) => serveKept cs reg v a len sel hp
  | _, _, _ => stepKey cs reg v keeps a

/-- the handles of a session -/
abbrev Views := List (Nat × HandleView)

def Views.set (vs : Views) (h : Nat) (v : HandleView) : Views := (h, v) :: vs.filter (fun e => e.1 != h)

/-- through which handle an action works -/
structure Via where
  id : Nat
  keeps : Bool
  deriving Repr, Inhabited

/-- a history in which every action chooses a fresh chain of objects (`none`) or a long-lived handle; a handle is
created by its first action, with that action's generation argument -/
def runHandles (cs : Case) : Registry → Views → List (Action × Fresh × Option Via) → List Outcome
  | _, _, [] => []
  | reg, vs, (a, f, none) :: rest =>
    match step (cs.rename f.1 f.2) reg a with
    | .ok (reg', obs) => ⟨a, reg, .ok obs⟩ :: runHandles cs reg' vs rest
    | .error e => ⟨a, reg, .error e⟩ :: runHandles cs reg vs rest
  | reg, vs, (a, f, some via) :: rest =>
    let v := (vs.lookup via.id).getD ⟨⟨a.gen⟩, none⟩
    let r := stepVia (cs.rename f.1 f.2) reg v via.keeps a
    r.2.1 :: runHandles cs r.1 (vs.set via.id r.2.2) rest

/-! ### the seeded change C04-mb2: a `Release` object that memoises its listing -/

/-- commit generation `g` as number `seen + 1` (`put` with `last.next` taken from a listing of `seen` generations):
an existing generation of that number is replaced -/
def putAt (reg : Registry) (seen : Nat) (g : Generation) : Registry :=
  if seen < reg.length then reg.take seen ++ g :: reg.drop (seen + 1) else reg ++ [g]

/-- trainings through one handle whose `Release` memoises its first non-empty listing (`seen`) -/
def trainStale (cs : Case) : Registry → Option Nat → List Action → Registry
  | reg, _, [] => reg
  | reg, seen, a :: rest =>
    let seen' := match seen with
      | some n => some n
      | none => if reg.length == 0 then none else some reg.length
    match step cs reg a with
    | .ok (reg', _) =>
      match reg'.drop reg.length, seen' with
      | [g], some n => trainStale cs (putAt reg n g) seen' rest
      | _, _ => trainStale cs reg' seen' rest
    | .error _ => trainStale cs reg seen' rest

/-! ### hyper-parameters of the current code -/

/-- how an actor handles its state -/
inductive Flavour where
  /-- `flow.Actor` default: `__dict__` pickled, `set_state` puts the current hyper-parameters back itself -/
  | default
  /-- own codec, the snapshot carries the hyper-parameters, `set_state` installs the snapshot as it is -/
  | ownCodec
  /-- `__dict__` pickled and installed without restoring anything -/
  | dictCodec
  /-- own codec that does not carry hyper-parameters at all -/
  | stateOnly
  deriving DecidableEq, Repr, Inhabited

/-- an actor as far as the property is concerned: its hyper-parameter and the state it holds -/
structure ActorCfg where
  hp : Nat
  state : Option Origin
  deriving DecidableEq, Repr, Inhabited

/-- `actor.set_state(snapshot)` (the snapshot was taken by `get_state` of the training-time actor: its hyper-parameter
is `snapshot.hp`) -/
def Flavour.setState (fl : Flavour) (a : ActorCfg) (snapshot : Origin) : ActorCfg :=
  match fl with
  | .default => ⟨a.hp, some snapshot⟩
  | .ownCodec => ⟨snapshot.hp, some snapshot⟩
  | .dictCodec => ⟨snapshot.hp, some snapshot⟩
  | .stateOnly => ⟨a.hp, some snapshot⟩

/-- `Preset.reduce` + `SetState.set`: an empty value is skipped; `get_params`, `set_state`, `set_params` -/
def presetActor (fl : Flavour) (a : ActorCfg) : Option Origin → ActorCfg
  | none => a
  | some s =>
    let params := a.hp
    let a' := fl.setState a s
    { a' with hp := params }

/-- the seeded change C04-mb3: `SetState.set` relies on `set_state` to keep the hyper-parameters -/
def presetActorUnrestored (fl : Flavour) (a : ActorCfg) : Option Origin → ActorCfg
  | none => a
  | some s => fl.setState a s

end ForML.Persist
