/-
C06 — the part of `forml/io/dsl/parser.py` that `ForML.Model.Parser` left out: the per-context `Tables` (the segment of
every table: fields and predicate factors) and what `visit_table` does with it.

  Python                                                              here
  ------------------------------------------------------------------  ---------------------------------------------
  Container.Context.Tables (`Segment.fields / factors`)               `Segs`
  Tables.select(*features) / Tables.filter(expression)                `Segs.select` / `Segs.filter`
  series.py  Predicate.Factors.primitive / merge / __and__ / __or__   `primitive` / `mergeF` / `andF` / `orF`
  And / Or / Not / Comparison / Operable `.factors`                   `toPred` + `factorsP`
  Segment.predicate = reduce(Or, sorted(factors))                     `hintFeatures` (the OR of the factors)
  Visitor.visit_table:                                                `visitSourceH … (.table …)`
      origins[source] = resolve_source(source)
      features  = [generate_feature(f) for f in sorted(tables[source].fields)]
      predicate = generate_feature(tables[source].predicate)
      push(generate_table(origin, features, predicate))               (`alchemy.Parser` inherits `generate_table`,
                                                                       which returns the table and ignores the rest)
  visit_join: `if condition is not None: tables.filter(condition)`    `visitSourceH … (.join …)`
  visit_query: `with self:` new context; tables.select(features),     `queryCtx`, `visitSourceH … (.query …)`
      filter(prefilter), select(postfilter), select(grouping),
      select(ordering)

`visitSourceH` is the visitor *with* this mechanism: the same stack machine as `visitSource`, threading the segments of
the current context and generating the code of every hint feature in `visit_table` (the generated code is dropped by
`generate_table`, but generating it may raise).  The definitions of the factors follow the code as it is in the
repository (every `Operable` has — possibly empty — factors; the factors of a negation are the negation as a whole; a
disjunction constrains only the tables both sides constrain); the C14 slice models the same functions for its own
purpose in `ForML.Model.PushDown` — this copy is kept separate so that the two slices stay independent.
The order in which a set of fields / factors is enumerated (`sorted`) is not modelled: a list in registration order.
Core Lean only.
-/
import ForML.Model.Parser

namespace ForML.Parser.Hints
open ForML.Dsl ForML.Rel ForML.Parser

/-- `Source.instance`: the wrapped source of a `Reference`, otherwise the source itself -/
def inst : Source → Source
  | .ref i _ => i
  | s => s

def isTableS : Source → Bool
  | .table _ _ => true
  | _ => false

mutual
/-- `Element.dissect(feature)` -/
def elems : Feature → List (Source × String)
  | .lit _ => []
  | .elem o n => [(o, n)]
  | .alias f _ => elems f
  | .expr _ args => elemsL args
  | .cast f _ => elems f
  | .window _ _ _ => []
def elemsL : Features → List (Source × String)
  | .nil => []
  | .cons f fs => elems f ++ elemsL fs
end

def Features.toL : Features → List Feature
  | .nil => []
  | .cons f fs => f :: Features.toL fs

/-- `Source.features` -/
def features : Source → List Feature
  | .table n fs => fs.map (fun c => .elem (.table n fs) c.1)
  | .ref i nm => ((features i).filterMap selName).map (fun c => .elem (.ref i nm) c)
  | .join l r _ _ => features l ++ features r
  | .set l r _ => features l ++ features r
  | .query src sel _ _ _ _ _ => if sel.isEmpty then features src else Features.toL sel

/-! ### factors (`series.py`) -/

def isComparison : Op → Bool
  | .lt | .le | .gt | .ge | .eq | .ne | .isnull | .notnull => true
  | _ => false

/-- boolean skeleton of a condition as `.factors` dispatches on it -/
inductive Pred where
  /-- `Comparison` or `Not`: `Factors.primitive(self)` -/
  | atom (f : Feature)
  | and (a b : Pred)
  | or (a b : Pred)
  /-- any other `Operable`: empty factors -/
  | other (f : Feature)
  deriving Repr, Inhabited

def toPred : Feature → Pred
  | .expr .and (.cons a (.cons b .nil)) => .and (toPred a) (toPred b)
  | .expr .or (.cons a (.cons b .nil)) => .or (toPred a) (toPred b)
  | .expr .not (.cons a .nil) => .atom (.expr .not (.cons a .nil))
  | .expr op args => if isComparison op then .atom (.expr op args) else .other (.expr op args)
  | f => .other f

/-- `Predicate.Factors`: table ↦ predicate over that table alone -/
abbrev FMap := List (Source × Feature)

/-- `Factors.primitive(predicate)`: the predicate itself iff all its elements share one origin which is a table -/
def primitive (p : Feature) : FMap :=
  match elems p with
  | [] => []
  | (o, _) :: rest => if isTableS o && rest.all (fun e => e.1 == o) then [(o, p)] else []

def binop (op : Op) (a b : Feature) : Feature := .expr op (.cons a (.cons b .nil))

/-- `Factors.merge(left, right, operator)` over `left.keys() | right.keys()` -/
def mergeF (op : Op) (l r : FMap) : FMap :=
  l.map (fun kv => match r.lookup kv.1 with
    | some b => if kv.2 = b then kv else (kv.1, binop op kv.2 b)
    | none => kv)
  ++ r.filter (fun kv => (l.lookup kv.1).isNone)

/-- `Factors.__and__` -/
def andF (l r : FMap) : FMap := mergeF .and l r

/-- `Factors.__or__`: `merge` restricted to the tables constrained by both sides -/
def orF (l r : FMap) : FMap :=
  l.filterMap (fun kv => match r.lookup kv.1 with
    | some b => some (if kv.2 = b then kv else (kv.1, binop .or kv.2 b))
    | none => none)

/-- `.factors` -/
def factorsP : Pred → FMap
  | .atom f => primitive f
  | .and a b => andF (factorsP a) (factorsP b)
  | .or a b => orF (factorsP a) (factorsP b)
  | .other _ => []

def factorsOf (f : Feature) : FMap := factorsP (toPred f)

/-! ### `Container.Context.Tables` -/

/-- all segments of one context, flat: (table, field name) and (table, factor); sets in Python -/
structure Segs where
  fields : List (Source × String) := []
  factors : List (Source × Feature) := []
  deriving Repr, Inhabited

def addNew {α : Type} [DecidableEq α] (l : List α) (a : α) : List α := if a ∈ l then l else l ++ [a]

def addAll {α : Type} [DecidableEq α] (l : List α) (as : List α) : List α := as.foldl addNew l

/-- the table columns behind the elements of the features (`element.origin.instance` is a table) -/
def tableCols (fs : List Feature) : List (Source × String) :=
  (fs.flatMap elems).filterMap (fun e => if isTableS (inst e.1) then some (inst e.1, e.2) else none)

/-- `Tables.select(*feature)` -/
def Segs.select (sg : Segs) (fs : List Feature) : Segs := { sg with fields := addAll sg.fields (tableCols fs) }

/-- `Tables.filter(expression)` -/
def Segs.filter (sg : Segs) (e : Feature) : Segs :=
  let sg := sg.select [e]
  { sg with factors := addAll sg.factors (factorsOf e) }

def Segs.filterOpt (sg : Segs) : FeatureOpt → Segs
  | .some c => sg.filter c
  | .none => sg

def optL : FeatureOpt → List Feature
  | .none => []
  | .some f => [f]

def ordL : Orderings → List Feature
  | .nil => []
  | .cons (.mk f _) os => f :: ordL os

/-- the segments `visit_query` registers in its fresh context before it visits the source -/
def queryCtx (src : Source) (sel : Features) (pre : FeatureOpt) (grp : Features) (post : FeatureOpt)
    (ord : Orderings) : Segs :=
  ((((({} : Segs).select (if sel.isEmpty then features src else Features.toL sel)).filterOpt pre).select (optL post)).select
    (Features.toL grp)).select (ordL ord)

/-- what `visit_table` generates code for: the table's fields as columns, and its predicate (`reduce(Or, factors)`) -/
def hintFeatures (sg : Segs) (t : Source) : List Feature :=
  ((sg.fields.filter (fun kv => kv.1 = t)).map (fun kv => Feature.elem t kv.2)) ++
    (match (sg.factors.filter (fun kv => kv.1 = t)).map (·.2) with
     | [] => []
     | p :: ps => [ps.foldl (binop .or) p])

/-- `[self.generate_feature(f) for f in …]`: the generated code is handed to `generate_table`, which drops it -/
def genHints : List Feature → PState → Except PErr PState
  | [], st => .ok st
  | f :: fs, st => do
    let (_, st) ← genFeature f st
    genHints fs st

/-! ### the visitor with the segments -/

/-- `visit_reference` after the instance was visited -/
def refTail (inst : Source) (name : String) (st : PState) : Except PErr PState := do
  let (i, st) ← popSrc st
  let st ← setOrigin (.ref inst name) name st
  push (.src (.alias i name)) st

/-- `visit_join` after both sides were visited -/
def joinTail (srcs : Sources) (l r : Source) (k : JoinKind) (c : FeatureOpt) (st : PState) : Except PErr PState := do
  let (R, st) ← popSrc st
  let (L, st) ← popSrc st
  let (on, st) ← match c with
    | .none => pure (SqlExpr.lit (.bool true), st)
    | .some f => genFeature f st
  match joinOpt k with
  | none => .error .keyError
  | some o =>
    let st ← push (.src (if o.2.2 then .join R L on o.1 o.2.1 else .join L R on o.1 o.2.1)) st
    bypass srcs (.join l r k c) st

/-- `visit_set` after both operands were visited -/
def setTail (srcs : Sources) (l r : Source) (k : SetKind) (st : PState) : Except PErr PState := do
  let (R, st) ← popSrc st
  let (L, st) ← popSrc st
  match setOpOf k with
  | none => .error .keyError
  | some op =>
    let st ← push (.src (.compound op L R)) st
    bypass srcs (.set l r k) st

/-- `visit_query` after the source was visited (inside the `with self:` block, then the push and the bypass) -/
def queryTail (srcs : Sources) (src : Source) (sel : Features) (pre : FeatureOpt) (grp : Features) (post : FeatureOpt)
    (ord : Orderings) (rows : Option Rows) (st : PState) : Except PErr PState := do
  let (items, st) ←
    if sel.isEmpty then
      match originElems src with
      | none => .error .notModelled
      | some es => genElems es st
    else genFeatures sel st
  if items.isEmpty then .error .noFeatures else
  let (whr, st) ← genFeatureOpt pre st
  let (g, st) ← genFeatures grp st
  let (hav, st) ← genFeatureOpt post st
  let (o, st) ← genOrderings ord st
  let (frm, st) ← popSrc st
  let st ← exit st
  let st ← push (.src (.select items frm whr g hav o (rowsOpts rows).1 (rowsOpts rows).2)) st
  bypass srcs (.query src sel pre grp post ord rows) st

/-- `source.accept(visitor)` with `Context.tables`: the parser state and the segments of the current context -/
def visitSourceH (srcs : Sources) : Source → PState × Segs → Except PErr (PState × Segs)
  | .table n fields, (st, sg) =>
    match srcs.lookup (.table n fields) with
    | none => .error .unprovisioned
    | some pn => do
      let st ← setOrigin (.table n fields) pn st
      let st ← genHints (hintFeatures sg (.table n fields)) st
      let st ← push (.src (.table pn)) st
      pure (st, sg)
  | .ref inst name, (st, sg) => do
    let (st, sg) ← visitSourceH srcs inst (st, sg)
    let st ← refTail inst name st
    pure (st, sg)
  | .join l r k c, (st, sg) => do
    let (st, sg) ← visitSourceH srcs l (st, sg.filterOpt c)
    let (st, sg) ← visitSourceH srcs r (st, sg)
    let st ← joinTail srcs l r k c st
    pure (st, sg)
  | .set l r k, (st, sg) => do
    let (st, sg) ← visitSourceH srcs l (st, sg)
    let (st, sg) ← visitSourceH srcs r (st, sg)
    let st ← setTail srcs l r k st
    pure (st, sg)
  | .query src sel pre grp post ord rows, (st, sg) => do
    -- `with self:` a fresh context with fresh tables; the outer context's tables come back at the exit
    let (st, _) ← visitSourceH srcs src (enter st, queryCtx src sel pre grp post ord)
    let st ← queryTail srcs src sel pre grp post ord rows st
    pure (st, sg)

/-- `Reader._parse_statement` with the complete `visit_table` -/
def parseH (srcs : Sources) (s : Source) : Except PErr SqlSel := do
  let (st, _) ← visitSourceH srcs s (enter {}, {})
  let (sym, st) ← pop st
  match st.ctx with
  | none => .error .invalidContext
  | some c =>
    if !c.symbols.isEmpty then .error .prematureFetch else
    let st := { st with ctx := none }
    let st ← exit st
    match sym, st.ctx, st.stack with
    | .src q, none, [] => .ok q
    | _, _, _ => .error .typeError

end ForML.Parser.Hints
