/-
C10 — consecutive windows read through ONE feed with a result cache.

* forml/provider/feed/alchemy.py  `Results` (`_frames` in memory + `<key>.parquet` under
  `$FORML_HOME/.cache/alchemy`), `Results._statement2key` (sha256 of the statement rendered with
  `literal_binds=True`), `Results.get_or_exec`, `Feed.Reader.read`.

A sequence of launches (`forml model train`/`apply` one after another, or an interactive launcher)
goes through the same cache: a window is read from the storage only if no earlier launch left an
entry under the same key.  The model keeps the cache as an association list from keys to delivered
positions; the key function is a parameter:

* `keyLiteral` — the statement with its literals (the code that exists: two windows share an entry
  only if their predicates are the same terms);
* `keyShape` — operators without the bound values (`param_1`, `param_2`: *not* the code that exists;
  kept to state why the literals matter, see Lemmas/C10Cache).

The storage is the same `data` for the whole history (a changing storage behind a cache is C06's
subject, not C10's).
-/
import ForML.Model.OrdinalShip

namespace ForML.Ordinal

section
variable {α κ : Type} [LE α] [LT α] [DecidableLE α] [DecidableLT α] [DecidableEq α] [DecidableEq κ]

/-- key ↦ rows of the result delivered under that key -/
abbrev Cache (κ : Type) := List (κ × List Nat)

def cacheGet : Cache κ → κ → Option (List Nat)
  | [], _ => none
  | (k', rows) :: r, k => if k' = k then some rows else cacheGet r k

/-- `Results.get_or_exec(statement, loader)`: a hit answers from the cache, a miss runs the loader
and stores what it returned -/
def getOrExec (key : List (Term α) → κ) (cache : Cache κ) (ts : List (Term α)) (data : List α) :
    List Nat × Cache κ :=
  match cacheGet cache (key ts) with
  | some rows => (rows, cache)
  | none => (deliverIdx ts data, (key ts, deliverIdx ts data) :: cache)

/-- one launch through the cached reader; a refused launch leaves the cache as it was -/
def launchCached (key : List (Term α) → κ) (cache : Cache κ) (ord : Option (Kind × Once))
    (lo hi : Option (Raw α)) (data : List α) : Except Err (List Nat) × Cache κ :=
  match prepared ord lo hi with
  | .error e => (.error e, cache)
  | .ok ts => (.ok (getOrExec key cache ts data).1, (getOrExec key cache ts data).2)

/-- a history of launches through one cache -/
def runWindowsCached (key : List (Term α) → κ) (cache : Cache κ) (ord : Option (Kind × Once)) :
    List (Option (Raw α) × Option (Raw α)) → List α → List (Except Err (List Nat)) × Cache κ
  | [], _ => ([], cache)
  | w :: r, data =>
    ((launchCached key cache ord w.1 w.2 data).1 ::
        (runWindowsCached key (launchCached key cache ord w.1 w.2 data).2 ord r data).1,
      (runWindowsCached key (launchCached key cache ord w.1 w.2 data).2 ord r data).2)

/-- `_statement2key` as it is: the rendered statement *with* its literals (for one base statement
and one table: the terms of the window predicate) -/
def keyLiteral (ts : List (Term α)) : List (Term α) := ts

/-- a key that sees the parameters by name only -/
def keyShape (ts : List (Term α)) : List Cmp := ts.map (·.1)

/-- `sourceWindows` read through the alchemy feed's result cache (empty at the start) -/
def sourceWindowsCached (kindOf : Nat → Kind) (ordinal : Option Nat) (a : OnceArg) (ships : Nat)
    (wins : List (Option (Raw α) × Option (Raw α))) (data : List α) :
    Except Err (List (Except Err (List Nat))) :=
  match extractNew ordinal a with
  | .error e => .error e
  | .ok o =>
    match shipN ships o with
    | .error e => .error e
    | .ok o' => .ok (runWindowsCached keyLiteral [] (toOrd kindOf o') wins data).1

end

end ForML.Ordinal
