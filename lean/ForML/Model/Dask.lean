/-
Model of the Dask runner (C02).

Mirrors forml/provider/runner/dask.py

    @staticmethod
    def _mkjob(symbols):
        def link(leaf):
            if leaf not in branches:
                branches[leaf] = dask.delayed(leaf, pure=True, traverse=False)(*(link(a) for a in args.get(leaf, [])))
            return branches[leaf]
        args = dict(symbols)
        assert len(args) == len(symbols), 'Duplicated symbols in DAG sequence'
        leaves = set(args).difference(p for a in args.values() for p in a)
        assert leaves, 'Not acyclic'
        branches = {}
        return (link(d) for d in leaves)

    def run(cls, symbols, **kwargs):
        dask.compute(cls._mkjob(symbols))

The linked `Delayed` objects form a dask task graph: one task per linked instruction object, its arguments
being the tasks of the argument instructions. The model represents that graph as a `Table` again (task key
= instruction identity) in the order in which `branches` is filled (post-order of `link`).

Dask's local schedulers (synchronous / threads / processes) are *assumed* to evaluate the graph in
dependency order, each task once (DESIGN.md C02 "modelled, not verified"): `evalDask` is the memoising
evaluation `evalM` of `Symbols.lean` started from the leaves.

Not modelled: `pure=True` name tokenisation (two instruction objects with equal content and equal argument
tasks collapse into one task, which then runs once; the values are the same), CPython's recursion limit
(`link` recurses once per level; a table deeper than a few hundred levels raises `RecursionError`), an
argument instruction that is not a symbol of the table (Python links it as an argument-less task of a foreign
object; the model leaves it out of the graph so that its value is `error unbound`).

Core Lean only.
-/
import ForML.Model.Symbols
import ForML.Model.TableWF

namespace ForML.Flow

inductive DaskErr where
  | duplicated   -- AssertionError 'Duplicated symbols in DAG sequence'
  | notAcyclic   -- AssertionError 'Not acyclic' (no leaf at all)
  | recursion    -- RecursionError: a cycle is reachable from a leaf
  deriving DecidableEq, Repr, Inhabited

/-- the linked job: the dask graph, the keys handed to `dask.compute`, and the evaluation fuel (a
modelling artefact: the graph of a successful `mkjob` is acyclic, the fuel only has to be large enough) -/
structure Job where
  graph : Table
  outputs : List Key
  fuel : Nat
  deriving Repr, Inhabited

/-- `link(leaf)` with the memo `branches` (here: the graph built so far). `none` = the recursion does not
terminate (Python: `RecursionError`). -/
def link (t : Table) : Nat → Table → Key → Option Table
  | 0, _, _ => none
  | f + 1, br, k =>
    if (br.find k).isSome then some br            -- `leaf in branches`
    else
      match t.find k with                          -- `args.get(leaf, [])` (no duplicate keys at this point)
      | none => some br                            -- foreign instruction: see the header
      | some s =>
        match s.args.foldlM (fun b a => link t f b a) br with
        | none => none
        | some br' => some (br' ++ [⟨k, s.instr, s.args⟩])

/-- `Runner._mkjob` (the generator is consumed by `dask.compute`, leaves taken in table order) -/
def mkjob (t : Table) : Except DaskErr Job :=
  if hasDup (t.map (·.id)) then .error .duplicated
  else
    let leaves := t.sinks
    if leaves.isEmpty then .error .notAcyclic
    else
      match leaves.foldlM (fun b k => link t t.fuel b k) [] with
      | none => .error .recursion
      | some g => .ok ⟨g, leaves, t.fuel⟩

/-- evaluation of the linked graph by a dask scheduler: memoised recursion from the outputs -/
def evalDask (A : Option Assets) (job : Job) : Memo :=
  job.outputs.foldl (fun m k => (evalM A job.graph job.fuel m k).1) ⟨[], []⟩

/-- `Runner.run`: the values of the outputs (and, through `Memo.trace`, which tasks ran) -/
def runDask (A : Option Assets) (t : Table) : Except DaskErr Memo :=
  match mkjob t with
  | .error e => .error e
  | .ok job => .ok (evalDask A job)

end ForML.Flow
