/-
C18 — level keys and listings (core Lean only).

Mirrors
  * forml/io/asset/_directory/level/minor.py  `Generation.Key.__new__` / `.next`
        (`int(str(key))`, `>= MIN (=1)`, `self + 1`)
  * forml/io/asset/_directory/__init__.py      `Level.Listing.__new__` (`sorted(set(items))`), `.last`
  * forml/io/asset/_directory/level/major.py   `Release.Key` = `packaging.version.Version`
        (`packaging/version.py` `_cmpkey`, `Version.__str__`, comparison = comparison of `_key` tuples)

Characters are Unicode code points (`Nat`).  `int(str)` is modelled on ASCII text (Python also accepts
Unicode decimal digits / Unicode white space; the harness keeps those in an oracle-only stream).
-/
namespace ForML

/-- results are compared in kernel-checked examples -/
instance instDecidableEqExcept [DecidableEq ε] [DecidableEq α] : DecidableEq (Except ε α)
  | .ok a, .ok b => if h : a = b then isTrue (h ▸ rfl) else isFalse (by intro e; cases e; exact h rfl)
  | .error a, .error b => if h : a = b then isTrue (h ▸ rfl) else isFalse (by intro e; cases e; exact h rfl)
  | .ok _, .error _ => isFalse (by intro e; cases e)
  | .error _, .ok _ => isFalse (by intro e; cases e)

end ForML

namespace ForML.Keys

/-! ### comparators (Python tuple / list comparison) -/

def natCmp (a b : Nat) : Ordering := if a < b then .lt else if a = b then .eq else .gt
def intCmp (a b : Int) : Ordering := if a < b then .lt else if a = b then .eq else .gt

/-- Python sequence comparison: first differing element decides, otherwise the shorter is smaller. -/
def listCmp (c : α → α → Ordering) : List α → List α → Ordering
  | [], [] => .eq
  | [], _ :: _ => .lt
  | _ :: _, [] => .gt
  | a :: as, b :: bs =>
    match c a b with
    | .lt => .lt
    | .gt => .gt
    | .eq => listCmp c as bs

/-- 2-tuples. -/
def prodCmp (c1 : α → α → Ordering) (c2 : β → β → Ordering) : α × β → α × β → Ordering
  | (a1, b1), (a2, b2) =>
    match c1 a1 a2 with
    | .lt => .lt
    | .gt => .gt
    | .eq => c2 b1 b2

/-- an optional trailing tuple element: the shorter tuple (absent) is smaller. -/
def optCmp (c : α → α → Ordering) : Option α → Option α → Ordering
  | none, none => .eq
  | none, some _ => .lt
  | some _, none => .gt
  | some a, some b => c a b

/-! ### `Level.Listing` -/

/-- insertion into a strictly sorted list; an element equal to one already present is dropped
(`set` semantics: the first one stays). -/
def insert (cmp : α → α → Ordering) (x : α) : List α → List α
  | [] => [x]
  | y :: r =>
    match cmp x y with
    | .lt => x :: y :: r
    | .eq => y :: r
    | .gt => y :: insert cmp x r

/-- `Listing(items)` = `tuple(sorted(set(items)))` -/
def listing (cmp : α → α → Ordering) (xs : List α) : List α :=
  xs.foldl (fun acc x => insert cmp x acc) []

inductive ListingErr where
  | empty
  deriving DecidableEq, Repr

/-- `Listing.last`: `self[-1]`, `Listing.Empty` on an empty listing -/
def last (l : List α) : Except ListingErr α :=
  match l.getLast? with
  | some x => .ok x
  | none => .error .empty

/-! ### `Generation.Key` -/

/-- what `int()` strips from ASCII text: `\t \n \v \f \r` and space -/
def isSpace (c : Nat) : Bool := c == 32 || (9 ≤ c && c ≤ 13)
def isDigit (c : Nat) : Bool := 48 ≤ c && c ≤ 57

def lstrip : List Nat → List Nat
  | [] => []
  | c :: r => if isSpace c then lstrip r else c :: r

def strip (s : List Nat) : List Nat := (lstrip (lstrip s).reverse).reverse

/-- `digit (["_"] digit)*` with accumulator; `pd` = the previous character was a digit -/
def digitsVal : Nat → Bool → List Nat → Option Nat
  | acc, pd, [] => if pd then some acc else none
  | acc, pd, c :: r =>
    if isDigit c then digitsVal (acc * 10 + (c - 48)) true r
    else if c == 95 && pd then digitsVal acc false r
    else none

/-- `int(text)` for base 10 -/
def parseInt (s : List Nat) : Option Int :=
  match strip s with
  | [] => none
  | c :: r =>
    if c == 43 then (digitsVal 0 false r).map Int.ofNat                       -- `+`
    else if c == 45 then (digitsVal 0 false r).map (fun n => - Int.ofNat n)   -- `-`
    else (digitsVal 0 false (c :: r)).map Int.ofNat

inductive KeyErr where
  | notInteger   -- `Invalid('... (not an integer)')`
  | notNatural   -- `Invalid('... (not natural)')`
  deriving DecidableEq, Repr

def genMin : Nat := 1

/-- `Generation.Key(key)` on `str(key)` -/
def genKey (s : List Nat) : Except KeyErr Nat :=
  match parseInt s with
  | none => .error .notInteger
  | some i => if i < (genMin : Int) then .error .notNatural else .ok i.toNat

/-- `Generation.Key.next` -/
def genNext (k : Nat) : Nat := k + 1

/-- little-endian decimal digits (fuel-bounded) -/
def digitsLE : Nat → Nat → List Nat
  | 0, _ => []
  | f + 1, n => if n < 10 then [48 + n] else (48 + n % 10) :: digitsLE f (n / 10)

/-- `str(n)` for a natural number -/
def natStr (n : Nat) : List Nat := (digitsLE (n + 1) n).reverse

/-! ### `Release.Key` (PEP 440) -/

/-- a local-version segment: `int` or lower-cased `str` -/
inductive Seg where
  | num (n : Nat)
  | str (s : List Nat)
  deriving DecidableEq, Repr

/-- a parsed `packaging.version.Version` (`pre` kind: 0 = a, 1 = b, 2 = rc) -/
structure Version where
  epoch : Nat
  release : List Nat
  pre : Option (Nat × Nat)
  post : Option Nat
  dev : Option Nat
  loc : Option (List Seg)
  deriving DecidableEq, Repr

/-- `(epoch, release, suffix[, local])` -/
abbrev CmpKey := Nat × List Nat × List Int × Option (List (Int × List Nat))

/-- strip trailing zeros of the release -/
def trim (r : List Nat) : List Nat := (r.reverse.dropWhile (· == 0)).reverse

def stableSuffix : List Int := [3, 0, 0, 0, 1, 0]

/-- `packaging.version._cmpkey` -/
def cmpkey (v : Version) : CmpKey :=
  let trimmed := trim v.release
  match v.pre, v.post, v.dev, v.loc with
  | none, none, none, none => (v.epoch, trimmed, stableSuffix, none)   -- fast path
  | pre, post, dev, loc =>
    let (preRank, preN) : Int × Int :=
      match pre, post, dev with
      | none, none, some _ => (-1, 0)            -- dev-only
      | none, _, _ => (3, 0)                     -- no pre-release tag
      | some (k, n), _, _ => (k, n)
    let postRank : Int := if post.isNone then 0 else 1
    let postN : Int := post.getD 0
    let devRank : Int := if dev.isNone then 1 else 0
    let devN : Int := dev.getD 0
    let suffix := [preRank, preN, postRank, postN, devRank, devN]
    (v.epoch, trimmed, suffix,
      loc.map (fun segs => segs.map (fun
        | .num n => ((n : Int), [])
        | .str s => (-1, s))))

/-- comparison of two `_key` tuples -/
def cmpKey : CmpKey → CmpKey → Ordering :=
  prodCmp natCmp (prodCmp (listCmp natCmp) (prodCmp (listCmp intCmp)
    (optCmp (listCmp (prodCmp intCmp (listCmp natCmp))))))

/-- `a < b` / `a == b` on versions -/
def vcmp (a b : Version) : Ordering := cmpKey (cmpkey a) (cmpkey b)

def joinWith (sep : List Nat) : List (List Nat) → List Nat
  | [] => []
  | [x] => x
  | x :: r => x ++ sep ++ joinWith sep r

def preLetter : Nat → List Nat
  | 0 => [97]          -- a
  | 1 => [98]          -- b
  | _ => [114, 99]     -- rc

/-- `Version.__str__` (normalised text) -/
def vstr (v : Version) : List Nat :=
  let rel := joinWith [46] (v.release.map natStr)
  let s := if v.epoch ≠ 0 then natStr v.epoch ++ [33] ++ rel else rel
  let s := match v.pre with
    | some (k, n) => s ++ preLetter k ++ natStr n
    | none => s
  let s := match v.post with
    | some n => s ++ [46, 112, 111, 115, 116] ++ natStr n
    | none => s
  let s := match v.dev with
    | some n => s ++ [46, 100, 101, 118] ++ natStr n
    | none => s
  match v.loc with
  | some segs => s ++ [43] ++ joinWith [46] (segs.map (fun | .num n => natStr n | .str t => t))
  | none => s

end ForML.Keys
