/-
C06 — reader level: model of the read path of the SQL feeds *including their caches*.

  Python                                                           here
  ---------------------------------------------------------------  -----------------------------------------------
  io.Feed.Reader.__call__ / _parse_statement                       `parse` (ForML.Model.Parser)
  provider/feed/alchemy.py  Results._frames (class attribute of    `State.mem`  (process-wide, every alchemy-based
      Feed.Reader: one per process), get_or_exec, exists               reader shares it)
  Results._key2path: $FORML_HOME/.cache/alchemy/<sha256(sql)>      `State.disk` (survives a restart)
  Results._statement2key(statement) = sha256(SQL text rendered     `keyOf q = Render.sel q`: the token sequence of the
      with `literal_binds`: the literal values are in the text)        rendered statement *including its literal values*
                                                                   (ForML.Model.SqlRender; the connection / feed is
                                                                   *not* part of the key)
  io/_input/_producer.py  Reader._parse_statement (`lru_cache`     `State.parsed`: per reader (= feed of the process)
      per reader instance, keyed by the DSL statement)                 and statement the emitted SQL; gone at restart
  provider/feed/lazy.py  Feed.Reader.BACKEND (in-memory DuckDB,    `State.backend`
      class attribute), register(origin.key, frame)
  lazy.Feed.Reader.PARTITIONS keyed by Origin (`__eq__`: same       `State.partitions` (origin class, source)
      class and same `source`; the hash is the source's)
  lazy.Feed.Reader.__call__: register the statement's tables       `registerTables`
      unless RESULTS.exists(parsed) or the origin is registered

A feed reads one *storage* (the database behind its connection, or its own inline / file content).  Operations of a
history: `read feed statement`, `mutate storage content`, `restart` (new process, same ForML home directory).
Core Lean only.
-/
import ForML.Model.Parser
import ForML.Model.DslDenote
import ForML.Model.SqlRender

namespace ForML.FeedCache
open ForML ForML.Dsl ForML.Rel ForML.Parser

inductive FeedKind where
  | alchemy    -- provider/feed/alchemy.py Feed: reads its connection
  | lazy       -- provider/feed/lazy.py / monolite.py Feed: registers its origins into the global backend
  deriving DecidableEq, Repr, Inhabited

structure Feed where
  kind : FeedKind
  /-- `Feed.sources`: table ↦ physical table name (lazy feeds: `repr(source)`) -/
  srcs : Sources
  /-- index of the storage this feed reads -/
  storage : Nat
  /-- lazy feeds: the origin class (`Csv`, `Parquet`, `Inline`) that provides a table; `Csv` if not listed -/
  origins : List (Source × String) := []
  deriving Repr, Inhabited

/-- `type(origin).__name__` of the origin providing table `t` -/
def Feed.classOf (f : Feed) (t : Source) : String := (f.origins.lookup t).getD "Csv"

/-- `Results._statement2key` before hashing: the rendered statement with its literal values in line -/
abbrev Key := Render.Text

def keyOf (q : SqlSel) : Key := Render.sel q

structure State where
  storages : List Db
  mem : List (Key × ORel) := []
  disk : List (Key × ORel) := []
  backend : Db := []
  /-- `PARTITIONS`: keyed by the origin, and `Origin.__eq__` is "same class and same source" -/
  partitions : List (String × Source) := []
  /-- `Reader._parse_statement` cache: (reader = index of the feed, statement) ↦ emitted SQL -/
  parsed : List ((Nat × Source) × SqlSel) := []
  deriving Repr, Inhabited

inductive Op where
  | read (feed : Nat) (s : Source)
  | mutate (storage : Nat) (db : Db)
  | restart
  deriving Repr, Inhabited

mutual
/-- `lazy._Columns.visit_element`: a column counts for its table, an element of a reference to a table for that table -/
def colTablesF : Feature → List Source
  | .lit _ => []
  | .elem o _ =>
    match o with
    | .table n fields => [.table n fields]
    | .ref (.table n fields) _ => [.table n fields]
    | _ => []
  | .alias f _ => colTablesF f
  | .expr _ args => colTablesFs args
  | .cast f _ => colTablesF f
  | .window _ _ _ => []
def colTablesFs : Features → List Source
  | .nil => []
  | .cons f fs => colTablesF f ++ colTablesFs fs
end

def colTablesFO : FeatureOpt → List Source
  | .none => []
  | .some f => colTablesF f

def colTablesOrd : Orderings → List Source
  | .nil => []
  | .cons (.mk f _) os => colTablesF f ++ colTablesOrd os

/-- all tables below a source -/
def tablesOf : Source → List Source
  | .table n fields => [.table n fields]
  | .ref inst _ => tablesOf inst
  | .join l r _ _ => tablesOf l ++ tablesOf r
  | .set l r _ => tablesOf l ++ tablesOf r
  | .query src _ _ _ _ _ _ => tablesOf src

/-- `lazy._Columns.extract`: the tables *of which a column is used* anywhere in the statement (projection — all
features of the source if nothing is selected —, filters, grouping, ordering, join conditions, nested statements).
A table none of whose columns is used is not loaded (known finding C06-F5). -/
def usedTables : Source → List Source
  | .table _ _ => []
  | .ref inst _ => usedTables inst
  | .join l r _ c => colTablesFO c ++ usedTables l ++ usedTables r
  | .set l r _ => usedTables l ++ usedTables r
  | .query src sel pre grp post ord _ =>
    (if sel.isEmpty then tablesOf src else colTablesFs sel) ++ colTablesFO pre ++ colTablesFs grp ++ colTablesFO post ++
      colTablesOrd ord ++ usedTables src

def storageOf (st : State) (f : Feed) : Db := st.storages.getD f.storage []

/-- `Results.exists` -/
def cached (st : State) (q : SqlSel) : Bool := (st.mem.lookup (keyOf q)).isSome || (st.disk.lookup (keyOf q)).isSome

/-- lazy feeds: `BACKEND.execute(register(origin.key, origin(partitions)))` for every table of the statement whose
origin is not yet in `PARTITIONS` (origins compare by their source only) -/
def registerTables (st : State) (f : Feed) : List Source → State
  | [] => st
  | t :: ts =>
    let st := if st.partitions.contains (f.classOf t, t) then st else
      match f.srcs.lookup t with
      | none => st
      | some key =>
        match (storageOf st f).lookup key with
        | none => st
        | some content =>
          { st with backend := (key, content) :: st.backend.filter (·.1 != key),
                    partitions := (f.classOf t, t) :: st.partitions }
    registerTables st f ts

/-- `Reader._parse_statement(statement)` of reader `i`: the cached SQL, else parse and remember (a failing parse is
not remembered: `lru_cache` does not cache exceptions) -/
def parseCached (st : State) (i : Nat) (f : Feed) (s : Source) : State × Except PErr SqlSel :=
  match st.parsed.lookup (i, s) with
  | some q => (st, .ok q)
  | none =>
    match parse f.srcs s with
    | .error e => (st, .error e)
    | .ok q => ({ st with parsed := ((i, s), q) :: st.parsed }, .ok q)

/-- `Feed.Reader.__call__` after parsing: (lazy feeds) register the tables unless the result is known, then
`Results.get_or_exec` -/
def exec (st : State) (f : Feed) (s : Source) (q : SqlSel) : State × Option ORel :=
  let st := if f.kind = .lazy && !cached st q then registerTables st f (usedTables s) else st
  match st.mem.lookup (keyOf q) with
  | some frame => (st, some frame)
  | none =>
    match st.disk.lookup (keyOf q) with
    | some frame => ({ st with mem := (keyOf q, frame) :: st.mem }, some frame)
    | none =>
      let db := if f.kind = .lazy then st.backend else storageOf st f
      match evalSql q db with
      | none => (st, none)
      | some frame => ({ st with mem := (keyOf q, frame) :: st.mem, disk := (keyOf q, frame) :: st.disk }, some frame)

/-- one `reader(statement)` call of the reader of feed `i` -/
def read (st : State) (i : Nat) (f : Feed) (s : Source) : State × Option ORel :=
  match parseCached st i f s with
  | (st, .error _) => (st, none)
  | (st, .ok q) => exec st f s q

def step (feeds : List Feed) (st : State) : Op → State × Option (Option ORel)
  | .read i s =>
    match feeds[i]? with
    | none => (st, some none)
    | some f => let (st, out) := read st i f s; (st, some out)
  | .mutate i db => ({ st with storages := st.storages.set i db }, none)
  | .restart => ({ st with mem := [], backend := [], partitions := [], parsed := [] }, none)

/-- outputs of the reads of a history, in order -/
def run (feeds : List Feed) : State → List Op → List (Option ORel)
  | _, [] => []
  | st, op :: ops =>
    match step feeds st op with
    | (st, some out) => out :: run feeds st ops
    | (st, none) => run feeds st ops

/-- what the property demands of each read: the denotation over the feed's own storage *at read time* -/
def spec (feeds : List Feed) : List Db → List Op → List (Option ORel)
  | _, [] => []
  | dbs, .read i s :: ops =>
    (match feeds[i]? with
     | none => none
     | some f => Denote.denote f.srcs s (dbs.getD f.storage [])) :: spec feeds dbs ops
  | dbs, .mutate i db :: ops => spec feeds (dbs.set i db) ops
  | dbs, .restart :: ops => spec feeds dbs ops

end ForML.FeedCache
