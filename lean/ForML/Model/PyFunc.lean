/-
Model of the single-function runner used for serving (C02).

Mirrors forml/provider/runner/pyfunc.py:
  * `Expression._order`   level assignment by an (un-memoised) depth-first walk from the tail, insertion-ordered
                          `index` dict, stable sort by level (descending)
  * `Expression._build`   loaders are condensed (executed at build time), presets are reduced at build time,
                          `szout` counts the consumers of every term
  * `Expression.__init__` provider deques; `Branch.fork` -> `szout` equivalent `Replica`s sharing a deque (the head's
                          provider is forked too); `Chain` for one argument, `Zip` for several
  * `Term.__call__`s      `Zip` evaluates its branches left to right; a `Replica` pops a queued value if there is
                          one, otherwise evaluates its term and queues `replicas` copies for the parallel branches

This is the code after the repair fixes/C02-pyfunc-replica-fork.diff (before it `fork` produced one `Push` and
`szout-1` `Pop`s: a `Pop` evaluated before its `Push` raised IndexError, and the head's provider was never forked;
DESIGN.md section 7, D1/D2).

Where the Python raises, the model returns the error class (`PfErr`); nothing is totalised away. Evaluation of a
built expression cannot raise in the model (symbolic actors never do).

Core Lean only.
-/
import ForML.Model.Symbols
import ForML.Model.Dask

namespace ForML.Flow.PyFunc
open ForML.Flow

inductive PfErr where
  | assertion    -- AssertionError: 'Expecting single output DAG', 'Invalid DAG', 'Unexpected instruction',
                 -- 'Dependent loader', 'Outstanding providers'
  | keyError     -- `dag[node]`, `i2t[...]`
  | indexError   -- pop from an empty deque
  | typeError    -- `Chain(term)` without its `left`
  | valueError   -- `value, *args = args` with no argument left for a preset
  | unexpected   -- `State.offset`: UnexpectedError (loader of a group that is not persistent)
  | noAssets     -- loader without an asset accessor (cannot be built by the compiler; AttributeError)
  | recursion    -- RecursionError: cyclic table
  | unsupported  -- outside the model: a state preset fed by an instruction that is not a loader (train-mode table;
                 -- Python sets the *instruction object* as actor state); a table binding one instruction twice
                 -- (`dict(symbols)` keeps the last binding at the first position)
  deriving DecidableEq, Repr, Inhabited

/-! ### `_order` -/

/-- the insertion-ordered `index` dict (`collections.defaultdict(int)`) -/
abbrev Index := List (Key × Nat)

/-- `index[node] = max(index[node], level)` (a missing key is inserted at the end) -/
def bump (k : Key) (lvl : Nat) : Index → Index
  | [] => [(k, lvl)]
  | (k', l) :: r => if k' = k then (k', max l lvl) :: r else (k', l) :: bump k lvl r

/-- `walk(level, *parents)`; `none` fuel = the recursion never returns (cyclic table) -/
def walk (t : Table) : Nat → Nat → List Key → Index → Except PfErr Index
  | 0, _, _, _ => .error .recursion
  | f + 1, lvl, parents, ix =>
    parents.foldlM (fun ix node =>
      match t.find node with          -- `dag[node]`
      | none => .error .keyError
      | some s => walk t f (lvl + 1) s.args (bump node lvl ix)) ix

/-- stable insertion into a list sorted by level, descending (`sorted(..., reverse=True)` keeps the
original order of equal levels) -/
def insertDesc (e : Key × Nat) : Index → Index
  | [] => [e]
  | x :: r => if x.2 < e.2 then e :: x :: r else x :: insertDesc e r

def sortDesc (ix : Index) : Index := ix.foldl (fun acc e => insertDesc e acc) []

/-- `Expression._order` -/
def order (t : Table) : Except PfErr (List Key) :=
  match t.sinks with                     -- `set(dag).difference(...)`: keys of the dict that are nobody's argument
  | [tail] =>
    match t.find tail with
    | none => .error .keyError
    | some s =>
      match walk t t.fuel 1 s.args [(tail, 0)] with
      | .error e => .error e
      | .ok ix => .ok ((sortDesc ix).map (·.1))
  | _ => .error .assertion

/-! ### `_build` -/

/-- the raw lambda term of a node: `Task(actor, action)` (presets already applied to the actor) or `Get(i)` -/
inductive Raw where
  | task (a : Actor) (st : Val) (action : Action)
  | get (i : Nat)
  deriving Repr, Inhabited

/-- `Expression.Node(term, szout, args)`; a term is identified by the instruction it was made from -/
structure Node where
  key : Key
  raw : Raw
  szout : Nat
  args : List Key
  deriving Repr, Inhabited

/-- `evaluate(arg)`: a loader is executed at build time, anything else stays an instruction -/
inductive Evaluated where
  | value (v : Val)
  | instr (k : Key)
  deriving Repr, Inhabited

def evaluate (A : Option Assets) (t : Table) (a : Key) : Except PfErr Evaluated :=
  match t.find a with
  | some ⟨_, .loader g, _⟩ =>
    match A with
    | none => .error .noAssets
    | some A =>
      match A.offset g with
      | none => .error .unexpected
      | some _ => .ok (.value (A.load g))
  | _ => .ok (.instr a)

/-- `action.reduce(actor, *args)`: every preset takes the leading argument (a truthy value is set as state) -/
def reduce : List Preset → Val → List Evaluated → Except PfErr (Val × List Evaluated)
  | [], st, args => .ok (st, args)
  | .setState :: _, _, [] => .error .valueError
  | .setState :: ps, st, .value v :: args => reduce ps (if v.truthy then v else st) args
  | .setState :: _, _, .instr _ :: _ => .error .unsupported

/-- `resolve(a)`: `i2t[a]` -/
def resolve (built : List (Key × Raw × List Key)) : Evaluated → Except PfErr Key
  | .value _ => .error .keyError
  | .instr k => if built.any (fun n => n.1 = k) then .ok k else .error .keyError

/-- `(evaluate(a) for a in upstream[instruction])` -/
def evaluateAll (A : Option Assets) (t : Table) : List Key → Except PfErr (List Evaluated)
  | [] => .ok []
  | a :: as =>
    match evaluate A t a with
    | .error e => .error e
    | .ok v =>
      match evaluateAll A t as with
      | .error e => .error e
      | .ok vs => .ok (v :: vs)

/-- `tuple(resolve(a) for a in args)` -/
def resolveAll (built : List (Key × Raw × List Key)) : List Evaluated → Except PfErr (List Key)
  | [] => .ok []
  | a :: as =>
    match resolve built a with
    | .error e => .error e
    | .ok k =>
      match resolveAll built as with
      | .error e => .error e
      | .ok ks => .ok (k :: ks)

/-- the loop of `_build` over the ordered instructions; `built` = `dag` (and `i2t`) so far -/
def buildLoop (A : Option Assets) (t : Table) : List Key → List (Key × Raw × List Key) →
    Except PfErr (List (Key × Raw × List Key))
  | [], built => .ok built
  | k :: rest, built =>
    match t.find k with
    | none => .error .keyError
    | some s =>
      match s.instr with
      | .dumper => .error .assertion
      | .committer => .error .assertion
      | .loader _ => if s.args.isEmpty then buildLoop A t rest built else .error .assertion
      | .getter i =>
        match resolveAll built (s.args.map .instr) with
        | .error e => .error e
        | .ok args => buildLoop A t rest (built ++ [(k, .get i, args)])
      | .functor a action presets =>
        match evaluateAll A t s.args with
        | .error e => .error e
        | .ok evs =>
          match reduce presets .none evs with
          | .error e => .error e
          | .ok (st, remaining) =>
            match resolveAll built remaining with
            | .error e => .error e
            | .ok args => buildLoop A t rest (built ++ [(k, .task a st action, args)])

/-- number of `resolve` calls that returned the term `k` -/
def countUses (built : List (Key × Raw × List Key)) (k : Key) : Nat :=
  (built.map (fun n => n.2.2.count k)).sum

/-- `Expression._build` -/
def build (A : Option Assets) (t : Table) : Except PfErr (List Node) :=
  match order t with
  | .error e => .error e
  | .ok ks =>
    match buildLoop A t ks [] with
    | .error e => .error e
    | .ok built => .ok (built.map fun n => ⟨n.1, n.2.1, countUses built n.1, n.2.2⟩)

/-! ### lambda terms -/

/-- `Term` subclasses. `raw` in provider position is the head task (called with the external argument);
`call k r bs` is `Chain(r, b)` (one branch) or `Zip(r, *bs)`; `replica q t n` is `Replica(queue, t, n)`, the
queue being named by the key of the forked node. -/
inductive Term where
  | raw (k : Key) (r : Raw)
  | call (k : Key) (r : Raw) (bs : List Term)
  | replica (q : Key) (t : Term) (replicas : Nat)
  deriving Repr, Inhabited

/-- `Branch.fork(term, szout)` -/
def fork (q : Key) (term : Term) (szout : Nat) : List Term :=
  if szout > 1 then List.replicate szout (.replica q term (szout - 1)) else [term]

/-- provider deques: term key ↦ deque of terms -/
abbrev Providers := List (Key × List Term)

def Providers.get (p : Providers) (k : Key) : Option (List Term) :=
  match p with
  | [] => none
  | (k', d) :: r => if k' = k then some d else Providers.get r k

def Providers.set (p : Providers) (k : Key) (d : List Term) : Providers :=
  match p with
  | [] => [(k, d)]
  | (k', d') :: r => if k' = k then (k', d) :: r else (k', d') :: Providers.set r k d

/-- `providers[a].popleft()` -/
def popleft (p : Providers) (k : Key) : Except PfErr (Term × Providers) :=
  match p.get k with
  | none => .error .keyError
  | some [] => .error .indexError
  | some (x :: d) => .ok (x, p.set k d)

/-- `[providers[a].popleft() for a in node.args]` -/
def popArgs : List Key → Providers → Except PfErr (List Term × Providers)
  | [], p => .ok ([], p)
  | a :: as, p =>
    match popleft p a with
    | .error e => .error e
    | .ok (x, p') =>
      match popArgs as p' with
      | .error e => .error e
      | .ok (xs, p'') => .ok (x :: xs, p'')

/-- the loop `for node in dag[1:]` of `Expression.__init__` -/
def assemble : List Node → Providers → Except PfErr Providers
  | [], p => .ok p
  | n :: rest, p =>
    match popArgs n.args p with
    | .error e => .error e
    | .ok (args, p1) =>
      match popleft p1 n.key with
      | .error e => .error e
      | .ok (own, p2) =>
        match own, args with
        | _, [] => .error .typeError                   -- `Chain(term)`: missing `left`
        | .raw k r, _ =>
          let d := (p2.get n.key).getD []
          assemble rest (p2.set n.key (d ++ fork n.key (.call k r args) n.szout))
        | _, _ => .error .assertion                   -- unreachable: the own provider is the raw term

/-- `Expression.__init__` -/
def expression (A : Option Assets) (t : Table) : Except PfErr Term :=
  if hasDup (t.map (·.id)) then .error .unsupported else
  match build A t with
  | .error e => .error e
  | .ok dag =>
    match dag, dag.getLast? with
    | first :: rest, some last =>
      if last.szout ≠ 0 || !first.args.isEmpty then .error .assertion      -- 'Invalid DAG'
      else
        let providers : Providers :=
          (first.key, fork first.key (.raw first.key first.raw) first.szout) ::
            rest.map fun n => (n.key, [Term.raw n.key n.raw])
        match assemble rest providers with
        | .error e => .error e
        | .ok p =>
          match p.get last.key with
          | some [term] =>
            if (p.set last.key []).all (fun e => e.2.isEmpty) then .ok term
            else .error .assertion                                         -- 'Outstanding providers'
          | _ => .error .assertion
    | _, _ => .error .assertion                                            -- `len(dag) > 0`

/-! ### evaluation -/

/-- the replica queues (`collections.deque` per forked node) -/
abbrev Queues := List (Key × List Val)

def Queues.get (q : Queues) (k : Key) : List Val :=
  match q with
  | [] => []
  | (k', d) :: r => if k' = k then d else Queues.get r k

def Queues.set (q : Queues) (k : Key) (d : List Val) : Queues :=
  match q with
  | [] => [(k, d)]
  | (k', d') :: r => if k' = k then (k', d) :: r else (k', d') :: Queues.set r k d

/-- the discrete action on the prepared actor: `Task.__call__` / `Get.__call__` -/
def Raw.call : Raw → List Val → Val
  | .task a st .apply, args => .apply a st args
  | .task a st .train, [x, y] => .state a st x y
  | .task _ _ .train, _ => .error .arity
  | .get i, [v] => .proj i v
  | .get _, _ => .error .arity

mutual
/-- `term(arg)` with the queue state threaded left to right -/
def eval (x : Val) : Term → Queues → Val × Queues
  | .raw _ r, q => (r.call [x], q)
  | .call _ r bs, q =>
    let (vs, q') := evalArgs x bs q
    (r.call vs, q')
  | .replica k t n, q =>
    match q.get k with
    | v :: d => (v, q.set k d)                         -- `if self._queue: return self._queue.popleft()`
    | [] =>
      let (v, q') := eval x t q
      (v, q'.set k (q'.get k ++ List.replicate n v))
/-- the generator `(b(arg) for b in branches)` -/
def evalArgs (x : Val) : List Term → Queues → List Val × Queues
  | [], q => ([], q)
  | b :: bs, q =>
    let (v, q') := eval x b q
    let (vs, q'') := evalArgs x bs q'
    (v :: vs, q'')
end

/-- `Expression.__call__`: `try: return self._term(arg) finally: <every fork>.reset()` — the queues are emptied
after every call, so every call starts from empty queues -/
def Term.run (term : Term) (x : Val) : Val := (eval x term []).1

/-- `Expression(symbols)(x)` -/
def evalExpr (A : Option Assets) (t : Table) (x : Val) : Except PfErr Val :=
  match expression A t with
  | .error e => .error e
  | .ok term => .ok (term.run x)

/-- two consecutive calls of one expression object -/
def evalExprTwice (A : Option Assets) (t : Table) (x y : Val) : Except PfErr (Val × Val) :=
  match expression A t with
  | .error e => .error e
  | .ok term => .ok (term.run x, term.run y)

/-! ### the meaning of a table with an external input (`run t[x]`) -/

/-- Denotation of instruction `k` when the head `h` receives the external input `x` as an additional (last)
argument: the reference for `Expression(symbols)(x)`. -/
def valueIn (A : Option Assets) (t : Table) (h : Key) (x : Val) : Nat → Key → Val
  | 0, _ => .error .fuel
  | f + 1, k =>
    match t.find k with
    | none => .error .unbound
    | some s => exec A s.instr (s.args.map (valueIn A t h x f) ++ (if k = h then [x] else []))

end ForML.Flow.PyFunc
