/-
C18 — histories over locations: what sits where after a sequence of `Manifest.write`, `Package.create`,
`Package.install`, `Manifest.read` and removals on a small set of paths, in one process (core Lean only).

Mirrors forml/project/_distribution.py
  * `Manifest.write(path)`: `path/__4ml__.py` is (over)written (`mkdir(parents=True, exist_ok=True)` first — a regular
    file in the way is a `FileExistsError`); nothing else at the location is touched, in particular not `__pycache__`;
  * `Manifest.read(path)`: `setup.isolated('__4ml__', path)` = the Python import system on `path`.  For a directory
    that is `SourceFileLoader.get_code`: a cached `__pycache__/__4ml__.*.pyc` is used when its recorded source mtime
    (whole seconds) and source size equal those of `__4ml__.py`, otherwise the source is compiled and — unless
    `sys.dont_write_bytecode` — the cache is rewritten.  `Manifest.write` removes the cache file of the module it writes
    (repair 9de0652; `stepUnrepaired` is the code before it).  For a zip file `zipimport` reads the member (no cache file;
    the directory cache is dropped by `importlib.invalidate_caches()` which `isolated` calls);
  * `Package.create(source, manifest, path)`: a zip file at `path` (`IsADirectoryError` on a directory), then `Package(path)`;
  * `Package(path).install(target)`: `Package.__new__` reads the manifest; same file → nothing; `uninstalled()` compares
    `Manifest.read(target) == self.manifest` (named-tuple equality: name, `packaging` version equality, package, module
    map as a dict) and keeps the target when equal; otherwise the target is deleted and the package is copied
    (`shutil.copytree` keeps mtimes and `__pycache__`), copied as a file (zip-safe) or extracted (new mtime).

A manifest is held as `Manifest.__new__` holds it (`SM`: the version is the parsed `packaging` version, its text on disk
is `Keys.vstr`); that the text reads back as the record is the subject of ForML.Model.Manifest (`read (render m) = m`).
The rest of a package is an opaque `Tree` (identity of the content + whether every member name ends in `.py[co]`).

Three machines are defined: the process level (`pstep`: the file level plus `sys.path_importer_cache`, one path entry
finder per location), the file level (`step`, with mtimes and the bytecode cache) and the logical one (`lstep`, a store
`Path → Content`).  ForML.Lemmas.C18Proc / C18Store prove when each refines the next.
-/
import ForML.Model.Manifest

namespace ForML.Store
open ForML.Keys

abbrev Path := Nat

/-- a manifest record (`project.Manifest`) -/
structure SM where
  name : List Nat
  version : Version
  package : List Nat
  modules : List (List Nat × List Nat)
  deriving DecidableEq, Repr

/-- the module text `Manifest.write` produces -/
def SM.text (m : SM) : List Nat := Manifest.render ⟨m.name, vstr m.version, m.package, m.modules⟩

/-- bytes of one code point in utf-8 -/
def utf8 (c : Nat) : Nat := if c < 128 then 1 else if c < 2048 then 2 else if c < 65536 then 3 else 4

/-- `st_size` of the written module -/
def SM.size (m : SM) : Nat := m.text.foldl (fun a c => a + utf8 c) 0

def lookupM (k : List Nat) : List (List Nat × List Nat) → Option (List Nat)
  | [] => none
  | (k', v) :: r => if k' == k then some v else lookupM k r

def modSub (a b : List (List Nat × List Nat)) : Bool := a.all (fun kv => lookupM kv.1 b == some kv.2)

/-- `dict.__eq__` on module maps (key lists are duplicate-free: they come from dicts) -/
def modEq (a b : List (List Nat × List Nat)) : Bool := modSub a b && modSub b a

/-- `Manifest.__eq__` (named-tuple equality; `1.0 == 1.0.0` for versions) -/
def meq (a b : SM) : Bool :=
  a.name == b.name && vcmp a.version b.version == .eq && a.package == b.package && modEq a.modules b.modules

/-- the content of a package besides its manifest -/
structure Tree where
  id : Nat
  safe : Bool        -- all archive member names match `PYSFX` (zip-safe)
  deriving DecidableEq, Repr

/-- `__pycache__/__4ml__.cpython-*.pyc`: the source mtime and size it was compiled from, and the compiled module -/
structure Pyc where
  mtime : Nat
  size : Nat
  code : SM
  deriving DecidableEq, Repr

structure Dir where
  man : Option (SM × Nat)    -- `__4ml__.py`: content, mtime in whole seconds
  pyc : Option Pyc
  tree : Option Tree
  deriving DecidableEq, Repr

inductive Entry where
  | dir (d : Dir)
  | zip (m : SM) (tree : Tree)
  deriving DecidableEq, Repr

abbrev Store := Path → Option Entry

def Store.set (s : Store) (p : Path) (e : Entry) : Store := fun q => if q = p then some e else s q
def Store.del (s : Store) (p : Path) : Store := fun q => if q = p then none else s q
def Store.empty : Store := fun _ => none

inductive Err where
  | missing     -- `forml.MissingError` (no manifest module at the location)
  | fileExists  -- `FileExistsError`: `Manifest.write` onto a regular file
  | isDir       -- `IsADirectoryError`: `Package.create` onto a directory
  deriving DecidableEq, Repr

inductive Op where
  | write (p : Path) (m : SM) (t : Nat)          -- `m.write(p)` at clock second `t`
  | create (p : Path) (m : SM) (tree : Tree)     -- `Package.create(tree, m, p)`
  | install (src dst : Path) (t : Nat)           -- `Package(src).install(dst)` at clock second `t`
  | read (p : Path)                              -- `Manifest.read(p)`
  | remove (p : Path)                            -- the location is deleted
  deriving DecidableEq, Repr

inductive Obs where
  | done
  | manifest (m : SM)                            -- what `read` / `Package(path).manifest` returned
  | installed (m : SM) (tree : Option Tree)      -- the artifact's manifest data and the content found at the target
  | error (e : Err)
  deriving DecidableEq, Repr

/-! ### the file-level machine -/

/-- the import system on `<dir>/__4ml__.py`; `bc` = bytecode files are written (`not sys.dont_write_bytecode`) -/
def loadDir (bc : Bool) (d : Dir) : Dir × Except Err SM :=
  match d.man with
  | none => (d, .error .missing)
  | some (m, mt) =>
    match d.pyc with
    | some c =>
      if c.mtime == mt && c.size == m.size then (d, .ok c.code)
      else (if bc then { d with pyc := some ⟨mt, m.size, m⟩ } else d, .ok m)
    | none => (if bc then { d with pyc := some ⟨mt, m.size, m⟩ } else d, .ok m)

/-- `Manifest.read(p)` -/
def readAt (bc : Bool) (s : Store) (p : Path) : Store × Except Err SM :=
  match s p with
  | none => (s, .error .missing)
  | some (.zip m _) => (s, .ok m)
  | some (.dir d) => ((s.set p (.dir (loadDir bc d).1)), (loadDir bc d).2)

def treeOf : Option Entry → Option Tree
  | some (.zip _ tr) => some tr
  | some (.dir d) => d.tree
  | none => none

/-- the copy / extract branch of `install` (the target has been deleted) -/
def copyTo (s : Store) (src dst : Path) (t : Nat) (m : SM) : Store × Obs :=
  match s src with
  | some (.zip m0 tr) =>
    if tr.safe then (s.set dst (.zip m0 tr), .installed m (some tr))
    else (s.set dst (.dir ⟨some (m0, t), none, some tr⟩), .installed m (some tr))
  | some (.dir d) => (s.set dst (.dir d), .installed m d.tree)
  | none => (s, .error .missing)

def installAt (bc : Bool) (s : Store) (src dst : Path) (t : Nat) : Store × Obs :=
  match readAt bc s src with
  | (s1, .error e) => (s1, .error e)
  | (s1, .ok m) =>
    if src = dst then (s1, .installed m (treeOf (s1 dst)))
    else
      match readAt bc s1 dst with
      | (s2, .ok m') => if meq m' m then (s2, .installed m (treeOf (s2 dst))) else copyTo s2 src dst t m
      | (s2, .error _) => copyTo s2 src dst t m

def step (bc : Bool) (s : Store) : Op → Store × Obs
  | .write p m t =>
    match s p with
    | some (.zip _ _) => (s, .error .fileExists)
    | some (.dir d) => (s.set p (.dir { d with man := some (m, t), pyc := none }), .done)   -- repaired (9de0652): the cached bytecode is removed
    | none => (s.set p (.dir ⟨some (m, t), none, none⟩), .done)
  | .create p m tr =>
    match s p with
    | some (.dir _) => (s, .error .isDir)
    | _ => (s.set p (.zip m tr), .manifest m)
  | .install src dst t => installAt bc s src dst t
  | .read p =>
    match readAt bc s p with
    | (s1, .ok m) => (s1, .manifest m)
    | (s1, .error e) => (s1, .error e)
  | .remove p => (s.del p, .done)

def run (bc : Bool) (s : Store) : List Op → Store × List Obs
  | [] => (s, [])
  | op :: h => ((run bc (step bc s op).1 h).1, (step bc s op).2 :: (run bc (step bc s op).1 h).2)

/-- `Manifest.write` before the repair 9de0652: `__pycache__` is left alone -/
def stepUnrepaired (bc : Bool) (s : Store) : Op → Store × Obs
  | .write p m t =>
    match s p with
    | some (.zip _ _) => (s, .error .fileExists)
    | some (.dir d) => (s.set p (.dir { d with man := some (m, t) }), .done)
    | none => (s.set p (.dir ⟨some (m, t), none, none⟩), .done)
  | op => step bc s op

def runUnrepaired (bc : Bool) (s : Store) : List Op → Store × List Obs
  | [] => (s, [])
  | op :: h => ((runUnrepaired bc (stepUnrepaired bc s op).1 h).1, (stepUnrepaired bc s op).2 :: (runUnrepaired bc (stepUnrepaired bc s op).1 h).2)

/-! ### the logical machine: a store `Path → Content` -/

inductive LEntry where
  | dir (man : Option SM) (tree : Option Tree)
  | zip (m : SM) (tree : Tree)
  deriving DecidableEq, Repr

abbrev LStore := Path → Option LEntry

def LStore.set (s : LStore) (p : Path) (e : LEntry) : LStore := fun q => if q = p then some e else s q
def LStore.del (s : LStore) (p : Path) : LStore := fun q => if q = p then none else s q

/-- the manifest a location holds -/
def lman : Option LEntry → Option SM
  | some (.zip m _) => some m
  | some (.dir man _) => man
  | none => none

def ltree : Option LEntry → Option Tree
  | some (.zip _ tr) => some tr
  | some (.dir _ tr) => tr
  | none => none

def lread (s : LStore) (p : Path) : Except Err SM :=
  match lman (s p) with
  | some m => .ok m
  | none => .error .missing

def lcopy (s : LStore) (src dst : Path) (m : SM) : LStore × Obs :=
  match s src with
  | some (.zip m0 tr) =>
    if tr.safe then (s.set dst (.zip m0 tr), .installed m (some tr))
    else (s.set dst (.dir (some m0) (some tr)), .installed m (some tr))
  | some (.dir man tr) => (s.set dst (.dir man tr), .installed m tr)
  | none => (s, .error .missing)

def lstep (s : LStore) : Op → LStore × Obs
  | .write p m _ =>
    match s p with
    | some (.zip _ _) => (s, .error .fileExists)
    | some (.dir _ tr) => (s.set p (.dir (some m) tr), .done)
    | none => (s.set p (.dir (some m) none), .done)
  | .create p m tr =>
    match s p with
    | some (.dir _ _) => (s, .error .isDir)
    | _ => (s.set p (.zip m tr), .manifest m)
  | .install src dst _ =>
    match lread s src with
    | .error e => (s, .error e)
    | .ok m =>
      if src = dst then (s, .installed m (ltree (s dst)))
      else
        match lread s dst with
        | .ok m' => if meq m' m then (s, .installed m (ltree (s dst))) else lcopy s src dst m
        | .error _ => lcopy s src dst m
  | .read p =>
    match lread s p with
    | .ok m => (s, .manifest m)
    | .error e => (s, .error e)
  | .remove p => (s.del p, .done)

/-- `install` on the logical store with an arbitrary already-installed test `g installed package` -/
def linstallG (g : SM → SM → Bool) (s : LStore) (src dst : Path) : LStore × Obs :=
  match lread s src with
  | .error e => (s, .error e)
  | .ok m =>
    if src = dst then (s, .installed m (ltree (s dst)))
    else
      match lread s dst with
      | .ok m' => if g m' m then (s, .installed m (ltree (s dst))) else lcopy s src dst m
      | .error _ => lcopy s src dst m

/-- an already-installed test that looks at name and version only (not what the code does) -/
def nvEq (a b : SM) : Bool := a.name == b.name && vcmp a.version b.version == .eq

def lrun (s : LStore) : List Op → LStore × List Obs
  | [] => (s, [])
  | op :: h => ((lrun (lstep s op).1 h).1, (lstep s op).2 :: (lrun (lstep s op).1 h).2)

/-- forget mtimes and the bytecode cache -/
def absE : Entry → LEntry
  | .zip m tr => .zip m tr
  | .dir d => .dir (d.man.map (·.1)) d.tree

def abs (s : Store) : LStore := fun p => (s p).map absE

/-- the location an operation may modify logically -/
def target : Op → Option Path
  | .write p _ _ => some p
  | .create p _ _ => some p
  | .install _ dst _ => some dst
  | .read _ => none
  | .remove p => some p

/-! ### the process level: `sys.path_importer_cache`

Every import from a location (`Manifest.read`, `Package(path)`, `artifact.components`) goes through the path entry
finder Python made for that path the first time it was looked at — a `zipimporter` for a zip file, a `FileFinder` for a
directory — and keeps in `sys.path_importer_cache` for the life of the process (`importlib.invalidate_caches()` only
drops the `None` entries of paths that did not exist).  A finder of the wrong kind finds nothing. -/

/-- the kind of finder cached for a location (`true` = `zipimporter`) -/
abbrev Memo := Path → Option Bool

def Memo.empty : Memo := fun _ => none

def isZip : Entry → Bool
  | .zip _ _ => true
  | .dir _ => false

/-- the import system looks at location `p`: the cache afterwards, and whether the finder fits what is there -/
def consult (k : Memo) (s : Store) (p : Path) : Memo × Bool :=
  match s p with
  | none => (k, false)
  | some e =>
    match k p with
    | none => ((fun q => if q = p then some (isZip e) else k q), true)
    | some z => (k, z == isZip e)

/-- `Manifest.read(p)` in a process with finder cache `k` -/
def preadAt (bc : Bool) (s : Store) (k : Memo) (p : Path) : Store × Memo × Except Err SM :=
  if (consult k s p).2 then ((readAt bc s p).1, (consult k s p).1, (readAt bc s p).2)
  else (s, (consult k s p).1, .error .missing)

/-- `artifact.components`: the component modules are imported from the target -/
def pcomponents (s : Store) (k : Memo) (dst : Path) (m : SM) : Store × Memo × Obs :=
  (s, (consult k s dst).1, .installed m (if (consult k s dst).2 then treeOf (s dst) else none))

def pcopyTo (s : Store) (k : Memo) (src dst : Path) (t : Nat) (m : SM) : Store × Memo × Obs :=
  match (copyTo s src dst t m).2 with
  | .error e => ((copyTo s src dst t m).1, k, .error e)
  | _ => pcomponents (copyTo s src dst t m).1 k dst m

def pinstallAt (bc : Bool) (s : Store) (k : Memo) (src dst : Path) (t : Nat) : Store × Memo × Obs :=
  match preadAt bc s k src with
  | (s1, k1, .error e) => (s1, k1, .error e)
  | (s1, k1, .ok m) =>
    if src = dst then pcomponents s1 k1 dst m
    else
      match preadAt bc s1 k1 dst with
      | (s2, k2, .ok m') => if meq m' m then pcomponents s2 k2 dst m else pcopyTo s2 k2 src dst t m
      | (s2, k2, .error _) => pcopyTo s2 k2 src dst t m

def pstep (bc : Bool) (s : Store) (k : Memo) : Op → Store × Memo × Obs
  | .write p m t => ((step bc s (.write p m t)).1, k, (step bc s (.write p m t)).2)
  | .create p m tr =>
    match s p with
    | some (.dir _) => (s, k, .error .isDir)
    | _ =>
      match preadAt bc (s.set p (.zip m tr)) k p with
      | (s1, k1, .ok m') => (s1, k1, .manifest m')
      | (s1, k1, .error e) => (s1, k1, .error e)
  | .install src dst t => pinstallAt bc s k src dst t
  | .read p =>
    match preadAt bc s k p with
    | (s1, k1, .ok m) => (s1, k1, .manifest m)
    | (s1, k1, .error e) => (s1, k1, .error e)
  | .remove p => (s.del p, k, .done)

def prun (bc : Bool) (s : Store) (k : Memo) : List Op → Store × Memo × List Obs
  | [] => (s, k, [])
  | op :: h =>
    ((prun bc (pstep bc s k op).1 (pstep bc s k op).2.1 h).1, (prun bc (pstep bc s k op).1 (pstep bc s k op).2.1 h).2.1,
     (pstep bc s k op).2.2 :: (prun bc (pstep bc s k op).1 (pstep bc s k op).2.1 h).2.2)

/-- the cached finder of a location (if any) fits what is there (if anything) -/
def agree (k : Memo) (s : Store) (p : Path) : Bool :=
  match k p, s p with
  | some z, some e => z == isZip e
  | _, _ => true

/-- an operation leaves its target with a kind that the finder cache can serve -/
def okKind (bc : Bool) (s : Store) (k : Memo) (op : Op) : Bool :=
  match target op with
  | some p => agree (pstep bc s k op).2.1 (pstep bc s k op).1 p
  | none => true

def pokRun (bc : Bool) (s : Store) (k : Memo) : List Op → Bool
  | [] => true
  | op :: h => okKind bc s k op && pokRun bc (pstep bc s k op).1 (pstep bc s k op).2.1 h

end ForML.Store
