/-
C20 — section resolution beyond the plain provider section: model of `forml/setup/_conf.py` `Section.resolve`,
`Multi._lookup` and of `forml/setup/_provider.py` `Provider._extract`, `Feed._extract`/`Feed.__lt__`, `Sink.Mode.resolve`.

  Section.resolve(reference)      ↦ `defaultRef` + `resolveSingle` / `resolveMulti`
                                     (`reference or CONFIG.get(INDEX, {}).get(SELECTOR)`; falsy → MissingError)
  Section._lookup                 ↦ `resolveSingle`   (`cls(reference)`)
  Multi._lookup                   ↦ `resolveMulti`    (`[reference]` for a string; `tuple(sorted(cls(r) for r in reference))`)
  Section.__new__ + Provider._extract ↦ `resolveSection` (Model/Conf.lean)
  Feed._extract                   ↦ `feedEntry`       (`priority = kwargs.pop('priority', 0)`, then the provider's)
  Feed.__lt__ / Provider.__lt__   ↦ `Entry.lt`        (priority first, the provider reference among equal priorities)
  sorted(...)                     ↦ `sortE`           (stable insertion sort: the only stable order a strict weak `<` allows)
  Sink.Mode.resolve               ↦ `resolveMode`     (`apply`/`eval` fall back to `default`; both needed)

Scalars are naturals numbered by the harness so that the numbers of the provider references are in Python's string
order and the numbers of the priorities in numeric order (the two kinds are never compared with each other).  A
section reference is a (truthy) scalar; the empty list is the one falsy value modelled.  Core Lean only.
-/
import ForML.Model.Conf

namespace ForML.Conf

/-- `CONFIG.get(INDEX, {}).get(SELECTOR)` -/
def defaultRef (cfg : Cfg) (index sel : Nat) : Except SecErr (Option Cfg) :=
  match child cfg index with
  | none => .ok none
  | some (.table t) => .ok (lookup sel t)
  | some _ => .error .malformed

/-- `reference = reference or <default>`; `if not reference: raise MissingError` -/
def chooseRef (cfg : Cfg) (index sel : Nat) (explicit : Option Cfg) : Except SecErr Cfg :=
  match explicit with
  | some r => .ok r
  | none =>
    match defaultRef cfg index sel with
    | .error e => .error e
    | .ok none => .error .missing
    | .ok (some (.list [])) => .error .missing
    | .ok (some r) => .ok r

/-- a resolved provider section: (provider reference or `none` = the section name, generic params) -/
abbrev Resolved := Option Cfg × Tbl

/-- `Section.resolve` of a single-instance provider section (Runner, Registry, Sink, Inventory, Gateway) -/
def resolveSingle (cfg : Cfg) (index group sel kProvider kParams : Nat) (explicit : Option Cfg) : Except SecErr Resolved :=
  match chooseRef cfg index sel explicit with
  | .error e => .error e
  | .ok (.scalar r) => resolveSection cfg group r kProvider kParams
  | .ok _ => .error .malformed   -- a list / table as reference: `CONFIG[GROUP][reference]` raises TypeError

/-- `Provider._extract` on the section's options: `provider = kwargs.pop('provider', reference)`, then
`kwargs.update(kwargs.pop('params', {}))` (the tail of `resolveSection`) -/
def extractKw (kw : Tbl) (kProvider kParams : Nat) : Except SecErr Resolved :=
  let provider := lookup kProvider kw
  let kw := kw.filter (fun e => e.1 != kProvider)
  let params := lookup kParams kw
  let kw := kw.filter (fun e => e.1 != kParams)
  match params with
  | none => .ok (provider, kw)
  | some (.table ps) => .ok (provider, kw.filter (fun e => (lookup e.1 ps).isNone) ++ ps)
  | some _ => .error .malformed

/-- one resolved feed: the provider reference, the priority, the generic params -/
structure Entry where
  ref : Nat
  prio : Nat
  params : Tbl

/-- `Feed(reference)`: `Section.__new__` + `Feed._extract` — `priority = kwargs.pop('priority', 0)` first (a `priority`
inside `params` stays a generic option), then the provider's extraction (`prio0` is the number of the default priority) -/
def feedEntry (cfg : Cfg) (group r kProvider kParams kPriority prio0 : Nat) : Except SecErr Entry :=
  match child cfg group with
  | none => .error .missing
  | some (.table gt) =>
    match lookup r gt with
    | none => .error .missing
    | some (.table kw) =>
      let prio : Except SecErr Nat := match lookup kPriority kw with
        | none => .ok prio0
        | some (.scalar p) => .ok p
        | some _ => .error .malformed   -- `float(priority)` of a list / table
      match extractKw (kw.filter (fun e => e.1 != kPriority)) kProvider kParams, prio with
      | .error e, _ => .error e
      | .ok _, .error e => .error e
      | .ok (none, params), .ok p => .ok ⟨r, p, params⟩
      | .ok (some (.scalar q), params), .ok p => .ok ⟨q, p, params⟩
      | .ok (some _, _), .ok _ => .error .malformed
    | some _ => .error .malformed
  | some _ => .error .malformed

/-- `Feed.__lt__`: by priority, among equal priorities by the provider reference (`Provider.__lt__`) -/
def Entry.lt (a b : Entry) : Bool := if a.prio = b.prio then a.ref < b.ref else a.prio < b.prio

/-- insertion behind everything that is not greater: equal entries keep their order (stability of `sorted`) -/
def insertE (e : Entry) : List Entry → List Entry
  | [] => [e]
  | x :: rest => if e.lt x then e :: x :: rest else x :: insertE e rest

/-- `sorted(entries)` -/
def sortE (l : List Entry) : List Entry := l.foldl (fun acc e => insertE e acc) []

/-- `cls(r) for r in reference`: the first reference that fails decides the error -/
def entries (cfg : Cfg) (group kProvider kParams kPriority prio0 : Nat) : List Nat → Except SecErr (List Entry)
  | [] => .ok []
  | r :: rest =>
    match feedEntry cfg group r kProvider kParams kPriority prio0 with
    | .error e => .error e
    | .ok x =>
      match entries cfg group kProvider kParams kPriority prio0 rest with
      | .error e => .error e
      | .ok xs => .ok (x :: xs)

/-- `Multi._lookup(reference)` for the references chosen by `Section.resolve` -/
def resolveMulti (cfg : Cfg) (index group sel kProvider kParams kPriority prio0 : Nat) (explicit : Option Cfg) :
    Except SecErr (List Entry) :=
  match chooseRef cfg index sel explicit with
  | .error e => .error e
  | .ok (.scalar r) => (entries cfg group kProvider kParams kPriority prio0 [r]).map sortE
  | .ok (.list rs) => (entries cfg group kProvider kParams kPriority prio0 rs).map sortE
  | .ok (.table _) => .error .malformed

/-- `Sink.Mode.resolve(reference)`: the sinks of the apply and the eval mode -/
def resolveMode (cfg : Cfg) (index group kDefault kApply kEval kProvider kParams : Nat) (explicit : Option Cfg) :
    Except SecErr (Resolved × Resolved) :=
  match explicit with
  | some r =>
    (match resolveSingle cfg index group kDefault kProvider kParams (some r) with
     | .error e => .error e
     | .ok x => .ok (x, x))
  | none =>
    match child cfg index with
    | none => .error .missing   -- `CONFIG[INDEX]` KeyError → MissingError
    | some (.table t) =>
      let dflt := lookup kDefault t
      let apply := (lookup kApply t).orElse (fun _ => dflt)
      let eval := (lookup kEval t).orElse (fun _ => dflt)
      (match apply, eval with
       | some a, some e =>
         (match resolveSingle cfg index group kDefault kProvider kParams (some a) with
          | .error err => .error err
          | .ok x =>
            match resolveSingle cfg index group kDefault kProvider kParams (some e) with
            | .error err => .error err
            | .ok y => .ok (x, y))
       | _, _ => .error .missing)
    | some _ => .error .malformed

end ForML.Conf
