/-
C04 — sparse generation listings.

The generations of a release need not be the gap-free `1..n`: an administrator may remove an old generation directory
(housekeeping), after which `Release.list()` answers e.g. `[2, 3]`, `[1, 3]` or `[3]`.  `SReg` is the registry with
its keys: the listed generations in ascending key order.

* `selectS` = `release.get(generation)` + `Level.key`: an explicit key must be listed (`Level.Invalid`), an implicit
  one is `listing.last` (none: empty release);
* `nextKey` = `Release.put`: `self.list().last.next` — the successor of the *greatest listed key* at commit time, `1`
  for an empty listing (`nextKeyLen`: the numbering `len(listing) + 1` of the seeded change C04-mc2);
* `stepS`: one lifecycle action on a sparse registry.  What the action loads and commits is what `step` loads and
  commits on the registry consisting of the selected generation alone (`step` only ever touches the generation it
  selects and appends at most one); a new generation is listed under `nextKey`;
* `prune`: the administrator's removal of one generation.
-/
import ForML.Model.Persist

namespace ForML.Persist

/-- the listed generations with their keys, ascending -/
abbrev SReg := List (Nat × Generation)

namespace SReg

def keys (r : SReg) : List Nat := r.map (·.1)

/-- `release.get(k)` for an explicit key: it must be listed -/
def get? (r : SReg) (k : Nat) : Option Generation := (r.find? (fun e => e.1 == k)).map (·.2)

/-- `Release.put`: `listing.last.next`, `1` on an empty listing -/
def nextKey (r : SReg) : Nat :=
  match r.getLast? with
  | none => 1
  | some e => e.1 + 1

/-- the numbering of the seeded change C04-mc2 -/
def nextKeyLen (r : SReg) : Nat := r.length + 1

/-- housekeeping: generation `k` is removed from the registry -/
def prune (r : SReg) (k : Nat) : SReg := r.filter (fun e => e.1 != k)

/-- keys strictly ascending (what a listing of generation directories is) -/
def Ascending (r : SReg) : Prop := r.Pairwise (fun a b => a.1 < b.1)

end SReg

/-- the generation an action addresses on a sparse registry -/
def selectS (r : SReg) : Option Nat → Except Err (Option Generation)
  | none => .ok (r.getLast?.map (·.2))
  | some k =>
    match r.get? k with
    | some g => .ok (some g)
    | none => .error .invalidGeneration

/-- one lifecycle action on a sparse registry -/
def stepS (cs : Case) (r : SReg) (a : Action) : Except Err (SReg × List Obs) :=
  match selectS r a.gen with
  | .error _ =>
    -- the key is not listed: `Level.Invalid` wherever the action resolves it (`select [] (some 1)` fails alike)
    match step cs [] { a with gen := some 1 } with
    | .error e => .error e
    | .ok (_, obs) => .ok (r, obs)
  | .ok sel =>
    match step cs sel.toList { a with gen := none } with
    | .error e => .error e
    | .ok (reg', obs) =>
      match reg'.drop sel.toList.length with
      | [g] => .ok (r ++ [(r.nextKey, g)], obs)
      | _ => .ok (r, obs)

/-- what happens to a release: lifecycle actions and housekeeping -/
inductive SAct where
  | act (a : Action) (f : Fresh)
  | prune (k : Nat)

/-- a history on a sparse registry: (the registry before, the listing afterwards, what the actors observed) -/
def runSparse (cs : Case) : SReg → List SAct → List (SReg × List Nat × Option (Action × Except Err (List Obs)))
  | _, [] => []
  | r, .prune k :: rest => (r, (r.prune k).keys, none) :: runSparse cs (r.prune k) rest
  | r, .act a f :: rest =>
    match stepS (cs.rename f.1 f.2) r a with
    | .error e => (r, r.keys, some (a, .error e)) :: runSparse cs r rest
    | .ok (r', obs) => (r, r'.keys, some (a, .ok obs)) :: runSparse cs r' rest

/-! ### one process, warm caches

`TAGS` and `STATES` (forml/io/asset/_directory/level/minor.py) are process-wide `lru_cache`s keyed by (registry,
project, release, generation key[, state id]) — registries compare equal by their parameters, so the entries survive
the handle that filled them.  A generation is immutable, so this is harmless — until an administrator removes the
*latest* generation and the next training re-uses its number: the process keeps answering with the removed
generation's tag and states (finding C04-F3).  `PC` is what the process has cached: generation key ↦ content as first
read; `stepSC` is `stepS` in such a process (the listing itself is never cached: `Release.list()` asks the registry). -/

abbrev PC := List (Nat × Generation)

/-- the key an action addresses on the (fresh) listing -/
def resolveS (r : SReg) : Option Nat → Except Err (Option Nat)
  | none => .ok (r.getLast?.map (·.1))
  | some k => if (r.get? k).isSome then .ok (some k) else .error .invalidGeneration

/-- does the action read the generation it addresses (and thereby fill the caches)?  A training reads the tag eagerly
and loads every persistent state; a loading action if it gets as far as loading -/
def reads (cs : Case) (a : Action) (ok : Bool) : Bool :=
  match a.kind with
  | .train => true
  | .perftrack =>
    ok && (match cs.perf with
      | .ok p => !p.persistent.isEmpty
      | .error _ => false)
  | _ => ok && !cs.plain.persistent.isEmpty

/-- one lifecycle action on a sparse registry in a process with caches `pc` -/
def stepSC (cs : Case) (r : SReg) (pc : PC) (a : Action) : Except Err (SReg × List Obs) × PC :=
  match resolveS r a.gen with
  | .error _ =>
    (match step cs [] { a with gen := some 1 } with
      | .error e => .error e
      | .ok (_, obs) => .ok (r, obs), pc)
  | .ok none =>
    (match step cs [] { a with gen := none } with
      | .error e => .error e
      | .ok (reg', obs) =>
        match reg' with
        | [g] => .ok (r ++ [(r.nextKey, g)], obs)
        | _ => .ok (r, obs), pc)
  | .ok (some k) =>
    match (pc.lookup k).orElse (fun _ => r.get? k) with
    | none => (.error .invalidGeneration, pc)
    | some g =>
      match step cs [g] { a with gen := none } with
      | .error e => (.error e, if reads cs a false && (pc.lookup k).isNone then (k, g) :: pc else pc)
      | .ok (reg', obs) =>
        let pc' := if reads cs a true && (pc.lookup k).isNone then (k, g) :: pc else pc
        match reg'.drop 1 with
        | [g'] => (.ok (r ++ [(r.nextKey, g')], obs), pc')
        | _ => (.ok (r, obs), pc')

/-- a history on a sparse registry, all actions in one process -/
def runSparseShared (cs : Case) : SReg → PC → List SAct → List (SReg × List Nat × Option (Action × Except Err (List Obs)))
  | _, _, [] => []
  | r, pc, .prune k :: rest => (r, (r.prune k).keys, none) :: runSparseShared cs (r.prune k) pc rest
  | r, pc, .act a f :: rest =>
    match stepSC (cs.rename f.1 f.2) r pc a with
    | (.error e, pc') => (r, r.keys, some (a, .error e)) :: runSparseShared cs r pc' rest
    | (.ok (r', obs), pc') => (r, r'.keys, some (a, .ok obs)) :: runSparseShared cs r' pc' rest

/-! ### groups and builders -/

/-- The model's `Node.tag` is the *occurrence* of an actor in the expression: the harness numbers every stateful group
`builder * 100 + rank` (rank among the groups built from that builder object) — a group is not determined by its
builder: a user operator may run several passes of one builder, `MapReduce(b, b)` maps twice with one builder. -/
def builderOf (tag : Nat) : Nat := tag / 100

namespace Comp

/-- occurrence tags tell the stateful groups apart: stateful workers with one tag belong to one group (the converse of
`tagsConsistent`) -/
def groupsDistinct (c : Comp) : Bool :=
  c.nodes.all (fun n => c.nodes.all (fun m => !(n.stateful && m.stateful) || n.tag != m.tag || n.gid == m.gid))

end Comp

/-- the seeded change C04-mc1 on observations: the serving expression instantiates one actor per *builder* — every
preset lands on that one object and the last loaded state wins for all the groups built from the builder -/
def shareByBuilder (obs : List Obs) : List Obs :=
  obs.map (fun o =>
    match o with
    | .applied tag hp _ =>
      let last := (obs.filterMap (fun o' =>
        match o' with
        | .applied tag' _ s' => if builderOf tag' == builderOf tag then some s' else none
        | .trained _ _ _ => none)).getLast?
      .applied tag hp (last.getD none)
    | other => other)

end ForML.Persist
