/-
C04 — `Segment.copy` / `Traversal.copy` (forml/flow/_graph/span.py), mechanically.

`PerfTrackScore.compose` (forml/evaluation/_stage.py) registers `pipeline.apply.copy()` as the apply segment of the
evaluation's composition; `Composition.persistent` — the positional list the registry is addressed with — is the
depth-first walk (`Traversal.each`) over *that copy*.  `Comp.copied` (PersistCopy.lean) is the specification of the
copy (every subscription re-created, per publisher in the original order).  This file models how the code produces it:

```
def segments(traversal):                      # all mapper paths pivot .. tail, depth first
    if traversal.pivot == tail: yield traversal
    else:
        for node in traversal.mappers(tail): yield from segments(node)
copies = {}; get(self.pivot)
for pub, sub in ((get(o)[i], get(s.node)[s.port])
                 for t in segments(self) for o in t.members for i, p in enumerate(o.output) for s in p
                 if s.node in t.members and (o, i, s) not in seen and not seen.add((o, i, s))):
    sub.subscribe(pub)
```

* `Comp.mpaths` = `segments`: the `members` of every path in generation order; `Traversal.subscribers` raises `Cyclic`
  when a subscriber is already a member (`Err.topology`);
* `copySubscriptions`: the subscriptions in creation order — per path, those between two of its members, each once.
  (Inside one path the code iterates `t.members`, a `frozenset`; the model iterates the subscriptions in extraction
  order.  What reaches a fork's output port `i` is the same sequence either way: all subscriptions of one publisher
  port are produced by one `for s in p` loop, in port order.)
* `mechSubs`: `(s.node for p in fork.output for s in p)` of a fork afterwards — an output port is an ordered set
  (`atomic.Port`), so per port the creation order, ports ascending;
* `Comp.copiedMech`: the plain composition plus the forks of the `copies` dict (the head and every path member) and
  the re-created subscriptions, apply segment = the copy, train segment = the original apply segment;
* `Comp.copyFaithful` (decidable, evaluated by the check on every explored real graph): every worker `Traversal.each`
  visits on the apply segment is forked and its fork publishes to the forks of its subscribers in the original order.
  Lemmas/C04Mech.lean: then the copy carries the same persistent list and `eval_perftrack` binds like batch apply.
  It is *not* true of every graph: a subscriber of a fork that is also a member of a path through an earlier sibling
  (a shortcut subscription, `s.node in t.members`) is re-created with that path, i.e. before the later siblings —
  the depth-first order of the copy is still the original one there (checked per case, not proved).
* `Segment.copy` first resolves a dangling `Future` tail to the publisher it is registered with; the harness extracts
  that node and the driver copies `{ c with applyTail := <it> }`.
* `Comp.mpathsLifo`: the same enumeration with an explicit LIFO stack (the seeded change C04-m1) — for the
  counterexample: the subscribers of every fan-out publisher are registered in reversed order.

A subscription is given with its ports (`PEdge`): the harness extracts them from the real expansion.
-/
import ForML.Model.PersistCopy

namespace ForML.Persist

/-- `pub[oport]` publishes to the input port `iport` of `sub` (`Apply(i)` = `i`, `Train` = 1000, `Label` = 1001) -/
structure PEdge where
  pub : Nat
  sub : Nat
  oport : Nat
  iport : Nat
  deriving DecidableEq, Repr, Inhabited

namespace Comp

/-- `segments(traversal)` of `Traversal.copy(tail)`; `members` newest first -/
def mpathsAux (c : Comp) (tail : Nat) : Nat → Nat → List Nat → Except Err (List (List Nat))
  | 0, _, _ => .error .topology
  | f + 1, pivot, members =>
    if pivot == tail then .ok [members]
    else
      (c.mappers pivot).foldl
        (fun acc n =>
          match acc with
          | .error e => .error e
          | .ok ls =>
            if members.contains n then .error .topology
            else
              match mpathsAux c tail f n (n :: members) with
              | .error e => .error e
              | .ok ls' => .ok (ls ++ ls'))
        (.ok [])

/-- a path never repeats a node (`Cyclic`), so its length is bounded by the number of uids -/
def pathFuel (c : Comp) : Nat := c.nodes.length + c.edges.length + 2

/-- the mapper paths from the apply head to the apply tail, in the order `Traversal.copy` walks them -/
def mpaths (c : Comp) : Except Err (List (List Nat)) :=
  c.mpathsAux c.applyTail c.pathFuel c.applyHead [c.applyHead]

/-- the variant with an explicit LIFO stack of pending traversals (seeded change C04-m1): `pending.pop()` takes the
*last* mapper first -/
def mpathsLifoAux (c : Comp) (tail : Nat) : Nat → List (Nat × List Nat) → List (List Nat) → Except Err (List (List Nat))
  | 0, _, _ => .error .topology
  | _ + 1, [], acc => .ok acc
  | f + 1, pending, acc =>
    match pending.getLast?, pending.dropLast with
    | none, _ => .ok acc
    | some (pivot, members), rest =>
      if pivot == tail then mpathsLifoAux c tail f rest (acc ++ [members])
      else if (c.mappers pivot).any members.contains then .error .topology
      else mpathsLifoAux c tail f (rest ++ (c.mappers pivot).map (fun n => (n, n :: members))) acc

def mpathsLifo (c : Comp) : Except Err (List (List Nat)) :=
  c.mpathsLifoAux c.applyTail (c.pathFuel * c.pathFuel * c.pathFuel) [(c.applyHead, [c.applyHead])] []

/-- the keys of the `copies` dict: the head (bootstrap) and every member of a path -/
def region (c : Comp) (paths : List (List Nat)) : List Nat := dedup (c.applyHead :: paths.flatten)

end Comp

/-- the subscriptions `Traversal.copy` re-creates, in creation order -/
def copySubscriptions (pe : List PEdge) (paths : List (List Nat)) : List PEdge :=
  (paths.flatMap (fun m => pe.filter (fun e => m.contains e.pub && m.contains e.sub))).eraseDups

/-- `(s.node for p in fork.output for s in p)` of the fork of `u`: ports ascending, per port the creation order -/
def mechSubs (ce : List PEdge) (u : Nat) : List Nat :=
  let mine := ce.filter (fun e => e.pub == u)
  (List.range ((mine.map (·.oport)).foldl max 0 + 1)).flatMap
    (fun i => (mine.filter (fun e => e.oport == i)).map (·.sub))

namespace Comp

/-- the plain composition plus forks of the workers `keep` selects and the subscriptions `es` among the forks;
apply segment = the forked one, train segment = the original apply segment (as `Comp.copied`) -/
def withCopy (ρ : Nat → Nat) (keep : Nat → Bool) (es : List (Nat × Nat)) (c : Comp) : Comp where
  nodes := c.nodes ++ (c.nodes.filter (fun n => keep n.uid)).map (Node.fork ρ)
  edges := c.edges ++ es.map (fun e => (ρ e.1, ρ e.2))
  applyHead := ρ c.applyHead
  applyTail := ρ c.applyTail
  trainHead := c.applyHead
  trainTail := c.applyTail

/-- the subscriptions among the forks, per forked publisher -/
def mechEdges (region : List Nat) (ce : List PEdge) : List (Nat × Nat) :=
  region.flatMap (fun u => (mechSubs ce u).map (fun v => (u, v)))

/-- the composition `eval_perftrack` works on, with the copy produced as `Traversal.copy` produces it.
`Segment(copies[head], copies[tail])` needs the tail among the copies. -/
def copiedMech (ρ : Nat → Nat) (c : Comp) (pe : List PEdge) : Except Err Comp :=
  match c.mpaths with
  | .error e => .error e
  | .ok paths =>
    let reg := c.region paths
    if reg.contains c.applyTail then
      .ok (c.withCopy ρ reg.contains (mechEdges reg (copySubscriptions pe paths)))
    else .error .topology

/-- `Comp.perfOf` with the mechanical copy -/
def perfMech (ρ : Nat → Nat) (closed : Bool) (c : Comp) (pe : List PEdge) : Except Err Comp :=
  if closed || c.isChain then c.copiedMech ρ pe else .error .topology

/-- every worker visited on the apply segment is forked, and its fork publishes to the forks of its subscribers in
the original order (`next`: all subscribers, at the tail none as long as no trainer hangs off it) -/
def copyFaithful (c : Comp) (pe : List PEdge) : Bool :=
  match c.mpaths with
  | .error _ => false
  | .ok paths =>
    let reg := c.region paths
    let ce := copySubscriptions pe paths
    (c.visit c.applyHead c.applyTail).all
      (fun u => reg.contains u && ((mechEdges reg ce).filter (fun e => e.1 == u)).map (·.2) == c.next c.applyTail u)

/-- the subscriptions with ports describe the composition's subscriptions -/
def portsOk (c : Comp) (pe : List PEdge) : Bool := pe.map (fun e => (e.pub, e.sub)) == c.edges

/-- the composition with the LIFO enumeration (seeded change C04-m1) -/
def copiedLifo (ρ : Nat → Nat) (c : Comp) (pe : List PEdge) : Except Err Comp :=
  match c.mpathsLifo with
  | .error e => .error e
  | .ok paths =>
    let reg := c.region paths
    .ok (c.withCopy ρ reg.contains (mechEdges reg (copySubscriptions pe paths)))

end Comp

end ForML.Persist
