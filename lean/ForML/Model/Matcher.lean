/-
C09 — feed selection (`forml/io/_input/__init__.py` `Importer`, `Importer.Slot`, `Importer.Matcher`) and the
source resolution of the feed's parser (`forml/io/dsl/parser.py` `bypass`, `visit_table`, `visit_reference`,
`visit_join/set/query`, `resolve_source`).  Core Lean only; built on the shared DSL syntax `ForML.Model.Dsl`.

  Python                                               here
  ---------------------------------------------------  ----------------------------------------------------
  `Feed.sources` (keys), `frozenset(sources)`          `Sources` (list of advertised DSL sources), `adv`
  `Importer.Matcher.visit_*` + `__bool__`              `visit` (the `_matches` flag threaded through), `covers`
  property text "covers everything the statement
   reads, directly or through an advertised
   sub-statement"                                      `coversSpec` (`visit_eq_spec` proves them equal)
  `Importer.Slot.priority` / `__lt__`                  `Prio` (`inf` = explicit instance), `Prio.lt`
  `sorted(slots, reverse=True)` in `Importer.__init__` `order` (stable insertion, descending)
  `Importer.match` (loop over `self`, `MissingError`)  `select`, `importerMatch`
  `parser.Visitor.visit_table` / `resolve_source`      `parseSkeleton` on `.table`: `Except.error t` = `UnprovisionedError`
  `parser.bypass(resolve_source)`                      `parseSkeleton` on join/set/query: the wrapped visit FIRST, then
                                                       the override replaces the result
  `parser.Visitor.visit_reference` (no override)       `parseSkeleton` on `.ref`
  "the parser reports an unprovisioned source"         `resolvesSkeleton S s = (parseSkeleton S s).isOk`

Equality of sources inside the `frozenset` / mapping is structural here (its hash-based quirks are C08's subject).
-/
import ForML.Model.Sexp
import ForML.Model.Dsl

namespace ForML.Matcher

open ForML.Dsl

/-- keys of `Feed.sources`: what the feed advertises -/
abbrev Sources := List Source

/-- `source in self._sources` -/
def adv (S : Sources) (s : Source) : Bool := S.contains s

/-! ### the coverage matcher (`Importer.Matcher`) -/

/-- One `accept` of the `Importer.Matcher` visitor: `m` is the `_matches` flag before the visit, the result is the
flag afterwards.  `visit_reference/join/set/query`: `if self and source not in self._sources: super().visit_*`
(the base visitor descends left to right); `visit_table`: `if source not in self._sources: self._matches = False`. -/
def visit (S : Sources) : Source → Bool → Bool
  | .table n fs, m => if adv S (.table n fs) then m else false
  | .ref inst n, m => if m && !adv S (.ref inst n) then visit S inst m else m
  | .join l r k c, m => if m && !adv S (.join l r k c) then visit S r (visit S l m) else m
  | .set l r k, m => if m && !adv S (.set l r k) then visit S r (visit S l m) else m
  | .query src sel pre grp post ord rows, m =>
    if m && !adv S (.query src sel pre grp post ord rows) then visit S src m else m

/-- `matcher = Matcher(feed.sources); source.accept(matcher); bool(matcher)` -/
def covers (S : Sources) (s : Source) : Bool := visit S s true

/-- The property text: the advertised sources cover everything the statement reads, directly (every table read is
advertised) or through an advertised sub-statement. -/
def coversSpec (S : Sources) : Source → Bool
  | .table n fs => adv S (.table n fs)
  | .ref inst n => adv S (.ref inst n) || coversSpec S inst
  | .join l r k c => adv S (.join l r k c) || (coversSpec S l && coversSpec S r)
  | .set l r k => adv S (.set l r k) || (coversSpec S l && coversSpec S r)
  | .query src sel pre grp post ord rows => adv S (.query src sel pre grp post ord rows) || coversSpec S src

/-! ### the parser's source resolution (`parser.Visitor`) -/

/-- source skeleton of the parser's result: `native s` = `self._sources[s]` (a provisioned table or an override) -/
inductive Sym where
  | native (s : Source)
  | ref (inst : Sym) (name : String)
  | join (l r : Sym) (kind : JoinKind)
  | set (l r : Sym) (kind : SetKind)
  | query (src : Sym)
  deriving DecidableEq, Repr, Inhabited

/-- The source part of `statement.accept(parser)`.  `Except.error t` = `UnprovisionedError('Unknown mapping for
source t')` raised by `resolve_source` from `visit_table`.  Join/set/query are decorated with
`bypass(resolve_source)`: the wrapped method (which descends) runs first, only then the override is looked up and
replaces the symbol on the stack; `visit_reference` is not decorated at all. -/
def parseSkeleton (S : Sources) : Source → Except Source Sym
  | .table n fs => if adv S (.table n fs) then .ok (.native (.table n fs)) else .error (.table n fs)
  | .ref inst n =>
    match parseSkeleton S inst with
    | .error t => .error t
    | .ok i => .ok (.ref i n)
  | .join l r k c =>
    match parseSkeleton S l with
    | .error t => .error t
    | .ok a =>
      match parseSkeleton S r with
      | .error t => .error t
      | .ok b => .ok (if adv S (.join l r k c) then .native (.join l r k c) else .join a b k)
  | .set l r k =>
    match parseSkeleton S l with
    | .error t => .error t
    | .ok a =>
      match parseSkeleton S r with
      | .error t => .error t
      | .ok b => .ok (if adv S (.set l r k) then .native (.set l r k) else .set a b k)
  | .query src sel pre grp post ord rows =>
    match parseSkeleton S src with
    | .error t => .error t
    | .ok a =>
      .ok (if adv S (.query src sel pre grp post ord rows) then .native (.query src sel pre grp post ord rows)
           else .query a)

/-- the parser gets through the statement without an `UnprovisionedError` for a source -/
def resolvesSkeleton (S : Sources) (s : Source) : Bool :=
  match parseSkeleton S s with
  | .ok _ => true
  | .error _ => false

/-- the tables a statement reads (leaves of the source tree, visiting order) -/
def tables : Source → List Source
  | .table n fs => [.table n fs]
  | .ref inst _ => tables inst
  | .join l r _ _ => tables l ++ tables r
  | .set l r _ => tables l ++ tables r
  | .query src _ _ _ _ _ _ => tables src

/-- Every advertised non-table sub-statement at which the matcher may cut has all its tables advertised too
(decidable hypothesis of the partial agreement theorem). -/
def cutsProvisioned (S : Sources) : Source → Bool
  | .table _ _ => true
  | .ref inst n =>
    (if adv S (.ref inst n) then (tables inst).all (adv S) else true) && cutsProvisioned S inst
  | .join l r k c =>
    (if adv S (.join l r k c) then (tables l ++ tables r).all (adv S) else true)
      && cutsProvisioned S l && cutsProvisioned S r
  | .set l r k =>
    (if adv S (.set l r k) then (tables l ++ tables r).all (adv S) else true)
      && cutsProvisioned S l && cutsProvisioned S r
  | .query src sel pre grp post ord rows =>
    (if adv S (.query src sel pre grp post ord rows) then (tables src).all (adv S) else true)
      && cutsProvisioned S src

/-- every advertised source is a table -/
def tablesOnly (S : Sources) : Bool :=
  S.all (fun x => match x with | .table _ _ => true | _ => false)

/-! ### the pool (`Importer.Slot`, `Importer.__init__`, `Importer.match`) -/

/-- `Slot.priority`: the descriptor's priority, `float('inf')` for an explicit instance -/
inductive Prio where
  | fin (p : Int)
  | inf
  deriving DecidableEq, Repr, Inhabited

/-- `Slot.__lt__` : `self.priority < other.priority` -/
def Prio.lt : Prio → Prio → Bool
  | .fin a, .fin b => decide (a < b)
  | .fin _, .inf => true
  | .inf, _ => false

/-- one feed of the pool: its priority and what it advertises -/
structure Slot where
  prio : Prio
  sources : Sources
  deriving DecidableEq, Repr, Inhabited

/-- the feeds in construction order -/
abbrev Pool := List Slot

/-- insertion of the slot with construction index `x.1` into a list sorted by descending priority, behind the
slots of strictly higher priority and before all others (its later-constructed equals included) -/
def insertDesc (x : Nat × Slot) : List (Nat × Slot) → List (Nat × Slot)
  | [] => [x]
  | y :: ys => if x.2.prio.lt y.2.prio then y :: insertDesc x ys else x :: y :: ys

/-- `sorted(slots, reverse=True)` for the slots numbered from `i`: descending priority, equal priorities stay in
construction order (CPython: reverse, stable ascending sort, reverse) -/
def orderFrom : Nat → Pool → List (Nat × Slot)
  | _, [] => []
  | i, x :: xs => insertDesc (i, x) (orderFrom (i + 1) xs)

/-- `Importer._feeds` as (construction index, slot) -/
def order (pool : Pool) : List (Nat × Slot) := orderFrom 0 pool

/-- `Importer.match`: the first feed in pool order whose matcher accepts (its construction index) -/
def select (pool : Pool) (s : Source) : Option Nat :=
  ((order pool).find? (fun p => covers p.2.sources s)).map (·.1)

inductive MatchError where
  | missing   -- `forml.MissingError('None of the … available feeds provide all of the required sources')`
  deriving DecidableEq, Repr

/-- `Importer.match` with its error branch -/
def importerMatch (pool : Pool) (s : Source) : Except MatchError Nat :=
  match select pool s with
  | some i => .ok i
  | none => .error .missing

/-! ### request histories on one `Importer` instance -/

/-- The only state an `Importer` carries from one `match` call to the next: the `functools.lru_cache` on `match`
(statement ↦ returned feed; a raised `MissingError` is not cached).  The `Matcher` is created afresh for every feed
in every call, so its `_matches` flag never outlives a call. -/
abbrev Cache := List (Source × Nat)

/-- cache lookup (`lru_cache` keys by the statement) -/
def Cache.get (c : Cache) (s : Source) : Option Nat := (c.find? (fun p => decide (p.1 = s))).map (·.2)

/-- one `importer.match(s)` call: the answer and the state afterwards -/
def matchStep (pool : Pool) (c : Cache) (s : Source) : Except MatchError Nat × Cache :=
  match c.get s with
  | some i => (.ok i, c)
  | none =>
    match importerMatch pool s with
    | .ok i => (.ok i, (s, i) :: c)
    | .error e => (.error e, c)

/-- a sequence of `match` calls on one instance, starting from the state `c` -/
def matchSeqFrom (pool : Pool) : Cache → List Source → List (Except MatchError Nat)
  | _, [] => []
  | c, s :: ss => (matchStep pool c s).1 :: matchSeqFrom pool (matchStep pool c s).2 ss

/-- the answers of a freshly constructed `Importer` to a request history -/
def matchSeq (pool : Pool) (ss : List Source) : List (Except MatchError Nat) := matchSeqFrom pool [] ss

/-! ### the match cache as a memo over a key function -/

/-- A memo table: what `Importer.match` remembers from one call to the next, keyed by `key statement`.  forml keys by the
statement itself (`functools.lru_cache`: hash + `==` of the DSL object, i.e. `key = id`); a cache keyed by anything
coarser (`repr(statement)`: a table prints as its bare class name) is an instance with a non-injective `key`. -/
abbrev Memo (κ α : Type) := List (κ × α)

/-- one memoised call of `f`: a hit returns the remembered answer, a miss computes and remembers it (an exception is not
remembered) -/
def memoStep {κ ε α : Type} [DecidableEq κ] (key : Source → κ) (f : Source → Except ε α) (c : Memo κ α) (s : Source) :
    Except ε α × Memo κ α :=
  match (c.find? (fun p => decide (p.1 = key s))).map (·.2) with
  | some a => (.ok a, c)
  | none =>
    match f s with
    | .ok a => (.ok a, (key s, a) :: c)
    | .error e => (.error e, c)

def memoSeqFrom {κ ε α : Type} [DecidableEq κ] (key : Source → κ) (f : Source → Except ε α) :
    Memo κ α → List Source → List (Except ε α)
  | _, [] => []
  | c, s :: ss => (memoStep key f c s).1 :: memoSeqFrom key f (memoStep key f c s).2 ss

/-- the answers of a fresh memoised `f` to a request history -/
def memoSeq {κ ε α : Type} [DecidableEq κ] (key : Source → κ) (f : Source → Except ε α) (ss : List Source) :
    List (Except ε α) :=
  memoSeqFrom key f [] ss

/-- a key as coarse as `repr`: a table is its name (its schema does not show) -/
def nameKey : Source → String
  | .table n _ => n
  | .ref i n => "ref(" ++ nameKey i ++ "," ++ n ++ ")"
  | .join l r _ _ => "join(" ++ nameKey l ++ "," ++ nameKey r ++ ")"
  | .set l r _ => "set(" ++ nameKey l ++ "," ++ nameKey r ++ ")"
  | .query src _ _ _ _ _ _ => "query(" ++ nameKey src ++ ")"

/-! ### pools whose lazily configured members may fail to come up (`Importer.__iter__`, `Slot.instance`) -/

/-- what `Slot.instance` yields: the feed (what it advertises), or the exception `Feed[reference](**params)` raises
(unknown provider reference, a constructor refusing, missing params); an explicit instance is always a `feed` -/
inductive Inst where
  | feed (sources : Sources)
  | fails (err : String)
  deriving DecidableEq, Repr, Inhabited

structure FSlot where
  prio : Prio
  inst : Inst
  deriving DecidableEq, Repr, Inhabited

abbrev FPool := List FSlot

/-- the slot as `Importer.__init__` sorts it (the priority is known without instantiating) -/
def FSlot.slot (f : FSlot) : Slot := ⟨f.prio, match f.inst with | .feed S => S | .fails _ => []⟩

def FSlot.failure (f : FSlot) : Option String :=
  match f.inst with
  | .feed _ => none
  | .fails e => some e

inductive Outcome where
  | selected (i : Nat)
  | missing              -- `forml.MissingError`
  | raised (err : String) -- whatever bringing a feed up raised
  deriving DecidableEq, Repr, Inhabited

/-- `Importer.match`'s loop `for feed in self` with `__iter__` a generator: the slots are brought up ONE BY ONE in pool
order, each probed before the next is touched.  Result and the construction indices of the slots that were touched. -/
def scan (fails : Nat → Option String) : List (Nat × Slot) → Source → Outcome × List Nat
  | [], _ => (.missing, [])
  | (i, f) :: rest, s =>
    match fails i with
    | some e => (.raised e, [i])
    | none =>
      if covers f.sources s then (.selected i, [i])
      else ((scan fails rest s).1, i :: (scan fails rest s).2)

def FPool.fails (pool : FPool) (i : Nat) : Option String := (pool[i]?).bind FSlot.failure

/-- `Importer.match` on a pool whose members may fail to come up -/
def matchFault (pool : FPool) (s : Source) : Outcome × List Nat :=
  scan pool.fails (order (pool.map FSlot.slot)) s

/-- the single-shot answer as the memo sees it (an exception - `MissingError` included - is not remembered) -/
def Outcome.toExcept : Outcome → Except Outcome Nat
  | .selected i => .ok i
  | o => .error o

/-! ### wire format -/

open ForML (Sexp)

def Prio.ofSexp : Sexp → Option Prio
  | .atom "inf" => some .inf
  | x => x.int?.map .fin

def Slot.ofSexp : Sexp → Option Slot
  | .list [p, .list srcs] => do pure ⟨← Prio.ofSexp p, ← srcs.mapM Source.ofSexp⟩
  | _ => none

/-- `(prio (feed (src*)))` | `(prio (fails Class))` -/
def FSlot.ofSexp : Sexp → Option FSlot
  | .list [p, .list [.atom "feed", .list srcs]] => do pure ⟨← Prio.ofSexp p, .feed (← srcs.mapM Source.ofSexp)⟩
  | .list [p, .list [.atom "fails", .atom e]] => do pure ⟨← Prio.ofSexp p, .fails e⟩
  | _ => none

end ForML.Matcher
