/-
C09 — the per-context `Tables` registry (`forml/io/dsl/parser.py` `Container.Context.Tables`: `select`, `filter`,
`Segment.fields/factors/predicate`) and `Source.features` (`forml/io/dsl/_struct/frame.py`) as the parser machine of
`Model/MatcherParser.lean` uses them — a C09-owned, self-contained copy (no import of another slice's model) of the
part of the C14 model of the code that exists that the driver instance `Model/MatcherParserFree.lean` needs:

  Python                                                         here
  -------------------------------------------------------------  --------------------------------------------
  `Source.instance`                                              `inst`
  `Element.dissect(*features)` (no descent into windows)         `elems`, `elemsL`, `elemsAll`
  `Source.features` (`Table/Reference/Join/Set/Query.features`)  `features`
  `Predicate.Factors.primitive / merge / __and__ / __or__`       `primitive`, `mergeF`, `andF`, `orF`
  `And/Or/Not/Comparison.factors`, `Operable.factors` (empty)    `toPred`, `factorsP`, `factorsOf`
  `Tables.select(*features)`, `Tables.filter(expression)`        `Segs.select`, `Segs.filter`
  `sorted(tables[source].fields)`, `tables[source].predicate`    `Segs.fieldsOf`, `Segs.predicateOf`

The CONTENT of the registry is C14's subject; no C09 theorem depends on this file (they hold for every `Hooks`).  For
the free parser only the fact that generating the registered fields / predicate never fails matters.  Core Lean only.
-/
import ForML.Model.Dsl

namespace ForML.Matcher.Tables

open ForML.Dsl

/-- `Source.instance`: the wrapped source of a `Reference`, otherwise the source itself -/
def inst : Source → Source
  | .ref i _ => i
  | s => s

def isTable : Source → Bool
  | .table _ _ => true
  | _ => false

/-- an element occurrence: origin and name -/
abbrev Elem := Source × String

mutual
/-- `Element.dissect(feature)`: the operable of an alias, the feature terms of an expression (`Cast` is one);
`visit_window` does not descend -/
def elems : Feature → List Elem
  | .lit _ => []
  | .elem o n => [(o, n)]
  | .alias f _ => elems f
  | .expr _ args => elemsL args
  | .cast f _ => elems f
  | .window _ _ _ => []
def elemsL : Features → List Elem
  | .nil => []
  | .cons f fs => elems f ++ elemsL fs
end

def elemsAll (fs : List Feature) : List Elem := fs.flatMap elems

/-- `feature.name` of an output feature (`Element.name`, `Aliased.name`; nothing else has one) -/
def nameOf : Feature → Option String
  | .elem _ n => some n
  | .alias _ n => some n
  | _ => none

/-- `Source.features` -/
def features : Source → List Feature
  | .table n fs => fs.map (fun c => .elem (.table n fs) c.1)
  | .ref i nm => ((features i).filterMap nameOf).map (fun c => .elem (.ref i nm) c)
  | .join l r _ _ => features l ++ features r
  | .set l r _ => features l ++ features r
  | .query src sel _ _ _ _ _ => if sel.isEmpty then features src else sel.toList

/-! ### factors (`series.py`) -/

def isComparison : Op → Bool
  | .lt | .le | .gt | .ge | .eq | .ne | .isnull | .notnull => true
  | _ => false

/-- boolean skeleton of a condition as `factors` dispatches on it -/
inductive Pred where
  | atom (f : Feature)     -- `Comparison` or `Not`: `Factors.primitive(self)`
  | and (a b : Pred)
  | or (a b : Pred)
  | other (f : Feature)    -- any other `Operable`: empty factors

def toPred : Feature → Pred
  | .expr .and (.cons a (.cons b .nil)) => .and (toPred a) (toPred b)
  | .expr .or (.cons a (.cons b .nil)) => .or (toPred a) (toPred b)
  | .expr .not (.cons a .nil) => .atom (.expr .not (.cons a .nil))
  | .expr op args => if isComparison op then .atom (.expr op args) else .other (.expr op args)
  | f => .other f

/-- `Predicate.Factors`: table ↦ predicate over that table alone (keys distinct) -/
abbrev FMap := List (Source × Feature)

/-- `Factors.primitive(predicate)`: the predicate itself iff all its elements share one origin which is a table -/
def primitive (p : Feature) : FMap :=
  match elems p with
  | [] => []
  | (o, _) :: rest => if isTable o && rest.all (fun e => e.1 == o) then [(o, p)] else []

def binop (op : Op) (a b : Feature) : Feature := .expr op (.cons a (.cons b .nil))

/-- `Factors.merge(left, right, operator)` over `left.keys() | right.keys()` -/
def mergeF (op : Op) (l r : FMap) : FMap :=
  l.map (fun kv => match r.lookup kv.1 with
    | some b => if kv.2 = b then kv else (kv.1, binop op kv.2 b)
    | none => kv)
  ++ r.filter (fun kv => (l.lookup kv.1).isNone)

def andF (l r : FMap) : FMap := mergeF .and l r

/-- `Factors.__or__`: `merge` restricted to the tables constrained by both sides -/
def orF (l r : FMap) : FMap :=
  l.filterMap (fun kv => match r.lookup kv.1 with
    | some b => some (if kv.2 = b then kv else (kv.1, binop .or kv.2 b))
    | none => none)

/-- `.factors` (every `Operable` has - possibly empty - factors) -/
def factorsP : Pred → FMap
  | .atom f => primitive f
  | .and a b => andF (factorsP a) (factorsP b)
  | .or a b => orF (factorsP a) (factorsP b)
  | .other _ => []

def factorsOf (f : Feature) : FMap := factorsP (toPred f)

/-! ### `Container.Context.Tables` -/

/-- all segments of one context, flat: (table, field name) and (table, factor); sets in Python -/
structure Segs where
  fields : List (Source × String) := []
  factors : List (Source × Feature) := []

def addNew {α : Type} [DecidableEq α] (l : List α) (a : α) : List α := if a ∈ l then l else l ++ [a]

def addAll {α : Type} [DecidableEq α] (l : List α) (as : List α) : List α := as.foldl addNew l

/-- the table columns behind the elements of the features (`element.origin.instance` is a table) -/
def tableCols (fs : List Feature) : List (Source × String) :=
  (elemsAll fs).filterMap (fun e => if isTable (inst e.1) then some (inst e.1, e.2) else none)

/-- `Tables.select(*feature)` -/
def Segs.select (st : Segs) (fs : List Feature) : Segs :=
  { st with fields := addAll st.fields (tableCols fs) }

/-- `Tables.filter(expression)`: `select(expression)`, then the factors of the expression -/
def Segs.filter (st : Segs) (e : Feature) : Segs :=
  let st := st.select [e]
  { st with factors := addAll st.factors (factorsOf e) }

/-- `sorted(tables[source].fields)` as `Column(source, name)` (the order does not matter to the free parser) -/
def Segs.fieldsOf (st : Segs) (t : Source) : List Feature :=
  (st.fields.filter (fun kv => kv.1 = t)).map (fun kv => Feature.elem t kv.2)

/-- `Segment.predicate`: `functools.reduce(function.Or, sorted(self.factors)) if self.factors else None` (which of the
equivalent disjunctions it is does not matter to the free parser: the symbol is opaque) -/
def Segs.predicateOf (st : Segs) (t : Source) : Option Feature :=
  match (st.factors.filter (fun kv => kv.1 = t)).map (·.2) with
  | [] => none
  | f :: fs => some (fs.foldl (fun acc g => binop .or acc g) f)

end ForML.Matcher.Tables
