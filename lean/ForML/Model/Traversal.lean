/-
`span.Traversal.each` once more, this time with everything `Traversal.subscribers` does (C01):

  * `Segment.followed g n`   the nodes `traverse(n)` may recurse into, in order: `(s.node for p in pivot.output for s in p)`
                             after the *static* part of the mask (at the tail only trained subscribers pass);
  * `Segment.gdfs`           depth first search over an arbitrary successor function with the global `seen` list
                             (`Segment.dfs` is the instance `gdfs g.followed`, theorem `dfs_eq_gdfs`);
  * `Segment.eachE`          the traversal with the path of the recursion (`Traversal.members = frozenset(members |
                             {pivot})`) and the `Cyclic` test of `Traversal.subscribers`, in the order the code performs
                             them: local/global `seen` mask first (`continue`), then `if node in self.members: raise
                             Cyclic`. (The local `seen` set of `subscribers` is subsumed by the global one: a yielded node
                             is traversed, hence globally seen, before the generator resumes.)
  * `Segment.Reach`          the specification side: reachability from a node along `followed`;
  * `Segment.connected`      decidable: every listed member other than the head has a subscription through which the
                             traversal follows it. For a well-formed segment this is *exactly* "every listed member is
                             reachable from the head" (`Lemmas/C01Dfs.lean`), i.e. the given member list `workers` is the
                             reachable set and not a superset of it.

Core Lean only.
-/
import ForML.Model.Segment

namespace ForML.Flow
namespace Segment

/-- whom `traverse(n)` offers to recurse into (before the recurrence test), in subscription order -/
def followed (g : Segment) (n : Uid) : List Uid :=
  match g.worker? n with
  | none => []
  | some w => ((g.outEdges w).filter (fun e => !(n = g.tail && !g.trained e.sub))).map (·.sub)

/-- depth first, pre-order, one global `seen` list -/
def gdfs (succ : Uid → List Uid) : Nat → List Uid → Uid → List Uid
  | 0, seen, _ => seen
  | f + 1, seen, n =>
    (succ n).foldl (fun seen m => if seen.contains m then seen else gdfs succ f seen m) (seen ++ [n])

/-- `Traversal.Cyclic` -/
inductive TErr where
  | cyclic
  deriving DecidableEq, Repr, Inhabited

/-- `Traversal.each` including the path (`members`) and the `Cyclic` test of `Traversal.subscribers`:
```
for node in (s.node for p in self.pivot.output for s in p):
    if node in seen or mask and not mask(node): continue      # mask = unseen | unseen_trained (at the tail)
    if node in self.members: raise self.Cyclic(...)
    seen.add(node); yield Traversal(node, self.members)
```
-/
def eachE (g : Segment) : Nat → List Uid → List Uid → Uid → Except TErr (List Uid)
  | 0, _, seen, _ => .ok seen
  | f + 1, path, seen, n =>
    let path := n :: path
    let seen := seen ++ [n]
    match g.worker? n with
    | none => .ok seen
    | some w =>
      (g.outEdges w).foldlM
        (fun seen e =>
          if seen.contains e.sub || (n = g.tail && !g.trained e.sub) then pure seen
          else if path.contains e.sub then throw TErr.cyclic
          else eachE g f path seen e.sub)
        seen

/-- `Traversal(head).each(tail, acceptor)`: the acceptor calls in order, or `Cyclic` -/
def each (g : Segment) : Except TErr (List Uid) := eachE g (g.workers.length + 1) [] [] g.head

/-- reachability along `succ` (reflexive, transitive) -/
inductive Reach (succ : Uid → List Uid) (a : Uid) : Uid → Prop where
  | refl : Reach succ a a
  | step {b c : Uid} : Reach succ a b → c ∈ succ b → Reach succ a c

/-- every listed member but the head is subscribed to some port from which the traversal follows it -/
def connected (g : Segment) : Bool :=
  g.workers.all fun w =>
    w.uid = g.head || g.edges.any fun e => e.sub = w.uid && (e.pub != g.tail || g.trained w.uid)

/-- the subscriptions stay inside the listed members and the head is one of them (part of `wf`; all that the
enumeration theorem needs — no acyclicity) -/
def closed (g : Segment) : Bool :=
  g.uids.contains g.head && g.edges.all fun e => g.uids.contains e.sub

end Segment
end ForML.Flow
