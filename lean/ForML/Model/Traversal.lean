/-
`span.Traversal.each` once more, this time with everything `Traversal.subscribers` does (C01):

  * `Segment.followed g n`   the nodes `traverse(n)` may recurse into, in order: `(s.node for p in pivot.output for s in p)`
                             after the *static* part of the mask (at the tail only trained subscribers pass);
  * `Segment.gdfs`           depth first search over an arbitrary successor function with the global `seen` list
                             (`Segment.dfs` is the instance `gdfs g.followed`, theorem `dfs_eq_gdfs`);
  * `Segment.eachE`          the traversal with the path of the recursion (`Traversal.members = frozenset(members |
                             {pivot})`) and the `Cyclic` test of `Traversal.subscribers`, in the order the code performs
                             them: local/global `seen` mask first (`continue`), then `if node in self.members: raise
                             Cyclic`. (The local `seen` set of `subscribers` is subsumed by the global one: a yielded node
                             is traversed, hence globally seen, before the generator resumes.)
  * `Segment.Reach`          the specification side: reachability from a node along `followed`;
  * `Segment.construct`      `flow.Segment(head, tail)`: simple head, `Traversal.tail(expected)` (`mappers`, `anyE`,
                             `existsE`: a search *without* a global `seen` set that raises `Cyclic` when a subscriber is
                             on the current path, `any` stopping at the first hit), simple tail;
  * `Segment.connected`      decidable: every listed member other than the head has a subscription through which the
                             traversal follows it. For a well-formed segment this is *exactly* "every listed member is
                             reachable from the head" (`Lemmas/C01Traversal.lean`), i.e. the given member list `workers` is the
                             reachable set and not a superset of it.

Core Lean only.
-/
import ForML.Model.Segment

namespace ForML.Flow
namespace Segment

/-- whom `traverse(n)` offers to recurse into (before the recurrence test), in subscription order -/
def followed (g : Segment) (n : Uid) : List Uid :=
  match g.worker? n with
  | none => []
  | some w => ((g.outEdges w).filter (fun e => !(n = g.tail && !g.trained e.sub))).map (·.sub)

/-- depth first, pre-order, one global `seen` list -/
def gdfs (succ : Uid → List Uid) : Nat → List Uid → Uid → List Uid
  | 0, seen, _ => seen
  | f + 1, seen, n =>
    (succ n).foldl (fun seen m => if seen.contains m then seen else gdfs succ f seen m) (seen ++ [n])

/-- `Traversal.Cyclic` -/
inductive TErr where
  | cyclic
  deriving DecidableEq, Repr, Inhabited

/-- `Traversal.each` including the path (`members`) and the `Cyclic` test of `Traversal.subscribers`:
```
for node in (s.node for p in self.pivot.output for s in p):
    if node in seen or mask and not mask(node): continue      # mask = unseen | unseen_trained (at the tail)
    if node in self.members: raise self.Cyclic(...)
    seen.add(node); yield Traversal(node, self.members)
```
-/
def eachE (g : Segment) : Nat → List Uid → List Uid → Uid → Except TErr (List Uid)
  | 0, _, seen, _ => .ok seen
  | f + 1, path, seen, n =>
    let path := n :: path
    let seen := seen ++ [n]
    match g.worker? n with
    | none => .ok seen
    | some w =>
      (g.outEdges w).foldlM
        (fun seen e =>
          if seen.contains e.sub || (n = g.tail && !g.trained e.sub) then pure seen
          else if path.contains e.sub then throw TErr.cyclic
          else eachE g f path seen e.sub)
        seen

/-- `Traversal(head).each(tail, acceptor)`: the acceptor calls in order, or `Cyclic` -/
def each (g : Segment) : Except TErr (List Uid) := eachE g (g.workers.length + 1) [] [] g.head

/-- reachability along `succ` (reflexive, transitive) -/
inductive Reach (succ : Uid → List Uid) (a : Uid) : Uid → Prop where
  | refl : Reach succ a a
  | step {b c : Uid} : Reach succ a b → c ∈ succ b → Reach succ a c

/-! ### `flow.Segment(head, tail)` — what the constructor accepts -/

/-- `TopologyError` raised by `Segment.__new__` / `Traversal.tail` (`Cyclic` is its subclass) -/
inductive SErr where
  | simpleHead     -- 'Simple head required'
  | simpleTail     -- 'Simple tail required'
  | disconnected   -- 'Disconnected tail'
  | cyclic         -- `Traversal.Cyclic`
  deriving DecidableEq, Repr, Inhabited

/-- `Traversal.mappers()`: the subscribers that are not trained workers, in subscription order. (The local `seen` set
of `Traversal.subscribers` only skips a repeated subscriber, whose search has already returned `False` — otherwise
`any` would have stopped — and would return it again; it is left out.) -/
def mappers (g : Segment) (n : Uid) : List Uid :=
  match g.worker? n with
  | none => []
  | some w => ((g.outEdges w).map (·.sub)).filter (fun m => !g.trained m)

/-- `any(k(m) for m in l)` where `k` may raise: stops at the first `True`, an exception raised before that escapes -/
def anyE : List Uid → (Uid → Except SErr Bool) → Except SErr Bool
  | [], _ => .ok false
  | m :: r, k =>
    match k m with
    | .error e => .error e
    | .ok true => .ok true
    | .ok false => anyE r k

/-- `exists(traversal)` of `Traversal.tail(expected)`: search along mapper subscriptions *without* a global `seen`
set, raising `Cyclic` when a subscriber is on the current path (`Traversal.members`):
```
if traversal.pivot == expected: return True
return any(exists(m) for m in traversal.mappers(expected))
```
-/
def existsE (g : Segment) (expected : Uid) : Nat → List Uid → Uid → Except SErr Bool
  | 0, _, _ => .ok false
  | f + 1, path, n =>
    if n = expected then .ok true
    else anyE (g.mappers n) fun m =>
      if (n :: path).contains m then .error .cyclic else existsE g expected f (n :: path) m

/-- `flow.Segment(head, tail)` with an explicit tail: simple head, the tail found along mapper subscriptions (or
`Cyclic` when a cycle is met first), simple tail -/
def construct (g : Segment) : Except SErr Unit :=
  match g.worker? g.head, g.worker? g.tail with
  | some h, some t =>
    if h.szin > 1 then .error .simpleHead
    else match existsE g g.tail (g.workers.length + 1) [] g.head with
      | .error e => .error e
      | .ok false => .error .disconnected
      | .ok true => if t.szout > 1 then .error .simpleTail else .ok ()
  | _, _ => .error .disconnected

/-- every listed member but the head is subscribed to some port from which the traversal follows it -/
def connected (g : Segment) : Bool :=
  g.workers.all fun w =>
    w.uid = g.head || g.edges.any fun e => e.sub = w.uid && (e.pub != g.tail || g.trained w.uid)

/-- the subscriptions stay inside the listed members and the head is one of them (part of `wf`; all that the
enumeration theorem needs — no acyclicity) -/
def closed (g : Segment) : Bool :=
  g.uids.contains g.head && g.edges.all fun e => g.uids.contains e.sub

end Segment
end ForML.Flow
