/-
C06 — file backed origins of the `monolite` feed (`forml/provider/feed/monolite.py`): how the options the user configures
reach the reader and what the reader then takes for the content of the file.

  Python                                                       here
  -----------------------------------------------------------  ------------------------------------------------
  dict `a | b` (the right operand wins)                        `merge a b`
  File.__init__: `self._kwargs = self.OPTIONS | kwargs`        `effective defaults user`
  Csv.OPTIONS = {'parse_dates': True, 'header': 0}             `csvDefaults`
  Csv.read: `pandas.read_csv(path, **({'names': names} | kwargs))`   `loadCsv`: with `names` given, `header=n` drops the
                                                               lines `0..n` (the header line is replaced by the names),
                                                               `header=None` takes every line as data
  the file the user describes by these options                 `writeCsv`

Option values are kept as the text of their Python literal (`"0"`, `"None"`, `";"`).  Only `header` is interpreted;
separators, engines, date parsing … are pandas' business (trusted).  Core Lean only.
-/
import ForML.Model.SqlRel

namespace ForML.FileOrigin
open ForML.Rel

/-- keyword options: name ↦ Python literal -/
abbrev Options := List (String × String)

/-- Python's `a | b` on dicts: every key of `b`, then the keys of `a` that `b` does not have -/
def merge (a b : Options) : Options := b ++ a.filter (fun kv => (b.lookup kv.1).isNone)

/-- `Csv.OPTIONS` -/
def csvDefaults : Options := [("parse_dates", "True"), ("header", "0")]

/-- `File.__init__`: the options handed to the reader -/
def effective (defaults user : Options) : Options := merge defaults user

/-- number of leading lines that are not data under the `header` option (`names` is always given) -/
def headerLines (opts : Options) : Option Nat :=
  match opts.lookup "header" with
  | none => some 1            -- pandas' own default with `names` given is `header=None`; the class default overrides it
  | some "None" => some 0
  | some "0" => some 1
  | some "1" => some 2
  | some _ => none            -- other header specifications are outside the model

/-- `Csv.read` on the lines of the file: the data rows (`none`: an option value outside the model) -/
def loadCsv (opts : Options) (lines : List Row) : Option (List Row) :=
  (headerLines opts).map (fun n => lines.drop n)

/-- the file a user who configures `user` has: a header line exactly when the effective `header` option says so -/
def writeCsv (opts : Options) (cols : List String) (rows : List Row) : Option (List Row) :=
  (headerLines opts).map (fun n => List.replicate n (cols.map Val.str) ++ rows)

end ForML.FileOrigin
