/-
C04 — the composition `Runner.eval_perftrack` works on, derived from the plain composition.

`PerfTrackScore.compose` (forml/evaluation/_stage.py) expands the pipeline once, subscribes a **copy** of its apply
segment (`Segment.copy` = `Traversal.copy`: forks of the workers between head and tail — same groups, fresh uids, no
`Train`/`Label` registrations — with the subscriptions among them re-created) to the new apply head and the
*original* apply segment to the new train head, followed by the metric.  `Composition.persistent` of that composition
is therefore computed on the copy, while the segment that is compiled and run (the train segment) consists of the
original apply workers.  Composing is refused (`TopologyError: Ambiguous tail`, raised by the retracing
`Segment.extend()` in `Composition.__new__`) unless the apply segment is a simple chain.

On the composed graph this is `Comp.perfOf`: every node gets a fork with uid `ρ uid` (`ρ` = the fresh uuids), every
subscription is duplicated between the forks; the apply segment is the image of the plain apply segment, the train
segment is the plain apply segment itself (the evaluation's own source / label / metric workers are stateless and not
part of this model).  Forking *all* nodes instead of only the path members is immaterial: forks that are not
reachable from the forked head are never visited.
-/
import ForML.Model.Persist

namespace ForML.Persist

/-- `worker.fork()` under the uid supply `ρ`: same group, actor and shape, no subscriptions of its own yet -/
def Node.fork (ρ : Nat → Nat) (n : Node) : Node := { n with uid := ρ n.uid, trained := false }

namespace Comp

/-- the workers the mappers-only traversal can reach from `u` (`Traversal.mappers`) -/
def mappers (c : Comp) (u : Nat) : List Nat := dedup ((c.subs u).filter (fun v => !c.isTrained v))

/-- `Traversal.tail()` finds exactly one leaf iff no reachable node forks into two mappers -/
def isChain (c : Comp) : Bool :=
  (c.visit c.applyHead c.applyTail).all (fun u => (c.mappers u).length ≤ 1)

/-- the plain composition plus the copy of its apply segment -/
def copied (ρ : Nat → Nat) (c : Comp) : Comp where
  nodes := c.nodes ++ c.nodes.map (Node.fork ρ)
  edges := c.edges ++ c.edges.map (fun e => (ρ e.1, ρ e.2))
  applyHead := ρ c.applyHead
  applyTail := ρ c.applyTail
  trainHead := c.applyHead
  trainTail := c.applyTail

/-- the composition of `pipeline >> PerfTrackScore`.  `closed`: the composition is closed by a sink
(`Composition.Builder.build(sink)`): the sink's segment supplies an explicit tail, nothing is retraced and a
branching apply segment is accepted; without a sink `Segment.extend()` retraces the tail and refuses a fork. -/
def perfOf (ρ : Nat → Nat) (closed : Bool) (c : Comp) : Except Err Comp :=
  if closed || c.isChain then .ok (c.copied ρ) else .error .topology

/-- every uid the composition mentions -/
def uids (c : Comp) : List Nat :=
  c.nodes.map (·.uid) ++ c.edges.map (·.1) ++ c.edges.map (·.2)
    ++ [c.applyHead, c.applyTail, c.trainHead, c.trainTail]

/-- no trainer hangs off the apply tail (`Traversal.each` would follow it) -/
def tailClean (c : Comp) : Bool := (c.subs c.applyTail).all (fun v => !c.isTrained v)

end Comp

end ForML.Persist
