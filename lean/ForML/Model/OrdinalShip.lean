/-
C10 — construction and *re*-construction of the ordinal specs on the extraction path.

* forml/project/_component/__init__.py  `Source.Extract.Ordinal.__new__(cls, column, once)`:
  `cls.Once(once) if once else cls.Once.EXACTLY` — `once` may be `None`, a spelling (string) or an
  `Once` member (`Source.query(once=Once.ATLEAST)`; and what a reconstruction passes, see below);
  `Source.Extract.__new__`: `if ordinal: Ordinal(ordinal, once) elif once: raise InvalidError`.
* `Ordinal` is a `collections.namedtuple` with a custom `__new__`.  `pickle`, `cloudpickle`,
  `copy.copy` and `copy.deepcopy` rebuild a namedtuple with
  `copyreg.__newobj__(cls, *obj.__getnewargs__())` = `cls.__new__(cls, column, <Once member>)`, so a
  round trip goes through `Ordinal.__new__` again, this time with the *member* in place of the
  spelling.  The enum member itself is rebuilt by value (`Once(<Bounds tuple>)`) = the member.
* forml/io/_input/extract.py  `Statement` / `Statement.Prepared` are plain `typing.NamedTuple`s
  (rebuilt field by field), the driver actor builder (`flow.Spec`) carries
  `(producer, Statement(Prepared(statement, ordinal), lower, upper))`.  That builder is what a runner
  ships to another process (dask `processes`/`distributed`, spark): the ordinal specs the worker
  evaluates is the *reconstructed* one.

`sourceWindows` is the whole path: `Source.query(…, ordinal, once)` → [ship]ⁿ → one launch per window.
-/
import ForML.Model.Ordinal

namespace ForML.Ordinal

/-- what is handed to `Ordinal.__new__` / `Extract.__new__` as `once` -/
inductive OnceArg where
  | none                  -- `None`
  | str (s : String)      -- a spelling (`''` is falsy)
  | member (m : Once)     -- an `Once` member
  deriving DecidableEq, Repr

/-- `bool(once)` (enum members are truthy) -/
def OnceArg.truthy : OnceArg → Bool
  | .none => false
  | .str s => decide (s ≠ "")
  | .member _ => true

/-- `Once(value)`: a member is returned as it is, a string goes through `_missing_` -/
def onceCall : OnceArg → Except Err Once
  | .member m => .ok m
  | .str s => parseOnce s
  | .none => .error .valueError

/-- `Ordinal.__new__`, parametrised by the resolution of a truthy `once` -/
def ordinalNewWith (resolve : OnceArg → Except Err Once) (a : OnceArg) : Except Err Once :=
  if a.truthy then resolve a else .ok .exactly

/-- `Ordinal.__new__`: `cls.Once(once) if once else cls.Once.EXACTLY` -/
def ordinalNew (a : OnceArg) : Except Err Once := ordinalNewWith onceCall a

/-- a constructor that resolves *spellings only* and lets everything else fall back to the default
(not the code that exists: kept to state why the member branch matters, see Lemmas/C10Ship) -/
def onceCallStrOnly : OnceArg → Except Err Once
  | .str s => parseOnce s
  | _ => .ok .exactly

/-- the `Ordinal` namedtuple: the column (identified by a number; its kind is a function of the
column) and the resolved semantic -/
structure OrdinalSpec where
  column : Nat
  once : Once
  deriving DecidableEq, Repr

def OrdinalSpec.newWith (resolve : OnceArg → Except Err Once) (column : Nat) (a : OnceArg) :
    Except Err OrdinalSpec :=
  match ordinalNewWith resolve a with
  | .ok m => .ok ⟨column, m⟩
  | .error e => .error e

/-- `Ordinal(column, once)` -/
def OrdinalSpec.new (column : Nat) (a : OnceArg) : Except Err OrdinalSpec :=
  OrdinalSpec.newWith onceCall column a

/-- `namedtuple.__getnewargs__`: the fields — the semantic as the *member* -/
def OrdinalSpec.newargs (o : OrdinalSpec) : Nat × OnceArg := (o.column, .member o.once)

def OrdinalSpec.reconstructWith (resolve : OnceArg → Except Err Once) (o : OrdinalSpec) :
    Except Err OrdinalSpec :=
  OrdinalSpec.newWith resolve o.newargs.1 o.newargs.2

/-- `copyreg.__newobj__(cls, *args)`: what `pickle` / `cloudpickle` / `copy` / `deepcopy` do -/
def OrdinalSpec.reconstruct (o : OrdinalSpec) : Except Err OrdinalSpec :=
  OrdinalSpec.reconstructWith onceCall o

/-- `Extract.__new__`: `if ordinal: Ordinal(ordinal, once) elif once: raise InvalidError` -/
def extractNew (ordinal : Option Nat) (a : OnceArg) : Except Err (Option OrdinalSpec) :=
  match ordinal with
  | some c =>
    match OrdinalSpec.new c a with
    | .ok o => .ok (some o)
    | .error e => .error e
  | none => if a.truthy then .error .invalidError else .ok none

/-- one round trip of `Statement.Prepared(statement, ordinal)` (or of anything that holds it: the
`Statement`, the driver builder): the ordinal, if any, is reconstructed -/
def shipOrdinal : Option OrdinalSpec → Except Err (Option OrdinalSpec)
  | none => .ok none
  | some o =>
    match o.reconstruct with
    | .ok o' => .ok (some o')
    | .error e => .error e

/-- `n` round trips -/
def shipN : Nat → Option OrdinalSpec → Except Err (Option OrdinalSpec)
  | 0, o => .ok o
  | n + 1, o =>
    match shipOrdinal o with
    | .ok o' => shipN n o'
    | .error e => .error e

/-- the `(kind, semantic)` pair that `Prepared.__call__` works with (`kindOf`: column ↦ its kind) -/
def toOrd (kindOf : Nat → Kind) : Option OrdinalSpec → Option (Kind × Once)
  | none => none
  | some o => some (kindOf o.column, o.once)

section
variable {α : Type} [LE α] [LT α] [DecidableLE α] [DecidableLT α] [DecidableEq α]

/-- one result per window, each launch on its own (a refused launch does not stop the caller from
launching the next window) -/
def runWindows (ord : Option (Kind × Once)) (wins : List (Option (Raw α) × Option (Raw α)))
    (data : List α) : List (Except Err (List Nat)) :=
  wins.map (fun w => launch ord w.1 w.2 data)

/-- `Source.query(stmt, ordinal=…, once=…)` → `Feed.load` per window with the ordinal specs shipped
`ships` times before the driver evaluates it.  `.error` = the source constructor refused. -/
def sourceWindows (kindOf : Nat → Kind) (ordinal : Option Nat) (a : OnceArg) (ships : Nat)
    (wins : List (Option (Raw α) × Option (Raw α))) (data : List α) :
    Except Err (List (Except Err (List Nat))) :=
  match extractNew ordinal a with
  | .error e => .error e
  | .ok o =>
    match shipN ships o with
    | .error e => .error e
    | .ok o' => .ok (runWindows (toOrd kindOf o') wins data)

end

end ForML.Ordinal
