/-
C20 (second half) — provider bank: model of `forml/provider/__init__.py`.

  Reference / Qualifier / Alias              ↦ `Ref`
  Bank.Path (eq/hash by value only)          ↦ `PathE`, `Bank.addPaths` (set.update keeps the element already present)
  Bank.add                                   ↦ `Bank.add`          (all references checked before any is registered;
                                                                    paths are merged before the abstract test)
  Service.__init_subclass__                  ↦ `initSubclass`      (alias on abstract class rejected; one `add` per
                                                                    Service ancestor in MRO order, partial effects stay)
  executing a module body (class statements) ↦ `execClasses`, `execMod` (sys.modules entry only on success)
  Bank.Path.load (`__import__(v, fromlist=['*'])`) ↦ `loadPath`    (package `__init__`, then the module, for a package
                                                                    its `__all__` sub-modules; ModuleNotFoundError ignored
                                                                    unless explicit → MissingError)
  Bank.get                                   ↦ `get`, `getLoop`    (repaired: `base = sorted(self.paths)`, the last element of
                                                                    `[*base, *reference.paths(base)]` not searched yet is
                                                                    loaded, the list is rebuilt, until the reference is
                                                                    registered or nothing is left; `getOnce` = before the
                                                                    repair: the list built once)
  Meta.__getitem__                           ↦ `get` result        (KeyError → MissingError)

The iteration order of the `set` `self.paths` is not determined by the program (string hashes, PYTHONHASHSEED): in the
legacy `getOnce` it is an explicit parameter `order` (a permutation of the bank's path values).  `Bank.get` (since fix
C20-sorted-search-paths) sorts what it iterates, so that the order provably does not matter (`C20_lookup_order_free`);
the repaired `get` sorts the model's own representation of the set.
Names (packages, sub-modules, aliases, qualnames) are naturals numbered by the harness in the order of the strings, so
that the order of `Mod` below is Python's order of the dotted module names ('.' sorts before every identifier
character); a sub-module name and an alias with the same spelling are the same number, because `Alias.paths` builds
the module name `<path>.<alias>`.  Core Lean only.
-/
namespace ForML.Bank

/-- dotted module name `pkg` or `pkg.sub` -/
structure Mod where
  pkg : Nat
  sub : Option Nat
  deriving DecidableEq, Repr

/-- class identity as seen by `Meta.__eq__`: (module, qualname) -/
structure ClassId where
  mod : Mod
  qn : Nat
  deriving DecidableEq, Repr

inductive Ref where
  | alias : Nat → Ref
  | qual : ClassId → Ref
  deriving DecidableEq, Repr

/-- one `class X(Parent, alias=…, path=…)` statement -/
structure ClassDef where
  id : ClassId
  alias : Option Nat
  /-- `inspect.isabstract(cls)`: abstract methods / properties not implemented (own, inherited, or from a mixin) -/
  unimpl : Bool
  /-- some value of the class' own `__dict__` is an abstract class (an abstract inner class / component) -/
  inner : Bool
  /-- the Service ancestors (excluding `Service` and the class itself) in MRO order -/
  parents : List ClassId
  /-- `path=` keyword: explicit search paths -/
  paths : List Mod
  deriving DecidableEq, Repr

/-- the module's own `isabstract(cls)`: "extended version of inspect.isabstract that also considers any inner classes";
both `Service.__init_subclass__` and `Bank.add` use this predicate -/
def ClassDef.abstract (c : ClassDef) : Bool := c.unimpl || c.inner

structure PathE where
  mod : Mod
  explicit : Bool
  deriving DecidableEq, Repr

structure Bank where
  provider : List (Ref × ClassId)
  paths : List PathE
  deriving DecidableEq, Repr

inductive Err where
  | collision      -- forml.UnexpectedError: Provider reference collision
  | abstractAlias  -- forml.UnexpectedError: Provider reference illegal on abstract class
  | preload        -- forml.MissingError: Explicit preload not found
  | missing        -- forml.MissingError: No provider registered as … (KeyError in Bank.get)
  deriving DecidableEq, Repr

def Bank.empty : Bank := ⟨[], []⟩

def lookupRef (r : Ref) : List (Ref × ClassId) → Option ClassId
  | [] => none
  | (r', c) :: rest => if r' = r then some c else lookupRef r rest

/-- `self.provider[ref] = provider` -/
def setRef (r : Ref) (c : ClassId) : List (Ref × ClassId) → List (Ref × ClassId)
  | [] => [(r, c)]
  | (r', c') :: rest => if r' = r then (r, c) :: rest else (r', c') :: setRef r c rest

/-- `references = {Reference(provider)} ∪ {alias}` -/
def refs (c : ClassDef) : List Ref :=
  .qual c.id :: (match c.alias with
    | some a => [.alias a]
    | none => [])

/-- `self.paths.update(paths)` -/
def addPaths (ps : List PathE) : List PathE → List PathE
  | [] => ps
  | q :: qs =>
    let ps' := if ps.any (fun e => e.mod = q.mod) then ps else ps ++ [q]
    addPaths ps' qs

/-- `Meta.__eq__`: what counts as "the same class" — `other.__module__ == cls.__module__ and other.__qualname__ is
cls.__qualname__`, NOT the identity of the class object: a class statement executed again (a factory function called
twice, a class defined in a loop) yields the same provider.  `ClassId.qn` stands for the `__qualname__` string object;
strings of the same code object and interned strings are identical objects (see `reloadMod` for what is not). -/
def metaEq (a b : ClassId) : Bool := a.mod == b.mod && a.qn == b.qn

/-- `Meta.__hash__`: `hash(cls.__module__) ^ hash(cls.__qualname__)` (by value; `hashOf` is any hash of names) -/
def metaHash (hashOf : Nat → Nat) (a : ClassId) : Nat :=
  (hashOf a.mod.pkg + (match a.mod.sub with
    | some s => hashOf s + 1
    | none => 0)) ^^^ hashOf a.qn

/-- the check loop of `Bank.add`: some reference is already bound to a different class (`provider == self.provider[ref]`
is `Meta.__eq__`) -/
def collides (b : Bank) (c : ClassDef) : Bool :=
  (refs c).any (fun r => match lookupRef r b.provider with
    | some d => !metaEq d c.id
    | none => false)

/-- the registration loop of `Bank.add` -/
def register (pr : List (Ref × ClassId)) (c : ClassDef) : List (Ref × ClassId) :=
  (refs c).foldl (fun pr r => setRef r c.id pr) pr

/-- `Bank.add(provider, alias, paths)` -/
def Bank.add (b : Bank) (c : ClassDef) : Except Err Bank :=
  if collides b c then .error .collision
  else
    let paths := addPaths b.paths (c.paths.map (fun m => ⟨m, true⟩))
    if c.abstract then .ok ⟨b.provider, paths⟩
    else .ok ⟨register b.provider c, paths⟩

/-- process state: `BANK` (a defaultdict keyed by interface class) and `sys.modules` -/
structure St where
  banks : List (ClassId × Bank)
  loaded : List Mod
  deriving DecidableEq, Repr

def St.empty : St := ⟨[], []⟩

def getBank (i : ClassId) : List (ClassId × Bank) → Bank
  | [] => Bank.empty
  | (j, b) :: rest => if j = i then b else getBank i rest

def setBank (i : ClassId) (b : Bank) : List (ClassId × Bank) → List (ClassId × Bank)
  | [] => [(i, b)]
  | (j, b') :: rest => if j = i then (i, b) :: rest else (j, b') :: setBank i b rest

/-- the loop `for parent in …: BANK[parent].add(cls, alias, path)` -/
def addToBanks (st : St) (c : ClassDef) : List ClassId → St × Option Err
  | [] => (st, none)
  | i :: rest =>
    match (getBank i st.banks).add c with
    | .error e => (st, some e)
    | .ok b => addToBanks { st with banks := setBank i b st.banks } c rest

/-- `Service.__init_subclass__` -/
def initSubclass (st : St) (c : ClassDef) : St × Option Err :=
  if c.alias.isSome && c.abstract then (st, some .abstractAlias)
  else addToBanks st c (c.id :: c.parents)

/-- a module body: class statements in order, the first exception aborts -/
def execClasses (st : St) : List ClassDef → St × Option Err
  | [] => (st, none)
  | c :: rest =>
    match initSubclass st c with
    | (st', some e) => (st', some e)
    | (st', none) => execClasses st' rest

structure ModuleDef where
  /-- `__all__` of a package `__init__` (sub-module names) -/
  subs : List Nat
  classes : List ClassDef
  deriving Repr

abbrev World := List (Mod × ModuleDef)

def findMod (m : Mod) : World → Option ModuleDef
  | [] => none
  | (m', d) :: rest => if m' = m then some d else findMod m rest

/-- import one module whose parent package (if any) is already imported; `none` in the first component = not found -/
def execMod (w : World) (st : St) (m : Mod) : Option (St × Option Err) :=
  match findMod m w with
  | none => none
  | some d =>
    if st.loaded.contains m then some (st, none)
    else match execClasses st d.classes with
      | (st', some e) => some (st', some e)
      | (st', none) => some ({ st' with loaded := m :: st'.loaded }, none)

/-- `importlib.reload(module)`: the module body is executed again by a NEW code object.  Every class statement creates a
new class object with the same module and qualname; whether `Meta.__eq__` takes it for the registered class depends on
the identity of the `__qualname__` string: identifier-like names are interned by the compiler (same object: the
statement re-registers the class), dotted qualnames (`Outer.Inner`, `make.<locals>.Impl`) are constants of the new code
object (another object: `Bank.add` finds the qualified reference bound to "a different class" and raises the collision
error, leaving the old registration in place).  `interned` lists the qualnames of the first kind. -/
def reloadClasses (interned : List Nat) (st : St) : List ClassDef → St × Option Err
  | [] => (st, none)
  | c :: rest =>
    if !c.abstract && !interned.contains c.id.qn && !(c.alias.isSome && c.abstract)
        && (lookupRef (.qual c.id) (getBank c.id st.banks).provider).isSome then (st, some .collision)
    else match initSubclass st c with
      | (st', some e) => (st', some e)
      | (st', none) => reloadClasses interned st' rest

/-- `none` = the module is not in `sys.modules` (or does not exist) -/
def reloadMod (w : World) (interned : List Nat) (st : St) (m : Mod) : Option (St × Option Err) :=
  match findMod m w with
  | none => none
  | some d => if st.loaded.contains m then some (reloadClasses interned st d.classes) else none

/-- `_handle_fromlist(pkg, ['*'])`: the `__all__` sub-modules, a missing one is skipped -/
def importSubs (w : World) (st : St) (pkg : Nat) : List Nat → St × Option Err
  | [] => (st, none)
  | s :: rest =>
    match execMod w st ⟨pkg, some s⟩ with
    | none => importSubs w st pkg rest
    | some (st', some e) => (st', some e)
    | some (st', none) => importSubs w st' pkg rest

/-- `import pkg.sub` / `import pkg` as a plain statement (used by the import-order scenarios);
`none` = ModuleNotFoundError -/
def importMod (w : World) (st : St) (m : Mod) : Option (St × Option Err) :=
  match m.sub with
  | none => execMod w st m
  | some _ =>
    match execMod w st ⟨m.pkg, none⟩ with
    | none => none
    | some (st', some e) => some (st', some e)
    | some (st', none) => execMod w st' m

/-- the process state a `ModuleNotFoundError` out of `import m` leaves behind: an existing parent package has been
executed (its classes are registered, it stays in `sys.modules`) although the sub-module is missing -/
def afterNotFound (w : World) (st : St) (m : Mod) : St :=
  match m.sub with
  | none => st
  | some _ =>
    match execMod w st ⟨m.pkg, none⟩ with
    | some (st', none) => st'
    | _ => st

/-- `Bank.Path.load` -/
def loadPath (w : World) (st : St) (p : PathE) : St × Option Err :=
  match importMod w st p.mod with
  | none => (afterNotFound w st p.mod, if p.explicit then some .preload else none)
  | some (st', some e) => (st', some e)
  | some (st', none) =>
    match p.mod.sub, findMod p.mod w with
    | none, some d => importSubs w st' p.mod.pkg d.subs
    | _, _ => (st', none)

/-- `reference.paths(self.paths)` -/
def refPaths (r : Ref) (base : List PathE) : List PathE :=
  match r with
  | .qual c => [⟨c.mod, false⟩]
  | .alias a => base.filterMap (fun b => match b.mod.sub with
      | none => some ⟨⟨b.mod.pkg, some a⟩, false⟩
      | some _ => none)  -- deeper paths are not generated (three-level names are outside the model)

/-- LEGACY (`Bank.get` before the repair C20-F2): `while reference not in self.provider and paths: paths.pop().load()`
over a search list that was built once — `todo` is that list in pop order -/
def getLoopOnce (w : World) (iface : ClassId) (r : Ref) (st : St) : List PathE → St × Option Err
  | [] => (st, none)
  | p :: rest =>
    if (lookupRef r (getBank iface st.banks).provider).isSome then (st, none)
    else match loadPath w st p with
      | (st', some e) => (st', some e)
      | (st', none) => getLoopOnce w iface r st' rest

/-- the bank's paths arranged in the set's iteration order -/
def arrange (paths : List PathE) (order : List Mod) : List PathE :=
  order.filterMap (fun m => paths.find? (fun e => e.mod = m))

/-- `order` is an iteration order of the set: it arranges the bank's paths into a permutation of them -/
def validOrder (paths : List PathE) (order : List Mod) : Bool :=
  order.length == paths.length && (arrange paths order).isPerm paths

/-- outcome of `Service[reference]` -/
inductive Res where
  | ok : ClassId → Res
  | error : Err → Res
  deriving DecidableEq, Repr

/-- `str.__lt__`/`__le__` on dotted names of at most two components: `pkg` < `pkg.sub` < `pkg'` for `pkg < pkg'` -/
def Mod.le (a b : Mod) : Bool :=
  a.pkg < b.pkg || (a.pkg == b.pkg && (match a.sub, b.sub with
    | none, _ => true
    | some _, none => false
    | some x, some y => x ≤ y))

/-- tuple order of `Bank.Path(value, explicit)` (a NamedTuple: `<` is the tuple's, `False < True`) -/
def PathE.le (a b : PathE) : Bool :=
  if a.mod = b.mod then (!a.explicit || b.explicit) else a.mod.le b.mod

def insertPath (p : PathE) : List PathE → List PathE
  | [] => [p]
  | q :: rest => if p.le q then p :: q :: rest else q :: insertPath p rest

/-- `sorted(self.paths)` (insertion sort: structural recursion, so that `decide` can evaluate it) -/
def sortPaths (ps : List PathE) : List PathE := ps.foldr insertPath []

/-- the list `[*base, *reference.paths(base)]` with `base = sorted(self.paths)` in `pop()` order -/
def todoPaths (bank : Bank) (r : Ref) (order : List Mod) : List PathE :=
  let base := sortPaths (arrange bank.paths order)
  (base ++ refPaths r base).reverse

/-- `return self.provider[reference]` after the loop; KeyError → MissingError in `Meta.__getitem__` -/
def finish (iface : ClassId) (r : Ref) : St × Option Err → St × Res
  | (st', some e) => (st', .error e)
  | (st', none) =>
    match lookupRef r (getBank iface st'.banks).provider with
    | some c => (st', .ok c)
    | none => (st', .error .missing)

/-- LEGACY: `Meta.__getitem__` → `Bank.get` as it was before the repair C20-F2 (the search list is built once) -/
def getOnce (w : World) (st : St) (iface : ClassId) (r : Ref) (order : List Mod) : St × Res :=
  match lookupRef r (getBank iface st.banks).provider with
  | some c => (st, .ok c)
  | none => finish iface r (getLoopOnce w iface r st (todoPaths (getBank iface st.banks) r order))

/-- `[*base, *reference.paths(base)]` with `base = sorted(self.paths)`, in the order in which the repaired loop takes
its elements (from the end).  Sorting makes the iteration order of the set irrelevant (`sortPaths_perm`): the model
sorts its own representation of the set. -/
def searchList (bank : Bank) (r : Ref) : List PathE :=
  let base := sortPaths bank.paths
  (base ++ refPaths r base).reverse

/-- `paths = [p for p in (*base, *reference.paths(base)) if p not in searched]`; `paths[-1]` (`Bank.Path` is compared
and hashed by its value only: `searched` holds module names) -/
def nextPath (bank : Bank) (r : Ref) (searched : List Mod) : Option PathE :=
  (searchList bank r).find? (fun p => !searched.contains p.mod)

/-- every `path=` declared by any class statement of the world -/
def declaredPaths (w : World) : List Mod := w.flatMap (fun e => e.2.classes.flatMap (fun c => c.paths))

/-- an upper bound of the number of iterations of the search loop: every iteration searches a module name it has not
searched before, and every candidate is a declared search path or derived from one (`Lemmas/C20Hist.lean`
`getLoop_closed` proves that the bound is never reached from a state reached by imports) -/
def searchFuel (w : World) : Nat := 2 * (declaredPaths w).length + 2

/-- `Bank.get` (repaired, fix C20-search-paths-registered-during-lookup):
`while reference not in self.provider: … if not paths: break; searched.add(paths[-1]); paths[-1].load()` — the search
list is rebuilt after every import, because a class discovered on the way may have registered further search paths -/
def getLoop (w : World) (iface : ClassId) (r : Ref) : Nat → St → List Mod → St × Option Err
  | 0, st, _ => (st, none)
  | n + 1, st, searched =>
    if (lookupRef r (getBank iface st.banks).provider).isSome then (st, none)
    else match nextPath (getBank iface st.banks) r searched with
      | none => (st, none)
      | some p =>
        match loadPath w st p with
        | (st', some e) => (st', some e)
        | (st', none) => getLoop w iface r n st' (p.mod :: searched)

/-- `Meta.__getitem__` → `Bank.get` -/
def get (w : World) (st : St) (iface : ClassId) (r : Ref) : St × Res :=
  finish iface r (getLoop w iface r (searchFuel w) st [])

/-- registering a list of classes into one bank (the single-bank view used by the order theorems) -/
def addAll (b : Bank) : List ClassDef → Except Err Bank
  | [] => .ok b
  | c :: rest =>
    match b.add c with
    | .error e => .error e
    | .ok b' => addAll b' rest

end ForML.Bank
