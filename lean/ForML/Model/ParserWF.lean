/-
C06 — the decidable well-formedness predicate the C06 theorems are stated for: "a well-formed query statement over
schemas a SQL feed provisions", restricted to what the model covers.

`WF srcs s` demands of a statement `s` (a query or a set operation at the top, as `dsl.Statement`):
* every table is provisioned by `srcs`, and `srcs` provisions tables only (no denormalised joins: `bypass` is inert);
* the FROM tree of every query consists of origins (tables, references, joins of origins); a reference wraps a table
  or a nested statement;
* inside one FROM tree the origins are addressed by pairwise different names (physical table names and reference
  names) — the SQL the parser emits would be ambiguous otherwise;
* every element used by a clause (projection, where, group, having, order, join condition) belongs to an origin of
  that FROM tree (the documented grammar: features must be a subset of the source's features);
* expressions use classes present in `alchemy.Parser.EXPRESSION` (the generated table) with their arity; no `Cast`,
  no window;
* a join has a condition iff it is not CROSS.
-/
import ForML.Model.Parser

namespace ForML.Parser
open ForML.Dsl ForML.Rel

/-- origins of a FROM tree: tables and references (a reference hides what it wraps) -/
def leaves : Source → List Source
  | .join l r _ _ => leaves l ++ leaves r
  | s => [s]

def isOrigin : Source → Bool
  | .table _ _ => true
  | .ref _ _ => true
  | .join _ _ _ _ => true
  | _ => false

def isTable : Source → Bool
  | .table _ _ => true
  | _ => false

/-- `Feed.sources` of a SQL feed maps tables only -/
def OnlyTables (srcs : Sources) : Bool := srcs.all (fun p => isTable p.1)

/-- name an origin is addressed by in the emitted SQL (`""` if not provisioned) -/
def qualD (srcs : Sources) (o : Source) : String := (qual srcs o).getD ""

def nodupB {α : Type} [DecidableEq α] : List α → Bool
  | [] => true
  | x :: xs => !xs.contains x && nodupB xs

mutual
/-- the feature only uses elements of the origins in `scope` and supported expression classes -/
def supportedF (scope : List Source) : Feature → Bool
  | .lit _ => true
  | .elem o _ => scope.contains o
  | .alias f _ => supportedF scope f
  | .expr op args =>
    (match exprOp op with
     | some sop => sop != .raises
     | none => false) &&
    featuresLength args == op.arity && (op.arity == 1 || op.arity == 2) && supportedFs scope args
  | .cast _ _ => false
  | .window _ _ _ => false
def supportedFs (scope : List Source) : Features → Bool
  | .nil => true
  | .cons f fs => supportedF scope f && supportedFs scope fs
end

def supportedFO (scope : List Source) : FeatureOpt → Bool
  | .none => true
  | .some f => supportedF scope f

def supportedOrd (scope : List Source) : Orderings → Bool
  | .nil => true
  | .cons (.mk f d) os => supportedF scope f && (orderOf d).isSome && supportedOrd scope os

mutual
/-- a FROM tree -/
def wfFrom (srcs : Sources) : Source → Bool
  | .table n fields => (srcs.lookup (.table n fields)).isSome
  | .ref inst _ =>
    match inst with
    | .table n fields => (srcs.lookup (.table n fields)).isSome
    | .ref _ _ => false
    | .join _ _ _ _ => false
    | _ => wfOut srcs inst
  | .join l r k c =>
    wfFrom srcs l && wfFrom srcs r && isOrigin l && isOrigin r && (joinOpt k).isSome &&
    (match k, c with
     | .cross, .none => true
     | .cross, .some _ => false
     | _, .none => false
     | _, .some f => supportedF (leaves l ++ leaves r) f)
  | _ => false
/-- a statement -/
def wfOut (srcs : Sources) : Source → Bool
  | .query src sel pre grp post ord _ =>
    wfFrom srcs src && isOrigin src && nodupB ((leaves src).map (qualD srcs)) &&
    (if sel.isEmpty then
       (match originElems src with
        | some es => !es.isEmpty
        | none => false)
     else supportedFs (leaves src) sel) &&
    supportedFO (leaves src) pre && supportedFs (leaves src) grp && supportedFO (leaves src) post &&
    supportedOrd (leaves src) ord
  | .set l r k => wfOut srcs l && wfOut srcs r && (setOpOf k).isSome
  | _ => false
end

/-- well-formed statement over the schemas the feed provisions -/
def WF (srcs : Sources) (s : Source) : Bool := OnlyTables srcs && wfOut srcs s

/-- no CROSS join anywhere in the statement (hypothesis of `C06_denotation_partial`) -/
def noCross : Source → Bool
  | .table _ _ => true
  | .ref inst _ => noCross inst
  | .join l r k _ => k != .cross && noCross l && noCross r
  | .set l r _ => noCross l && noCross r
  | .query src _ _ _ _ _ _ => noCross src

end ForML.Parser
