/-
The single-function runner *before* the repair fixes/C02-pyfunc-replica-fork.diff (kept for the record: the two
defects DESIGN.md section 7 D1/D2 are exhibited on this model by `C02_pyfunc_legacy_counterexample_*`).

    Branch.fork(term, szout)  ->  [Push(queue, term, szout-1), Pop(queue) * (szout-1)]
    Push.__call__             ->  assert not queue; value = term(arg); queue.append(value) * replicas; return value
    Pop.__call__              ->  queue.popleft()                       (IndexError on an empty deque)
    Expression.__init__       ->  providers = {n.term: deque([n.term]) for n in dag}     (the head is never forked)

`_order` and `_build` are unchanged and shared with `ForML/Model/PyFunc.lean`.  Core Lean only.
-/
import ForML.Model.PyFunc

namespace ForML.Flow.PyFunc.Legacy
open ForML.Flow ForML.Flow.PyFunc

inductive LTerm where
  | raw (k : Key) (r : Raw)
  | call (k : Key) (r : Raw) (bs : List LTerm)
  | push (q : Key) (t : LTerm) (replicas : Nat)
  | pop (q : Key)
  deriving Repr, Inhabited

def fork (q : Key) (term : LTerm) (szout : Nat) : List LTerm :=
  if szout > 1 then .push q term (szout - 1) :: List.replicate (szout - 1) (.pop q) else [term]

abbrev LProviders := List (Key × List LTerm)

def LProviders.get (p : LProviders) (k : Key) : Option (List LTerm) :=
  match p with
  | [] => none
  | (k', d) :: r => if k' = k then some d else LProviders.get r k

def LProviders.set (p : LProviders) (k : Key) (d : List LTerm) : LProviders :=
  match p with
  | [] => [(k, d)]
  | (k', d') :: r => if k' = k then (k', d) :: r else (k', d') :: LProviders.set r k d

def popleft (p : LProviders) (k : Key) : Except PfErr (LTerm × LProviders) :=
  match p.get k with
  | none => .error .keyError
  | some [] => .error .indexError
  | some (x :: d) => .ok (x, p.set k d)

def popArgs : List Key → LProviders → Except PfErr (List LTerm × LProviders)
  | [], p => .ok ([], p)
  | a :: as, p =>
    match popleft p a with
    | .error e => .error e
    | .ok (x, p') =>
      match popArgs as p' with
      | .error e => .error e
      | .ok (xs, p'') => .ok (x :: xs, p'')

def assemble : List Node → LProviders → Except PfErr LProviders
  | [], p => .ok p
  | n :: rest, p =>
    match popArgs n.args p with
    | .error e => .error e
    | .ok (args, p1) =>
      match popleft p1 n.key with
      | .error e => .error e
      | .ok (own, p2) =>
        match own, args with
        | _, [] => .error .typeError
        | .raw k r, _ =>
          let d := (p2.get n.key).getD []
          assemble rest (p2.set n.key (d ++ fork n.key (.call k r args) n.szout))
        | _, _ => .error .assertion

def expression (A : Option Assets) (t : Table) : Except PfErr LTerm :=
  if hasDup (t.map (·.id)) then .error .unsupported else
  match build A t with
  | .error e => .error e
  | .ok dag =>
    match dag, dag.getLast? with
    | first :: rest, some last =>
      if last.szout ≠ 0 || !first.args.isEmpty then .error .assertion
      else
        let providers : LProviders := dag.map fun n => (n.key, [LTerm.raw n.key n.raw])
        match assemble rest providers with
        | .error e => .error e
        | .ok p =>
          match p.get last.key with
          | some [term] =>
            if (p.set last.key []).all (fun e => e.2.isEmpty) then .ok term else .error .assertion
          | _ => .error .assertion
    | _, _ => .error .assertion

mutual
def eval (x : Val) : LTerm → Queues → Except PfErr (Val × Queues)
  | .raw _ r, q => .ok (r.call [x], q)
  | .call _ r bs, q =>
    match evalArgs x bs q with
    | .error e => .error e
    | .ok (vs, q') => .ok (r.call vs, q')
  | .push k t n, q =>
    if !(q.get k).isEmpty then .error .assertion
    else
      match eval x t q with
      | .error e => .error e
      | .ok (v, q') => .ok (v, q'.set k (q'.get k ++ List.replicate n v))
  | .pop k, q =>
    match q.get k with
    | [] => .error .indexError
    | v :: d => .ok (v, q.set k d)
def evalArgs (x : Val) : List LTerm → Queues → Except PfErr (List Val × Queues)
  | [], q => .ok ([], q)
  | b :: bs, q =>
    match eval x b q with
    | .error e => .error e
    | .ok (v, q') =>
      match evalArgs x bs q' with
      | .error e => .error e
      | .ok (vs, q'') => .ok (v :: vs, q'')
end

/-- outcome class of `Expression(symbols)(x)` before the repair: `none` = a value is returned -/
def outcome (A : Option Assets) (t : Table) (x : Val) : Option PfErr :=
  match expression A t with
  | .error e => some e
  | .ok term =>
    match eval x term [] with
    | .error e => some e
    | .ok _ => none

end ForML.Flow.PyFunc.Legacy
