/-
C04 — what happens *inside* a commit and *between* the loads of one action.

1. `latest` resolution (`_directory.Level.key`, forml/io/asset/_directory/__init__.py): the generation an
   `asset.Instance` addresses is resolved lazily — an implicit key becomes `parent.list().last` on first access and is
   stored in `_key`; every access re-validates the (stored or explicit) key against the current listing
   (`Level.Invalid`), an empty listing raises `Listing.Empty`, which `Generation.tag` turns into the null tag (no
   state, nothing stored in `_key`).  Every `Loader` of one action goes through `State.load` →
   `generation.get(offset)` → `generation.key`: `loadKeyed`.  Other processes commit generations in between:
   `runEvents` interleaves loads of one action with foreign commits (the registry is append-only: C05).

2. The commit itself (`posix.Registry.write/close`, forml/provider/registry/filesystem/posix.py), micro-step by
   micro-step on a store of directories: every `Dumper` stages one state file in the release (`stage`), `close`
   creates the generation directory (`mkdir`), moves the staged state files of `tag.states` into it one by one
   (`move`, raising `Level.Invalid` for a state that was never staged), writes the tag to an invisible temporary file
   (`stageTag`) and renames it to `tag.toml` (`publishTag`).  A generation is *listed* iff its directory holds
   `tag.toml` (`Path.Generation.content`); reading a state file that is not there answers `b''` (no state).
   A crash is a prefix of the micro-steps.
-/
import ForML.Model.Persist

namespace ForML.Persist

/-! ### the lazily resolved generation key -/

/-- `Level._key` of the generation an instance addresses: explicit, resolved, or still open -/
structure LevelKey where
  cached : Option Nat
  deriving DecidableEq, Repr, Inhabited

inductive KeyRes where
  | key (k : Nat)
  /-- `Listing.Empty`: nothing to resolve `latest` to -/
  | empty
  /-- `Level.Invalid`: the key is not listed -/
  | invalid
  deriving DecidableEq, Repr, Inhabited

/-- `Level.key` against a release listing generations `1..n` -/
def LevelKey.key (lk : LevelKey) (n : Nat) : KeyRes × LevelKey :=
  match lk.cached with
  | none => if n == 0 then (.empty, lk) else (.key n, ⟨some n⟩)
  | some k => if k != 0 && k ≤ n then (.key k, lk) else (.invalid, lk)

/-- `State.load(gid)` with the generation resolved through `Level.key` at the moment of the load -/
def loadKeyed (P : List Nat) (lk : LevelKey) (reg : Registry) (gid : Nat) :
    Except Err (Option Origin) × LevelKey :=
  if P.contains gid then
    match lk.key reg.length with
    | (.empty, lk') => (.ok none, lk')
    | (.invalid, lk') => (.error .invalidGeneration, lk')
    | (.key k, lk') =>
      match reg[k - 1]? with
      | none => (.error .invalidGeneration, lk')
      | some g =>
        match g.states[P.idxOf gid]? with
        | some s => (.ok (some s), lk')
        | none => (.error .index, lk')
  else (.error .unknownNode, lk)

/-- what happens while one action runs: its own loads, and generations committed by other processes -/
inductive Ev where
  | load (gid : Nat)
  | commit (g : Generation)
  deriving Repr, Inhabited

/-- the results of the loads of one action, in order -/
def runEvents (P : List Nat) : LevelKey → Registry → List Ev → List (Except Err (Option Origin))
  | _, _, [] => []
  | lk, reg, .commit g :: rest => runEvents P lk (reg ++ [g]) rest
  | lk, reg, .load gid :: rest =>
    let r := loadKeyed P lk reg gid
    r.1 :: runEvents P r.2 reg rest

def loadsOf : List Ev → List Nat
  | [] => []
  | .load gid :: rest => gid :: loadsOf rest
  | .commit _ :: rest => loadsOf rest

/-- the variant without pinning (an implicit key is looked up again on every access) — for the counterexample -/
def loadUnpinned (P : List Nat) (sel : Option Nat) (reg : Registry) (gid : Nat) : Except Err (Option Origin) :=
  (loadKeyed P ⟨sel⟩ reg gid).1

def runEventsUnpinned (P : List Nat) (sel : Option Nat) : Registry → List Ev → List (Except Err (Option Origin))
  | _, [] => []
  | reg, .commit g :: rest => runEventsUnpinned P sel (reg ++ [g]) rest
  | reg, .load gid :: rest => loadUnpinned P sel reg gid :: runEventsUnpinned P sel reg rest

/-! ### the commit, micro-step by micro-step -/

/-- a generation directory -/
structure GenDir where
  key : Nat
  /-- state files: (state id, content) -/
  files : List (Nat × Origin)
  /-- `tag.toml`: (training run, `tag.states`) -/
  tag : Option (Nat × List Nat)
  deriving DecidableEq, Repr, Inhabited

structure Store where
  /-- state files staged in the release, not yet part of a generation -/
  staged : List (Nat × Origin)
  gens : List GenDir
  deriving DecidableEq, Repr, Inhabited

inductive Op where
  /-- `registry.write(project, release, sid, state)` of a `Dumper` -/
  | stage (sid : Nat) (o : Origin)
  /-- `path.parent.mkdir(parents=True, exist_ok=True)` -/
  | mkdir (k : Nat)
  /-- `source.rename(target)`; `Level.Invalid` if the state was never staged -/
  | move (k : Nat) (sid : Nat)
  /-- the tag written to `.tag.toml.tmp` (invisible to readers) -/
  | stageTag (k : Nat)
  /-- `.tag.toml.tmp` renamed to `tag.toml` -/
  | publishTag (k : Nat) (run : Nat) (sids : List Nat)
  deriving Repr, Inhabited

def Store.hasGen (s : Store) (k : Nat) : Bool := s.gens.any (fun g => g.key == k)

def updGen (k : Nat) (f : GenDir → GenDir) (gens : List GenDir) : List GenDir :=
  gens.map (fun g => if g.key == k then f g else g)

/-- one micro-step; `none` = the call raises (the rest of the commit does not happen) -/
def applyOp (s : Store) : Op → Option Store
  | .stage sid o => some { s with staged := s.staged ++ [(sid, o)] }
  | .mkdir k => if s.hasGen k then some s else some { s with gens := s.gens ++ [⟨k, [], none⟩] }
  | .move k sid =>
    match s.staged.find? (fun f => f.1 == sid) with
    | none => none
    | some f =>
      some { staged := s.staged.filter (fun f' => f'.1 != sid),
             gens := updGen k (fun g => { g with files := g.files ++ [f] }) s.gens }
  | .stageTag _ => some s
  | .publishTag k run sids => some { s with gens := updGen k (fun g => { g with tag := some (run, sids) }) s.gens }

/-- run micro-steps until one raises -/
def runOps : Store → List Op → Store
  | s, [] => s
  | s, op :: rest =>
    match applyOp s op with
    | none => s
    | some s' => runOps s' rest

/-- all micro-steps, `none` if one raises -/
def runAll : Store → List Op → Option Store
  | s, [] => some s
  | s, op :: rest =>
    match applyOp s op with
    | none => none
    | some s' => runAll s' rest

/-- everything but the final rename of the tag -/
def prepareOps (k : Nat) (states : List (Nat × Origin)) : List Op :=
  states.map (fun f => Op.stage f.1 f.2) ++ [.mkdir k] ++ states.map (fun f => Op.move k f.1) ++ [.stageTag k]

/-- the micro-steps of one training run committing generation `k` with the given states (in `tag.states` order) -/
def trainOps (k run : Nat) (states : List (Nat × Origin)) : List Op :=
  prepareOps k states ++ [.publishTag k run (states.map (·.1))]

/-- the order of the seeded change C04-m3 (tag first) — for the counterexample -/
def tagFirstOps (k run : Nat) (states : List (Nat × Origin)) : List Op :=
  states.map (fun f => Op.stage f.1 f.2) ++ [.mkdir k, .stageTag k, .publishTag k run (states.map (·.1))]
    ++ states.map (fun f => Op.move k f.1)

/-- every state the tag lists is there -/
def GenDir.complete (g : GenDir) : Bool :=
  match g.tag with
  | none => true
  | some (_, sids) => sids.all (fun sid => g.files.any (fun f => f.1 == sid))

/-- a listed generation has all its states -/
def Store.ok (s : Store) : Bool := s.gens.all GenDir.complete

/-- `read` of a listed generation: a missing state file answers `b''` -/
def GenDir.read (g : GenDir) (sid : Nat) : Option Origin := (g.files.find? (fun f => f.1 == sid)).map (·.2)

/-- what readers see of one directory: nothing unless it is listed (`tag.toml` exists), else key, run and the states -/
def GenDir.entry (g : GenDir) : Option (Nat × Nat × List (Option Origin)) :=
  match g.tag with
  | none => none
  | some (run, sids) => some (g.key, run, sids.map g.read)

/-- what readers see: the listed generations in key order (generations are created in key order) with their states -/
def Store.view (s : Store) : List (Nat × Nat × List (Option Origin)) := s.gens.filterMap GenDir.entry

/-- the registry as the model of the actions sees it; a listed generation with a missing state cannot be expressed
(`Store.ok` excludes it) — such states are dropped -/
def Store.registry (s : Store) : Registry :=
  s.view.map (fun v => ⟨v.2.1, v.2.2.filterMap id⟩)

/-- the state files of one generation: ids `base + position` -/
def filesFrom (base : Nat) : Nat → List Origin → List (Nat × Origin)
  | _, [] => []
  | j, o :: os => (base + j, o) :: filesFrom base (j + 1) os

/-- generation `k` of a registry as a directory: its states under the ids `1000 * k + position`, listed -/
def genDirOf (k : Nat) (g : Generation) : GenDir :=
  ⟨k, filesFrom (1000 * k) 0 g.states, some (g.run, (filesFrom (1000 * k) 0 g.states).map (·.1))⟩

def gensFrom : Nat → Registry → List GenDir
  | _, [] => []
  | i, g :: gs => genDirOf (i + 1) g :: gensFrom (i + 1) gs

/-- a registry as a store -/
def storeOf (reg : Registry) : Store := ⟨[], gensFrom 0 reg⟩

/-- the micro-steps of the training run that commits `g` on top of `reg` -/
def commitOps (reg : Registry) (g : Generation) : List Op :=
  trainOps (reg.length + 1) g.run (filesFrom (1000 * (reg.length + 1)) 0 g.states)

/-- a training run that dies after `done` micro-steps of its commit of generation `g` -/
def crashedCommit (reg : Registry) (g : Generation) (done : Nat) : Registry :=
  (runOps (storeOf reg) ((commitOps reg g).take done)).registry

/-! ### histories with faults -/

/-- what else happens around an action -/
structure Fault where
  /-- (train) the process dies inside its commit after that many micro-steps -/
  crash : Option Nat
  /-- another process re-trains `(run, hyper-parameter)` from the latest generation, on its own fresh expansion, and
  commits right after the first state load of this action -/
  race : Option (Nat × Nat × Fresh)

/-- the registry after the action: a training that dies inside its commit leaves what its completed micro-steps
left (`crashedCommit`); a racing re-training commits on top of that.  The action's own loads are pinned
(`C04_generation_pinned`), so its observations are those of `step` on the registry it started from — except for an
action that started on an *empty* release (nothing is pinned then: `C04_generation_pinned_counterexample`, finding
C04-F2; `obsOk` demands nothing of an action that addresses no generation, the check compares such a step by the
registry only). -/
def settle (cs : Case) (reg reg' : Registry) (x : Fault) : Registry :=
  let afterCrash := match x.crash with
    | none => reg'
    | some k =>
      match reg'.drop reg.length with
      | [g] => crashedCommit reg g k
      | _ => reg'
  match x.race with
  | none => afterCrash
  | some (r, h, f) =>
    match step (cs.rename f.1 f.2) afterCrash ⟨.train, none, r, h⟩ with
    | .ok (reg'', _) => reg''
    | .error _ => afterCrash

/-- a history of actions with faults; a failed action commits nothing (a racing re-training still may) -/
def runFaulty (cs : Case) : Registry → List (Action × Fresh × Fault) → List (Action × Registry × Except Err (List Obs))
  | _, [] => []
  | reg, (a, f, x) :: rest =>
    match step (cs.rename f.1 f.2) reg a with
    | .error e => (a, reg, .error e) :: runFaulty cs (settle cs reg reg x) rest
    | .ok (reg', obs) => (a, reg, .ok obs) :: runFaulty cs (settle cs reg reg' x) rest

end ForML.Persist
