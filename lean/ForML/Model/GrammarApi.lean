/-
C07 — the argument-handling layer of the public DSL API in front of the grammar checks of Model/Grammar:

  Python                                                        here
  ------------------------------------------------------------  --------------------------------------------
  kind.reflect(value) (kind.py:351) — the kind of a `Literal`   `PyVal`, `PyTag.isa`, `isort`, `reflectWith`, `reflect`
  series.cast(value) / Feature.ensure_is                        `Arg`, `Arg.feature`
  Ordering.Direction(value) incl. `_missing_` (series.py:431)   `DirArg`, `dirOfChars`, `DirArg.direction`
  Ordering.__new__, Ordering.make (series.py:457/468)           `mkOrdering`, `OTerm`, `makeOrderings`
  Join.Kind(kind) at the top of Join.__new__ (frame.py:686)     `JoinKindArg`, `joinNew`
  Set.__new__ — the kind is stored as given (frame.py:417)      `setNew`
  Query.__new__ with un-made ordering terms (frame.py:843)      `queryNew`
  Queryable.select/where/having/groupby/orderby/limit and the   `QOp`, `Source.applyOp`, `runChain`
    Query overrides (frame.py:440-546, 916-944)
  frame.Rows(count, offset) — nothing is validated              `Rows` stored as given

`reflect` is a function of the value alone: the model has no state, so no history of earlier reflections or
constructions can influence a verdict; the harness checks the real code against exactly that (literal sequences in
one process, in several orders).

Core Lean only.
-/
import ForML.Model.Grammar

namespace ForML.Dsl

/-! ## `kind.reflect` -/

/-- python values a literal is made of (the part of them `reflect` reads: a sequence is its first item) -/
inductive PyVal where
  | bool (b : Bool)
  | int (n : Int)
  | float (repr : String)
  | str (s : String)
  | decimal (repr : String)
  | date (iso : String)
  | datetime (iso : String)
  | none
  | emptySeq                -- `[]`, `()`
  | seq (first : PyVal)     -- a non-empty list / tuple
  deriving DecidableEq, Repr, Inhabited

/-- the python type of a value, as far as `isinstance(value, primitive.__type__)` can tell -/
inductive PyTag where
  | bool | int | float | str | decimal | date | datetime | none | seq
  deriving DecidableEq, Repr, Inhabited

def PyVal.tag : PyVal → PyTag
  | .bool _ => .bool | .int _ => .int | .float _ => .float | .str _ => .str | .decimal _ => .decimal
  | .date _ => .date | .datetime _ => .datetime | .none => .none | .emptySeq => .seq | .seq _ => .seq

def PyTag.all : List PyTag := [.bool, .int, .float, .str, .decimal, .date, .datetime, .none, .seq]

/-- the seven primitive kinds (`Primitive.__subkinds__`, a *set*: its iteration order is arbitrary) -/
def primitiveKinds : List Kind := [.boolean, .integer, .float, .decimal, .string, .date, .timestamp]

/-- `isinstance(value, kind.__type__)` for the primitive kinds: `bool ⊂ int ⊂ numbers.Integral ⊂ numbers.Real`,
`float ∈ Real`, `decimal.Decimal ∉ Real`, `datetime.datetime ⊂ datetime.date` -/
def PyTag.isa : PyTag → Kind → Bool
  | .bool, .boolean | .bool, .integer | .bool, .float => true
  | .int, .integer | .int, .float => true
  | .float, .float => true
  | .str, .string => true
  | .decimal, .decimal => true
  | .date, .date => true
  | .datetime, .date | .datetime, .timestamp => true
  | _, _ => false

/-- insertion of one kind into a list sorted by rank, before the first one of a rank not smaller -/
def insRank (x : Kind) : List Kind → List Kind
  | [] => [x]
  | y :: ys => if x.rank ≤ y.rank then x :: y :: ys else y :: insRank x ys

/-- `sorted(kinds, key=lambda k: k.__rank__)` (stable) -/
def isort (l : List Kind) : List Kind := l.foldr insRank []

/-- `reflect(value)` when `Primitive.__subkinds__` iterates in the order `order` -/
def reflectWith (order : List Kind) : PyVal → R Kind
  | .seq x =>
    match (isort order).find? (PyTag.seq.isa ·) with
    | some k => .ok k
    | Option.none => do
      -- `if value: if isinstance(value, typing.Sequence): return Array(reflect(value[0]))`
      let e ← reflectWith order x
      .ok (.array e)
  | v =>
    match (isort order).find? (v.tag.isa ·) with
    | some k => .ok k
    | Option.none => .error .illtyped   -- ValueError('… is of unknown ETL type')

/-- `kind.reflect` -/
def reflect : PyVal → R Kind := reflectWith primitiveKinds

/-- the documented meaning: the kind of the most specific python type -/
def PyVal.kindSpec : PyVal → Option Kind
  | .bool _ => some .boolean
  | .int _ => some .integer
  | .float _ => some .float
  | .str _ => some .string
  | .decimal _ => some .decimal
  | .date _ => some .date
  | .datetime _ => some .timestamp
  | .none => Option.none
  | .emptySeq => Option.none
  | .seq x => x.kindSpec.map .array

/-- the literal values of the shared AST as python values -/
def Lit.toPy : Lit → PyVal
  | .int n => .int n
  | .bool b => .bool b
  | .str s => .str s
  | .float r => .float r

/-- `repr` of a value, tagged with its python type (only used to keep different values apart) -/
def PyVal.repr : PyVal → String
  | .bool b => if b then "True" else "False"
  | .int n => toString n
  | .float r => r
  | .str s => s
  | .decimal r => "Decimal:" ++ r
  | .date i => "date:" ++ i
  | .datetime i => "datetime:" ++ i
  | .none => "None"
  | .emptySeq => "[]"
  | .seq x => "[" ++ x.repr ++ ",…]"

/-- `Literal(value)` in the shared AST (`series.cast(value)` of an API argument that is not a feature): the four plain
types are its `Lit`s; a value of any other type is represented by a cast of its `repr` to the reflected kind — every
check of the grammar reads a literal through `.kind` only, and neither node is an element, an aggregate or a
window.  `reflect` failing (`ValueError`) is the failure of `Literal.__new__`. -/
def literalOf : PyVal → R Feature
  | .int n => .ok (.lit (.int n))
  | .bool b => .ok (.lit (.bool b))
  | .str s => .ok (.lit (.str s))
  | .float r => .ok (.lit (.float r))
  | v => do
    let k ← reflect v
    .ok (.cast (.lit (.str v.repr)) k)

/-! ## `Ordering.Direction(value)` -/

/-- what is handed over as a direction -/
inductive DirArg where
  | enum (d : Dir)
  | str (s : String)
  | none
  deriving DecidableEq, Repr, Inhabited

/-- `value.lower() in {'asc', 'ascending'}` / `{'desc', 'descending'}` on the characters -/
def dirOfChars (cs : List Char) : Option Dir :=
  let l := cs.map Char.toLower
  if l = ['a', 's', 'c'] ∨ l = ['a', 's', 'c', 'e', 'n', 'd', 'i', 'n', 'g'] then some .asc
  else if l = ['d', 'e', 's', 'c'] ∨ l = ['d', 'e', 's', 'c', 'e', 'n', 'd', 'i', 'n', 'g'] then some .desc
  else Option.none

def dirOfStr (s : String) : Option Dir := dirOfChars s.toList

/-- `Ordering.Direction(value)`: a member, one of its spellings in any case, else `ValueError` -/
def DirArg.direction : DirArg → R Dir
  | .enum d => .ok d
  | .str s =>
    match dirOfStr s with
    | some d => .ok d
    | Option.none => .error .illtyped
  | .none => .error .illtyped

/-! ## `Ordering.__new__` and `Ordering.make` -/

/-- `Ordering(feature, direction)` with a made direction: `Operable.ensure_is(feature)` -/
def mkOrdering (f : Feature) (d : Dir) : R Ordering := do
  guardG (!f.isAlias)
  .ok (.mk f d)

/-- one positional argument of `orderby(*terms)` / an item of the `ordering` sequence -/
inductive OTerm where
  | feat (f : Feature)                  -- a feature on its own
  | dir (a : DirArg)                    -- a `Direction` member, a string or `None` on its own
  | pair (f : Feature) (a : DirArg)     -- a 2-sequence `(feature, direction)`
  | ordering (o : Ordering)             -- a `dsl.Ordering` instance (a 2-tuple as well)
  | junk                                -- anything else (a number, a longer tuple …)

/-- `Ordering.make(*terms)` consumed by `tuple(…)`: the terms are scanned pairwise (`zip_longest(terms, terms[1:])`);
a feature followed by a direction takes it (and skips it), a feature on its own is ascending, a 2-sequence is
unpacked, anything else is the grammar error.  `Direction(direction)` is evaluated before `Ordering(…)`. -/
def makeOrderings : List OTerm → R (List Ordering)
  | [] => .ok []
  | .feat f :: .dir (.enum e) :: rest => do
    let o ← mkOrdering f e
    let os ← makeOrderings rest
    .ok (o :: os)
  | .feat f :: .dir (.str s) :: rest => do
    let d ← (DirArg.str s).direction
    let o ← mkOrdering f d
    let os ← makeOrderings rest
    .ok (o :: os)
  | .feat f :: rest => do
    let o ← mkOrdering f .asc
    let os ← makeOrderings rest
    .ok (o :: os)
  | .pair f a :: rest => do
    let d ← a.direction
    let o ← mkOrdering f d
    let os ← makeOrderings rest
    .ok (o :: os)
  | .ordering (.mk f d) :: rest => do
    let o ← mkOrdering f d
    let os ← makeOrderings rest
    .ok (o :: os)
  | .dir (.str s) :: _ =>
    -- a string is a sequence: one of length 2 is unpacked into two 1-character strings and
    -- `Direction(<1 character>)` is the `ValueError`
    if s.length = 2 then .error .illtyped else .error .grammar
  | .dir _ :: _ => .error .grammar
  | .junk :: _ => .error .grammar

/-- the canonical spelling of made orderings -/
def Ordering.term (o : Ordering) : OTerm := .ordering o

/-! ## `Join.Kind(kind)`, `Join.__new__`, `Set.__new__` -/

inductive JoinKindArg where
  | enum (k : JoinKind)
  | str (s : String)
  | none
  deriving DecidableEq, Repr, Inhabited

/-- `Join.Kind(kind)`: a member or exactly its value, else `ValueError` -/
def JoinKindArg.kind : JoinKindArg → R JoinKind
  | .enum k => .ok k
  | .str s =>
    match JoinKind.ofWire s with
    | some k => .ok k
    | Option.none => .error .illtyped
  | .none => .error .illtyped

variable (eqv : Feature → Feature → Bool)

/-- `Join(left, right, kind, condition)` on built operands: the kind is normalised first -/
def joinNew (l r : Source) (a : JoinKindArg) (c : Option Feature) : R Source := do
  let k ← a.kind
  checkJoin eqv l r k c
  .ok (.join l r k (FeatureOpt.ofOption c))

/-- `Set(left, right, kind)` on built operands (`union` / `intersection` / `difference` hand the member over) -/
def setNew (l r : Source) (k : SetKind) : R Source := do
  checkSet l r
  .ok (.set l.statement r.statement k)

/-! ## `Query.__new__` with the ordering terms as given -/

/-- `Query(source, selection, prefilter, grouping, postfilter, ordering, rows)` on built operands -/
def queryNew (s : Source) (sel : List Feature) (pre : Option Feature) (grp : List Feature) (post : Option Feature)
    (terms : List OTerm) (rows : Option Rows) : R Source := do
  -- everything up to `ordering = tuple(series.Ordering.make(*(ordering or [])))`
  checkQuery eqv s sel pre grp post []
  let ord ← makeOrderings terms
  -- `ensure_subset(*(o.feature for o in ordering))`
  let feats ← s.featuresOf
  guardG (subsetBy eqv (dissectAll Feature.isElem (ord.map Ordering.feature)) (dissectAll Feature.isElem feats))
  .ok (.query s (Features.ofList sel) (FeatureOpt.ofOption pre) (Features.ofList grp) (FeatureOpt.ofOption post)
    (Orderings.ofList ord) rows)

/-! ## the chained `Queryable` interface -/

/-- one call of the chained interface -/
inductive QOp where
  | select (fs : List Feature)
  | where_ (c : Feature)
  | having (c : Feature)
  | groupby (fs : List Feature)
  | orderby (ts : List OTerm)
  | limit (count offset : Int)

/-- `condition &= previous` (`Operable.__and__` / `__rand__`, both `@featurize`d): `And(condition.operable, previous)` -/
def andWith (c : Feature) : Option Feature → R Feature
  | Option.none => .ok c
  | some p => do
    checkExpr .and [c.operable, p]
    .ok (.expr .and (Features.ofList [c.operable, p]))

/-- the method of a `Query` instance -/
def queryOp (s : Source) (sel : Features) (pre : FeatureOpt) (grp : Features) (post : FeatureOpt) (ord : Orderings)
    (rows : Option Rows) : QOp → R Source
  | .select fs => queryNew eqv s fs pre.toOption grp.toList post.toOption (ord.toList.map Ordering.term) rows
  | .where_ c => do
    let c' ← andWith c pre.toOption
    queryNew eqv s sel.toList (some c') grp.toList post.toOption (ord.toList.map Ordering.term) rows
  | .having c => do
    let c' ← andWith c post.toOption
    queryNew eqv s sel.toList pre.toOption grp.toList (some c') (ord.toList.map Ordering.term) rows
  | .groupby fs => queryNew eqv s sel.toList pre.toOption fs post.toOption (ord.toList.map Ordering.term) rows
  | .orderby ts => queryNew eqv s sel.toList pre.toOption grp.toList post.toOption ts rows
  | .limit c o => queryNew eqv s sel.toList pre.toOption grp.toList post.toOption (ord.toList.map Ordering.term) (some (c, o))

/-- `source.<op>(…)`: a `Query` applies it to itself, another `Queryable` to `self.query = Query(self)`; a `Set` is a
statement but not queryable (`AttributeError`) -/
def Source.applyOp (q : Source) (op : QOp) : R Source :=
  match q with
  | .query s sel pre grp post ord rows => queryOp eqv s sel pre grp post ord rows op
  | .set _ _ _ => .error .illtyped
  | s => do
    let q0 ← queryNew eqv s [] Option.none [] Option.none [] Option.none
    match q0 with
    | .query s' sel pre grp post ord rows => queryOp eqv s' sel pre grp post ord rows op
    | _ => .error .illtyped

/-- a chain of calls, left to right -/
def runChain (q : Source) : List QOp → R Source
  | [] => .ok q
  | op :: ops => do
    let q' ← q.applyOp eqv op
    runChain q' ops

end ForML.Dsl
