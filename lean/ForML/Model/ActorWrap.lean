/-
Model of how `wrap.Actor.type(origin, **mapping)` turns a user class into an actor definition (C13):
`Class.__new__` (mapping validation and completion), `Class.Actor.__getattribute__` (attribute
redirection to the origin), `Class.Actor.is_stateful`, and the flavour such a definition resolves to --
including an origin class that brings its own `get_state`/`set_state` (the redirection hands those out
instead of `flow.Actor`'s).

Python anchors: forml/pipeline/wrap/_actor.py `Class.__new__`, `Class.Actor.__getattribute__`,
`Class.Actor.is_stateful`, `Class.Actor.__init__`, the `copyreg` reducer.

Attribute names are numbers: the Actor API `apply`=0 `train`=1 `get_params`=2 `set_params`=3; typical
origin names `predict`=4 `fit`=5 `hp`=6 `configure`=7; `get_state`=8 `set_state`=9; the wrapper's own
`Origin`=10 `Mapping`=11 `_origin`=12 `_init`=13; `__dict__`=14.
Core Lean only.
-/
import ForML.Model.Actor

namespace ForML.Actor

/-- a value of the mapping: a method name, a callable taking the origin instance, or something else -/
inductive Target where
  | name (n : Nat)
  | fn
  | invalid
  deriving DecidableEq, Repr

/-- the user class: its callable attributes, its other (non-callable) attributes, whether it already is a
`flow.Actor` -/
structure OriginDef where
  methods : List Nat
  flags : List Nat := []
  isActor : Bool := false
  deriving Repr, DecidableEq

/-- `Mapping`: insertion-ordered dict from Actor-side names to targets -/
abbrev WMapping := List (Nat × Target)

namespace Wrap

def apply : Nat := 0
def train : Nat := 1
def getParams : Nat := 2
def setParams : Nat := 3
def getState : Nat := 8
def setState : Nat := 9
def dict : Nat := 14

/-- `apply, train, get_params, set_params`: the methods `Class.__new__` defaults -/
def apiNames : List Nat := [0, 1, 2, 3]

/-- `{'Origin', 'Mapping', '_origin', '_init'}`: never redirected -/
def reserved : List Nat := [10, 11, 12, 13]

end Wrap

/-- `mapping.get(k)` -/
def mget : WMapping → Nat → Option Target
  | [], _ => none
  | (k', t) :: r, k => if k' = k then some t else mget r k

/-- `mapping.setdefault(k, t)` -/
def msetdefault (m : WMapping) (k : Nat) (t : Target) : WMapping :=
  match mget m k with
  | some _ => m
  | none => m ++ [(k, t)]

/-- `callable(getattr(origin, n, None))` -/
def OriginDef.callable (o : OriginDef) (n : Nat) : Bool := o.methods.contains n

/-- `hasattr(origin, n)` (every instance has a `__dict__`) -/
def OriginDef.has (o : OriginDef) (n : Nat) : Bool := o.methods.contains n || o.flags.contains n || n == Wrap.dict

/-- a target that is a name must be a callable attribute of the origin (`train` is exempt) -/
def targetOk (o : OriginDef) (kv : Nat × Target) : Bool :=
  kv.1 == Wrap.train ||
    match kv.2 with
    | .name n => o.callable n
    | _ => true

/-- `Class.__new__`: `assert not issubclass(origin, flow.Actor)`; every value a `str` or a callable, else
`TypeError('Invalid mapping')`; `setdefault(name, name)` for the four Actor methods; every target name of
a method other than `train` must be callable on the origin, else `TypeError('… missing required …')` -/
def classNew (o : OriginDef) (given : WMapping) : Except Err WMapping :=
  if o.isActor then .error .assertionError
  else if given.any (fun kv => kv.2 == .invalid) then .error .typeError
  else
    let m := Wrap.apiNames.foldl (fun m n => msetdefault m n (.name n)) given
    if m.all (targetOk o) then .ok m else .error .typeError

/-- what an attribute access on a wrapped instance yields -/
inductive Resolved where
  /-- the wrapper's own attribute (`super().__getattribute__`) -/
  | own
  /-- `Decorated(self._origin, fn)`: the mapped callable applied to the origin -/
  | decorated (item : Nat)
  /-- `getattr(self._origin, n)` -/
  | originAttr (n : Nat)
  /-- `getattr(self._origin, n)` raises `AttributeError` -/
  | missing (n : Nat)
  deriving DecidableEq, Repr

/-- `Class.Actor.__getattribute__` -/
def getattribute (m : WMapping) (o : OriginDef) (item : Nat) : Resolved :=
  if Wrap.reserved.contains item then .own
  else match mget m item with
    | some .fn => .decorated item
    | some (.name n) => if o.has n then .originAttr n else .missing n
    | some .invalid => .own
    | none => if o.has item then .originAttr item else .own

/-- `Class.Actor.is_stateful`: `callable(attr) or callable(getattr(cls.Origin, attr, None))` -/
def isStatefulW (m : WMapping) (o : OriginDef) : Bool :=
  match mget m Wrap.train with
  | some .fn => true
  | some (.name n) => o.callable n
  | _ => false

/-- what the `train` entry of the completed mapping resolves to (see `TrainMap`) -/
def trainMapOf (m : WMapping) (o : OriginDef) : TrainMap :=
  match mget m Wrap.train with
  | some .fn => .callable
  | some (.name n) => if o.callable n then .method else if o.has n then .noncallable else .absent
  | _ => .absent

/-- `actor.get_state` / `actor.set_state` are the ORIGIN's: it defines them and the mapping does not claim the names -/
def ownsState (m : WMapping) (o : OriginDef) : Bool :=
  getattribute m o Wrap.getState == .originAttr Wrap.getState && o.callable Wrap.getState &&
    getattribute m o Wrap.setState == .originAttr Wrap.setState && o.callable Wrap.setState

/-! ### the flavour of a wrapped origin that brings its own state methods

`actor.get_state()` is `origin.get_state()` (user-written, the naive way: `dumps(self.__dict__)` /
`if state: self.__dict__.update(loads(state))`), the constructor remembers its arguments and the
`copyreg` reducer re-creates, `set_state`, `set_params` as for every wrapped actor. -/

/-- the reducer with the origin's own state methods -/
def wrappedOwnRepickle (sig : Sig) (o : Obj σ) : Except Err (Obj σ) :=
  match wrappedBuild sig o.ctor.1 o.ctor.2 with
  | .error e => .error e
  | .ok (o0 : Obj σ) => storeParams sig { o0 with params := o.params, state := o.state } (reported sig o)

def wrappedOwn (u : User σ) (sig : Sig) (tm : TrainMap) : Flavour σ where
  specSig := sig
  build := wrappedBuild sig
  apply := classApply u tm.trains
  train := fun o x y =>
    match tm with
    | .callable | .method => .ok { o with state := some (u.trainFn (pget o.params) o.state x y) }
    | .noncallable => .error .typeError
    | .absent => .error .attributeError
  getState := fun o => some (.whole o.params o.state)
  setState := fun o b =>
    match b with
    | none => .ok o
    | some (.whole p s) => .ok { o with params := p, state := s }
    | some (.value _) => .error .typeError
  getParams := reported sig
  setParams := storeParams sig
  isStateful := tm.stateful
  hasTrain := tm.trains
  repickle := wrappedOwnRepickle sig

/-- the definition a `wrap.Actor.type(origin, **mapping)` call resolves to -/
inductive WrapDef where
  /-- `Class.__new__` raised -/
  | failed (e : Err)
  /-- forml's state methods over the origin's dict -/
  | plain (tm : TrainMap)
  /-- the origin's own state methods -/
  | own (tm : TrainMap)
  deriving DecidableEq, Repr

def wrapDef (o : OriginDef) (given : WMapping) : WrapDef :=
  match classNew o given with
  | .error e => .failed e
  | .ok m => if ownsState m o then .own (trainMapOf m o) else .plain (trainMapOf m o)

end ForML.Actor
