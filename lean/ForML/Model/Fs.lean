/-
File-system micro-operations (DESIGN.md section 4, "File-system micro-operations").

A file system is a finite map `Path → Option Node`; the registry code (forml/provider/registry/
filesystem/posix.py) touches it only through

  pathlib.Path.mkdir   → `mkdir p`            (one per directory that did not exist; `parents=True, exist_ok=True`)
  open(p, 'wb')        → `createEmpty p`      (creates / truncates)
  file.write(bytes)    → `append p bytes`     (NOT atomic: a process death leaves any prefix of `bytes`)
  pathlib.Path.rename  → `rename p q`         (atomic, POSIX; a directory moves with everything below it)
  shutil.copyfile      → `copyFile p bytes`   (= createEmpty + append, see `Op.atoms`)
  shutil.rmtree(p, ignore_errors=True) → `rmtree p`   (removes a directory with everything below; a missing path or a
                                                        plain file is left alone; modelled as ONE step — its internal
                                                        unlink/rmdir sequence is not split into crash points)

A *crash* (process death) is a prefix of the atomic micro-op list of a call, possibly followed by a
partial `append` (`crashOps`).  Core Lean only.
-/
namespace ForML.Fs

abbrev Bytes := List Nat

/-- The names the registry code can produce (posix.Path: STAGEDIR, PKGFILE, TAGFILE, `<sid>.bin`,
`str(project)`, `str(release)`, `str(generation)`; `pkgTmp`/`tagTmp` are the temporary siblings used by
the repaired code; `member i` is the i-th file of a directory-based package). -/
inductive Seg where
  | proj (n : Nat)
  | rel (v : Nat)
  | gen (g : Nat)
  | stage
  | pkg
  | pkgTmp
  | tag
  | tagTmp
  | state (sid : Nat)
  | member (i : Nat)
  deriving DecidableEq, Repr, Inhabited

abbrev Path := List Seg

inductive Node where
  | dir
  | file (b : Bytes)
  deriving DecidableEq, Repr, Inhabited

/-- association list, first match wins; the root `[]` is a directory of `empty` -/
abbrev Fs := List (Path × Node)

def empty : Fs := [([], .dir)]

def get : Fs → Path → Option Node
  | [], _ => none
  | e :: r, k => if k = e.1 then some e.2 else get r k
def set (fs : Fs) (k : Path) (n : Node) : Fs := (k, n) :: fs
def del (fs : Fs) (k : Path) : Fs := fs.filter (fun e => e.1 != k)

def parent (p : Path) : Path := p.dropLast
def isDir (fs : Fs) (p : Path) : Bool := get fs p == some .dir
def isFile (fs : Fs) (p : Path) : Bool := match get fs p with | some (.file _) => true | _ => false

/-- tree shape: every entry's parent is a directory (what any real file system guarantees) -/
def WF (fs : Fs) : Prop := ∀ e ∈ fs, e.1 = [] ∨ get fs (parent e.1) = some .dir

instance (fs : Fs) : Decidable (WF fs) := by unfold WF; infer_instance

/-- `p` and `q` exchanged as path prefixes (used by the directory rename; `q`'s subtree is empty there) -/
def swapKey (p q k : Path) : Path :=
  if p <+: k then q ++ k.drop p.length
  else if q <+: k then p ++ k.drop q.length
  else k

def moveTree (fs : Fs) (p q : Path) : Fs := fs.map (fun e => (swapKey p q e.1, e.2))

inductive Op where
  | mkdir (p : Path)
  | createEmpty (p : Path)
  | append (p : Path) (b : Bytes)
  | rename (p q : Path)
  | copyFile (p : Path) (b : Bytes)
  | rmtree (p : Path)
  deriving DecidableEq, Repr, Inhabited

/-- `copyFile` is not atomic: it opens the target for writing and then writes -/
def Op.atoms : Op → List Op
  | .copyFile p b => [.createEmpty p, .append p b]
  | op => [op]

def atomsAll (ops : List Op) : List Op := ops.flatMap Op.atoms

/-- One atomic micro-operation; `none` = the system call fails (nothing changes). -/
def step (fs : Fs) : Op → Option Fs
  | .mkdir p =>
    if p ≠ [] ∧ get fs (parent p) = some .dir ∧ get fs p = none then some (set fs p .dir) else none
  | .createEmpty p =>
    if p ≠ [] ∧ get fs (parent p) = some .dir ∧ get fs p ≠ some .dir then some (set fs p (.file [])) else none
  | .append p b =>
    match get fs p with
    | some (.file c) => some (set fs p (.file (c ++ b)))
    | _ => none
  | .rename p q =>
    match get fs p with
    | some (.file c) =>
      if q ≠ [] ∧ get fs (parent q) = some .dir ∧ get fs q ≠ some .dir then some (set (del fs p) q (.file c)) else none
    | some .dir =>
      if q ≠ [] ∧ get fs (parent q) = some .dir ∧ get fs q = none ∧ ¬ (p <+: q) ∧ ¬ (q <+: p)
        ∧ fs.all (fun e => !(q <+: e.1))
      then some (moveTree fs p q) else none
    | none => none
  | .copyFile p b =>
    -- whole, when it is not interrupted (`run` is always given `atomsAll`)
    if p ≠ [] ∧ get fs (parent p) = some .dir ∧ get fs p ≠ some .dir then some (set fs p (.file b)) else none
  | .rmtree p =>
    -- `ignore_errors=True`: never fails; only a directory (never the root) is removed
    if p ≠ [] ∧ get fs p = some .dir then some (fs.filter (fun e => !(p <+: e.1))) else some fs

/-- all of `ops` in order; `none` as soon as one fails -/
def run (fs : Fs) : List Op → Option Fs
  | [] => some fs
  | op :: rest => match step fs op with
    | some fs' => run fs' rest
    | none => none

/-- as far as it goes: the state when the first failing operation raises, and whether all succeeded -/
def runSome (fs : Fs) : List Op → Fs × Bool
  | [] => (fs, true)
  | op :: rest => match step fs op with
    | some fs' => runSome fs' rest
    | none => (fs, false)

/-- how many operations succeed before the first one that fails -/
def okCount (fs : Fs) : List Op → Nat
  | [] => 0
  | op :: rest => match step fs op with
    | some fs' => okCount fs' rest + 1
    | none => 0

/-- nonempty prefixes of a path, shortest first -/
def prefixes : Path → List Path
  | [] => []
  | s :: rest => [s] :: (prefixes rest).map (s :: ·)

/-- `path.mkdir(parents=True, exist_ok=True)`: one `mkdir` per missing ancestor, top-down -/
def mkdirP (fs : Fs) (path : Path) : List Op :=
  (prefixes path).filterMap (fun q => if get fs q = none then some (.mkdir q) else none)

/-- where a process can die while performing the atomic list `ops`: after `k` completed operations
(`cut = none`), or inside the `k`-th one if that is an `append` (`cut = some c`: `c` bytes written) -/
def crashOps (ops : List Op) (k : Nat) (cut : Option Nat) : List Op :=
  ops.take k ++
    (match cut, ops[k]? with
     | some c, some (.append p b) => [.append p (b.take c)]
     | _, _ => [])

end ForML.Fs
