/-
C03 ↔ C01 bridge, executable part: from the graph-with-holes an expression composes (`Model/Compose.lean`) to the
*segments* `flow.compile` is given (`Model/Segment.lean`, owned by C01).

* `composeSource`   the source operator of a pipeline (`forml/io/_input/extract.py` `Operator.compose`): an apply-mode
                    source worker (0:1), a train-mode source worker (0:1) followed by the label extractor (1:2) whose two
                    output ports are proxied by the `Future` tails of the train and label segments;
* `composition e`   `flow.Composition(source, e)` (`assembly.py` `Composition.__new__`):
                    `source.expand().extend(*e.expand())`; the train and apply segments are `(head, tail)` of the
                    composed trunk;
* `Graph.resolve`   looking through bound `Future`s (what `Future._collapse` does eagerly when a future gets its
                    publisher: its subscribers are re-subscribed to the real publisher);
* `toSegment`       the segment seen from a head worker: the members are what `Traversal.each` visits (C01's own
                    `Segment.visitOrder` on the graph of all workers), workers with group / actor / shape, apply
                    subscriptions by subscriber port (futures collapsed), `Train`/`Label` subscriptions of the trained
                    forks, `trainedElsewhere` = the groups of stateful members whose trainer is not a member;
* `segRank`         a numbering of the members (longest path incl. the state edge trainer → applied fork) to feed C01's
                    decidable `Segment.wf`;
* `conv`            provenance terms of the composition model as provenance terms of the compiler model.

Core Lean only.
-/
import ForML.Model.Compose
import ForML.Model.Denote
import ForML.Model.Segment
import ForML.Model.GraphEval
import ForML.Model.Traversal

namespace ForML.Compose

/-! ### `flow.Composition(source, e)` -/

/-- actor symbols of the (stateless) source: apply-mode reader, train-mode reader, label extractor -/
structure Source where
  apply : Nat
  train : Nat
  label : Nat
  deriving Repr, Inhabited

/-- `extract.Operator.compose(Origin())` -/
def composeSource (src : Source) : GraphM Trunk := do
  let a ← newWorker ⟨src.apply, false⟩ 0 1
  let t ← newWorker ⟨src.train, false⟩ 0 1
  let trainTail ← newFuture
  let labelTail ← newFuture
  let x ← newWorker ⟨src.label, false⟩ 1 2
  subscribe x.uid 0 ⟨t.uid, 0⟩
  subscribe trainTail 0 ⟨x.uid, 0⟩
  subscribe labelTail 0 ⟨x.uid, 1⟩
  pure ⟨⟨a.uid, a.uid⟩, ⟨t.uid, trainTail⟩, ⟨t.uid, labelTail⟩⟩

/-- `Composition.__new__`: `functools.reduce(lambda c, s: c.extend(*s.expand()), [e], source.expand())` -/
def composition (src : Source) (e : Expr) : GraphM Trunk := do
  let s ← composeSource src
  let t ← expand e
  s.extendTrunk t

/-! ### looking through bound futures -/

namespace Graph

/-- the worker port a publisher reference stands for -/
def resolve (g : Graph) : Nat → PubRef → Option PubRef
  | 0, _ => none
  | f + 1, q =>
    match g.kindOf q.node with
    | none => none
    | some .future => (g.inputOf q.node 0).bind (resolve g f)
    | some (.worker ..) => some q

def resolveFuel (g : Graph) : Nat := g.next + 1

/-- all recorded workers, by uid -/
def allWorkers (g : Graph) : List Flow.Worker :=
  (List.range g.next).filterMap fun u =>
    match g.kindOf u with
    | some (.worker gid a szin szout) => some ⟨u, gid, a.tag, a.stateful, szin, szout⟩
    | _ => none

/-- apply subscriptions of the workers, futures collapsed, in insertion order of the subscriber's own subscription -/
def applyEdges (g : Graph) : List Flow.Edge :=
  g.edges.filterMap fun e =>
    match g.kindOf e.sub with
    | some (.worker ..) => (g.resolve g.resolveFuel e.pub).map fun q => ⟨q.node, q.idx, e.sub, .apply e.port⟩
    | _ => none

/-- `Train` / `Label` subscriptions of the trained forks -/
def trainEdges (g : Graph) : List Flow.Edge :=
  g.trains.flatMap fun t =>
    match g.resolve g.resolveFuel t.train, g.resolve g.resolveFuel t.label with
    | some x, some y => [⟨x.node, x.idx, t.node, .train⟩, ⟨y.node, y.idx, t.node, .label⟩]
    | _, _ => []

/-- everything, seen from `head`: the graph `Traversal.each` walks -/
def wholeSegment (g : Graph) (head tail : Nat) : Flow.Segment :=
  ⟨g.allWorkers, g.applyEdges ++ g.trainEdges, head, tail, []⟩

end Graph

def dedup : List Nat → List Nat
  | [] => []
  | x :: r => if (dedup r).contains x then dedup r else x :: dedup r

/-- the segment over the member list `M`: the members' workers, the subscriptions among them, the groups of stateful
members whose trainer is not a member -/
def segmentOn (g : Graph) (M : List Nat) (head tl : Nat) : Flow.Segment :=
  ⟨g.allWorkers.filter fun w => M.contains w.uid,
   (g.applyEdges ++ g.trainEdges).filter fun e => M.contains e.pub && M.contains e.sub,
   head, tl,
   dedup (((g.allWorkers.filter fun w => M.contains w.uid).filter fun w =>
     w.stateful && g.trains.any fun t => t.gid == w.gid && !M.contains t.node).map (·.gid))⟩

/-- the worker a (possibly `Future`) tail stands for -/
def tailNode (g : Graph) (tail : PubRef) : Nat := ((g.resolve g.resolveFuel tail).map (·.node)).getD tail.node

/-- what `Traversal.each` visits from `head` (C01's own model of it, on the graph of all workers) -/
def membersOf (g : Graph) (head tl : Nat) : List Nat := (g.wholeSegment head tl).visitOrder

/-- the segment `flow.Segment(head, tail)` denotes: `tail` is a publisher reference (possibly a `Future` tail, which
`Traversal.each` ignores and the compiler never sees) -/
def toSegment (g : Graph) (head : Nat) (tail : PubRef) : Flow.Segment :=
  segmentOn g (membersOf g head (tailNode g tail)) head (tailNode g tail)

/-! ### a numbering for `Segment.wf` -/

/-- longest path to `n` along subscriptions and along the state edge from the trainer of a group to its applied forks -/
def segDepth (s : Flow.Segment) : Nat → Nat → Nat
  | 0, _ => 0
  | f + 1, n =>
    match s.worker? n with
    | none => 0
    | some w =>
      let ins := (s.edges.filter fun e => e.sub = n).map fun e => segDepth s f e.pub + 1
      let st :=
        if w.stateful && !s.trained n then
          match s.trainerOf w.gid with
          | some t => segDepth s f t.uid + 1
          | none => 0
        else 0
      (st :: ins).foldl max 0

def segRank (s : Flow.Segment) (n : Nat) : Nat := segDepth s (s.workers.length + 1) n

/-! ### the two segments of a composition -/

/-- `Composition.persistent`: groups of the derived (stateful, trained elsewhere) workers of the apply segment in visit
order, each once -/
def persistentOf (s : Flow.Segment) : List Nat :=
  let order := s.visitOrder
  (dedup ((order.filterMap fun u =>
    match s.worker? u with
    | some w => if s.derived w then some w.gid else none
    | none => none).reverse)).reverse

structure Segments where
  train : Flow.Segment
  apply : Flow.Segment
  graph : Graph
  trunk : Trunk

/-- expand `flow.Composition(source, e)` from the empty graph and take its two segments -/
def segments (src : Source) (e : Expr) : Except Err Segments :=
  match composition src e {} with
  | .error err => .error err
  | .ok (t, g) => .ok ⟨toSegment g t.train.head t.train.publisher, toSegment g t.apply.head t.apply.publisher, g, t⟩

/-! ### the decidable side conditions of the bridge to the compiler model -/

/-- bookkeeping of the recorded trainings w.r.t. a member list `M`: one training per group; the trained fork is a
one-input worker of that group and actor, subscribed to nothing; when it is a member, so are the workers its `Train` /
`Label` ports are fed from; every worker of a trained group has the group's actor; the members' actor symbols are of the
truthy kind (`Flow.falsyBase`) -/
def Graph.trainsOK (g : Graph) (M : List Nat) : Bool :=
  Flow.Segment.allDistinct (g.trains.map (·.gid)) &&
  (g.trains.all fun T =>
    (match g.kindOf T.node with
      | some (.worker gid a i _) => gid == T.gid && decide (a = T.actor) && i == 1
      | _ => false) &&
    (g.edges.all fun e => e.sub != T.node) &&
    (!M.contains T.node ||
      ((match g.resolve g.resolveFuel T.train with | some x => M.contains x.node | none => false) &&
       (match g.resolve g.resolveFuel T.label with | some y => M.contains y.node | none => false)))) &&
  (g.allWorkers.all fun w =>
    match g.trainerOf w.gid with
    | some T => T.actor.tag == w.actor && T.actor.stateful == w.stateful
    | none => true) &&
  (g.allWorkers.all fun w => !M.contains w.uid || decide (w.actor < 1000))

/-- the tail of a segment is a single-output worker -/
def tailSimple (s : Flow.Segment) : Bool :=
  match s.worker? s.tail with
  | some w => w.szout == 1
  | none => false

/-- everything the end-to-end theorem asks of the two segments of `flow.Composition(source, e)` (all decidable, all
evaluated by the driver on every generated case): C01's `wf` / `connected` / `assetsOK`, single-output tails, the
bookkeeping of the trainings; every trained fork is a member of the train segment, none of the apply segment -/
def bridgeOKof (sg : Segments) : Bool :=
    let mt := membersOf sg.graph sg.trunk.train.head (tailNode sg.graph sg.trunk.train.publisher)
    let ma := membersOf sg.graph sg.trunk.apply.head (tailNode sg.graph sg.trunk.apply.publisher)
    sg.train.wf (segRank sg.train) && sg.train.connected && sg.train.assetsOK none && tailSimple sg.train
      && sg.graph.trainsOK mt && (sg.graph.trains.all fun T => mt.contains T.node)
      && sg.apply.wf (segRank sg.apply) && sg.apply.connected && sg.apply.assetsOK (some ⟨persistentOf sg.apply, []⟩)
      && tailSimple sg.apply && sg.graph.trainsOK ma && (sg.graph.trains.all fun T => !ma.contains T.node)

def bridgeOK (src : Source) (e : Expr) : Bool :=
  match segments src e with
  | .error _ => false
  | .ok sg => bridgeOKof sg

/-- the store the apply run is given: `Composition.persistent` and, at each group's list position, the state the trained
fork of the group computed in the train run (`m` = the memo of the executed train table) -/
def applyAssets (sg : Segments) (m : Flow.Memo) : Flow.Assets :=
  ⟨persistentOf sg.apply, (persistentOf sg.apply).map fun γ =>
    match sg.graph.trainerOf γ with
    | some T => (m.get (.uid T.node)).getD .none
    | none => .none⟩

/-! ### provenance terms -/

mutual
  def conv : Val → Flow.Val
    | .none => .none
    | .input n => .input n
    | .hole _ => .error .unbound
    | .apply t st args => .apply t (conv st) (convL args)
    | .state t p x y => .state t (conv p) (conv x) (conv y)
    | .proj i v => .proj i (conv v)

  def convL : List Val → List Flow.Val
    | [] => []
    | v :: vs => conv v :: convL vs
end

/-- the three values a source feeds into the pipeline -/
def Source.xa (src : Source) : Val := .apply src.apply .none []
def Source.xt (src : Source) : Val := .proj 0 (.apply src.label .none [.apply src.train .none []])
def Source.xl (src : Source) : Val := .proj 1 (.apply src.label .none [.apply src.train .none []])

/-- `⟦e⟧` fed by the source -/
def denoteOn (src : Source) (e : Expr) : Sem := denote e src.xa src.xt src.xl

end ForML.Compose
