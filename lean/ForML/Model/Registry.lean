/-
Model of the posix registry and of the directory levels above it (property C05).

Mirrors
  forml/provider/registry/filesystem/posix.py   Path (layout + matchers), Registry.write/close/push/_listing
  forml/io/asset/_directory/__init__.py          Level.key (validation against the parent listing), Listing.last
  forml/io/asset/_directory/level/case.py        Project.put   (monotonic release versions)
  forml/io/asset/_directory/level/major.py       Release.dump / Release.put (generation numbering)
  forml/io/asset/_access.py                      State.dump / State.commit

Every registry call is expanded into the list of file-system micro-operations (ForML.Fs.Op) that
posix.py performs, in its order.  `Impl.repaired` is the code as it exists in /repo (since the fix
commits 3387543 = fixes/C05-atomic-tag-package.diff and dc51650 = fixes/C05-project-key-check.diff: tag and
package are written to a temporary sibling and renamed; `Project.put` compares the project key first),
`Impl.original` the code before them (kept: the harness detects which variant a tree under test implements,
and the counterexample theorems are about it).  Project names, release versions (rank in PEP 440 order), state ids (uuid4 → first
occurrence index) are naturals; `Tag.dumps` bytes are abstracted by a prefix-free code (C18 covers
the real TOML).  Core Lean only.
-/
import ForML.Model.Fs

namespace ForML.Registry
open ForML.Fs

/-! ### layout (posix.Path) -/

def projectP (p : Nat) : Path := [.proj p]
def releaseP (p v : Nat) : Path := [.proj p, .rel v]
def generationP (p v g : Nat) : Path := [.proj p, .rel v, .gen g]
def stageP (p v : Nat) : Path := [.proj p, .rel v, .stage]
def packageP (p v : Nat) : Path := [.proj p, .rel v, .pkg]
def packageTmpP (p v : Nat) : Path := [.proj p, .rel v, .pkgTmp]
def stagedStateP (p v sid : Nat) : Path := [.proj p, .rel v, .stage, .state sid]
def stateP (p v g sid : Nat) : Path := [.proj p, .rel v, .gen g, .state sid]
def tagP (p v g : Nat) : Path := [.proj p, .rel v, .gen g, .tag]
def tagTmpP (p v g : Nat) : Path := [.proj p, .rel v, .gen g, .tagTmp]

/-! ### generation metadata (asset.Tag) — only what C05 talks about: training ordinal + state ids -/

structure Tag where
  ordinal : Nat
  sids : List Nat
  deriving DecidableEq, Repr, Inhabited

/-- abstract `Tag.dumps`: length-prefixed, so that no proper prefix decodes -/
def encodeTag (t : Tag) : Bytes := (t.sids.length + 1) :: t.ordinal :: t.sids

/-- abstract `Tag.loads`: `none` = the reader raises (KeyError / TomlDecodeError) -/
def decodeTag : Bytes → Option Tag
  | n :: o :: sids => if sids.length + 1 = n then some ⟨o, sids⟩ else none
  | _ => none

/-- release package: a `.4ml` file or a (flat) directory tree of members `(index, bytes)` in the order
`shutil.copytree` visits them -/
inductive Pkg where
  | file (b : Bytes)
  | dir (members : List (Nat × Bytes))
  deriving DecidableEq, Repr, Inhabited

/-- which code is modelled: `staged` = tag / package written to a temporary sibling and renamed
(fixes/C05-atomic-tag-package.diff), `keyFirst` = `Project.put` compares the project key with the manifest
name before anything else (fixes/C05-project-key-check.diff) -/
structure Impl where
  staged : Bool
  keyFirst : Bool
  deriving DecidableEq, Repr, Inhabited

/-- the code before the two fix commits -/
def Impl.original : Impl := ⟨false, false⟩
/-- the code that exists (both repairs are in /repo) -/
def Impl.repaired : Impl := ⟨true, true⟩

/-! ### registry calls as micro-op lists (posix.Registry) -/

/-- `Registry.write`: `path.parent.mkdir(parents=True, exist_ok=True)`; `open('wb')`; `write(state)` -/
def writeOps (fs : Fs) (p v sid : Nat) (b : Bytes) : List Op :=
  mkdirP fs (stageP p v) ++ [.createEmpty (stagedStateP p v sid), .append (stagedStateP p v sid) b]

/-- the tag write at the end of `Registry.close` -/
def tagWriteOps (impl : Impl) (p v g : Nat) (t : Tag) : List Op :=
  if impl.staged then
    [.createEmpty (tagTmpP p v g), .append (tagTmpP p v g) (encodeTag t), .rename (tagTmpP p v g) (tagP p v g)]
  else [.createEmpty (tagP p v g), .append (tagP p v g) (encodeTag t)]

/-- `Registry.close`: mkdir of the generation; per state `source.exists()` (a missing source makes the
`rename` step fail = `Level.Invalid` raised at that point) and `source.rename(target)`; then the tag. -/
def closeOps (impl : Impl) (fs : Fs) (p v g : Nat) (t : Tag) : List Op :=
  mkdirP fs (generationP p v g)
    ++ t.sids.map (fun s => .rename (stagedStateP p v s) (stateP p v g s))
    ++ tagWriteOps impl p v g t

/-- `shutil.rmtree(path, ignore_errors=True)`: an operation only when there is a directory to remove (like
`mkdirP`, the model lists the operations that have an effect) -/
def rmtreeP (fs : Fs) (path : Path) : List Op := if get fs path = some .dir then [.rmtree path] else []

/-- the package write of `Registry.push` below the release directory -/
def packageWriteOps (impl : Impl) (fs : Fs) (p v : Nat) : Pkg → List Op
  | .file b =>
    if impl.staged then
      [.createEmpty (packageTmpP p v), .append (packageTmpP p v) b, .rename (packageTmpP p v) (packageP p v)]
    else [.createEmpty (packageP p v), .append (packageP p v) b]
  | .dir ms =>
    if impl.staged then
      -- `shutil.rmtree(staged, ignore_errors=True)` (a leftover of an interrupted publish), `copytree`, `rename`
      rmtreeP fs (packageTmpP p v) ++ .mkdir (packageTmpP p v)
        :: ms.map (fun m => .copyFile (packageTmpP p v ++ [.member m.1]) m.2)
        ++ [.rename (packageTmpP p v) (packageP p v)]
    else .mkdir (packageP p v) :: ms.map (fun m => .copyFile (packageP p v ++ [.member m.1]) m.2)

/-- `Registry.push`: `path.parent.mkdir(parents=True, exist_ok=True)`; `write_bytes` / `rmtree` + `copytree`; `rename` -/
def pushOps (impl : Impl) (fs : Fs) (p v : Nat) (pkg : Pkg) : List Op :=
  mkdirP fs (releaseP p v) ++ packageWriteOps impl fs p v pkg

/-! ### listings (posix.Path matchers, Registry._listing) -/

/-- `Path.Release.valid` below a listable project directory -/
def relListed (fs : Fs) (p v : Nat) : Bool :=
  isDir fs (projectP p) && isDir fs (releaseP p v) && (get fs (packageP p v)).isSome

/-- `Path.Generation.valid`: a directory with a natural name holding `tag.toml` -/
def genValid (fs : Fs) (p v g : Nat) : Bool :=
  decide (1 ≤ g) && isDir fs (generationP p v g) && (get fs (tagP p v g)).isSome

/-- what a reader walking project → release → generation reaches -/
def genListed (fs : Fs) (p v g : Nat) : Bool := relListed fs p v && genValid fs p v g

/-- `Registry.open`: `none` = missing or unreadable -/
def tagOf (fs : Fs) (p v g : Nat) : Option Tag :=
  match get fs (tagP p v g) with
  | some (.file b) => decodeTag b
  | _ => none

/-- **the reader's view**, pointwise: the node a fresh `asset.Directory` reaches at a path (through the
listings only), `none` for everything it cannot see (stage, temporaries, unlisted levels, state files
the tag does not name). -/
def vis (fs : Fs) : Path → Option Node
  | [.proj p, .rel v, .pkg] => if relListed fs p v then get fs (packageP p v) else none
  | [.proj p, .rel v, .pkg, .member i] =>
    if relListed fs p v then get fs (packageP p v ++ [.member i]) else none
  | [.proj p, .rel v, .gen g, .tag] => if genListed fs p v g then get fs (tagP p v g) else none
  | [.proj p, .rel v, .gen g, .state s] =>
    if genListed fs p v g && (match tagOf fs p v g with | some t => t.sids.contains s | none => false)
    then get fs (stateP p v g s) else none
  | _ => none

def keys (fs : Fs) : List Path := (fs.map (·.1)).eraseDups

def maxOf : List Nat → Option Nat
  | [] => none
  | x :: r => match maxOf r with
    | none => some x
    | some m => some (max x m)

/-- `Registry.releases(project)` -/
def releasesOf (fs : Fs) (p : Nat) : List Nat :=
  (keys fs).filterMap (fun k => match k with
    | [.proj p', .rel v] => if p' = p ∧ relListed fs p v then some v else none
    | _ => none)

/-- `Registry.generations(project, release)` -/
def generationsOf (fs : Fs) (p v : Nat) : List Nat :=
  (keys fs).filterMap (fun k => match k with
    | [.proj p', .rel v', .gen g] => if p' = p ∧ v' = v ∧ genValid fs p v g then some g else none
    | _ => none)

/-- `Path.Project.valid`: a directory with at least one valid release -/
def projListed (fs : Fs) (p : Nat) : Bool := !(releasesOf fs p).isEmpty

/-- enumeration of the view (the driver prints it; the theorems use `vis`) -/
def reader (fs : Fs) : List (Path × Node) :=
  (keys fs).filterMap (fun k => (vis fs k).map (fun n => (k, n)))

/-! ### directory levels -/

inductive Err where
  | invalid   -- asset.Level.Invalid
  | mismatch  -- forml.InvalidError('Project key mismatch')
  | os        -- a file-system call failed
  deriving DecidableEq, Repr, Inhabited

/-- `Project.put` before `registry.push`: `self.list().last` raises `Level.Invalid` (through `Level.key`)
when the project is not listed and `Listing.Empty` when it has no release — both mean "no previous";
otherwise the names must match and the version must be greater than the last (= greatest) one.
(The code that exists therefore checks nothing when `dirProj` is not listed, even if `name` is.) -/
def publishGuard (impl : Impl) (fs : Fs) (dirProj name v : Nat) : Option Err :=
  if impl.keyFirst && name != dirProj then some .mismatch
  else if projListed fs dirProj then
    match maxOf (releasesOf fs dirProj) with
    | none => none
    | some prev => if name ≠ dirProj then some .mismatch else if prev < v then none else some .invalid
  else none

/-- `Level.key` of project and release: both must be in their parent's listing -/
def trainGuard (fs : Fs) (p v : Nat) : Option Err :=
  if projListed fs p && relListed fs p v then none else some .invalid

/-- `Release.put`: `self.list().last.next`, or 1 for an empty listing -/
def nextGen (fs : Fs) (p v : Nat) : Nat :=
  match maxOf (generationsOf fs p v) with
  | none => 1
  | some m => m + 1

/-- `Level.key` with an implicit key: `self._parent.list().last` — the greatest listed key (`Listing` is a sorted
tuple); `none` = `Listing.Empty` -/
def latestGen (fs : Fs) (p v : Nat) : Option Nat := maxOf (generationsOf fs p v)
def latestRel (fs : Fs) (p : Nat) : Option Nat := maxOf (releasesOf fs p)

inductive Step where
  /-- `directory.get(dirProj).put(package)` with `package.manifest = (name, v)` -/
  | publish (dirProj name v : Nat) (pkg : Pkg)
  /-- `state = asset.State(directory.get(p).get(v).get(None), nodes, tag)`, one `dump` per state, `commit` -/
  | train (p v ord : Nat) (states : List (Nat × Bytes))
  deriving Repr, Inhabited

structure Outcome where
  fs : Fs
  calls : List (List Op)  -- micro-op list of every registry call, in call order
  err : Option Err
  deriving Inhabited

/-- a sequence of registry calls; the micro-op list of each call is computed on the tree it starts from; the first
failing system call raises (`Err.os`) and ends the sequence (of the failing call only the atomic operations that were
performed are listed) -/
def runCalls (fs : Fs) : List (Fs → List Op) → Outcome
  | [] => ⟨fs, [], none⟩
  | c :: rest =>
    let l := c fs
    match runSome fs (atomsAll l) with
    | (fs', true) => let o := runCalls fs' rest; ⟨o.fs, l :: o.calls, o.err⟩
    | (fs', false) => ⟨fs', [(atomsAll l).take (okCount fs (atomsAll l))], some .os⟩

/-- the registry calls of one training: `Release.dump` → `Registry.write` per state, then `Release.put` →
`Registry.close` with the number computed from the listing at that moment -/
def trainCalls (impl : Impl) (p v ord : Nat) (states : List (Nat × Bytes)) : List (Fs → List Op) :=
  states.map (fun s fs => writeOps fs p v s.1 s.2)
    ++ [fun fs => closeOps impl fs p v (nextGen fs p v) ⟨ord, states.map (·.1)⟩]

/-- one step of a history on the tree `fs` -/
def exec (impl : Impl) (fs : Fs) : Step → Outcome
  | .publish dp name v pkg =>
    match publishGuard impl fs dp name v with
    | some e => ⟨fs, [], some e⟩
    | none => runCalls fs [fun fs => pushOps impl fs name v pkg]
  | .train p v ord states =>
    match trainGuard fs p v with
    | some e => ⟨fs, [], some e⟩
    | none => runCalls fs (trainCalls impl p v ord states)

/-- a whole history from a tree; the outcome of every step -/
def execAll (impl : Impl) : Fs → List Step → Fs × List Outcome
  | fs, [] => (fs, [])
  | fs, s :: rest =>
    let o := exec impl fs s
    let r := execAll impl o.fs rest
    (r.1, o :: r.2)

/-- the tree left by a process death inside step `s`: `k` atomic micro-ops of the step completed,
optionally `cut` bytes of the next `append` -/
def crashIn (impl : Impl) (fs : Fs) (s : Step) (k : Nat) (cut : Option Nat) : Fs :=
  let atoms := atomsAll (exec impl fs s).calls.flatten
  (runSome fs (crashOps atoms k cut)).1

/-! ### transient I/O faults

A file-system call of the step raises an `OSError` (EMFILE, EACCES, EIO, ESTALE, …) ONCE and the process lives on.  What
the code that exists does with it, call by call:

  * a listing scan (`Registry._listing`: `iterdir`, `is_dir`, `exists` of the matchers) swallows `FileNotFoundError` only
    (a level that does not exist yet lists as empty — legitimately: ENOENT is the truth there) and turns
    `NotADirectoryError` into `Level.Invalid`; every other `OSError` propagates: `Project.put`, `Release.put`,
    `Level.key` fail before anything is written;
  * `pathlib.Path.mkdir(parents=True, exist_ok=True)` swallows the error of an `os.mkdir` whose target already is a
    directory (no micro-operation of the model: nothing to do there) and re-raises every other one;
  * `exists()` / `rename` / `open` / `write` in `write`, `close`, `push` propagate: the call stops after the
    micro-operations it has completed;
  * `shutil.rmtree(staged, ignore_errors=True)` swallows it: the left-over stays and the `makedirs` of `copytree` raises
    `FileExistsError` right away — observably the same as raising at the `rmtree`;
  * `shutil.copytree` COLLECTS the error of a member copy, copies the remaining members and raises `shutil.Error` at
    its end — before the `rename` that would make the package visible.

So a faulted step stops after `j` completed atomic micro-operations and raises — inside `copytree` it goes on with the
other members first — and never reaches the operation that publishes the new item. -/

def isMemberPath (p : Path) : Bool :=
  match p.getLast? with
  | some (.member _) => true
  | _ => false

/-- the copies of the OTHER package members that `copytree` still performs after the copy at `p` has failed -/
def memberRest (p : Path) (rest : List Op) : List Op :=
  rest.filter (fun op => match op with
    | .createEmpty q => isMemberPath q && q != p
    | .append q _ => isMemberPath q && q != p
    | _ => false)

/-- the atomic micro-operations performed when a transient I/O error hits the `j`-th one -/
def faultAtoms (atoms : List Op) (j : Nat) : List Op :=
  atoms.take j ++
    (match atoms[j]? with
     | some (.createEmpty p) => if isMemberPath p then memberRest p (atoms.drop (j + 1)) else []
     | some (.append p _) => if isMemberPath p then memberRest p (atoms.drop (j + 1)) else []
     | _ => [])

/-- the tree left by a step in which the file-system call that would have been its `j`-th atomic micro-operation (or a
read between the `j-1`-th and the `j`-th) raised a transient `OSError`: the step raises, the process lives on -/
def faultIn (impl : Impl) (fs : Fs) (s : Step) (j : Nat) : Fs :=
  (runSome fs (faultAtoms (atomsAll (exec impl fs s).calls.flatten) j)).1

/-- an event of a history: a step that runs to its end (successfully or raising), a step during which the process dies
(`k` atomic micro-ops completed, optionally `cut` bytes of the next write) and after which a new process carries on with
whatever is on disk, or a step hit by a transient I/O fault at its `j`-th atomic micro-operation (it raises; the process
lives on) -/
inductive Ev where
  | step (s : Step)
  | crash (s : Step) (k : Nat) (cut : Option Nat)
  | fault (s : Step) (j : Nat)
  deriving Repr, Inhabited

def apply (impl : Impl) (fs : Fs) : Ev → Fs
  | .step s => (exec impl fs s).fs
  | .crash s k cut => crashIn impl fs s k cut
  | .fault s j => faultIn impl fs s j

/-- the tree after a crash-recovery history -/
def play (impl : Impl) : Fs → List Ev → Fs
  | fs, [] => fs
  | fs, e :: rest => play impl (apply impl fs e) rest

end ForML.Registry
