/-
C14 — model of the push-down hints (`forml/io/dsl/parser.py`, `forml/io/dsl/_struct/series.py`) and a small
row-level denotation of statements that executes a statement against a storage back-end which is handed those hints.

Two variants of the parser are modelled, selected by `fix : Bool`:
  `fix = false`  the code that exists (/repo HEAD, incl. fixes/C14-pushdown-hints.diff): segments keyed by table,
                 `visit_join` registers its condition with `filter` whatever the join kind (findings C14-F1, C14-F2);
  `fix = true`   the code as repaired by fixes/C14-outer-join-and-scan-segments.diff: segments keyed by the scanned
                 origin (`Tables.__getitem__(origin)`, `_visit_scan`), `visit_join` releases the optional side(s) of an
                 outer join (`Tables.release`) and exempts the preserved side(s) from the factors of its condition
                 (`Tables.filter(expression, *preserved)`).

Python                                                            here
---------------------------------------------------------------  ------------------------------------------
`Feature.Dissect` with `Element` (visitor, no descent in windows) `elems`, `elemsL`
`Source.instance`                                                 `inst`
`Source.features` (`Table`/`Reference`/`Join`/`Set`/`Query`)      `features`
`Predicate.Factors.primitive`                                     `primitive`
`Predicate.Factors.merge` / `__and__` / `__or__`                  `mergeF` / `andF` / `orF`
`And/Or/Not/Comparison.factors`, missing `factors` attribute      `toPred` + `factorsP` (error value `Err`)
`Container.Context.Tables` (`Segment.fields/factors`, `select`,   `Segs`, `keyOf`, `Segs.select`, `Segs.filter`,
   `filter`, `release`, `scans`, `Segment.predicate`)                `Segs.release`, `origins`, `hintOf`
`Visitor.visit_join` (what it registers before the sides)         `joinCtx`
`Visitor.visit_table/reference/join/set/query` (+`with self:`)    `run` (component `hints`, `st`)
`Visitor.generate_table(table, features, predicate)`              `Hint` (what is offered), `Backend.scan` (what a back-end does with it)

The hints and the rows come out of ONE traversal (`run`): at every `visit_table` the back-end is called with exactly
the hint the parser state yields at that moment, so there is no gap between "offered" and "honoured".
Errors are not totalised away: where the Python raises (`AttributeError` for a boolean operand that is no
`Predicate`) the state carries `err` and the driver answers with the error instead of hints.

Semantics (`Sem`): scalar operators other than AND/OR/NOT, literals, casts, the per-query post-processing
(projection / grouping / having / ordering / limit) and the set operators are *parameters*; AND/OR/NOT are Kleene's
three-valued connectives and a row passes a filter iff the condition evaluates to TRUE.  Core Lean only.
-/
import ForML.Model.Dsl

namespace ForML.PushDown
open ForML.Dsl

/-! ### syntax helpers -/

/-- `Source.instance`: the wrapped source of a `Reference`, otherwise the source itself -/
def inst : Source → Source
  | .ref i _ => i
  | s => s

def isTable : Source → Bool
  | .table _ _ => true
  | _ => false

/-- an element occurrence: origin and name -/
abbrev Elem := Source × String

mutual
/-- `Element.dissect(feature)`: `Feature.Dissect` visits the operable of an alias and the feature terms of an
expression (`Cast` is one); `visit_window` does not descend. -/
def elems : Feature → List Elem
  | .lit _ => []
  | .elem o n => [(o, n)]
  | .alias f _ => elems f
  | .expr _ args => elemsL args
  | .cast f _ => elems f
  | .window _ _ _ => []
def elemsL : Features → List Elem
  | .nil => []
  | .cons f fs => elems f ++ elemsL fs
end

/-- elements of a list of features -/
def elemsAll (fs : List Feature) : List Elem := fs.flatMap elems

/-- `feature.name` of an output feature (`Element.name`, `Aliased.name`; nothing else has one) -/
def nameOf : Feature → Option String
  | .elem _ n => some n
  | .alias _ n => some n
  | _ => none

/-- `Source.features` -/
def features : Source → List Feature
  | .table n fs => fs.map (fun c => .elem (.table n fs) c.1)
  | .ref i nm => ((features i).filterMap nameOf).map (fun c => .elem (.ref i nm) c)
  | .join l r _ _ => features l ++ features r
  | .set l r _ => features l ++ features r
  | .query src sel _ _ _ _ _ => if sel.isEmpty then features src else sel.toList

/-- origins bound by a source inside the query it belongs to (leaves of the join tree, in visit order);
a nested statement is bound under itself -/
def origins : Source → List Source
  | .join l r _ _ => origins l ++ origins r
  | s => [s]

def optList : FeatureOpt → List Feature
  | .none => []
  | .some f => [f]

def ordFeatures : Orderings → List Feature
  | .nil => []
  | .cons (.mk f _) os => f :: ordFeatures os

/-- everything `visit_query` registers: output features, prefilter, postfilter, grouping, ordering -/
def queryFeatures (src : Source) (sel : Features) (pre : FeatureOpt) (grp : Features) (post : FeatureOpt)
    (ord : Orderings) : List Feature :=
  (if sel.isEmpty then features src else sel.toList) ++ optList pre ++ optList post ++ grp.toList ++ ordFeatures ord

/-! ### factors (`series.py`) -/

inductive Err where
  /-- `.factors` of an operand that is no `Predicate` (boolean column, literal, cast …) -/
  | attributeError
  /-- a logical operator with a wrong number of operands (not constructible) -/
  | malformed
  deriving DecidableEq, Repr, Inhabited

def Err.wire : Err → String
  | .attributeError => "AttributeError"
  | .malformed => "Malformed"

def isComparison : Op → Bool
  | .lt | .le | .gt | .ge | .eq | .ne | .isnull | .notnull => true
  | _ => false

/-- boolean skeleton of a condition as `factors` dispatches on it -/
inductive Pred where
  /-- `Comparison` or `Not`: `Factors.primitive(self)` -/
  | atom (f : Feature)
  | and (a b : Pred)
  | or (a b : Pred)
  /-- no `factors` attribute -/
  | other (f : Feature)
  deriving Repr, Inhabited

def toPred : Feature → Pred
  | .expr .and (.cons a (.cons b .nil)) => .and (toPred a) (toPred b)
  | .expr .or (.cons a (.cons b .nil)) => .or (toPred a) (toPred b)
  | .expr .not (.cons a .nil) => .atom (.expr .not (.cons a .nil))
  | .expr op args => if isComparison op then .atom (.expr op args) else .other (.expr op args)
  | f => .other f

/-- `Predicate.Factors`: table ↦ predicate over that table alone (keys distinct) -/
abbrev FMap := List (Source × Feature)

/-- `Factors.primitive(predicate)`: the predicate itself iff all its elements share one origin which is a table -/
def primitive (p : Feature) : FMap :=
  match elems p with
  | [] => []
  | (o, _) :: rest => if isTable o && rest.all (fun e => e.1 == o) then [(o, p)] else []

def binop (op : Op) (a b : Feature) : Feature := .expr op (.cons a (.cons b .nil))

/-- `Factors.merge(left, right, operator)` over `left.keys() | right.keys()` -/
def mergeF (op : Op) (l r : FMap) : FMap :=
  l.map (fun kv => match r.lookup kv.1 with
    | some b => if kv.2 = b then kv else (kv.1, binop op kv.2 b)
    | none => kv)
  ++ r.filter (fun kv => (l.lookup kv.1).isNone)

/-- `Factors.__and__` -/
def andF (l r : FMap) : FMap := mergeF .and l r

/-- `Factors.__or__`: `merge` restricted to the tables constrained by both sides -/
def orF (l r : FMap) : FMap :=
  l.filterMap (fun kv => match r.lookup kv.1 with
    | some b => some (if kv.2 = b then kv else (kv.1, binop .or kv.2 b))
    | none => none)

/-- `.factors`; `lenient` = the variant of the code in which every `Operable` has (empty) factors -/
def factorsP (lenient : Bool) : Pred → Except Err FMap
  | .atom f => .ok (primitive f)
  | .and a b =>
    match factorsP lenient a, factorsP lenient b with
    | .ok l, .ok r => .ok (andF l r)
    | .error e, _ => .error e
    | _, .error e => .error e
  | .or a b =>
    match factorsP lenient a, factorsP lenient b with
    | .ok l, .ok r => .ok (orF l r)
    | .error e, _ => .error e
    | _, .error e => .error e
  | .other _ => if lenient then .ok [] else .error .attributeError

def factorsOf (lenient : Bool) (f : Feature) : Except Err FMap := factorsP lenient (toPred f)

/-! ### `Factors.merge` as /repo HEAD has it: two factors of one table are "the same" when their `hash()` agrees

`merge` combines `left[k]` and `right[k]` only `if hash(left[k]) != hash(right[k])` — a leftover of the time when DSL
equality was hash equality (equality is structural since 9f6ec89).  CPython hashes of integers collide systematically:
`hash(-1) == hash(-2) == -2` and `hash(n) == hash(n ± (2^61 - 1))`; the hash of a feature is the XOR of its class hash and
the tuple hash of its terms, so two features which differ in such literals only collide.  `hashKey` replaces every
integer literal by its CPython hash: features with equal keys have equal hashes (accidental XOR collisions are not
modelled).  The development above (`mergeF`: structural identity) is the code as repaired by
fixes/C14-merge-hash-dedup.diff (finding C14-X7). -/

/-- CPython `hash(int)`: reduction modulo the Mersenne prime `2^61 - 1` keeping the sign, `-1` is reserved -/
def pyHashInt (n : Int) : Int :=
  let m : Int := 2305843009213693951
  let h := if n < 0 then -((-n) % m) else n % m
  if h = -1 then -2 else h

mutual
def hashKey : Feature → Feature
  | .lit (.int n) => .lit (.int (pyHashInt n))
  | .lit v => .lit v
  | .elem o n => .elem o n
  | .alias f n => .alias (hashKey f) n
  | .expr op args => .expr op (hashKeyL args)
  | .cast f k => .cast (hashKey f) k
  | .window f p o => .window f p o
def hashKeyL : Features → Features
  | .nil => .nil
  | .cons f fs => .cons (hashKey f) (hashKeyL fs)
end

/-- `Factors.merge` with the test that tells whether the two factors of a table are one and the same as a parameter -/
def mergeFG (same : Feature → Feature → Bool) (op : Op) (l r : FMap) : FMap :=
  l.map (fun kv => match r.lookup kv.1 with
    | some b => if same kv.2 b then kv else (kv.1, binop op kv.2 b)
    | none => kv)
  ++ r.filter (fun kv => (l.lookup kv.1).isNone)

def orFG (same : Feature → Feature → Bool) (l r : FMap) : FMap :=
  l.filterMap (fun kv => match r.lookup kv.1 with
    | some b => some (if same kv.2 b then kv else (kv.1, binop .or kv.2 b))
    | none => none)

def factorsPG (same : Feature → Feature → Bool) (lenient : Bool) : Pred → Except Err FMap
  | .atom f => .ok (primitive f)
  | .and a b =>
    match factorsPG same lenient a, factorsPG same lenient b with
    | .ok l, .ok r => .ok (mergeFG same .and l r)
    | .error e, _ => .error e
    | _, .error e => .error e
  | .or a b =>
    match factorsPG same lenient a, factorsPG same lenient b with
    | .ok l, .ok r => .ok (orFG same l r)
    | .error e, _ => .error e
    | _, .error e => .error e
  | .other _ => if lenient then .ok [] else .error .attributeError

/-- the test of /repo HEAD: `hash(left[k]) == hash(right[k])` -/
def sameHash (a b : Feature) : Bool := hashKey a == hashKey b

/-- `.factors` of /repo HEAD -/
def factorsOfHash (lenient : Bool) (f : Feature) : Except Err FMap := factorsPG sameHash lenient (toPred f)

/-! ### parser context (`parser.Container.Context.Tables`) -/

/-- all segments of one context, flat: (table, field name) and (table, factor); sets in Python -/
structure Segs where
  fields : List (Source × String) := []
  factors : List (Source × Feature) := []
  err : Option Err := none
  deriving Repr, Inhabited

def addNew {α : Type} [DecidableEq α] (l : List α) (a : α) : List α := if a ∈ l then l else l ++ [a]

def addAll {α : Type} [DecidableEq α] (l : List α) (as : List α) : List α := as.foldl addNew l

/-- the segment an element of origin `o` is registered in and a scan of `o` reads: the origin itself in the repaired
code (`self[element.origin]`, `self.context.tables[origin]`), its table in the code that exists
(`self[element.origin.instance]`, `self.context.tables[table]`) -/
def keyOf (fix : Bool) (o : Source) : Source := if fix then o else inst o

/-- the table columns behind the elements of the features (`element.origin.instance` is a table) -/
def tableCols (fix : Bool) (fs : List Feature) : List (Source × String) :=
  (elemsAll fs).filterMap (fun e => if isTable (inst e.1) then some (keyOf fix e.1, e.2) else none)

/-- `Tables.select(*feature)` -/
def Segs.select (fix : Bool) (st : Segs) (fs : List Feature) : Segs :=
  { st with fields := addAll st.fields (tableCols fix fs) }

/-- `Tables.filter(expression, *preserved)`; `ex` = `scans(*preserved)`, the origins exempt from the factors (always
empty in the code that exists) -/
def Segs.filter (fix lenient : Bool) (st : Segs) (e : Feature) (ex : List Source) : Segs :=
  let st := st.select fix [e]
  match factorsOf lenient e with
  | .ok m => { st with factors := addAll st.factors (m.filter (fun kv => !ex.contains kv.1)) }
  | .error x => { st with err := match st.err with | some y => some y | none => some x }

/-- `if condition is not None: tables.filter(condition, *preserved)` -/
def Segs.filterOpt (fix lenient : Bool) (st : Segs) (c : FeatureOpt) (ex : List Source) : Segs :=
  match c with
  | .some c => st.filter fix lenient c ex
  | .none => st

/-- `Tables.release(*origin)`; `os` = `scans(*origin)`: the factors registered so far for these origins are discarded -/
def Segs.release (st : Segs) (os : List Source) : Segs :=
  { st with factors := st.factors.filter (fun kv => !os.contains kv.1) }

/-- `optional` of `visit_join` as `scans(*optional)`: the origins of the side(s) an outer join extends with NULLs.
The code that exists releases nothing. -/
def released (fix : Bool) (l r : Source) : JoinKind → List Source
  | .left => if fix then origins r else []
  | .right => if fix then origins l else []
  | .full => if fix then origins r ++ origins l else []
  | _ => []

/-- `preserved` of `visit_join` as `scans(*preserved)`: the origins of the side(s) an outer join keeps all the rows of.
The code that exists exempts nothing. -/
def exempt (fix : Bool) (l r : Source) : JoinKind → List Source
  | .left => if fix then origins l else []
  | .right => if fix then origins r else []
  | .full => if fix then origins l ++ origins r else []
  | _ => []

/-- what `visit_join` registers before it visits the sides: `tables.release(*optional)`, then
`tables.filter(condition, *preserved)` (the code that exists: `tables.filter(condition)` only) -/
def joinCtx (fix lenient : Bool) (st : Segs) (l r : Source) (k : JoinKind) (c : FeatureOpt) : Segs :=
  (st.release (released fix l r k)).filterOpt fix lenient c (exempt fix l r k)

/-- what `visit_table` / `_visit_scan` hands to `generate_table`: the fields and the factors (`Segment.predicate` is
their disjunction, `None` when there is none) registered so far in the segment of the scan -/
structure Hint where
  table : Source
  cols : List String
  pred : List Feature
  deriving Repr, Inhabited

/-- the hint read from segment `key` for a scan of `table` -/
def hintOf (st : Segs) (key table : Source) : Hint :=
  ⟨table, (st.fields.filter (fun kv => kv.1 = key)).map (·.2), (st.factors.filter (fun kv => kv.1 = key)).map (·.2)⟩

/-! ### values, three-valued logic, evaluation -/

inductive Val where
  | null
  | int (n : Int)
  | bool (b : Bool)
  | str (s : String)
  deriving DecidableEq, Repr, Inhabited

abbrev Row := List (String × Val)
/-- origin ↦ its current row -/
abbrev Env := List (Source × Row)
/-- table ↦ content -/
abbrev Db := Source → List Row

def Row.get (r : Row) (n : String) : Val := (r.lookup n).getD .null

def Env.row (e : Env) (o : Source) : Row := (e.lookup o).getD []

def Env.get (e : Env) (o : Source) (n : String) : Val := (e.row o).get n

def and3 : Val → Val → Val
  | .bool false, _ => .bool false
  | _, .bool false => .bool false
  | .bool true, .bool true => .bool true
  | _, _ => .null

def or3 : Val → Val → Val
  | .bool true, _ => .bool true
  | _, .bool true => .bool true
  | .bool false, .bool false => .bool false
  | _, _ => .null

def not3 : Val → Val
  | .bool b => .bool (!b)
  | _ => .null

/-- the parameters of the denotation -/
structure Sem where
  /-- scalar operators and functions (comparisons, arithmetic, …); AND/OR/NOT are fixed below -/
  op : Op → List Val → Val
  lit : Lit → Val
  cast : Val → Kind → Val
  /-- post-processing of one query node (projection, grouping, having, ordering, limit) of the rows that passed
  the prefilter -/
  finish : Source → List Env → List Row
  setop : SetKind → List Row → List Row → List Row

def applyOp (S : Sem) : Op → List Val → Val
  | .and, [a, b] => and3 a b
  | .or, [a, b] => or3 a b
  | .not, [a] => not3 a
  | op, vs => S.op op vs

mutual
def eval (S : Sem) (e : Env) : Feature → Val
  | .lit v => S.lit v
  | .elem o n => e.get o n
  | .alias f _ => eval S e f
  | .expr op args => applyOp S op (evalL S e args)
  | .cast f k => S.cast (eval S e f) k
  | .window _ _ _ => .null
def evalL (S : Sem) (e : Env) : Features → List Val
  | .nil => []
  | .cons f fs => eval S e f :: evalL S e fs
end

/-- a row passes a condition iff it evaluates to TRUE -/
def holds (S : Sem) (e : Env) (f : Feature) : Bool := eval S e f == .bool true

def holdsOpt (S : Sem) (e : Env) : FeatureOpt → Bool
  | .none => true
  | .some f => holds S e f

/-! ### storage back-ends -/

/-- the offered row filter on one row of the table: no factor = no filter, otherwise their disjunction -/
def passes (S : Sem) (h : Hint) (r : Row) : Bool :=
  h.pred.isEmpty || h.pred.any (fun f => holds S [(h.table, r)] f)

def project (cols : List String) (r : Row) : Row := r.filter (fun kv => kv.1 ∈ cols)

/-- what a back-end returns for one `generate_table` call -/
structure Backend where
  scan : Sem → Db → Hint → List Row

/-- ignores the hints (what the built-in parsers do) -/
def Backend.ignore : Backend := ⟨fun _ db h => db h.table⟩
/-- pre-filters the rows by the offered filter -/
def Backend.honourRows : Backend := ⟨fun S db h => (db h.table).filter (passes S h)⟩
/-- restricts the rows to the offered columns -/
def Backend.honourCols : Backend := ⟨fun _ db h => (db h.table).map (project h.cols)⟩
/-- `SELECT cols FROM table WHERE filter` -/
def Backend.honour : Backend := ⟨fun S db h => ((db h.table).filter (passes S h)).map (project h.cols)⟩

/-! ### one traversal: hints and rows -/

def firstRow : Env → Row
  | [] => []
  | kv :: _ => kv.2

/-- bind the (single) row of an environment under another origin -/
def rebind (o : Source) (e : Env) : Env := [(o, firstRow e)]

/-- all-NULL environment of the origins of a join side (`Row.get` of a missing column is NULL) -/
def nullEnv (os : List Source) : Env := os.map (fun o => (o, []))

def prod (L R : List Env) : List Env := L.flatMap (fun el => R.map (fun er => el ++ er))

/-- rows of a join; `ol`/`orr` are the origins of the two sides (for the NULL-extension of outer joins) -/
def joinRows (S : Sem) (k : JoinKind) (c : FeatureOpt) (ol orr : List Source) (L R : List Env) : List Env :=
  let on : Env → Bool := fun e => holdsOpt S e c
  match k with
  | .inner | .cross => (prod L R).filter on
  | .left => L.flatMap (fun el =>
      let ms := (R.map (fun er => el ++ er)).filter on
      if ms.isEmpty then [el ++ nullEnv orr] else ms)
  | .right => R.flatMap (fun er =>
      let ms := (L.map (fun el => el ++ er)).filter on
      if ms.isEmpty then [nullEnv ol ++ er] else ms)
  | .full =>
    L.flatMap (fun el =>
      let ms := (R.map (fun er => el ++ er)).filter on
      if ms.isEmpty then [el ++ nullEnv orr] else ms)
    ++ (R.filter (fun er => ((L.map (fun el => el ++ er)).filter on).isEmpty)).map (fun er => nullEnv ol ++ er)

/-- the context `visit_query` builds before it visits the source: selection (or all the source's features),
prefilter (`filter`), postfilter, grouping, ordering (`select`) -/
def queryCtx (fix lenient : Bool) (err : Option Err) (src : Source) (sel : Features) (pre : FeatureOpt) (grp : Features)
    (post : FeatureOpt) (ord : Orderings) : Segs :=
  (((((({ err := err } : Segs).select fix (if sel.isEmpty then features src else sel.toList)).filterOpt fix lenient pre []).select fix
    (optList post)).select fix grp.toList).select fix (ordFeatures ord))

structure Res where
  hints : List Hint
  envs : List Env
  st : Segs

/-- `Visitor.visit_*`: the hints offered (in `generate_table` call order), the rows the statement yields over the
back-end `B`, and the parser state afterwards -/
def run (fix lenient : Bool) (S : Sem) (B : Backend) (db : Db) : Source → Segs → Res
  | .table n fs, st =>
    let h := hintOf st (.table n fs) (.table n fs)
    ⟨[h], (B.scan S db h).map (fun r => [(Source.table n fs, r)]), st⟩
  | .ref i nm, st =>
    if isTable i then
      -- a scan of the table behind the reference: its own segment in the repaired code, the table's otherwise
      let h := hintOf st (keyOf fix (.ref i nm)) i
      ⟨[h], (B.scan S db h).map (fun r => [(Source.ref i nm, r)]), st⟩
    else
      let a := run fix lenient S B db i st
      ⟨a.hints, a.envs.map (rebind (.ref i nm)), a.st⟩
  | .join l r k c, st =>
    let a := run fix lenient S B db l (joinCtx fix lenient st l r k c)
    let b := run fix lenient S B db r a.st
    ⟨a.hints ++ b.hints, joinRows S k c (origins l) (origins r) a.envs b.envs, b.st⟩
  | .set l r k, st =>
    let a := run fix lenient S B db l st
    let b := run fix lenient S B db r a.st
    ⟨a.hints ++ b.hints,
     (S.setop k (a.envs.map firstRow) (b.envs.map firstRow)).map (fun row => [(Source.set l r k, row)]), b.st⟩
  | .query src sel pre grp post ord rows, st =>
    -- `with self:` a fresh context; only an error escapes it
    let a := run fix lenient S B db src (queryCtx fix lenient st.err src sel pre grp post ord)
    let kept := a.envs.filter (fun e => holdsOpt S e pre)
    ⟨a.hints, (S.finish (.query src sel pre grp post ord rows) kept).map
        (fun row => [(Source.query src sel pre grp post ord rows, row)]), { st with err := a.st.err }⟩

/-- the hints do not depend on the semantics, the back-end or the data -/
def trivialSem : Sem := ⟨fun _ _ => .null, fun _ => .null, fun _ _ => .null, fun _ _ => [], fun _ _ _ => []⟩

/-- what the parser offers for a statement: the hints in call order, or the error it raises -/
def hints (fix lenient : Bool) (s : Source) : Except Err (List Hint) :=
  let r := run fix lenient trivialSem Backend.ignore (fun _ => []) s {}
  match r.st.err with
  | some e => .error e
  | none => .ok r.hints

/-! ### specification side -/

/-- names of the columns of origin `o` used by the features `F` -/
def usedBy (F : List Feature) (o : Source) : List String :=
  ((elemsAll F).filter (fun e => e.1 = o)).map (·.2)

/-- per `generate_table` call (same order as `run … .hints`): the columns of the scanned origin used in the
clauses of the enclosing query or in the condition of a join the origin takes part in -/
def needs : List Feature → Source → List (List String)
  | F, .table n fs => [usedBy F (.table n fs)]
  | F, .ref i nm => if isTable i then [usedBy F (.ref i nm)] else needs F i
  | F, .join l r _ c => needs (F ++ optList c) l ++ needs (F ++ optList c) r
  | _, .set l r _ => needs [] l ++ needs [] r
  | _, .query src sel pre grp post ord _ => needs (queryFeatures src sel pre grp post ord) src

/-- all the join conditions of a join tree (one query context), in the order `visit_join` registers them -/
def condsOf : Source → List Feature
  | .join l r _ c => optList c ++ condsOf l ++ condsOf r
  | _ => []

/-- the property's own reading of "uses": per `generate_table` call (same order as `needs`), the columns of the scanned
origin occurring *anywhere* in its query — output features, prefilter, postfilter, grouping, ordering and every join
condition of the query's join tree (`F` = all of these for the enclosing query) -/
def usesIn : List Feature → Source → List (List String)
  | F, .table n fs => [usedBy F (.table n fs)]
  | F, .ref i nm => if isTable i then [usedBy F (.ref i nm)] else usesIn F i
  | F, .join l r _ _ => usesIn F l ++ usesIn F r
  | _, .set l r _ => usesIn [] l ++ usesIn [] r
  | _, .query src sel pre grp post ord _ => usesIn (queryFeatures src sel pre grp post ord ++ condsOf src) src

/-- every join of the statement (nested statements included) is an inner or a cross join -/
def innerOnly : Source → Bool
  | .table _ _ => true
  | .ref i _ => innerOnly i
  | .join l r k _ => (k == .inner || k == .cross) && innerOnly l && innerOnly r
  | .set l r _ => innerOnly l && innerOnly r
  | .query src _ _ _ _ _ _ => innerOnly src

/-- origins of all the elements of the features lie in `os` -/
def scopedIn (os : List Source) (F : List Feature) : Bool := (elemsAll F).all (fun e => os.contains e.1)

/-- join conditions only use origins of the join's own sides (`Join.__new__` refuses anything else) -/
def joinsScoped : Source → Bool
  | .join l r _ c => scopedIn (origins l ++ origins r) (optList c) && joinsScoped l && joinsScoped r
  | _ => true

/-- the tables a condition yields a factor for -/
def factorTables (lenient : Bool) : FeatureOpt → List Source
  | .none => []
  | .some c => match factorsOf lenient c with
    | .ok m => m.map (·.1)
    | .error _ => []

/-- none of the origins `os` gets a factor from a condition in `P` -/
def noFactorFor (lenient : Bool) (P : List Feature) (os : List Source) : Bool :=
  os.all (fun o => P.all (fun p => !(factorTables lenient (.some p)).contains o))

/-- **The statements outside the regions of the findings C14-F1 and C14-F2** (`P` = the conditions still pending above
the node: prefilter, ON conditions of the enclosing joins that still apply to every row; `Q` = all the conditions
registered so far in the query context).  For the code that exists (`fix = false`):
* F1a — the ON condition of an outer join yields no factor for a table of a side the join preserves;
* F1b — no table of a NULL-extended side of an outer join is offered a factor of a condition pending above the join;
* F2  — a table scanned through a reference has no factor registered in its context by the time of that scan.
The repaired code (`fix = true`) establishes all three by construction: the predicate is constantly true. -/
def safe (fix lenient : Bool) : List Feature → List Feature → Source → Bool
  | _, _, .table _ _ => true
  | _, Q, .ref i _ => if isTable i then fix || noFactorFor lenient Q [i] else safe fix lenient [] [] i
  | P, Q, .join l r k c =>
    match k with
    | .inner | .cross =>
      safe fix lenient (optList c ++ P) (optList c ++ Q) l
        && safe fix lenient (optList c ++ P) (condsOf l ++ (optList c ++ Q)) r
    | .left =>
      (fix || (noFactorFor lenient (optList c) (origins l) && noFactorFor lenient P (origins r)))
        && safe fix lenient P (optList c ++ Q) l && safe fix lenient (optList c) (condsOf l ++ (optList c ++ Q)) r
    | .right =>
      (fix || (noFactorFor lenient (optList c) (origins r) && noFactorFor lenient P (origins l)))
        && safe fix lenient (optList c) (optList c ++ Q) l && safe fix lenient P (condsOf l ++ (optList c ++ Q)) r
    | .full =>
      (fix || noFactorFor lenient (optList c ++ P) (origins l ++ origins r))
        && safe fix lenient [] (optList c ++ Q) l && safe fix lenient [] (condsOf l ++ (optList c ++ Q)) r
  | _, _, .set l r _ => safe fix lenient [] [] l && safe fix lenient [] [] r
  | _, _, .query src _ pre _ _ _ _ => safe fix lenient (optList pre) (optList pre) src

/-- a complete statement (`dsl.Statement`): query or set -/
def isStmt : Source → Bool
  | .query _ _ _ _ _ _ _ => true
  | .set _ _ _ => true
  | _ => false

/-- shape the constructors guarantee: a reference wraps a table or a statement (`Reference.__new__` unwraps
references; a referenced join is not renderable), the operands of a set are statements (`Set.__new__`) -/
def shaped : Source → Bool
  | .table _ _ => true
  | .ref i _ => (isTable i || isStmt i) && shaped i
  | .join l r _ _ => shaped l && shaped r
  | .set l r _ => isStmt l && isStmt r && shaped l && shaped r
  | .query src _ _ _ _ _ _ => shaped src

/-- what the grammar (`Join.__new__`, `Set.__new__`, `Reference.__new__`) and SQL name resolution guarantee for every
statement: `shaped`, and per query context: distinct origins, join conditions over the origins of their own sides -/
def grammarScoped : Source → Bool
  | .table _ _ => true
  | .ref i _ => (isTable i || isStmt i) && grammarScoped i
  | .join l r _ _ => grammarScoped l && grammarScoped r
  | .set l r _ => isStmt l && isStmt r && grammarScoped l && grammarScoped r
  | .query src _ _ _ _ _ _ => decide (origins src).Nodup && joinsScoped src && grammarScoped src

/-- no table is scanned through a reference in a context that also scans it directly (the region the first version
of `C14_filter_partial` excluded; `safe` is weaker) -/
def noAliasedScan (os : List Source) : Bool :=
  os.all (fun o => match o with
    | .ref i _ => !(isTable i && os.contains i)
    | _ => true)

/-- the hypothesis of the first version of `C14_filter_partial` (with `innerOnly`): `grammarScoped`, prefilter in
scope, and no aliased scan at all — kept to show that `safe false` only admits more (`C14_safe_of_v1`) -/
def wellScopedV1 : Source → Bool
  | .table _ _ => true
  | .ref i _ => (isTable i || isStmt i) && wellScopedV1 i
  | .join l r _ _ => wellScopedV1 l && wellScopedV1 r
  | .set l r _ => isStmt l && isStmt r && wellScopedV1 l && wellScopedV1 r
  | .query src _ pre _ _ _ _ =>
    decide (origins src).Nodup && joinsScoped src && scopedIn (origins src) (optList pre)
      && noAliasedScan (origins src) && wellScopedV1 src

/-! ### `forml.provider.feed.lazy._Columns` — the columns a lazy feed loads per table

`visit_element`: a column is taken as it is, an element of a reference to a table as that table's column, an element of
any other reference makes the visitor visit the referenced statement; `visit_join` visits the condition, `visit_query`
the output features (`starCols`: all of them when there is no selection), prefilter, grouping, postfilter, ordering. -/

mutual
def lazyF : Feature → List (Source × String)
  | .lit _ => []
  | .elem (.table n fs) c => [(Source.table n fs, c)]
  | .elem (.ref (.table n fs) _) c => [(Source.table n fs, c)]
  | .elem (.ref i _) _ => lazyS i
  | .elem _ _ => []
  | .alias f _ => lazyF f
  | .expr _ args => lazyFs args
  | .cast f _ => lazyF f
  | .window _ _ _ => []
def lazyFs : Features → List (Source × String)
  | .nil => []
  | .cons f fs => lazyF f ++ lazyFs fs
def lazyOpt : FeatureOpt → List (Source × String)
  | .none => []
  | .some f => lazyF f
def lazyOrd : Orderings → List (Source × String)
  | .nil => []
  | .cons (.mk f _) os => lazyF f ++ lazyOrd os
def starCols : Source → List (Source × String)
  | .table n fs => fs.map (fun c => (Source.table n fs, c.1))
  | .ref (.table n fs) _ => fs.map (fun c => (Source.table n fs, c.1))
  | .ref _ _ => []
  | .join l r _ _ => starCols l ++ starCols r
  | .set l r _ => starCols l ++ starCols r
  | .query src sel _ _ _ _ _ => if sel.isEmpty then starCols src else lazyFs sel
def lazyS : Source → List (Source × String)
  | .table _ _ => []
  | .ref i _ => lazyS i
  | .join l r _ c => lazyOpt c ++ lazyS l ++ lazyS r
  | .set l r _ => lazyS l ++ lazyS r
  | .query src sel pre grp post ord _ =>
    (if sel.isEmpty then starCols src else lazyFs sel) ++ lazyOpt pre ++ lazyFs grp ++ lazyOpt post ++ lazyOrd ord ++ lazyS src
end

/-- the table behind every scan, in `generate_table` call order (parallel to `needs`) -/
def scanTables : Source → List Source
  | .table n fs => [.table n fs]
  | .ref i _ => if isTable i then [i] else scanTables i
  | .join l r _ _ => scanTables l ++ scanTables r
  | .set l r _ => scanTables l ++ scanTables r
  | .query src _ _ _ _ _ _ => scanTables src

/-! ### a concrete semantics (integers, NULL, comparisons) for witnesses and non-vacuity -/

def cmpInt (f : Int → Int → Bool) : List Val → Val
  | [.int a, .int b] => .bool (f a b)
  | _ => .null

def simpleOp : Op → List Val → Val
  | .lt, vs => cmpInt (· < ·) vs
  | .le, vs => cmpInt (· ≤ ·) vs
  | .gt, vs => cmpInt (· > ·) vs
  | .ge, vs => cmpInt (· ≥ ·) vs
  | .eq, vs => cmpInt (· == ·) vs
  | .ne, vs => cmpInt (· != ·) vs
  | .isnull, [v] => .bool (v == .null)
  | .notnull, [v] => .bool (v != .null)
  | .add, [.int a, .int b] => .int (a + b)
  | .sub, [.int a, .int b] => .int (a - b)
  | .mul, [.int a, .int b] => .int (a * b)
  | _, _ => .null

def simpleLit : Lit → Val
  | .int n => .int n
  | .bool b => .bool b
  | .str s => .str s
  | .float _ => .null

/-- plain projection of the selected features (no grouping, ordering, limit); a column is named as the schema
names it (`Element.name` / `Aliased.name`) -/
def simpleFinish (S : Sem) : Source → List Env → List Row
  | .query src sel _ _ _ _ _, envs =>
    envs.map (fun e => (if sel.isEmpty then features src else sel.toList).map (fun f => ((nameOf f).getD "", eval S e f)))
  | _, _ => []

def simpleSetop : SetKind → List Row → List Row → List Row
  | .union, a, b => (a ++ b).eraseDups
  | .intersection, a, b => (a.filter (fun r => b.contains r)).eraseDups
  | .difference, a, b => (a.filter (fun r => !b.contains r)).eraseDups

/-- scalar part only (a query yields nothing) -/
def simpleScalar : Sem := ⟨simpleOp, simpleLit, fun v _ => v, fun _ _ => [], simpleSetop⟩

/-- integers with NULL, comparisons, `IS NULL`, `+ - *`; a query yields the projection of its selection -/
def simpleSem : Sem := ⟨simpleOp, simpleLit, fun v _ => v, simpleFinish simpleScalar, simpleSetop⟩

/-- the result of a statement over a back-end: the rows of its single binding -/
def result (fix lenient : Bool) (S : Sem) (B : Backend) (db : Db) (s : Source) : List Row :=
  (run fix lenient S B db s {}).envs.map firstRow

end ForML.PushDown
