/-
C20 — what makes a provider class abstract: model of `forml.provider.isabstract`, `inspect.isabstract` and of the part
of `abc.ABCMeta.__new__` (`_abc._compute_abstract_methods`) they read.

  abc.ABCMeta.__new__ / _compute_abstract_methods   ↦ `computeAbstracts`, `mkCls`   (`__abstractmethods__` = own names
                                                       whose value has `__isabstractmethod__`, plus the names in the
                                                       `__abstractmethods__` of the direct bases that `getattr(cls, name)`
                                                       still resolves to such a value)
  getattr(cls, name, None)                          ↦ `getattrNs`                   (own namespace, then the MRO)
  inspect.isabstract(cls)                           ↦ `inspectAbstract`             (TPFLAGS_IS_ABSTRACT, i.e. an ABCMeta
                                                       class with a non-empty `__abstractmethods__`; inside
                                                       `__init_subclass__` the standard library recomputes the same set by
                                                       hand)
  forml.provider.isabstract(cls)                    ↦ `isabstract`                  (`inspect.isabstract(cls) or
                                                       any(inspect.isabstract(i) for i in cls.__dict__.values())`: the
                                                       class' OWN attributes only — an inherited abstract inner class does
                                                       not count, which is what lets a `Sink` subclass override `consumer`
                                                       instead of `Writer`)

Class objects live in a table (`Tab`), a class statement refers to its bases / to inner classes by table index; a
class statement can only refer to classes that exist already (indices below its own).  The MRO of a class statement is
an input (C3 linearisation is CPython's).  Attribute names are naturals.  `ProvStmt`/`WorldT` tie the table to the
bank model: the two Boolean fields of `ClassDef` are computed from the table.  Core Lean only.
-/
import ForML.Model.Bank

namespace ForML.Bank

/-- a value found in a class namespace, as far as `__isabstractmethod__` / `inspect.isabstract` look at it -/
inductive Attr where
  /-- function / property / classmethod …; the flag is `getattr(value, '__isabstractmethod__', False)` -/
  | func : Bool → Attr
  /-- a class object (index into the class table): an inner class or a class assigned to an attribute -/
  | cls : Nat → Attr
  | other : Attr
  deriving DecidableEq, Repr

/-- a class object as `type.__new__` + `ABCMeta.__new__` leave it -/
structure Cls where
  /-- `isinstance(cls, abc.ABCMeta)` -/
  abc : Bool
  /-- `cls.__dict__` -/
  ns : List (Nat × Attr)
  /-- `cls.__mro__[1:]` (table indices) -/
  mro : List Nat
  /-- `cls.__abstractmethods__` -/
  abstracts : List Nat
  deriving DecidableEq, Repr

abbrev Tab := List Cls

/-- `namespace[name]` (a dict: the first binding is the only one) -/
def nsLookup (n : Nat) : List (Nat × Attr) → Option Attr
  | [] => none
  | (k, v) :: rest => if k = n then some v else nsLookup n rest

/-- `getattr(cls, name, None)` for the class being built from `ns` with the given MRO tail -/
def getattrNs (tab : Tab) (ns : List (Nat × Attr)) (mro : List Nat) (n : Nat) : Option Attr :=
  match nsLookup n ns with
  | some v => some v
  | none => mro.findSome? (fun k => (tab[k]?).bind (fun c => nsLookup n c.ns))

/-- `getattr(value, '__isabstractmethod__', False)` -/
def isAbsAttr : Option Attr → Bool
  | some (.func true) => true
  | _ => false

/-- the abstract names of one base that the new class does not resolve to something concrete -/
def inheritedFrom (tab : Tab) (ns : List (Nat × Attr)) (mro : List Nat) (b : Nat) : List Nat :=
  match tab[b]? with
  | some c => c.abstracts.filter (fun n => isAbsAttr (getattrNs tab ns mro n))
  | none => []

/-- `_abc._compute_abstract_methods(cls)` -/
def computeAbstracts (tab : Tab) (ns : List (Nat × Attr)) (bases mro : List Nat) : List Nat :=
  (ns.filter (fun e => isAbsAttr (some e.2))).map (·.1) ++ bases.flatMap (inheritedFrom tab ns mro)

/-- one `class X(bases…, metaclass=…): body` statement -/
structure ClsStmt where
  /-- `metaclass=abc.ABCMeta` (or a subclass of it, like `forml.provider.Meta`) given explicitly -/
  abc : Bool
  ns : List (Nat × Attr)
  bases : List Nat
  mro : List Nat
  deriving DecidableEq, Repr

/-- the metaclass is inherited from the bases -/
def stmtAbc (tab : Tab) (s : ClsStmt) : Bool := s.abc || s.bases.any (fun b => (tab[b]?).any (·.abc))

/-- the class object the statement creates (a class that is no ABCMeta instance never gets `__abstractmethods__`) -/
def mkCls (tab : Tab) (s : ClsStmt) : Cls :=
  ⟨stmtAbc tab s, s.ns, s.mro, if stmtAbc tab s then computeAbstracts tab s.ns s.bases s.mro else []⟩

/-- executing class statements one after the other; statement number `k` creates table entry `k` -/
def build (stmts : List ClsStmt) : Tab := stmts.foldl (fun tab s => tab ++ [mkCls tab s]) []

/-- `inspect.isabstract(cls)` -/
def inspectAbstract (tab : Tab) (k : Nat) : Bool :=
  match tab[k]? with
  | some c => c.abc && !c.abstracts.isEmpty
  | none => false

/-- `inspect.isabstract(value)` for a namespace value (`False` for everything that is not a class) -/
def attrAbstract (tab : Tab) : Attr → Bool
  | .cls j => inspectAbstract tab j
  | _ => false

/-- `any(inspect.isabstract(i) for i in cls.__dict__.values())` -/
def innerAbstract (tab : Tab) (k : Nat) : Bool :=
  match tab[k]? with
  | some c => c.ns.any (fun e => attrAbstract tab e.2)
  | none => false

/-- `forml.provider.isabstract(cls)` -/
def isabstract (tab : Tab) (k : Nat) : Bool := inspectAbstract tab k || innerAbstract tab k

/-- a provider class statement: its class object is entry `k` of the table; `mro` is `cls.__mro__[1:]` with, for every
entry, whether it is a subclass of `Service` other than `Service` itself (mixins — plain classes, ABCs, `typing.Generic` —
and `Service` / `object` are not) -/
structure ProvStmt where
  id : ClassId
  alias : Option Nat
  k : Nat
  mro : List (ClassId × Bool)
  paths : List Mod
  deriving DecidableEq, Repr

/-- `(p for p in cls.__mro__ if issubclass(p, Service) and p is not Service)` without the class itself: EVERY Service
ancestor of the MRO, whatever stands between them -/
def serviceParents (mro : List (ClassId × Bool)) : List ClassId := (mro.filter (·.2)).map (·.1)

/-- what `Service.__init_subclass__` / `Bank.add` see of the class -/
def ProvStmt.toDef (tab : Tab) (s : ProvStmt) : ClassDef :=
  ⟨s.id, s.alias, inspectAbstract tab s.k, innerAbstract tab s.k, serviceParents s.mro, s.paths⟩

structure ModuleT where
  subs : List Nat
  classes : List ProvStmt
  deriving Repr

abbrev WorldT := List (Mod × ModuleT)

def WorldT.toWorld (tab : Tab) (wt : WorldT) : World :=
  wt.map (fun e => (e.1, ⟨e.2.subs, e.2.classes.map (·.toDef tab)⟩))

end ForML.Bank
