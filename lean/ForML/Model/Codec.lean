/-
C19 — model of `forml/io/layout/_codec.py`: `Encoding` (constructor, `parse`, `match`),
`get_encoder`, `get_decoder`, plus the slices of `cgi.parse_header` and `fnmatch.translate` that
the header grammar of the property can reach.  Core Lean only; strings are `List Char`
(ASCII whitespace / ASCII lower-casing: the generator of the correspondence is ASCII only).

Mechanism mirrored (same order of steps as the Python):

  parse(value) = [cls(m, **{k: v for k, v in o if k != 'q'})
                  for m, o in sorted((cgi.parse_header(h) for h in _CSV.split(value)),
                                     key=lambda t: float(t[1].get('q', 1)), reverse=True)]
  match(self, other) = '*' not in other.kind and fnmatch(other.kind, self.kind)
                       and all(other.options.get(k) == v for k, v in self.options.items())
  get_decoder(source) = first codec of DECODERS whose encoding matches source, else Unsupported
  get_encoder(*targets) = for pattern in targets: for codec in ENCODERS: if pattern.match(codec.encoding)
-/
namespace ForML.Codec

abbrev Str := List Char

/-! ### text helpers (`str.strip`, `str.lower`, `re.split(r'\s*,\s*')`) -/

/-- ASCII members of `str.isspace` / regex `\s` (for `str` patterns `\s` is `str.isspace`, which
includes the separators FS, GS, RS, US = 0x1c..0x1f) -/
def isWs (c : Char) : Bool :=
  c == ' ' || c == '\t' || c == '\n' || c == '\r' || c == '\x0b' || c == '\x0c'
  || c == '\x1c' || c == '\x1d' || c == '\x1e' || c == '\x1f'

/-- `str.strip()` -/
def trim (s : Str) : Str := ((s.dropWhile isWs).reverse.dropWhile isWs).reverse

/-- `str.lower()` (ASCII) -/
def lower (s : Str) : Str := s.map Char.toLower

/-- split on a separator character; like `str.split(sep)` the result is never empty -/
def splitOn (sep : Char) : Str → List Str
  | [] => [[]]
  | c :: r =>
    if c == sep then [] :: splitOn sep r
    else match splitOn sep r with
      | [] => [[c]]   -- unreachable
      | p :: ps => (c :: p) :: ps

/-- `_CSV.split(value)` with `_CSV = re.compile(r'\s*,\s*')`: pieces between commas with the
whitespace around each comma removed.  (The regex leaves leading whitespace of the first and
trailing whitespace of the last piece in place; `cgi.parse_header` strips every part it yields, so
trimming all pieces here is indistinguishable downstream.) -/
def splitCsv (s : Str) : List Str := (splitOn ',' s).map trim

/-! ### `cgi.parse_header` -/

/-- `cgi._parseparam(';' + line)`: cut at every `;` that is preceded (within the current part) by an
even number of `"` not counted as `\"`; every part is stripped. `prev` = previous character of the
current part, `q` = parity of the quotes seen, `acc` = current part reversed. -/
def splitParams : Option Char → Bool → Str → Str → List Str
  | _, _, [], acc => [trim acc.reverse]
  | prev, q, c :: r, acc =>
    if c == ';' && !q then trim acc.reverse :: splitParams none false r []
    else splitParams (some c) (if c == '"' && prev != some '\\' then !q else q) r (c :: acc)

/-- `str.replace(a ++ b, to)` for a two-character needle (left to right, non-overlapping) -/
def replace2 (a b to : Char) : Str → Str
  | [] => []
  | [c] => [c]
  | c :: d :: r => if c == a && d == b then to :: replace2 a b to r else c :: replace2 a b to (d :: r)

/-- value un-quoting of `cgi.parse_header` -/
def unquote (v : Str) : Str :=
  if v.length ≥ 2 && v.head? == some '"' && v.getLast? == some '"' then
    replace2 '\\' '"' '"' (replace2 '\\' '\\' '\\' (v.drop 1).dropLast)
  else v

/-- options dictionary as an insertion-ordered association list with unique keys -/
abbrev Options := List (Str × Str)

/-- `pdict[name] = value` (dict semantics: a repeated key keeps its position, takes the new value) -/
def setOpt (k v : Str) : Options → Options
  | [] => [(k, v)]
  | (k', v') :: r => if k' == k then (k, v) :: r else (k', v') :: setOpt k v r

/-- `dict.get` -/
def getOpt (k : Str) : Options → Option Str
  | [] => none
  | (k', v') :: r => if k' == k then some v' else getOpt k r

/-- position of the first `=` (`p.find('=')`) as a split -/
def splitEq : Str → Option (Str × Str)
  | [] => none
  | c :: r => if c == '=' then some ([], r) else (splitEq r).map (fun (a, b) => (c :: a, b))

/-- the parameter loop of `cgi.parse_header`: parts without `=` are ignored -/
def paramDict (parts : List Str) : Options :=
  parts.foldl (fun d p => match splitEq p with
    | none => d
    | some (n, v) => setOpt (lower (trim n)) (unquote (trim v)) d) []

/-- `cgi.parse_header(line)` = (key, pdict) -/
def parseHeader (line : Str) : Str × Options :=
  match splitParams none false line [] with
  | [] => ([], [])   -- unreachable
  | key :: parts => (key, paramDict parts)

/-! ### quality values -/

def isDigit (c : Char) : Bool := '0' ≤ c && c ≤ '9'

def digitsVal (ds : Str) : Nat := ds.foldl (fun n c => 10 * n + (c.toNat - '0'.toNat)) 0

/-- unsigned part of `parseQ` -/
def parseQAbs (s : Str) : Option Nat :=
  match splitOn '.' s with
  | [i] => if i.length ≥ 1 && i.all isDigit then some (digitsVal i * 1000) else none
  | [i, f] =>
    if i.all isDigit && f.all isDigit && i.length + f.length ≥ 1 && f.length ≤ 3 then
      some (digitsVal i * 1000 + digitsVal f * 10 ^ (3 - f.length))
    else none
  | _ => none

/-- `float(q)` on the grammar slice `ws* [+-]? DIGIT* [ "." DIGIT{0,3} ] ws*` with at least one
digit, as thousandths (`-0` and `0` are the same key, as `-0.0 == 0.0`). Everything else is `none`
(= the `ValueError` of `float`). Spellings that `float` accepts beyond this slice (exponent, `inf`,
`nan`, `_`, more than three decimals) are outside the model (DESIGN: modelled, not verified). -/
def parseQ (s : Str) : Option Int :=
  match trim s with
  | '-' :: r => (parseQAbs r).map (fun n => - (n : Int))
  | '+' :: r => (parseQAbs r).map (fun n => (n : Int))
  | r => (parseQAbs r).map (fun n => (n : Int))

/-! ### `Encoding` and `Encoding.parse` -/

/-- `Encoding(kind, **options)`; `mk'` is the Python constructor (`kind.strip().lower()`) -/
structure Encoding where
  kind : Str
  options : Options
  deriving DecidableEq, Repr

def Encoding.mk' (kind : Str) (options : Options) : Encoding := ⟨lower (trim kind), options⟩

/-- one media range of the header before sorting: the `(m, o)` pair of `cgi.parse_header` with the
sort key `float(o.get('q', 1))` in thousandths -/
structure Range where
  kind : Str
  params : Options
  q : Int
  deriving DecidableEq, Repr

/-- `cls(m, **{k: v for k, v in o.items() if k != 'q'})` -/
def Range.enc (r : Range) : Encoding := Encoding.mk' r.kind (r.params.filter (fun kv => kv.1 != ['q']))

inductive ParseError where
  | badQ   -- `ValueError` from `float`
  deriving DecidableEq, Repr

/-- one item of the comma-separated list -/
def range1 (item : Str) : Except ParseError Range :=
  let (m, o) := parseHeader item
  match getOpt ['q'] o with
  | none => .ok ⟨m, o, 1000⟩
  | some v => match parseQ v with
    | some q => .ok ⟨m, o, q⟩
    | none => .error .badQ

/-- all keys are computed (left to right) before sorting: the first bad `q` raises -/
def rangesOf : List Str → Except ParseError (List Range)
  | [] => .ok []
  | i :: is =>
    match range1 i with
    | .error e => .error e
    | .ok r => match rangesOf is with
      | .error e => .error e
      | .ok rs => .ok (r :: rs)

def ranges (header : Str) : Except ParseError (List Range) := rangesOf (splitCsv header)

/-- insertion into a list sorted by descending `q`; the new element was *before* all of `l` in the
header, so it goes in front of every element that is not strictly better -/
def insertDesc (x : Range) : List Range → List Range
  | [] => [x]
  | y :: ys => if y.q > x.q then y :: insertDesc x ys else x :: y :: ys

/-- `sorted(..., key=q, reverse=True)`: stable, descending -/
def sortDesc : List Range → List Range
  | [] => []
  | x :: xs => insertDesc x (sortDesc xs)

/-- `Encoding.parse` -/
def parse (header : Str) : Except ParseError (List Encoding) :=
  (ranges header).map (fun rs => (sortDesc rs).map Range.enc)

/-! ### `fnmatch` -/

/-- member of a bracket expression: a literal or an inclusive code-point range -/
inductive Item where
  | ch (c : Char)
  | rng (lo hi : Char)
  deriving DecidableEq, Repr

/-- compiled pattern element (`fnmatch.translate` produces the regex pieces `.*`, `.`, `[...]`, literal) -/
inductive Tok where
  | star
  | any
  | set (neg : Bool) (items : List Item)
  | lit (c : Char)
  deriving DecidableEq, Repr

/-- body of a bracket expression (negation mark already removed). A `-` that is neither first nor
last and does not directly follow a range makes a range; ranges with `lo > hi` are dropped
(`translate` removes them before building the character class). -/
def setItems : Str → List Item
  | [] => []
  | [a] => [.ch a]
  | [a, b] => [.ch a, .ch b]
  | a :: b :: c :: r =>
    if b == '-' then (if a ≤ c then [.rng a c] else []) ++ setItems r
    else .ch a :: setItems (b :: c :: r)

/-- find the closing `]` of a bracket body: (body, rest after `]`) -/
def splitClose : Str → Option (Str × Str)
  | [] => none
  | c :: r => if c == ']' then some ([], r) else (splitClose r).map (fun (a, b) => (c :: a, b))

/-- the part of `translate` after a `[`: optional `!`, a `]` directly after it is literal, then the
first `]`; `none` when there is no closing bracket (the `[` is then literal) -/
def bracket (r : Str) : Option (Tok × Str) :=
  let (neg, r1) := match r with
    | '!' :: t => (true, t)
    | _ => (false, r)
  match r1 with
  | ']' :: t => (splitClose t).map (fun (body, rest) => (.set neg (setItems (']' :: body)), rest))
  | _ => (splitClose r1).map (fun (body, rest) => (.set neg (setItems body), rest))

/-- first loop of `fnmatch.translate` (fuel = pattern length, never exhausted) -/
def compileAux : Nat → Str → List Tok
  | 0, _ => []
  | _, [] => []
  | n + 1, c :: r =>
    if c == '*' then .star :: compileAux n r
    else if c == '?' then .any :: compileAux n r
    else if c == '[' then
      match bracket r with
      | some (t, rest) => t :: compileAux n rest
      | none => .lit '[' :: compileAux n r
    else .lit c :: compileAux n r

def compile (pat : Str) : List Tok := compileAux pat.length pat

def Item.has (c : Char) : Item → Bool
  | .ch a => a == c
  | .rng lo hi => lo ≤ c && c ≤ hi

/-- does one pattern element accept one character (`star` is handled by the matcher) -/
def Tok.accepts (c : Char) : Tok → Bool
  | .star => false
  | .any => true
  | .set neg items => (items.any (Item.has c)) != neg
  | .lit a => a == c

/-- `f` holds for some suffix of the string (the choices of a `*`) -/
def anySuffix (f : Str → Bool) : Str → Bool
  | [] => f []
  | c :: s => f (c :: s) || anySuffix f s

/-- backtracking matcher of a compiled pattern against a whole string (`re.match(... \Z)`);
structural on the pattern so that it evaluates in the kernel -/
def globToks : List Tok → Str → Bool
  | [], s => s.isEmpty
  | .star :: ts, s => anySuffix (globToks ts) s
  | .any :: _, [] => false
  | .any :: ts, _ :: s => globToks ts s
  | .set _ _ :: _, [] => false
  | .set neg items :: ts, c :: s => (Tok.set neg items).accepts c && globToks ts s
  | .lit _ :: _, [] => false
  | .lit a :: ts, c :: s => (Tok.lit a).accepts c && globToks ts s

/-- `fnmatch.fnmatch(name, pat)` on POSIX (`normcase` is the identity) -/
def glob (pat name : Str) : Bool := globToks (compile pat) name

/-! ### `Encoding.match`, `get_decoder`, `get_encoder` -/

/-- `self.match(other)` -/
def Encoding.matches (self other : Encoding) : Bool :=
  !other.kind.contains '*'
  && glob self.kind other.kind
  && self.options.all (fun kv => getOpt kv.1 other.options == some kv.2)

/-- index of the first element satisfying `p` -/
def findIdx? (p : α → Bool) : List α → Option Nat
  | [] => none
  | a :: r => if p a then some 0 else (findIdx? p r).map (· + 1)

/-- `get_decoder(source)`: index into `DECODERS` of the first entry whose encoding (as a pattern)
matches the source; `none` = `Encoding.Unsupported` -/
def getDecoder (decoders : List Encoding) (source : Encoding) : Option Nat :=
  findIdx? (fun pat => pat.matches source) decoders

/-- `get_encoder(*targets)`: client order outside, `ENCODERS` order inside; index into `ENCODERS`;
`none` = `Encoding.Unsupported` -/
def getEncoder (encoders : List Encoding) : List Encoding → Option Nat
  | [] => none
  | pat :: rest =>
    match findIdx? (fun e => pat.matches e) encoders with
    | some i => some i
    | none => getEncoder encoders rest

/-! ### codec round trip, grammar slice

Token-level model of the two text codecs usable in the sandbox: a table is a header row and data
rows of cells; `text/csv` writes `,`-joined fields and `\n`-terminated lines
(`DataFrame.to_csv(index=False)`), reads them back by splitting (`pandas.read_csv`). Cells are
texts; the slice is: no cell contains the separator or the line terminator (so that no quoting is
needed) — quoting, type inference and the JSON writer are sampled by the correspondence only. -/

def joinWith (sep : Char) : List Str → Str
  | [] => []
  | [a] => a
  | a :: b :: r => a ++ sep :: joinWith sep (b :: r)

/-- `to_csv(index=False)` on the slice -/
def csvDumps (rows : List (List Str)) : Str :=
  rows.flatMap (fun r => joinWith ',' r ++ ['\n'])

/-- `read_csv` on the slice: lines (the text ends with a terminator), then fields -/
def csvLoads (text : Str) : List (List Str) :=
  ((splitOn '\n' text).dropLast).map (splitOn ',')

/-- typed reading of a cell, single-cell column: `read_csv` infers the column type from the text, so a
text made of digits comes back as a number (the writer does not mark text cells in any way) -/
inductive Cell where
  | int (n : Nat)
  | text (s : Str)
  deriving DecidableEq, Repr

def looksNumeric (s : Str) : Bool := !s.isEmpty && s.all isDigit

/-- `to_csv` of one cell on the unquoted slice -/
def Cell.render : Cell → Str
  | .int n => Nat.toDigits 10 n
  | .text s => s

/-- `read_csv` of a one-cell column -/
def Cell.read (s : Str) : Cell := if looksNumeric s then .int (digitsVal s) else .text s

/-! ### float cells through the JSON encoders

Every JSON encoder of `ENCODERS` is `DataFrame.to_json` with its default `double_precision=10`: a
float cell is written with at most ten decimal places, the rest is rounded away; the readers take
the written decimal as it stands. Magnitudes only (the sign is carried through unchanged). -/

/-- the decimal number `n / 10^scale` -/
structure Dec where
  n : Nat
  scale : Nat
  deriving DecidableEq, Repr

/-- equality of the denoted numbers -/
def Dec.same (a b : Dec) : Bool := a.n * 10 ^ b.scale == b.n * 10 ^ a.scale

/-- `double_precision` of `DataFrame.to_json` as used by `ENCODERS` (the pandas default) -/
def jsonPrecision : Nat := 10

/-- what the JSON encoders write for a float cell: unchanged up to ten decimal places, otherwise
rounded (to nearest) to ten places -/
def Dec.jsonRender (d : Dec) : Dec :=
  if d.scale ≤ jsonPrecision then d
  else ⟨(d.n + 5 * 10 ^ (d.scale - jsonPrecision - 1)) / 10 ^ (d.scale - jsonPrecision), jsonPrecision⟩

end ForML.Codec
