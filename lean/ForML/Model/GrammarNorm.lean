/-
C07 — what a script denotes, and the regions the partial theorems of Props/C07 exclude, as decidable predicates.

`Source.norm` (the *denotation* of a script): the three places where the constructors silently rewrite their
arguments,

  Python                                                    here
  --------------------------------------------------------  ----------------------------------------
  `Reference.__new__(cls, instance.instance, name)`         `.ref i n ↦ .ref i.norm.inst n`
  `Aliased.__new__(cls, feature.operable, alias)`           `.alias f n ↦ .alias f.norm.operable n`
  `Set.__new__ … super().__new__(cls, left.statement, …)`   `.set l r k ↦ .set l.norm.statement r.norm.statement k`

applied bottom-up.  A `normal` script is its own denotation (`Source.norm_of_normal`), every denotation is `normal`
(`Source.normal_norm`), and `construct r = construct r.norm` (Lemmas/C07Norm) — so the hypothesis `normal` of the
partial theorems is no restriction of the statements they speak about.

Regions (`tame` unfolded into what it really excludes):

  `Source.dupTable`      a table with a repeated field name — not a `dsl.Schema` (the `Schema` metaclass raises
                         `GrammarError('Colliding field name …')` when the class is created): unreachable
  `Source.consulted`     the sources whose `.schema` the constructors read: instance of a reference, operands of a set,
                         origin of an element (anywhere in the script)
  `Source.unnamedAt`     … one of them has an un-named output                                  (finding C07-F1)
  `Source.duplicateAt`   … one of them has two outputs of the same name                         (finding C07-F2)
  `Source.unkindedAt`    … one of them has an output without a kind — only possible below an element naming no output
                         of its origin (finding C07-F3) or an ill-typed call: implied by `¬ resolvable`

Core Lean only.
-/
import ForML.Model.Grammar

namespace ForML.Dsl

/-! ## the denotation of a script -/

mutual
def Feature.norm : Feature → Feature
  | .lit v => .lit v
  | .elem o n => .elem o.norm n
  | .alias f n => .alias f.norm.operable n
  | .expr op args => .expr op args.norm
  | .cast f k => .cast f.norm k
  | .window fn ps os => .window fn.norm ps.norm os.norm
def Features.norm : Features → Features
  | .nil => .nil
  | .cons f fs => .cons f.norm fs.norm
def FeatureOpt.norm : FeatureOpt → FeatureOpt
  | .none => .none
  | .some f => .some f.norm
def Ordering.norm : Ordering → Ordering
  | .mk f d => .mk f.norm d
def Orderings.norm : Orderings → Orderings
  | .nil => .nil
  | .cons o os => .cons o.norm os.norm
def Source.norm : Source → Source
  | .table n fs => .table n fs
  | .ref i n => .ref i.norm.inst n
  | .join l r k c => .join l.norm r.norm k c.norm
  | .set l r k => .set l.norm.statement r.norm.statement k
  | .query s sel pre grp post ord rows => .query s.norm sel.norm pre.norm grp.norm post.norm ord.norm rows
end

/-! ## the regions -/

/-- every output has a name and the names are pairwise distinct (`plain` without the kinds) -/
def Source.plainN (s : Source) : Bool :=
  s.outs.all (fun f => (nameOf f).isSome) && s.sig.all (fun p => p.1.isSome) && decide ((s.sig.map (·.1)).Nodup)

/-- every output has a kind -/
def Source.kinded (s : Source) : Bool := s.sig.all (fun p => p.2.isSome)

mutual
/-- the sources whose schema the constructors consult while the script is evaluated -/
def Feature.consulted : Feature → List Source
  | .lit _ => []
  | .elem o _ => o.consulted ++ [o]
  | .alias f _ => f.consulted
  | .expr _ args => args.consulted
  | .cast f _ => f.consulted
  | .window fn ps os => fn.consulted ++ ps.consulted ++ os.consulted
def Features.consulted : Features → List Source
  | .nil => []
  | .cons f fs => f.consulted ++ fs.consulted
def FeatureOpt.consulted : FeatureOpt → List Source
  | .none => []
  | .some f => f.consulted
def Ordering.consulted : Ordering → List Source
  | .mk f _ => f.consulted
def Orderings.consulted : Orderings → List Source
  | .nil => []
  | .cons o os => o.consulted ++ os.consulted
def Source.consulted : Source → List Source
  | .table _ _ => []
  | .ref i _ => i.consulted ++ [i]
  | .join l r _ c => l.consulted ++ r.consulted ++ c.consulted
  | .set l r _ => l.consulted ++ r.consulted ++ [l, r]
  | .query s sel pre grp post ord _ =>
    s.consulted ++ sel.consulted ++ pre.consulted ++ grp.consulted ++ post.consulted ++ ord.consulted
end

mutual
/-- some table of the script has a repeated field name (no such `dsl.Schema` exists) -/
def Feature.dupTable : Feature → Bool
  | .lit _ => false
  | .elem o _ => o.dupTable
  | .alias f _ => f.dupTable
  | .expr _ args => args.dupTable
  | .cast f _ => f.dupTable
  | .window fn ps os => fn.dupTable || ps.dupTable || os.dupTable
def Features.dupTable : Features → Bool
  | .nil => false
  | .cons f fs => f.dupTable || fs.dupTable
def FeatureOpt.dupTable : FeatureOpt → Bool
  | .none => false
  | .some f => f.dupTable
def Ordering.dupTable : Ordering → Bool
  | .mk f _ => f.dupTable
def Orderings.dupTable : Orderings → Bool
  | .nil => false
  | .cons o os => o.dupTable || os.dupTable
def Source.dupTable : Source → Bool
  | .table _ fs => !decide ((fs.map (·.1)).Nodup)
  | .ref i _ => i.dupTable
  | .join l r _ c => l.dupTable || r.dupTable || c.dupTable
  | .set l r _ => l.dupTable || r.dupTable
  | .query s sel pre grp post ord _ =>
    s.dupTable || sel.dupTable || pre.dupTable || grp.dupTable || post.dupTable || ord.dupTable
end

/-- an output of a consulted source has no name (C07-F1) -/
def Source.unnamedAt (r : Source) : Bool :=
  r.consulted.any (fun s => !(s.outs.all (fun f => (nameOf f).isSome) && s.sig.all (fun p => p.1.isSome)))

/-- two outputs of a consulted source have the same name (C07-F2) -/
def Source.duplicateAt (r : Source) : Bool :=
  r.consulted.any (fun s => !decide ((s.sig.map (·.1)).Nodup))

/-- an output of a consulted source has no kind -/
def Source.unkindedAt (r : Source) : Bool := r.consulted.any (fun s => !s.kinded)

mutual
/-- some element of the script names no output of its origin (C07-F3) -/
def Feature.unknownElement : Feature → Bool
  | .lit _ => false
  | .elem o n => o.unknownElement || !o.sig.any (fun p => p.1 == some n)
  | .alias f _ => f.unknownElement
  | .expr _ args => args.unknownElement
  | .cast f _ => f.unknownElement
  | .window fn ps os => fn.unknownElement || ps.unknownElement || os.unknownElement
def Features.unknownElement : Features → Bool
  | .nil => false
  | .cons f fs => f.unknownElement || fs.unknownElement
def FeatureOpt.unknownElement : FeatureOpt → Bool
  | .none => false
  | .some f => f.unknownElement
def Ordering.unknownElement : Ordering → Bool
  | .mk f _ => f.unknownElement
def Orderings.unknownElement : Orderings → Bool
  | .nil => false
  | .cons o os => o.unknownElement || os.unknownElement
def Source.unknownElement : Source → Bool
  | .table _ _ => false
  | .ref i _ => i.unknownElement
  | .join l r _ c => l.unknownElement || r.unknownElement || c.unknownElement
  | .set l r _ => l.unknownElement || r.unknownElement
  | .query s sel pre grp post ord _ =>
    s.unknownElement || sel.unknownElement || pre.unknownElement || grp.unknownElement || post.unknownElement ||
      ord.unknownElement
end

mutual
/-- some expression of the script is not a well-typed call of its class: wrong number of operands (Python's own
`TypeError` before any DSL code runs) or `RowNumber()` — a `Window.Function`, not a feature — used as an operand -/
def Feature.illTypedCall : Feature → Bool
  | .lit _ => false
  | .elem o _ => o.illTypedCall
  | .alias f _ => f.illTypedCall
  | .expr op args => args.illTypedCall || !decide (args.toList.length = op.arity) || op == .rownumber
  | .cast f _ => f.illTypedCall
  | .window fn ps os => (fn != .expr .rownumber .nil && fn.illTypedCall) || ps.illTypedCall || os.illTypedCall
def Features.illTypedCall : Features → Bool
  | .nil => false
  | .cons f fs => f.illTypedCall || fs.illTypedCall
def FeatureOpt.illTypedCall : FeatureOpt → Bool
  | .none => false
  | .some f => f.illTypedCall
def Ordering.illTypedCall : Ordering → Bool
  | .mk f _ => f.illTypedCall
def Orderings.illTypedCall : Orderings → Bool
  | .nil => false
  | .cons o os => o.illTypedCall || os.illTypedCall
def Source.illTypedCall : Source → Bool
  | .table _ _ => false
  | .ref i _ => i.illTypedCall
  | .join l r _ c => l.illTypedCall || r.illTypedCall || c.illTypedCall
  | .set l r _ => l.illTypedCall || r.illTypedCall
  | .query s sel pre grp post ord _ =>
    s.illTypedCall || sel.illTypedCall || pre.illTypedCall || grp.illTypedCall || post.illTypedCall || ord.illTypedCall
end

end ForML.Dsl
