/-
Model of forml/application/_strategy.py (C17).

ABTest: weights are natural numbers over a common denominator (the harness scales the Python
targets — integers, dyadic floats, `None` — to `Option Nat` numerators over one denominator `D`;
only ratios matter because the constructor normalises by the combined sum).  A slot is
`(w, c)`: weight and hit count; the target share of a slot is `w / W` with `W` the sum of all
weights, and `Slot.eligible(total)` = `count / total < target` is the cross-multiplied
`c * W < w * total`.

Latest: the registry is a list of releases in ascending key order, each with its generation keys
in ascending order (what `Level.Listing` yields, see C18); `pick` follows `Latest._pick`.
-/
namespace ForML.Strategy

/-! ### ABTest.__init__ : implicit targets and slot order -/

/-- `targets = [v.target for v in variants if v.target]` summed -/
def explicitSum : List (Option Nat) → Nat
  | [] => 0
  | none :: r => explicitSum r
  | some n :: r => n + explicitSum r

def missingCount : List (Option Nat) → Nat
  | [] => 0
  | none :: r => missingCount r + 1
  | some _ :: r => missingCount r

def givenCount : List (Option Nat) → Nat
  | [] => 0
  | none :: r => givenCount r
  | some _ :: r => givenCount r + 1

/-- Integer weights proportional to the targets computed by `ABTest.__init__`.
`ts` are the numerators over the denominator `d` (so the Python value of `some n` is `n/d`).
* no target missing: the targets themselves;
* `explicit < 1`: implicit = `(1 - explicit) / missing`  → everything scaled by `missing`;
* otherwise: implicit = `explicit / len(targets)`        → everything scaled by `len(targets)`.
-/
def fillWith (scale implicit : Nat) : Option Nat → Nat
  | some n => n * scale
  | none => implicit

def weights (ts : List (Option Nat)) (d : Nat) : List Nat :=
  if missingCount ts = 0 then ts.map (fun t => t.getD 0)
  else if explicitSum ts < d then ts.map (fillWith (missingCount ts) (d - explicitSum ts))
  else ts.map (fillWith (givenCount ts) (explicitSum ts))

/-- stable sort by descending weight of `(weight, original index)` pairs -/
def sortDesc : List (Nat × Nat) → List (Nat × Nat)
  | [] => []
  | x :: r => insertDescStable x (sortDesc r)
where
  /-- insert *before* the first strictly smaller element, but after equal ones that came earlier in
  the input; since we fold from the right, an element inserted later came *earlier* in the input and
  must go in front of its equals. -/
  insertDescStable (x : Nat × Nat) : List (Nat × Nat) → List (Nat × Nat)
    | [] => [x]
    | y :: r => if x.1 < y.1 then y :: insertDescStable x r else x :: y :: r

def indexed (ws : List Nat) : List (Nat × Nat) := ws.zipIdx

/-- slot order of the constructor: `(weight, variant index)` by descending weight, ties in
variant order -/
def slotOrder (ws : List Nat) : List (Nat × Nat) := sortDesc (indexed ws)

/-! ### ABTest.select -/

abbrev Slot := Nat × Nat   -- (weight, count)

def sumW : List Slot → Nat
  | [] => 0
  | (w, _) :: r => w + sumW r

def sumC : List Slot → Nat
  | [] => 0
  | (_, c) :: r => c + sumC r

/-- first eligible slot (in slot order) gets the hit; `none` = `RuntimeError('No eligible slots')` -/
def hitFirst (W n : Nat) : List Slot → Option (List Slot)
  | [] => none
  | (w, c) :: r =>
    if c * W < w * n then some ((w, c + 1) :: r)
    else (hitFirst W n r).map ((w, c) :: ·)

/-- index of the slot that gets the hit -/
def pickIdx (W n : Nat) : List Slot → Option Nat
  | [] => none
  | (w, c) :: r => if c * W < w * n then some 0 else (pickIdx W n r).map (· + 1)

structure State where
  slots : List Slot
  total : Nat
  deriving Repr, DecidableEq

def init (ws : List Nat) : State := ⟨ws.map (fun w => (w, 0)), 0⟩

/-- one `select` call: `_total += 1`, first eligible slot is hit -/
def step (s : State) : Option State :=
  match hitFirst (sumW s.slots) (s.total + 1) s.slots with
  | none => none
  | some sl => some ⟨sl, s.total + 1⟩

def run (s : State) : Nat → Option State
  | 0 => some s
  | n + 1 => match run s n with
    | none => none
    | some s' => step s'

/-- the sequence of picked slot indices for `n` requests (stops at a failure) -/
def trace (s : State) : Nat → List Nat
  | 0 => []
  | n + 1 =>
    match pickIdx (sumW s.slots) (s.total + 1) s.slots, step s with
    | some i, some s' => i :: trace s' n
    | _, _ => []

/-! ### Latest._pick -/

/-- `releases`: ascending release order, each with ascending generation keys.
`configured = none`: walk releases from the highest, take the first with a generation;
`configured = some r`: that release with its last generation (resolved lazily by `asset.Instance`;
`none` inside = empty listing error at resolution). -/
def pickLatest : List (Nat × List Nat) → Option (Nat × Nat)
  | [] => none
  | (r, gs) :: rest =>
    match pickLatest rest with
    | some x => some x
    | none => match gs.getLast? with
      | some g => some (r, g)
      | none => none

def pickConfigured (rels : List (Nat × List Nat)) (r : Nat) : Option (Nat × Nat) :=
  match rels.find? (fun x => x.1 == r) with
  | some (_, gs) => gs.getLast?.map (fun g => (r, g))
  | none => none

end ForML.Strategy
