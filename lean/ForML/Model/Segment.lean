/-
An already constructed flow-graph segment (C01): the *input* of `flow.compile`.

Mirrors the observable structure of
  * forml/flow/_graph/atomic.py  `Worker` (uid, gid = group uid, builder = actor symbol, `stateful`,
    `szin`, `szout`, `trained`, `derived`, `output` = ordered subscriptions per output port)
  * forml/flow/_graph/port.py    `Subscription(node, port)`, `Train()`=0, `Label()`=1, `Apply(i)`=i
  * forml/flow/_graph/span.py    `Segment(head, tail)`, `Traversal.each` (the visit order fed to the compiler)

It is self-contained on purpose (the graph *construction* API is modelled separately for C11):
`workers` are the members of the segment (the nodes `Traversal.each` visits), `edges` all
subscriptions published by members in insertion order, `trainedElsewhere` the groups having a trained
fork outside the segment (this is all `Worker.derived` can see of the outside world).

Core Lean only.
-/
import ForML.Model.Symbols

namespace ForML.Flow

/-- subscriber (input) port: `port.Apply(i) | port.Train() | port.Label()` -/
inductive InPort where
  | apply (i : Nat)
  | train
  | label
  deriving DecidableEq, Repr, Inhabited

/-- `int(port)`: `Linkage.update` passes the port object itself as the positional index. -/
def InPort.index : InPort → Nat
  | .apply i => i
  | .train => 0
  | .label => 1

def InPort.isApply : InPort → Bool
  | .apply _ => true
  | _ => false

/-- `flow.Worker` -/
structure Worker where
  uid : Uid
  gid : Gid
  actor : Actor
  stateful : Bool
  szin : Nat
  szout : Nat
  deriving DecidableEq, Repr, Inhabited

/-- one subscription: `pub[pubPort]` publishes to `Subscription(sub, subPort)` -/
structure Edge where
  pub : Uid
  pubPort : Nat
  sub : Uid
  subPort : InPort
  deriving DecidableEq, Repr, Inhabited

structure Segment where
  workers : List Worker
  edges : List Edge
  head : Uid
  tail : Uid
  trainedElsewhere : List Gid
  deriving Repr, Inhabited

namespace Segment

def worker? (g : Segment) (n : Uid) : Option Worker := g.workers.find? (fun w => w.uid = n)

def uids (g : Segment) : List Uid := g.workers.map (·.uid)

/-- `Worker.trained`: subscribed on a `Train` or `Label` port -/
def trained (g : Segment) (n : Uid) : Bool :=
  g.edges.any (fun e => e.sub = n && !e.subPort.isApply)

/-- `node.output[i]`: ordered subscriptions of output port `i` -/
def subscribers (g : Segment) (n : Uid) (i : Nat) : List Edge :=
  g.edges.filter (fun e => e.pub = n && e.pubPort = i)

/-- `(s for p in node.output for s in p)` -/
def outEdges (g : Segment) (w : Worker) : List Edge :=
  (List.range w.szout).flatMap (fun i => g.subscribers w.uid i)

/-- the subscription holding input port `p` of `n` (ports have at most one publisher) -/
def publisher (g : Segment) (n : Uid) (p : InPort) : Option Edge :=
  g.edges.find? (fun e => e.sub = n && e.subPort = p)

/-- the trained member of group `gid` inside the segment -/
def trainerOf (g : Segment) (gid : Gid) : Option Worker :=
  g.workers.find? (fun w => w.gid = gid && g.trained w.uid)

/-- `Worker.derived`: stateful and some *other* fork of the group is trained -/
def derived (g : Segment) (w : Worker) : Bool :=
  w.stateful && (g.trainedElsewhere.contains w.gid ||
    g.workers.any (fun o => o.gid = w.gid && o.uid != w.uid && g.trained o.uid))

/-! ### `Traversal.each` — the visit order -/

/-- `traverse`: depth first, pre-order, subscribers by output port then subscription order; at the
tail only trained subscribers are followed; `seen` is the global set (here: the visit list). -/
def dfs (g : Segment) : Nat → List Uid → Uid → List Uid
  | 0, seen, _ => seen
  | f + 1, seen, n =>
    let seen := seen ++ [n]
    match g.worker? n with
    | none => seen
    | some w =>
      (g.outEdges w).foldl
        (fun seen e =>
          if seen.contains e.sub || (n = g.tail && !g.trained e.sub) then seen else dfs g f seen e.sub)
        seen

/-- the order in which `segment.accept(table)` calls `Table.add` -/
def visitOrder (g : Segment) : List Uid := dfs g (g.workers.length + 1) [] g.head

/-! ### validity ("acyclic, fully connected workflow segment") -/

def allDistinct [DecidableEq α] : List α → Bool
  | [] => true
  | x :: r => !r.contains x && allDistinct r

/-- the ports of a well-formed worker: a trained one has exactly `train` and `label`, every other one
all of `apply 0 … apply (szin-1)` (the head: none, it is fed from outside the segment) -/
def portsOK (g : Segment) (w : Worker) : Bool :=
  let ins := (g.edges.filter (fun e => e.sub = w.uid)).map (·.subPort)
  if g.trained w.uid then
    w.stateful && ins.contains .train && ins.contains .label && ins.all (fun p => !p.isApply)
      && (g.edges.all fun e => e.pub != w.uid)
  else if w.uid = g.head then ins.isEmpty && w.szin ≤ 1
  else (List.range w.szin).all (fun i => ins.contains (.apply i))

/-- Decidable well-formedness of a segment w.r.t. a topological numbering `rank` of the dataflow
*including the state edges trainer → applied forks of its group* (DESIGN D22). -/
def wf (g : Segment) (rank : Uid → Nat) : Bool :=
  allDistinct g.uids
  && g.uids.contains g.head && g.uids.contains g.tail
  -- subscriptions connect members, respect the shapes and the numbering
  && (g.edges.all fun e =>
        match g.worker? e.pub, g.worker? e.sub with
        | some p, some s =>
          e.pubPort < p.szout && decide (rank e.pub < rank e.sub) &&
            (match e.subPort with | .apply i => decide (i < s.szin) | _ => s.stateful)
        | _, _ => false)
  -- every input port has at most one publisher
  && allDistinct (g.edges.map fun e => (e.sub, e.subPort))
  -- fully connected
  && (g.workers.all fun w => g.portsOK w)
  -- the tail is a plain (single output) apply node
  && (match g.worker? g.tail with | some t => t.szout ≤ 1 && !g.trained t.uid | none => false)
  -- groups: one builder, at most one trained fork, state flows forward
  && (g.workers.all fun w => g.workers.all fun o =>
        if w.gid = o.gid then
          w.actor = o.actor && w.stateful = o.stateful
            && (if g.trained w.uid && w.uid != o.uid then !g.trained o.uid && decide (rank w.uid < rank o.uid) else true)
        else true)
  && (g.workers.all fun w => if g.trainedElsewhere.contains w.gid then !g.trained w.uid && w.stateful else true)

/-- Asset accessor compatible with the segment: the persistent list is duplicate free; either all of
its groups are trained in this segment (train mode: one new generation is committed) or none
(apply mode); a fork whose trainer lives outside the segment has a stored state to load. -/
def assetsOK (g : Segment) : Option Assets → Bool
  | none => g.workers.all fun w => !(w.stateful && g.trainedElsewhere.contains w.gid)
  | some A =>
    allDistinct A.persistent
      && (A.persistent.all (fun p => (g.trainerOf p).isSome) || A.persistent.all (fun p => (g.trainerOf p).isNone))
      && (g.workers.all fun w => if w.stateful && g.trainedElsewhere.contains w.gid then A.contains w.gid else true)

end Segment
end ForML.Flow
