/-
Several writers on one registry (property C05): HANDLES living in PROCESSES, next to the shared file system.

A *handle* is one long-lived object chain

    asset.Directory(posix.Registry(root)) → Project(key) / Instance(project, release | None, generation | None)
                                              (= Generation → Release → Project → Directory)  → State accessor

created once (`open`) and used for every later operation on it.  What such a chain remembers between calls, in the code
that exists:

  forml/io/asset/_directory/__init__.py  Level.key   an implicit key (`None`) is resolved ONCE — `self._key =
                                                     self._parent.list().last` — and kept; every access (also of an
                                                     explicit key) is re-validated against a fresh parent listing
  forml/io/asset/_access.py              State       the accessor of the training in progress (tag template, number of
                                                     nodes); the harness keeps the state ids returned by `dump`
  forml/io/asset/_directory/level/minor.py  TAGS     process-wide `lru_cache` of `Registry.open` (never invalidated)
                                            STATES   process-wide `lru_cache` of `Registry.read` (never invalidated)

Nothing else: `Release.put` lists the generations again on every commit, `Project.put` the releases on every publish.
A *process* owns handles and one TAGS cache; when it dies (`die`) they are gone, the tree stays as the interrupted
operation left it, and the other processes carry on.  Histories interleave the operations of all handles at the
granularity of registry calls (`dump` = `Registry.write`, `commit` = `Registry.close`, `publish` = `Registry.push`):
another writer may commit between the dumps and the commit of a training.  Core Lean only.
-/
import ForML.Model.Registry

namespace ForML.Registry
open ForML.Fs

/-- what one object chain remembers -/
structure Handle where
  proc : Nat
  proj : Nat
  /-- `Release._key`: explicit, or `none` until the first resolution of the implicit key -/
  rel : Option Nat
  /-- `Generation._key` of `Instance._generation` -/
  gen : Option Nat
  /-- the `State` accessor of the training in progress: (ordinal of its tag template, number of nodes) -/
  acc : Option (Nat × Nat)
  /-- what was dumped since `begin`: the state ids returned by `dump` (the harness keeps them and passes them to
  `commit`) with — specification only, the code keeps nothing — the bytes handed over -/
  dumped : List (Nat × Bytes)
  /-- specification only: a commit of these dumps has reached the registry (the staged files are no longer owed) -/
  done : Bool
  deriving DecidableEq, Repr, Inhabited

def Handle.sids (x : Handle) : List Nat := x.dumped.map (·.1)

structure World where
  fs : Fs
  /-- handle table (first match wins) -/
  hs : List (Nat × Handle)
  /-- the TAGS caches: (process, (project, release, generation), cached tag) -/
  tags : List (Nat × (Nat × Nat × Nat) × Tag)
  /-- the STATES caches: (process, (project, release, generation, state id), cached bytes) -/
  states : List (Nat × (Nat × Nat × Nat × Nat) × Bytes)
  deriving Repr, Inhabited

def World.empty : World := ⟨Fs.empty, [], [], []⟩

inductive HErr where
  | invalid    -- asset.Level.Invalid
  | mismatch   -- forml.InvalidError('Project key mismatch')
  | os         -- a file-system call failed
  | empty      -- Level.Listing.Empty
  | assertion  -- `assert len(states) == len(self._nodes)`
  | corrupt    -- a listed generation whose tag cannot be read (never for the code that exists: C05_handles_never_corrupt)
  | noacc      -- harness: dump / commit without an accessor
  | dead       -- harness: the handle does not exist (any more)
  deriving DecidableEq, Repr, Inhabited

def HErr.ofErr : Err → HErr
  | .invalid => .invalid
  | .mismatch => .mismatch
  | .os => .os

inductive HOp where
  /-- a new chain in process `proc`: `Instance(p, v, g, Directory(Registry(root)))` (lazy: no registry access) -/
  | open (proc p : Nat) (v g : Option Nat)
  /-- `handle.project.put(package)` with `package.manifest = (name, v)` -/
  | publish (name v : Nat) (pkg : Pkg)
  /-- `handle.instance.state(n nodes, tag template with ordinal ord)` -/
  | begin (ord n : Nat)
  /-- `accessor.dump(b)`; `sid` = the uuid4 drawn -/
  | dump (sid : Nat) (b : Bytes)
  /-- `accessor.commit(sids dumped since begin)` -/
  | commit
  /-- `handle.instance.tag` -/
  | look
  deriving Repr, Inhabited

def lookupH (hs : List (Nat × Handle)) (h : Nat) : Option Handle :=
  match hs with
  | [] => none
  | e :: r => if e.1 = h then some e.2 else lookupH r h

def setH (hs : List (Nat × Handle)) (h : Nat) (x : Handle) : List (Nat × Handle) :=
  (h, x) :: hs.filter (fun e => e.1 != h)

def lookupTag (tags : List (Nat × (Nat × Nat × Nat) × Tag)) (proc : Nat) (key : Nat × Nat × Nat) : Option Tag :=
  match tags with
  | [] => none
  | e :: r => if e.1 = proc ∧ e.2.1 = key then some e.2.2 else lookupTag r proc key

/-- `Level.key` of the project and the release level of a chain: the project must be listed (`Project.key`); an implicit
release key is resolved to the last listed one and remembered; an explicit or remembered one must (still) be listed -/
def resolveRel (fs : Fs) (x : Handle) : Handle × Except HErr Nat :=
  if projListed fs x.proj then
    match x.rel with
    | some v => (x, if relListed fs x.proj v then .ok v else .error .invalid)
    | none =>
      match latestRel fs x.proj with
      | none => (x, .error .empty)
      | some v => ({ x with rel := some v }, .ok v)
  else (x, .error .invalid)

/-- `Level.key` of the generation level (`Instance.tag`): `none` = `Listing.Empty` for an implicit key (→ NOTAG) -/
def resolveGen (fs : Fs) (p v : Nat) (x : Handle) : Handle × Except HErr (Option Nat) :=
  match x.gen with
  | some g => (x, if genValid fs p v g then .ok (some g) else .error .invalid)
  | none =>
    match latestGen fs p v with
    | none => (x, .ok none)
    | some g => ({ x with gen := some g }, .ok (some g))

/-- the registry call an operation of a handle amounts to -/
inductive Act where
  | idle
  | publish (dp name v : Nat) (pkg : Pkg)
  | write (p v sid : Nat) (b : Bytes)
  | close (p v ord : Nat) (sids : List Nat)
  deriving Repr, Inhabited

/-- `Registry.close` under `Release.put`: the number is computed from the listing at that moment -/
def closeAt (impl : Impl) (p v ord : Nat) (sids : List Nat) : Fs → List Op :=
  fun fs => closeOps impl fs p v (nextGen fs p v) ⟨ord, sids⟩

def runAct (impl : Impl) (fs : Fs) : Act → Outcome
  | .idle => ⟨fs, [], none⟩
  | .publish dp name v pkg => exec impl fs (.publish dp name v pkg)
  | .write p v sid b => runCalls fs [fun f => writeOps f p v sid b]
  | .close p v ord sids => runCalls fs [closeAt impl p v ord sids]

/-- the handle after key resolution, the call, and the error raised before any call -/
structure Plan where
  x : Handle
  act : Act
  err : Option HErr
  deriving Repr, Inhabited

def plan (fs : Fs) (x : Handle) : HOp → Plan
  | .open _ _ _ _ => ⟨x, .idle, none⟩
  | .publish name v pkg => ⟨x, .publish x.proj name v pkg, none⟩
  | .begin ord n => ⟨{ x with acc := some (ord, n), dumped := [], done := false }, .idle, none⟩
  | .dump sid b =>
    match x.acc with
    | none => ⟨x, .idle, some .noacc⟩
    | some _ =>
      match resolveRel fs x with
      | (x', .ok v) => ⟨x', .write x.proj v sid b, none⟩
      | (x', .error e) => ⟨x', .idle, some e⟩
  | .commit =>
    match x.acc with
    | none => ⟨x, .idle, some .noacc⟩
    | some (ord, n) =>
      if x.sids.length ≠ n then ⟨x, .idle, some .assertion⟩
      else
        match resolveRel fs x with
        | (x', .ok v) => ⟨{ x' with done := true }, .close x.proj v ord x.sids, none⟩
        | (x', .error e) => ⟨x', .idle, some e⟩
  | .look => ⟨x, .idle, none⟩

/-- the exception a failing commit raises: `Registry.close` checks `source.exists()` before every move
(`Level.Invalid('State … not staged')`); any other failing system call is an `OSError` -/
def closeErr (impl : Impl) (fs : Fs) (p v ord : Nat) (sids : List Nat) : HErr :=
  let l := atomsAll (closeAt impl p v ord sids fs)
  match l[okCount fs l]? with
  | some (.rename src _) => if get (runSome fs l).1 src = none then .invalid else .os
  | _ => .os

def actErr (impl : Impl) (fs : Fs) (a : Act) : Option HErr :=
  match (runAct impl fs a).err with
  | none => none
  | some e =>
    match a with
    | .close p v ord sids => some (closeErr impl fs p v ord sids)
    | _ => some (HErr.ofErr e)

structure HOut where
  w : World
  calls : List (List Op)
  err : Option HErr
  /-- result of `look`: `some none` = NOTAG -/
  look : Option (Option Tag)
  deriving Repr, Inhabited

def lookupState (states : List (Nat × (Nat × Nat × Nat × Nat) × Bytes)) (proc : Nat) (key : Nat × Nat × Nat × Nat) :
    Option Bytes :=
  match states with
  | [] => none
  | e :: r => if e.1 = proc ∧ e.2.1 = key then some e.2.2 else lookupState r proc key

/-- `Generation.get(i)` for every state the tag names, in order: the process-wide STATES cache in front of
`Registry.read` (a missing file reads as `b''` — and is cached as such) -/
def readStates (fs : Fs) (cache : List (Nat × (Nat × Nat × Nat × Nat) × Bytes)) (proc p v g : Nat) :
    List Nat → List (Nat × (Nat × Nat × Nat × Nat) × Bytes) × List Bytes
  | [] => (cache, [])
  | s :: r =>
    match lookupState cache proc (p, v, g, s) with
    | some b => let rest := readStates fs cache proc p v g r; (rest.1, b :: rest.2)
    | none =>
      let b := match get fs (stateP p v g s) with
        | some (.file b) => b
        | _ => []
      let rest := readStates fs ((proc, (p, v, g, s), b) :: cache) proc p v g r
      (rest.1, b :: rest.2)

/-- the generation a chain is bound to at this moment (`Level.key` of release and generation), if it resolves -/
def boundGen (fs : Fs) (x : Handle) : Option (Nat × Nat) :=
  match resolveRel fs x with
  | (x1, .ok v) =>
    match resolveGen fs x.proj v x1 with
    | (_, .ok (some g)) => some (v, g)
    | _ => none
  | _ => none

/-- `Instance.tag` → `Generation.tag`: project key, release key, generation key (an empty listing gives NOTAG), then the
process-wide TAGS cache in front of `Registry.open` -/
def lookTag (w : World) (h : Nat) (x : Handle) : HOut :=
  match resolveRel w.fs x with
  | (x1, .error e) => ⟨{ w with hs := setH w.hs h x1 }, [], some e, none⟩
  | (x1, .ok v) =>
    match resolveGen w.fs x.proj v x1 with
    | (x2, .error e) => ⟨{ w with hs := setH w.hs h x2 }, [], some e, none⟩
    | (x2, .ok none) => ⟨{ w with hs := setH w.hs h x2 }, [], none, some none⟩
    | (x2, .ok (some g)) =>
      match lookupTag w.tags x.proc (x.proj, v, g) with
      | some t => ⟨{ w with hs := setH w.hs h x2 }, [], none, some (some t)⟩
      | none =>
        match tagOf w.fs x.proj v g with
        | some t => ⟨{ w with hs := setH w.hs h x2, tags := (x.proc, (x.proj, v, g), t) :: w.tags }, [], none, some (some t)⟩
        | none => ⟨{ w with hs := setH w.hs h x2 }, [], some .corrupt, none⟩

/-- `look` = `Instance.tag`, then `State.load` of every state the tag names (`Generation.get`) -/
def lookOn (w : World) (h : Nat) (x : Handle) : HOut :=
  let o := lookTag w h x
  match o.look, boundGen w.fs x with
  | some (some t), some (v, g) =>
    ⟨{ o.w with states := (readStates w.fs w.states x.proc x.proj v g t.sids).1 }, o.calls, o.err, o.look⟩
  | _, _ => o

/-- the bytes `look` reads for the states of the tag, in order -/
def lookStates (w : World) (h : Nat) : List Bytes :=
  match lookupH w.hs h with
  | none => []
  | some x =>
    match (lookTag w h x).look, boundGen w.fs x with
    | some (some t), some (v, g) => (readStates w.fs w.states x.proc x.proj v g t.sids).2
    | _, _ => []

/-- what the harness keeps for the handle after a successful call -/
def afterOk (x : Handle) : HOp → Handle
  | .dump sid b => { x with dumped := x.dumped ++ [(sid, b)] }
  | _ => x

/-- one operation through handle `h` -/
def perform (impl : Impl) (w : World) (h : Nat) (op : HOp) : HOut :=
  match op with
  | .open proc p v g =>
    if g = some 0 then ⟨w, [], some .invalid, none⟩  -- `Generation.Key(0)` raises in the constructor
    else ⟨{ w with hs := setH w.hs h ⟨proc, p, v, g, none, [], false⟩ }, [], none, none⟩
  | op =>
    match lookupH w.hs h with
    | none => ⟨w, [], some .dead, none⟩
    | some x =>
      match op with
      | .look => lookOn w h x
      | op =>
        let pl := plan w.fs x op
        match pl.err with
        | some e => ⟨{ w with hs := setH w.hs h pl.x }, [], some e, none⟩
        | none =>
          let o := runAct impl w.fs pl.act
          let x' := if o.err.isNone then afterOk pl.x op else pl.x
          ⟨{ w with fs := o.fs, hs := setH w.hs h x' }, o.calls, actErr impl w.fs pl.act, none⟩

/-- an event of an interleaved history: an operation through a handle that runs to its end (or raises), or one during
which the process owning the handle dies — after `k` atomic micro-operations of it, optionally `cut` bytes into the next
write; its handles and its caches are gone, the other processes carry on with what is on disk —, or one that a
transient I/O fault makes raise (see `faultAtoms` in ForML.Model.Registry) -/
inductive HEv where
  | run (h : Nat) (op : HOp)
  | die (h : Nat) (op : HOp) (k : Nat) (cut : Option Nat)
  /-- a transient I/O fault (`OSError` raised once) at the `j`-th atomic micro-operation of the operation: it raises, the
  process — its handles, its caches — lives on -/
  | fault (h : Nat) (op : HOp) (j : Nat)
  deriving Repr, Inhabited

/-- the handle after an operation that was hit by a transient fault and raised: the keys it had resolved stay resolved
(`plan`), nothing was added to what the harness keeps -/
def faultHandle (fs : Fs) (x : Handle) : HOp → Handle
  | .publish name v pkg => (plan fs x (.publish name v pkg)).x
  | .dump sid b => (plan fs x (.dump sid b)).x
  | .commit => (plan fs x .commit).x
  | _ => x

def killProc (w : World) (proc : Nat) : World :=
  { w with hs := w.hs.filter (fun e => e.2.proc != proc), tags := w.tags.filter (fun e => e.1 != proc),
           states := w.states.filter (fun e => e.1 != proc) }

def applyH (impl : Impl) (w : World) : HEv → World
  | .run h op => (perform impl w h op).w
  | .die h op k cut =>
    match lookupH w.hs h with
    | none => w
    | some x =>
      let o := perform impl w h op
      killProc { w with fs := (runSome w.fs (crashOps (atomsAll o.calls.flatten) k cut)).1 } x.proc
  | .fault h op j =>
    match lookupH w.hs h with
    | none => w
    | some x =>
      let o := perform impl w h op
      { w with fs := (runSome w.fs (faultAtoms (atomsAll o.calls.flatten) j)).1, hs := setH w.hs h (faultHandle w.fs x op) }

/-- the world after an interleaved history of any number of handles and processes -/
def playH (impl : Impl) : World → List HEv → World
  | w, [] => w
  | w, e :: rest => playH impl (applyH impl w e) rest

end ForML.Registry
