/-
Model of forml/flow/_code/compiler.py (C01): `Table.add`, `Table.Linkage`, `Table.Index`,
`Table.__iter__` and `compile`, call by call, over an explicit visit order.

Differences in representation (not in mechanism):
  * uuid keys are structured `Key`s: `uid n` / `gid g` as in the code; the fresh `uuid4()` keys are
    `getter n i`, `dumper n`, `loader g` (the key `Index.reset` moves the loader to) and `committer`;
  * an instruction object is an `Obj` = identity + instruction (`groupby` and the `stubs` set compare
    identities: distinct instruction objects are never `==`, see `Functor` with its fresh `Action`);
  * the two `defaultdict(list)`s of `Linkage` and the dict of `Index` are insertion ordered
    association lists;
  * a Python exception is a *sticky* error in the state (`fail`, first one wins) so that the fold of
    `add` stays a total function; `compile` returns `Except`.

Core Lean only.
-/
import ForML.Model.Segment

namespace ForML.Flow

/-- exception classes raised by the compiler -/
inductive CErr where
  | assembly    -- `AssemblyError`
  | keyError    -- raw `KeyError`
  | assertion   -- `AssertionError`
  | unexpected  -- `forml.UnexpectedError` (`State.offset` of an unknown node)
  deriving DecidableEq, Repr, Inhabited

/-- an instruction object -/
structure Obj where
  id : Key
  instr : Instr
  deriving DecidableEq, Repr, Inhabited

/-! ### insertion ordered dicts -/

def aget [DecidableEq κ] (k : κ) : List (κ × α) → Option α
  | [] => none
  | (k', v) :: r => if k' = k then some v else aget k r

/-- `d[k] = v` -/
def aset [DecidableEq κ] (k : κ) (v : α) : List (κ × α) → List (κ × α)
  | [] => [(k, v)]
  | (k', v') :: r => if k' = k then (k, v) :: r else (k', v') :: aset k v r

/-- `del d[k]` -/
def adel [DecidableEq κ] (k : κ) : List (κ × α) → List (κ × α)
  | [] => []
  | (k', v') :: r => if k' = k then r else (k', v') :: adel k r

/-! ### compiler state: `Table._index`, `Table._linkage`, `Table._committer` -/

structure CState where
  index : List (Key × Obj)                       -- `Index._instructions`
  absolute : List (Key × List (Option Key))      -- `Linkage._absolute`
  prefixed : List (Key × List Key)               -- `Linkage._prefixed` (append order)
  committer : Option Key                         -- `Table._committer`
  fail : Option CErr                             -- first exception raised
  deriving Repr, Inhabited

namespace CState

def init : CState := ⟨[], [], [], none, none⟩

def raise (s : CState) (e : CErr) : CState :=
  match s.fail with
  | some _ => s
  | none => { s with fail := some e }

/-- `Index.set(instruction, key)`; `assert key not in self, 'Instruction collision'` -/
def iset (s : CState) (o : Obj) (k : Key) : CState :=
  match aget k s.index with
  | some _ => s.raise .assertion
  | none => { s with index := s.index ++ [(k, o)] }

/-- `Index.reset(orig, new)`: re-register the instruction stored under `orig` under `new` -/
def ireset (s : CState) (orig new : Key) : CState :=
  match aget orig s.index with
  | none => s.raise .keyError
  | some o => ({ s with index := adel orig s.index }).iset o new

/-- `args[index] = argument` after `args.extend([None] * (index - argcnt + 1))` -/
def putAt (args : List (Option Key)) (i : Nat) (x : Key) : List (Option Key) :=
  (args ++ List.replicate (i + 1 - args.length) none).set i (some x)

/-- `Linkage.insert(instruction, argument, index=None)` -/
def linsert (s : CState) (instruction argument : Key) (index : Option Nat) : CState :=
  let args := (aget instruction s.absolute).getD []
  let s1 := match index with
    | none => if args.length ≤ 1 then s else s.raise .assertion   -- 'Index required for multiarg'
    | some _ => s
  let i := index.getD 0
  let s2 := if (args.getD i none).isSome then s1.raise .assertion else s1   -- 'Link collision'
  { s2 with absolute := aset instruction (putAt args i argument) s2.absolute }

/-- `Linkage.prepend(instruction, argument)` -/
def prepend (s : CState) (instruction argument : Key) : CState :=
  { s with prefixed := aset instruction ((aget instruction s.prefixed).getD [] ++ [argument]) s.prefixed }

/-- `Linkage.update(node, getter)` with `getter = lambda index: self._index.set(system.Getter(index))` -/
def update (s : CState) (g : Segment) (w : Worker) : CState :=
  if w.szout = 1 then
    (g.subscribers w.uid 0).foldl (fun s e => s.linsert (.uid e.sub) (.uid w.uid) (some e.subPort.index)) s
  else
    (List.range w.szout).foldl
      (fun s i =>
        let source := Key.getter w.uid i
        let s := s.iset ⟨source, .getter i⟩ source
        let s := s.linsert source (.uid w.uid) none
        (g.subscribers w.uid i).foldl (fun s e => s.linsert (.uid e.sub) source (some e.subPort.index)) s)
      s

/-- `Linkage.__getitem__`: `reversed(prefixed) ++ absolute` -/
def link (s : CState) (k : Key) : List (Option Key) :=
  ((aget k s.prefixed).getD []).reverse.map some ++ (aget k s.absolute).getD []

/-- `Linkage.leaves`: keys of either map that are nobody's argument -/
def leaves (s : CState) : List Key :=
  let parents : List (Option Key) := s.absolute.flatMap (·.2) ++ s.prefixed.flatMap (fun p => p.2.map some)
  (s.absolute.map (·.1) ++ s.prefixed.map (·.1)).filter (fun k => !parents.contains (some k))

/-- `parents` of `Linkage.leaves`: everything that is somebody's argument -/
def parents (s : CState) : List (Option Key) :=
  s.absolute.flatMap (·.2) ++ s.prefixed.flatMap (fun p => p.2.map some)

end CState

/-- `Table.add(node)` -/
def add (g : Segment) (A : Option Assets) (s : CState) (w : Worker) : CState :=
  let uid := Key.uid w.uid
  let s := if (aget uid s.index).isSome then s.raise .assertion else s   -- 'Node collision'
  let trained := g.trained w.uid
  let persistent := w.stateful && (match A with | some A => A.contains w.gid | none => false)
  -- `if persistent and state not in self._index: self._index.set(Loader(assets, state), state)`
  let s := if persistent && (aget (Key.gid w.gid) s.index).isNone
    then s.iset ⟨.loader w.gid, .loader w.gid⟩ (.gid w.gid) else s
  let isTrainer := w.stateful && trained
  -- `if node.trained: ... if persistent: committer, dumper, loader re-keyed`
  let s := if isTrainer && persistent then
      let s := if s.committer.isNone
        then { s.iset ⟨.committer, .committer⟩ .committer with committer := some .committer } else s
      let dumper := Key.dumper w.uid
      let s := s.iset ⟨dumper, .dumper⟩ dumper
      let s := s.linsert dumper uid none
      let s := match A.bind (·.offset w.gid) with
        | some off => s.linsert (s.committer.getD .committer) dumper (some off)
        | none => s.raise .unexpected
      s.ireset (.gid w.gid) (.loader w.gid)
    else s
  let state := if isTrainer && persistent then Key.loader w.gid else Key.gid w.gid
  let preset := w.stateful && (persistent || g.derived w)
  let s := if preset then s.prepend uid state else s
  let functor : Obj := ⟨uid, .functor w.actor (if isTrainer then .train else .apply) (if preset then [.setState] else [])⟩
  let aliases := if isTrainer then [uid, Key.gid w.gid] else [uid]
  let s := aliases.foldl (fun s k => s.iset functor k) s
  if !trained then s.update g w else s

/-- `segment.accept(table)` over the visit order `order` -/
def addAll (g : Segment) (A : Option Assets) (order : List Uid) : CState :=
  order.foldl
    (fun s n => match g.worker? n with
      | some w => add g A s w
      | none => s.raise .assertion)   -- 'Not a worker node'
    CState.init

/-! ### `Table.__iter__` -/

/-- `itertools.groupby(keys, index.__getitem__)`: runs of consecutive keys holding the same object -/
def groupRuns : List (Key × Obj) → List (Obj × List Key)
  | [] => []
  | (k, o) :: r =>
    match groupRuns r with
    | (o', ks) :: gs => if o'.id = o.id then (o, k :: ks) :: gs else (o, [k]) :: (o', ks) :: gs
    | [] => [(o, [k])]

/-- `merge` = `pick` over `zip_longest`; `none` = 'Expecting at most one non-null value' -/
def mergeArgs : List (Option Key) → List (Option Key) → Option (List (Option Key))
  | [], r => some r
  | l, [] => some l
  | a :: l, b :: r =>
    match a, b with
    | some _, some _ => none
    | _, _ => (mergeArgs l r).map ((if a.isSome then a else b) :: ·)

/-- one iteration of the loop in `__iter__` -/
def emitGroup (s : CState) (stubs : List Key) (grp : Obj × List Key) : Except CErr (Option Symbol) :=
  if stubs.contains grp.1.id then .ok none
  else
    -- `functools.reduce(merge, (self._linkage[k] for k in keys))`
    let merged := match grp.2 with
      | [] => some []
      | k :: ks => ks.foldl (fun acc k' => acc.bind (fun a => mergeArgs a (s.link k'))) (some (s.link k))
    match merged with
    | none => .error .assertion
    | some args =>
      -- `tuple(self._index[a] for a in ...)`; `KeyError` (also for a `None` gap) → `AssemblyError`
      match args.mapM (fun a => a.bind (fun k => (aget k s.index).map (·.id))) with
      | none => .error .assembly
      | some ids => .ok (some ⟨grp.1.id, grp.1.instr, ids⟩)

def emit (s : CState) : Except CErr Table := do
  let leaves := s.leaves
  -- `assert children or not parents, 'Not acyclic'` (fix C01-F1: an empty linkage - a single unlinked worker - is acyclic)
  if leaves.isEmpty && !s.parents.isEmpty then throw .assertion
  -- `stubs = {s for s in (self._index[n] for n in leaves) if isinstance(s, Getter)}`
  let objs ← leaves.mapM (fun n => match aget n s.index with | some o => pure o | none => throw CErr.keyError)
  let stubs := (objs.filter (fun o => match o.instr with | .getter _ => true | _ => false)).map (·.id)
  let syms ← (groupRuns s.index).mapM (emitGroup s stubs)
  pure (syms.filterMap id)

/-- `flow.compile(segment, assets)` with the traversal order made explicit -/
def compile (g : Segment) (A : Option Assets) (order : List Uid) : Except CErr Table :=
  let s := addAll g A order
  match s.fail with
  | some e => .error e
  | none => emit s

end ForML.Flow
