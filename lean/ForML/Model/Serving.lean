/-
C16 — model of the serving engine as a labelled transition system.  Core Lean only.

Anchors (forml/runtime/_service):
* `__init__.py`  `Engine.apply`           : extract (descriptor, decode, select) → deal → respond
* `dispatch.py`  `Wrapper._get_descriptor`: check / list / diff / update / test on a thread pool, under `Wrapper._lock`
                 `Wrapper._dispatch`      : `descriptor.receive` (decode) then `descriptor.select`
                 `Dealer.__call__`        : one `prediction.Executor` per `asset.Instance` (cache)
                 `Wrapper._pack`          : `descriptor.respond` (encode for the caller's `accept`) on a process pool
* `prediction.py` `Executor.apply`        : `pending[index] = future; tasks.put(Task(index, entry)); index += 1`
                 `Pool.Worker.run`        : `tasks.get` → `runner.call(entry)` → `results.put(Result(id, …))`;
                                            `forml.AnyError` → failure result; other exception → failure result
                                            **and** `stopped.set()`
                 `Executor.run`           : `results.get` → `pending[id].set_result/…exception`; `del pending[id]`;
                                            leaves the loop when `stopped` is set
* `forml/provider/runner/pyfunc.py` `Runner.call`: the worker's long-lived `Expression` applied to the entry — modelled in
  `ForML.Model.ServingWorker` (`workerCall`: fork replicas, evaluation order of the branches, the `finally` reset and what a
  worker carries from one request to the next); the property's "f inst payload" is `runModel`.

Everything is indexed by naturals: callers, applications, instances, task ids, workers.
The flag `Config.locked` selects between the code as it exists (`true`: the check/list/update/test block of
`_get_descriptor` runs under `Wrapper._lock`, /repo commit 710a92e = `fixes/C16-descriptor-lock.diff`) and the
code before that repair (`false`: unsynchronised; kept so that the defect C16-F1 stays a kernel-checked
counterexample).

Atomicity of the steps follows the code: everything `Engine.apply` does between two `await`s runs on the one
event-loop thread and is one step (`submit` = `Dealer.__call__` + `Executor.apply`: cache lookup, `pending[index]`,
`tasks.put`, `index += 1`); the thread pool (`desc`, `decodeFail`), the worker processes (`take`, `finish`), the
executor thread (`deliver`) and the process pool of `_pack` (`respond`) interleave freely.
-/
import ForML.Model.ServingWorker
namespace ForML.Serving

/-- One request: target application, whether its content type has no decoder (`get_decoder` raises
`Encoding.Unsupported` in `_dispatch`), whether none of its `accept` encodings has an encoder (`get_encoder` raises
`Encoding.Unsupported` in `_pack`, i.e. only after the model has answered), and the entry it decodes to. -/
structure CallerSpec where
  app : Nat
  badEncoding : Bool
  badAccept : Bool
  entry : Entry
  deriving DecidableEq, Repr

instance : Inhabited CallerSpec := ⟨⟨0, false, false, ⟨.ok, 0⟩⟩⟩

structure Config where
  /-- caller `c` is `callers[c]` -/
  callers : List CallerSpec
  /-- `inventory.list()` -/
  inventory : List Nat
  /-- `descriptor.select`: application ↦ model instance (static strategy; selection itself is C17) -/
  select : Nat → Nat
  /-- pool size (`processes`) of every executor -/
  workers : Nat
  /-- `_get_descriptor` critical section under a lock (the proposed repair) -/
  locked : Bool
  /-- instance ↦ number of parallel mapper branches its pipeline fans out into (`≤ 1`: linear pipeline) -/
  fanout : Nat → Nat := fun _ => 1
  /-- reset discipline of `pyfunc.Expression.__call__` (`always` = the code that exists) -/
  reset : ResetPolicy := .always

def spec (cfg : Config) (c : Nat) : CallerSpec := cfg.callers.getD c default

def entryOf (cfg : Config) (c : Nat) : Entry := (spec cfg c).entry

/-- the property's `f inst payload` for instance `inst` of this configuration (`runModel` with the instance's fan-out):
what a worker of `inst` puts on the result queue when its `Expression` starts clean -/
def runInst (cfg : Config) (inst : Nat) (e : Entry) : Outcome := runModel (cfg.fanout inst) inst e

/-- `Wrapper._pack` / `descriptor.respond`: the outcome encoded for caller `c`, or `Encoding.Unsupported`. -/
def encode (cfg : Config) (c : Nat) (o : Outcome) : Outcome :=
  if (spec cfg c).badAccept then .error .unsupported else o

/-- what caller `c` finally gets for the result `o` its task produced: an exception is re-raised by
`await self._dealer(...)`, a value goes through `respond` -/
def finalOf (cfg : Config) (c : Nat) : Outcome → Outcome
  | .error e => .error e
  | o => encode cfg c o

/-- The property's right-hand side: the outcome computed from the caller's own payload by the instance its
application selected, or the platform error of its own request. -/
def expected (cfg : Config) (c : Nat) : Outcome :=
  if (spec cfg c).app ∈ cfg.inventory then
    if (spec cfg c).badEncoding then .error .unsupported
    else finalOf cfg c (runInst cfg (cfg.select (spec cfg c).app) (entryOf cfg c))
  else .error .missingApp

structure Task where
  id : Nat
  entry : Entry
  deriving DecidableEq, Repr

structure Result where
  id : Nat
  out : Outcome
  deriving DecidableEq, Repr

/-- `prediction.Executor` (+ its `Pool`): `next` = `_index`, `pending` = `_pending` (id ↦ caller's future),
`taskQ`/`resultQ` = the manager queues (FIFO), `held` = the task each busy worker took, `stopped` = the event,
`carry w` = what worker `w`'s long-lived `Expression` keeps between two tasks (replica deque, calls served). -/
structure Exec where
  started : Bool := false
  next : Nat := 0
  pending : List (Nat × Nat) := []
  taskQ : List Task := []
  held : List (Nat × Task) := []
  resultQ : List Result := []
  stopped : Bool := false
  carry : Nat → Carry := fun _ => {}

/-- Where a caller is in `Engine.apply`. `d0`–`d4` are the atomic steps of `Wrapper._get_descriptor`:
`d0` before `application not in self._descriptors`, `d1` before `self._inventory.list()`, `d2 l` before
`.difference(self._descriptors)`, `d3 u` before `self._descriptors.update(…)`, `d4 u` before
`application not in updates`. -/
inductive Phase where
  | fresh | d0 | d1
  | d2 (listed : List Nat)
  | d3 (updates : List Nat)
  | d4 (updates : List Nat)
  | resolved
  | submitted (inst id : Nat)
  /-- the task's value has reached the coroutine, `_pack` is on the process pool -/
  | responding (o : Outcome)
  | done
  deriving DecidableEq, Repr

structure State where
  phase : Nat → Phase
  /-- keys of `Wrapper._descriptors` -/
  cache : List Nat
  /-- holder of the descriptor lock (always `none` when `locked = false`) -/
  lock : Option Nat
  /-- `Dealer._cache` : instance ↦ executor -/
  execs : Nat → Exec
  /-- log of resolved `Engine.apply` calls, newest first -/
  answers : List (Nat × Outcome)

def init : State := ⟨fun _ => .fresh, [], none, fun _ => {}, []⟩

def upd {α : Type} (f : Nat → α) (k : Nat) (v : α) : Nat → α := fun x => if x = k then v else f x

@[simp] theorem upd_same {α : Type} (f : Nat → α) (k : Nat) (v : α) : upd f k v k = v := by simp [upd]
theorem upd_other {α : Type} (f : Nat → α) (k x : Nat) (v : α) (h : x ≠ k) : upd f k v x = f x := by simp [upd, h]

inductive Step where
  | arrive (c : Nat)
  | desc (c : Nat)
  | decodeFail (c : Nat)
  | submit (c : Nat)
  | take (inst w : Nat)
  | finish (inst w : Nat)
  | deliver (inst : Nat)
  | respond (c : Nat)
  deriving DecidableEq, Repr

/-- caller `c` is answered with `o` (the coroutine of `Engine.apply` completes) -/
def answer (s : State) (c : Nat) (o : Outcome) : State :=
  { s with phase := upd s.phase c .done, answers := (c, o) :: s.answers }

/-- One atomic step; `none` = not enabled. -/
def step (cfg : Config) (s : State) : Step → Option State
  | .arrive c =>
    if c < cfg.callers.length ∧ s.phase c = .fresh then some { s with phase := upd s.phase c .d0 } else none
  | .desc c =>
    match s.phase c with
    | .d0 =>
      if cfg.locked = true ∧ s.lock ≠ none then none
      else if (spec cfg c).app ∈ s.cache then some { s with phase := upd s.phase c .resolved }
      else some { s with phase := upd s.phase c .d1, lock := if cfg.locked then some c else none }
    | .d1 => some { s with phase := upd s.phase c (.d2 cfg.inventory) }
    | .d2 l => some { s with phase := upd s.phase c (.d3 (l.filter (fun a => a ∉ s.cache))) }
    | .d3 u => some { s with phase := upd s.phase c (.d4 u), cache := s.cache ++ u }
    | .d4 u =>
      if (spec cfg c).app ∈ u then some { s with phase := upd s.phase c .resolved, lock := none }
      else some { answer s c (.error .missingApp) with lock := none }
    | _ => none
  | .decodeFail c =>
    if s.phase c = .resolved ∧ (spec cfg c).badEncoding = true then some (answer s c (.error .unsupported)) else none
  | .submit c =>
    if s.phase c = .resolved ∧ (spec cfg c).badEncoding = false then
      let i := cfg.select (spec cfg c).app
      let e := s.execs i
      if e.stopped then some (answer s c (.error .notRunning))
      else
        some { s with
          phase := upd s.phase c (.submitted i e.next)
          execs := upd s.execs i { e with
            started := true, next := e.next + 1, pending := (e.next, c) :: e.pending,
            taskQ := e.taskQ ++ [⟨e.next, entryOf cfg c⟩] } }
    else none
  | .take i w =>
    let e := s.execs i
    if w < cfg.workers ∧ e.stopped = false ∧ e.held.lookup w = none then
      match e.taskQ with
      | [] => none
      | t :: q => some { s with execs := upd s.execs i { e with taskQ := q, held := (w, t) :: e.held } }
    else none
  | .finish i w =>
    let e := s.execs i
    match e.held.lookup w with
    | none => none
    | some t =>
      some { s with execs := upd s.execs i { e with
        held := e.held.erase (w, t),
        resultQ := e.resultQ ++ [⟨t.id, (workerCall cfg.reset i (cfg.fanout i) (e.carry w) t.entry).1⟩],
        stopped := e.stopped || decide (t.entry.kind = .fatal),
        carry := upd e.carry w (workerCall cfg.reset i (cfg.fanout i) (e.carry w) t.entry).2 } }
  | .deliver i =>
    let e := s.execs i
    if e.stopped then none
    else match e.resultQ with
      | [] => none
      | r :: q =>
        match e.pending.lookup r.id with
        | none => some { s with execs := upd s.execs i { e with resultQ := q, stopped := true } }
        | some c =>
          match r.out.err? with
          | some err =>
            some { answer s c (.error err) with
              execs := upd s.execs i { e with resultQ := q, pending := e.pending.erase (r.id, c) } }
          | none =>
            some { s with
              phase := upd s.phase c (.responding r.out)
              execs := upd s.execs i { e with resultQ := q, pending := e.pending.erase (r.id, c) } }
  | .respond c =>
    match s.phase c with
    | .responding o => some (answer s c (encode cfg c o))
    | _ => none

/-- A schedule is any list of steps; it runs iff every step is enabled when its turn comes. -/
def run (cfg : Config) (s : State) : List Step → Option State
  | [] => some s
  | a :: as => match step cfg s a with
    | none => none
    | some s' => run cfg s' as

/-- ids in flight of one executor: task queue ⊎ held ⊎ result queue -/
def inflight (e : Exec) : List Nat :=
  e.taskQ.map (·.id) ++ e.held.map (·.2.id) ++ e.resultQ.map (·.id)

def keys (e : Exec) : List Nat := e.pending.map (·.1)

/-! ### executable helpers for the driver (not used by the theorems) -/

/-- candidate steps worth trying in a state with `n` callers over instances `insts` -/
def candidates (cfg : Config) (insts : List Nat) : List Step :=
  let cs := List.range cfg.callers.length
  cs.map .arrive ++ cs.map .desc ++ cs.map .decodeFail ++ cs.map .submit
    ++ insts.flatMap (fun i => (List.range cfg.workers).map (.take i))
    ++ insts.flatMap (fun i => (List.range cfg.workers).map (.finish i))
    ++ insts.map .deliver ++ cs.map .respond

def enabled (cfg : Config) (insts : List Nat) (s : State) : List Step :=
  (candidates cfg insts).filter (fun a => (step cfg s a).isSome)

/-- the instances any caller's application selects -/
def instsOf (cfg : Config) : List Nat := cfg.callers.map (fun sp => cfg.select sp.app)

/-- no step over the configuration's callers / instances / workers is enabled (a complete schedule ends here) -/
def stuck (cfg : Config) (s : State) : Bool := (enabled cfg (instsOf cfg) s).isEmpty

/-- how many times caller `c` has been answered -/
def nAnswers (s : State) (c : Nat) : Nat := (s.answers.filter (fun a => a.1 == c)).length

/-- pseudo-random maximal schedule: at most `fuel` steps, each picked among the enabled ones by an LCG -/
def randomRun (cfg : Config) (insts : List Nat) : Nat → Nat → State → List Step → State × List Step
  | 0, _, s, acc => (s, acc.reverse)
  | fuel + 1, seed, s, acc =>
    match enabled cfg insts s with
    | [] => (s, acc.reverse)
    | a :: as =>
      let seed' := (seed * 1103515245 + 12345) % 2147483648
      let pick := (a :: as).getD ((seed' / 65536) % (as.length + 1)) a
      match step cfg s pick with
      | none => (s, acc.reverse)
      | some s' => randomRun cfg insts fuel seed' s' (pick :: acc)

end ForML.Serving
