/-
Model of the served-entry path (property C15).  Core Lean only.

Python anchors (formlio/forml):
  forml/io/_input/_producer.py   Reader.__call__ (entry branch), Reader._match_entry, Reader._cast
  forml/io/layout/_internal.py   Dense, Frame (to_rows / to_columns / take_rows / take_columns)
  forml/io/_input/extract.py     Slicer.__init__/apply/from_columns, RowDriver/TableDriver
  forml/io/dsl/_struct/kind.py   Any.match (class lattice of the primitive kinds)

Field names are naturals (the harness numbers the distinct names); payload cells are an arbitrary
type `α` and the value-level cast is an uninterpreted parameter `cast : Kind → α → Option α`
(`none` = the constructor raised, i.e. `dsl.CastError`).
-/
namespace ForML.Entry

abbrev Name := Nat

/-! ### `Reader._match_entry` -/

/-- `itertools.zip_longest(query_names, names(entry))` (fill value `None`). -/
def zipLongest : List α → List β → List (Option α × Option β)
  | [], bs => bs.map (fun b => (none, some b))
  | a :: as, [] => (some a, none) :: zipLongest as []
  | a :: as, b :: bs => (some a, some b) :: zipLongest as bs

/-- the local dict `source` (`supply ↦ index`, the key may be `None`): newest binding first, so that
`List.lookup` returns the **last** value written for a key (dict assignment overwrites). -/
abbrev Source := List (Option Name × Nat)

/-- the `for index, (demand, supply) in enumerate(zip_longest(...))` loop of `_match_entry`.
`none` = the early `return False, None`; otherwise the final `source` and `identical`. -/
def scan : List (Option Name × Option Name) → Nat → Source → Bool → Option (Source × Bool)
  | [], _, src, ident => some (src, ident)
  | (demand, supply) :: rest, index, src, ident =>
    let src := (supply, index) :: src                               -- source[supply] = index
    if supply.isNone && (src.lookup demand).isNone then none        -- if not supply and demand not in source: return False, None
    else scan rest (index + 1) src (ident && (supply == demand))    -- if identical and supply != demand: identical = False

/-- the second loop: `for column in query_names: if column not in source: return False, None;
indices.append(source[column])`. -/
def collect (src : Source) : List Name → Option (List Nat)
  | [] => some []
  | c :: cs =>
    match src.lookup (some c) with
    | none => none
    | some i => (collect src cs).map (i :: ·)

/-- `Reader._match_entry(statement_schema, entry_schema)` on the two name lists:
`(complete, indices)`; `indices = none` is Python's `None` (identical schemas). -/
def matchEntry (q e : List Name) : Bool × Option (List Nat) :=
  match scan (zipLongest q e) 0 [] true with
  | none => (false, none)
  | some (src, ident) =>
    if ident then (true, none)                                       -- if identical: return True, None
    else match collect src q with
      | none => (false, none)
      | some idx => (true, some idx)

/-! ### kinds (`dsl.Any.match`) -/

/-- the primitive kinds of `forml/io/dsl/_struct/kind.py` (compound kinds cannot be cast at all:
`Compound._cast` raises, they are outside this model). -/
inductive Kind where
  | boolean | integer | float | decimal | string | date | timestamp
  deriving DecidableEq, Repr, Inhabited

/-- `expected.match(actual)` = `isinstance(actual, type(expected))`: reflexive, and `Timestamp`
is a subclass of `Date`. This is a *snapshot* used by the concrete examples; the reader model below is
parametric in the match relation `km`, the driver instantiates it with the relation extracted from the
live classes (`ForML.Generated.C15Kinds.liveMatch`) and the theorems hold for every reflexive `km`. -/
def kmatch (expected actual : Kind) : Bool :=
  expected == actual || (expected == .date && actual == .timestamp)

structure Field where
  name : Name
  kind : Kind
  deriving DecidableEq, Repr, Inhabited

/-! ### tabular payloads: `Dense` (numpy, row-major) and `Frame` (pandas, column-major) -/

/-- numpy / pandas positional index: `0 ≤ i < n` or the wrapped negative `-n ≤ i < 0`; anything
else raises `IndexError` (`none`). -/
def normIdx (n : Nat) (i : Int) : Option Nat :=
  if 0 ≤ i then (if i.toNat < n then some i.toNat else none)
  else if (-i).toNat ≤ n then some (n - (-i).toNat) else none

/-- all-or-nothing map (an exception anywhere aborts the whole call). -/
def mapOpt (f : α → Option β) : List α → Option (List β)
  | [] => some []
  | a :: as =>
    match f a, mapOpt f as with
    | some b, some bs => some (b :: bs)
    | _, _ => none

/-- `ndarray.take(indices, axis=0)` / `DataFrame.iloc[list(indices)]` along the stored axis. -/
def takeIdx (xs : List α) (is : List Int) : Option (List α) :=
  mapOpt (fun i => (normIdx xs.length i).bind (xs[·]?)) is

/-- `.T` of an `m × n` matrix given as `m` lists of length `n`. -/
def transposeN (n : Nat) (xs : List (List α)) : List (List α) :=
  (List.range n).map (fun j => xs.filterMap (·[j]?))

/-- A matrix stored along its *major* axis: `Dense` stores rows (`_rows`, minor = #columns),
`Frame` stores columns (the `DataFrame`, minor = #rows). -/
structure Mat (α : Type) where
  major : List (List α)
  minor : Nat
  deriving Repr, DecidableEq

namespace Mat
variable {α : Type}

/-- rectangular -/
def WF (m : Mat α) : Prop := ∀ r ∈ m.major, r.length = m.minor

def toMajor (m : Mat α) : List (List α) := m.major
def toMinor (m : Mat α) : List (List α) := transposeN m.minor m.major

/-- selection along the stored axis (`Dense.take_rows`, `Frame.take_columns`). -/
def takeMajor (m : Mat α) (is : List Int) : Option (Mat α) :=
  (takeIdx m.major is).map (fun xs => ⟨xs, m.minor⟩)

/-- selection along the other axis (`Dense.take_columns`: `from_columns(self._rows.T.take(js, axis=0))`,
i.e. transpose, take, transpose back; `Frame.take_rows`: `iloc[list]` on every column). -/
def takeMinor (m : Mat α) (js : List Int) : Option (Mat α) :=
  (takeIdx (transposeN m.minor m.major) js).map (fun cs => ⟨transposeN m.major.length cs, js.length⟩)

/-- the cell in major position `a`, minor position `b` -/
def cell (m : Mat α) (a b : Nat) : Option α := m.major[a]?.bind (·[b]?)

end Mat

/-- `layout.Tabular`: the two implementations. -/
inductive Tab (α : Type) where
  | dense (rows : Mat α)   -- `layout.Dense`: `rows.major` = rows
  | frame (cols : Mat α)   -- `layout.Frame`: `cols.major` = columns
  deriving Repr, DecidableEq

namespace Tab
variable {α : Type}

def toRows : Tab α → List (List α)
  | dense d => d.toMajor        -- Dense.to_rows = self._rows
  | frame f => f.toMinor        -- Frame.Rows(self._data)

def toColumns : Tab α → List (List α)
  | dense d => d.toMinor        -- Dense.to_columns = self._rows.T
  | frame f => f.toMajor        -- Frame.Columns(self._data)

def takeRows : Tab α → List Int → Option (Tab α)
  | dense d, is => (d.takeMajor is).map dense
  | frame f, is => (f.takeMinor is).map frame

def takeColumns : Tab α → List Int → Option (Tab α)
  | dense d, js => (d.takeMinor js).map dense
  | frame f, js => (f.takeMajor js).map frame

def nrows : Tab α → Nat
  | dense d => d.major.length
  | frame f => f.minor

def ncols : Tab α → Nat
  | dense d => d.minor
  | frame f => f.major.length

def WF : Tab α → Prop
  | dense d => d.WF
  | frame f => f.WF

/-- plain matrix semantics: the value at row `i`, column `j` -/
def get : Tab α → Nat → Nat → Option α
  | dense d, i, j => d.cell i j
  | frame f, i, j => f.cell j i

end Tab

/-! ### `extract.Slicer` -/

/-- `Slicer.from_columns(features, labels)`: the positions handed to the constructor —
`range(fstop)` and either the scalar `fstop` or `range(fstop, fstop + len(labels))`. -/
def slicerPositions (nfeatures : Nat) (nlabels : Option Nat) : List Int × (Int ⊕ List Int) :=
  ((List.range nfeatures).map Int.ofNat,
   match nlabels with
   | none => .inl (Int.ofNat nfeatures)
   | some k => .inr ((List.range k).map (fun i => Int.ofNat (nfeatures + i))))

/-- result of `Slicer.apply`: `(features rows, labels)`; scalar labels are one column
(`dataset.to_columns()[labels]`), vector labels are rows of the selected columns. -/
def slicer {α : Type} (features : List Int) (labels : Int ⊕ List Int) (t : Tab α) :
    Option (List (List α) × (List α ⊕ List (List α))) :=
  match t.takeColumns features with            -- dataset.take_columns(self._features).to_rows()
  | none => none
  | some f =>
    match labels with
    | .inl l =>                                -- from_scalar: dataset.to_columns()[labels]
      match (normIdx t.toColumns.length l).bind (t.toColumns[·]?) with
      | none => none
      | some c => some (f.toRows, .inl c)
    | .inr ls =>                               -- from_vector: dataset.take_columns(labels).to_rows()
      match t.takeColumns ls with
      | none => none
      | some l => some (f.toRows, .inr l.toRows)

/-! ### `Reader._cast` and `Reader.__call__` (entry branch) -/

/-- one value of the dict comprehension of `Reader._cast`:
`c if e.kind.match(a.kind) else [e.kind.cast(v) for v in c]`. `cast k v = none` is `dsl.CastError`
(`Any.cast` wraps the `ValueError`/`TypeError` of the constructor); one failing cell aborts the call. -/
def castColumn {α : Type} (km : Kind → Kind → Bool) (cast : Kind → α → Option α) (e a : Field) (c : List α) : Option (List α) :=
  if km e.kind a.kind then some c else mapOpt (cast e.kind) c

/-- the dict comprehension of `Reader._cast`:
`{e.name: … for e, a, c in zip(expected, actual, data.to_columns())}`
(`zip` stops at the shortest; query names are unique — `dsl.Schema` refuses duplicates — so the dict
is the list). `none` = a `CastError` was raised while building it. -/
def castColumns {α : Type} (km : Kind → Kind → Bool) (cast : Kind → α → Option α) :
    List Field → List Field → List (List α) → Option (List (Name × List α))
  | e :: es, a :: as, c :: cs =>
    match castColumn km cast e a c, castColumns km cast es as cs with
    | some c', some rest => some ((e.name, c') :: rest)
    | _, _ => none
  | _, _, _ => some []

/-- `laymod.Frame(pandas.DataFrame(columns))` -/
def frameOf {α : Type} (cols : List (Name × List α)) : Tab α :=
  .frame ⟨cols.map (·.2), ((cols.head?).map (·.2.length)).getD 0⟩

/-- `Reader._cast(expected, actual, data)`; `schemasEqual` is the `actual == expected` test
(`none` = `CastError`). -/
def castStep {α : Type} (km : Kind → Kind → Bool) (cast : Kind → α → Option α) (schemasEqual : Bool) (expected actual : List Field)
    (data : Tab α) : Option (Tab α) :=
  if schemasEqual then some data else (castColumns km cast expected actual data.toColumns).map frameOf

inductive Outcome (α : Type) where
  | missing                 -- forml.MissingError('Augmentation not supported …')
  | indexError              -- cannot happen (theorem), kept because `take_columns` can raise
  | castError               -- dsl.CastError out of `_cast`
  | data (t : Tab α)
  deriving Repr, DecidableEq

/-- the entry schema as `_cast` sees it.
* `legacy = true` — the code as released: `self._cast(statement.schema, entry.schema, data)`, the
  **un-permuted** entry schema next to the already permuted columns (defect D16);
* `legacy = false` — the repaired code (fixes/C15-cast-permuted-schema.diff, /repo 8698b70): the entry
  fields re-ordered by the same `indices` as the data (`tuple(fields[i] for i in indices)`). -/
def actualFields (legacy : Bool) (e : List Field) (idx : List Nat) : List Field :=
  if legacy then e else idx.filterMap (e[·]?)

/-- `Reader.__call__(statement, entry)` for a non-`None` entry (`layout.Entry` is a 2-tuple: always
truthy), **given** the answer `m` of `self._match_entry(statement.schema, entry.schema)` — which comes out of
a `functools.lru_cache` (see `ForML.Model.EntryMemo`: the reader over a history of requests). In the
re-ordered branch `actual` is a tuple of fields, which never `==` a schema class, so the
`actual == expected` shortcut of `_cast` is not taken there. -/
def readerCallWith {α : Type} (km : Kind → Kind → Bool) (cast : Kind → α → Option α) (legacy : Bool) (q e : List Field)
    (data : Tab α) (m : Bool × Option (List Nat)) : Outcome α :=
  match m with
  | (false, _) => .missing                                   -- if not complete: raise MissingError
  | (true, some (i :: is)) =>                                -- `if indices` (a non-empty tuple)
    match data.takeColumns ((i :: is).map Int.ofNat) with    -- entry.data.take_columns(indices)
    | none => .indexError
    | some d =>
      match castStep km cast false q (actualFields legacy e (i :: is)) d with
      | none => .castError
      | some out => .data out
  | (true, _) =>                                             -- None or (): data = entry.data
    match castStep km cast (decide (e = q)) q e data with
    | none => .castError
    | some out => .data out

/-- `Reader.__call__(statement, entry)` with the match computed afresh (what an empty cache does; by
`C15_reader_history` this is what every call returns whatever the reader has served before). -/
def readerCall {α : Type} (km : Kind → Kind → Bool) (cast : Kind → α → Option α) (legacy : Bool) (q e : List Field) (data : Tab α) :
    Outcome α :=
  readerCallWith km cast legacy q e data (matchEntry (q.map (·.name)) (e.map (·.name)))

end ForML.Entry
