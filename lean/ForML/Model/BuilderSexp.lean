/-
S-expression codec of builders and of tables whose functors carry their builder (line protocol of drv_c02; twin of
`case_sexp` in harness/props/c02.py). Not used by any theorem.

  hyper  ::= none | true | false | (int i) | (str n)
  param  ::= (name none|(some hyper) true|false)                 name, default, keyword-only
  class  ::= (sym (param*))
  spec   ::= (class (hyper*) ((name hyper)*))
  pinstr ::= (functor spec|a apply|train (setstate*)) | (loader g) | dumper | committer | (getter i)
             (a bare number `a` = builder of the parameterless class `a` without arguments)
  psymbol::= (key pinstr (key*))
-/
import ForML.Model.Sexp
import ForML.Model.SymbolsSexp
import ForML.Model.Builder

namespace ForML.Flow
open ForML

def Hyper.toSexp : Hyper → Sexp
  | .none => .atom "none"
  | .bool b => Sexp.ofBool b
  | .int i => .list [.atom "int", .ofInt i]
  | .str n => .list [.atom "str", .ofNat n]

def Hyper.ofSexp? : Sexp → Option Hyper
  | .atom "none" => some .none
  | .atom "true" => some (.bool true)
  | .atom "false" => some (.bool false)
  | .list [.atom "int", i] => i.int?.map .int
  | .list [.atom "str", n] => n.nat?.map .str
  | _ => none

def boolOf? : Sexp → Option Bool
  | .atom "true" => some true
  | .atom "false" => some false
  | _ => none

def Param.ofSexp? : Sexp → Option Param
  | .list [n, .atom "none", k] => do pure ⟨← n.nat?, none, ← boolOf? k⟩
  | .list [n, .list [.atom "some", d], k] => do pure ⟨← n.nat?, some (← Hyper.ofSexp? d), ← boolOf? k⟩
  | _ => none

def ActorClass.ofSexp? : Sexp → Option ActorClass
  | .list [a, .list ps] => do pure ⟨← a.nat?, ← ps.mapM Param.ofSexp?⟩
  | _ => none

def kwargsOf? : Sexp → Option Kwargs
  | .list es => es.mapM (fun e => match e with
    | .list [n, v] => do pure ((← n.nat?), (← Hyper.ofSexp? v))
    | _ => none)
  | _ => none

def kwargsSexp (kw : List (Nat × Hyper)) : Sexp := .list (kw.map fun e => .list [.ofNat e.1, e.2.toSexp])

/-- the builder as written by the harness - *not* validated (`Spec.new` is applied by the caller where wanted) -/
def Spec.ofSexp? : Sexp → Option Spec
  | .list [c, .list args, kw] => do pure ⟨← ActorClass.ofSexp? c, ← args.mapM Hyper.ofSexp?, ← kwargsOf? kw⟩
  | .atom a => do pure ⟨⟨← (Sexp.atom a).nat?, []⟩, [], []⟩
  | _ => none

def PInstr.ofSexp? : Sexp → Option PInstr
  | .list [.atom "functor", b, .atom act, .list ps] => do
    let act ← match act with | "apply" => some Action.apply | "train" => some Action.train | _ => none
    let ps ← ps.mapM (fun p => match p with | .atom "setstate" => some Preset.setState | _ => none)
    pure (.functor (← Spec.ofSexp? b) act ps)
  | .list [.atom "loader", g] => g.nat?.map .loader
  | .atom "dumper" => some .dumper
  | .atom "committer" => some .committer
  | .list [.atom "getter", i] => i.nat?.map .getter
  | _ => none

def PSymbol.ofSexp? : Sexp → Option PSymbol
  | .list [k, i, .list args] => do pure ⟨← Key.ofSexp? k, ← PInstr.ofSexp? i, ← args.mapM Key.ofSexp?⟩
  | _ => none

def PTable.ofSexp? : Sexp → Option PTable
  | .list ss => ss.mapM PSymbol.ofSexp?
  | _ => none

def Instance.toSexp (i : Instance) : Sexp := .list [.ofNat i.sym, kwargsSexp i.params]

end ForML.Flow
