/-
C10 — comparison operators that `Ordinal.Once.Bounds` may hold (`operator.ge/gt/le/lt`; `eq`/`ne`
are included so that a changed table still *compiles* and the theorems break instead of the build
of the generated file).  `Cmp.eval c x b` is `operator.<c>(column_value, bound)`.

The ordinal axis is an arbitrary type `α` with decidable `≤`, `<`, `=`: the theorems of Props/C10
assume no more than that `≤` is a linear order and `<` its strict part (`Std.IsLinearOrder`,
`Std.LawfulOrderLT`), which is what the five ordinal kinds (integer, float without NaN, string,
date, timestamp) provide.  The driver instantiates `α := Int` and the harness maps the points of
each kind's domain to their rank; that the SQL engine compares the stored values of a kind in the
same order as Python compares the bound values is "modelled, not verified" (DESIGN section 5 C10).
-/
namespace ForML.Ordinal

inductive Cmp where
  | ge | gt | le | lt | eq | ne
  deriving DecidableEq, Repr

/-- `operator.<c>(x, b)` -/
def Cmp.eval {α : Type} [LE α] [LT α] [DecidableLE α] [DecidableLT α] [DecidableEq α] :
    Cmp → α → α → Bool
  | .ge, x, b => decide (b ≤ x)
  | .gt, x, b => decide (b < x)
  | .le, x, b => decide (x ≤ b)
  | .lt, x, b => decide (x < b)
  | .eq, x, b => decide (x = b)
  | .ne, x, b => decide (x ≠ b)

def Cmp.name : Cmp → String
  | .ge => "ge" | .gt => "gt" | .le => "le" | .lt => "lt" | .eq => "eq" | .ne => "ne"

end ForML.Ordinal
