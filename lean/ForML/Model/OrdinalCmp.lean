/-
C10 — comparison operators that `Ordinal.Once.Bounds` may hold (`operator.ge/gt/le/lt`; `eq`/`ne`
are included so that a changed table still *compiles* and the theorems break instead of the build
of the generated file).  `Cmp.eval c x b` is `operator.<c>(column_value, bound)`.

The ordinal axis is modelled as `Int`: every ordinal kind explored by the harness
(integer, float, string, date, timestamp) is a linear order and the harness maps its domain
points to their rank (order isomorphism; the comparison semantics of the SQL engine for the five
kinds is "modelled, not verified", DESIGN section 5 C10).
-/
namespace ForML.Ordinal

inductive Cmp where
  | ge | gt | le | lt | eq | ne
  deriving DecidableEq, Repr

/-- `operator.<c>(x, b)` -/
def Cmp.eval : Cmp → Int → Int → Bool
  | .ge, x, b => decide (b ≤ x)
  | .gt, x, b => decide (b < x)
  | .le, x, b => decide (x ≤ b)
  | .lt, x, b => decide (x < b)
  | .eq, x, b => decide (x = b)
  | .ne, x, b => decide (x ≠ b)

def Cmp.name : Cmp → String
  | .ge => "ge" | .gt => "gt" | .le => "le" | .lt => "lt" | .eq => "eq" | .ne => "ne"

end ForML.Ordinal
