/-
C19 — the header *string* level and the gateway around `Encoding.parse`.

1. Concrete syntax of Accept / Content-Type headers as an executable renderer: a header is a list of
   `RangeSpec`s (kind, parameters as written: name in any case, value as token or quoted-string,
   parameters without `=`, every piece of optional white space explicit), `renderHeader` writes the
   text.  `Lemmas/C19Header.lean` proves that the model of `Encoding.parse`
   (`ForML.Codec.ranges` / `parse`: regex split on commas, `cgi.parse_header`, `float(q)`) reads
   every well-formed rendering back as the ranges it was rendered from.
2. `Encoding.header` (the response Content-Type written by the gateway).
3. `provider/gateway/rest.py` `Apply.__endpoint` + `application/_descriptor.py`
   `Generic.receive/respond` + `layout.Request.__new__`: which header feeds `parse`, the defaults when a
   header is absent, exception → HTTP status.

Core Lean only.
-/
import ForML.Model.Codec

namespace ForML.Codec

/-! ### concrete syntax -/

/-- quoted-string body: `\` and `"` are written as quoted-pairs -/
def escape : Str → Str
  | [] => []
  | c :: r => if c == '\\' || c == '"' then '\\' :: c :: escape r else c :: escape r

/-- what is written for a parameter value: the token itself or a quoted-string -/
def valueText (value : Str) (quoted : Bool) : Str :=
  if quoted then '"' :: escape value ++ ['"'] else value

/-- one `;`-introduced parameter as written.  `pre` is the white space in front of the `;`.
* `kv`: `; w1 name w2 = w3 value` — the white space after `=` exists only when a value text follows
  (for an empty token it is indistinguishable from the `pre` of what comes next);
* `flag`: a part without `=` (`; w1 text`, `text` possibly empty: a stray `;`). -/
inductive ParamSpec where
  | kv (pre w1 name w2 w3 value : Str) (quoted : Bool)
  | flag (pre w1 text : Str)
  deriving DecidableEq, Repr

def ParamSpec.pre : ParamSpec → Str
  | .kv pre .. => pre
  | .flag pre .. => pre

/-- the text between this parameter's `;` and the white space in front of the next `;` -/
def ParamSpec.body : ParamSpec → Str
  | .kv _ w1 name w2 w3 value quoted =>
    w1 ++ name ++ w2 ++ '=' :: (if (valueText value quoted).isEmpty then [] else w3 ++ valueText value quoted)
  | .flag _ w1 text => if text.isEmpty then [] else w1 ++ text

def ParamSpec.render (p : ParamSpec) : Str := p.pre ++ ';' :: p.body

/-- what the parameter means: `(lower-cased name, value)`; a part without `=` means nothing -/
def ParamSpec.sem : ParamSpec → Option (Str × Str)
  | .kv _ _ name _ _ value _ => some (lower name, value)
  | .flag .. => none

/-- one media range as written: `w0 kind params wEnd` -/
structure RangeSpec where
  w0 : Str
  kind : Str
  params : List ParamSpec
  wEnd : Str
  deriving DecidableEq, Repr

def RangeSpec.core (r : RangeSpec) : Str := r.kind ++ r.params.flatMap ParamSpec.render

def RangeSpec.render (r : RangeSpec) : Str := r.w0 ++ r.core ++ r.wEnd

/-- the header text: ranges joined by `,` -/
def renderHeader (rs : List RangeSpec) : Str := joinWith ',' (rs.map RangeSpec.render)

/-- the parameter dictionary meant by the range: later repetitions of a name replace the value and
keep the position (`dict` semantics) -/
def RangeSpec.opts (r : RangeSpec) : Options :=
  r.params.foldl (fun d p => match p.sem with
    | none => d
    | some (k, v) => setOpt k v d) []

/-- the range meant: kind as written, dictionary, quality = `float(q)` of the `q` entry (1 when absent);
`badQ` when that text is not a number -/
def RangeSpec.range (r : RangeSpec) : Except ParseError Range :=
  match getOpt ['q'] r.opts with
  | none => .ok ⟨r.kind, r.opts, 1000⟩
  | some v => match parseQ v with
    | some q => .ok ⟨r.kind, r.opts, q⟩
    | none => .error .badQ

/-- left to right, first error wins (as `rangesOf`) -/
def specRanges : List RangeSpec → Except ParseError (List Range)
  | [] => .ok []
  | r :: rs =>
    match r.range with
    | .error e => .error e
    | .ok x => match specRanges rs with
      | .error e => .error e
      | .ok xs => .ok (x :: xs)

/-! ### well-formedness (decidable) -/

/-- the three characters with a meaning of their own at the levels below the parameter -/
def special (c : Char) : Bool := c == ',' || c == ';' || c == '"'

/-- non-empty, no white space at either end -/
def tight (s : Str) : Bool :=
  match s.head?, s.getLast? with
  | some a, some b => !isWs a && !isWs b
  | _, _ => false

def ParamSpec.wf : ParamSpec → Bool
  | .kv pre w1 name w2 w3 value quoted =>
    pre.all isWs && w1.all isWs && w2.all isWs && w3.all isWs
    && tight name && name.all (fun c => !special c && c != '=')
    && (if quoted then value.all (fun c => c != ',') && value.getLast? != some '\\'
        else value.all (fun c => !special c) && (value.isEmpty || tight value))
  | .flag pre w1 text =>
    pre.all isWs && w1.all isWs && text.all (fun c => !special c && c != '=') && (text.isEmpty || tight text)

def RangeSpec.wf (r : RangeSpec) : Bool :=
  r.w0.all isWs && r.wEnd.all isWs && tight r.kind && r.kind.all (fun c => !special c) && r.params.all ParamSpec.wf

/-- the same without the "no comma inside a quoted-string" demand (what RFC 9110 allows) -/
def ParamSpec.wfRfc : ParamSpec → Bool
  | .kv pre w1 name w2 w3 value quoted =>
    pre.all isWs && w1.all isWs && w2.all isWs && w3.all isWs
    && tight name && name.all (fun c => !special c && c != '=')
    && (if quoted then value.getLast? != some '\\'
        else value.all (fun c => !special c) && (value.isEmpty || tight value))
  | .flag pre w1 text =>
    pre.all isWs && w1.all isWs && text.all (fun c => !special c && c != '=') && (text.isEmpty || tight text)

def RangeSpec.wfRfc (r : RangeSpec) : Bool :=
  r.w0.all isWs && r.wEnd.all isWs && tight r.kind && r.kind.all (fun c => !special c) && r.params.all ParamSpec.wfRfc

/-! ### quality spellings -/

/-- a quality value as written: `w1 sign int [. frac] w2` -/
structure QSpec where
  w1 : Str
  sign : Option Bool      -- `some true` = `-`, `some false` = `+`, `none` = no sign
  int : Str
  frac : Option Str       -- `none` = no decimal point
  w2 : Str
  deriving DecidableEq, Repr

def QSpec.signText : Option Bool → Str
  | none => []
  | some true => ['-']
  | some false => ['+']

/-- the unsigned text -/
def QSpec.abs (s : QSpec) : Str := s.int ++ (match s.frac with | none => [] | some f => '.' :: f)

def QSpec.render (s : QSpec) : Str := s.w1 ++ QSpec.signText s.sign ++ s.abs ++ s.w2

/-- digits only, at least one of them, at most three decimals -/
def QSpec.wf (s : QSpec) : Bool :=
  s.w1.all isWs && s.w2.all isWs && s.int.all isDigit &&
  (match s.frac with
   | none => s.int.length ≥ 1
   | some f => f.all isDigit && s.int.length + f.length ≥ 1 && f.length ≤ 3)

/-- the unsigned number meant, in thousandths -/
def QSpec.absValue (s : QSpec) : Nat :=
  digitsVal s.int * 1000 + (match s.frac with | none => 0 | some f => digitsVal f * 10 ^ (3 - f.length))

/-- the number meant, in thousandths -/
def QSpec.value (s : QSpec) : Int :=
  if s.sign == some true then - (s.absValue : Int) else (s.absValue : Int)

/-! ### `Encoding.header` -/

def joinStr (sep : Str) : List Str → Str
  | [] => []
  | [a] => a
  | a :: b :: r => a ++ sep ++ joinStr sep (b :: r)

/-- `Encoding.header`: `kind` + `'; ' + '; '.join(f'{k}={v}')` when there are options -/
def Encoding.header (e : Encoding) : Str :=
  if e.options.isEmpty then e.kind
  else e.kind ++ [';', ' '] ++ joinStr [';', ' '] (e.options.map fun kv => kv.1 ++ '=' :: kv.2)

/-- the header of an encoding as a `RangeSpec` (no quoting, `; ` in front of every option) -/
def Encoding.spec (e : Encoding) : RangeSpec :=
  ⟨[], e.kind, e.options.map (fun kv => .kv [] [' '] kv.1 [] [] kv.2 false), []⟩

/-! ### the REST route and the generic application

```
encoding = layout.Encoding.parse(request.headers.get('content-type', 'application/octet-stream'))[0]
accept = request.headers.get('accept')
if accept: accept = layout.Encoding.parse(accept)
try: result = await handler(application, layout.Request(payload, encoding, params, accept))
except layout.Encoding.Unsupported: 415 ...
```
`Request.__new__`: `accept = tuple(accept or [encoding])`.  `Generic.receive`: `get_decoder(request.payload.encoding)`;
`Generic.respond`: `get_encoder(*request.accept)`, response `media_type = encoder.encoding.header`.  The `parse` calls
are outside the `try`: a `ValueError` of `float(q)` is not mapped and becomes starlette's 500.
-/

def defaultContentType : Str := "application/octet-stream".toList

inductive Response where
  | ok (encoder : Nat) (decoder : Nat)   -- 200: body decoded by DECODERS[decoder], response written by ENCODERS[encoder]
  | unsupported                          -- 415 (`Encoding.Unsupported` from `get_decoder` or `get_encoder`)
  | serverError                          -- 500 (`ValueError` of `float(q)`, raised outside the `try`)
  deriving DecidableEq, Repr

/-- what reaches the application: the declared content type and the accepted encodings -/
def requestOf (contentType accept : Option Str) : Except ParseError (Encoding × List Encoding) :=
  match parse (contentType.getD defaultContentType) with
  | .error e => .error e
  | .ok [] => .error .badQ  -- unreachable (`C19_parse_nonempty`); Python would raise IndexError
  | .ok (enc :: _) =>
    match accept with
    | none => .ok (enc, [enc])
    | some a =>
      if a.isEmpty then .ok (enc, [enc])   -- `if accept:` is false for the empty string
      else match parse a with
        | .error e => .error e
        | .ok acc => .ok (enc, if acc.isEmpty then [enc] else acc)   -- `accept or [encoding]`

/-- the encodings the application is asked to choose from: the Accept header, or the content type itself
when the header is absent or empty -/
def acceptedOf (enc : Encoding) (accept : Option Str) : Except ParseError (List Encoding) :=
  match accept with
  | none => .ok [enc]
  | some a => if a.isEmpty then .ok [enc] else (parse a).map (fun acc => if acc.isEmpty then [enc] else acc)

/-- `Generic.receive` (`get_decoder(request.payload.encoding)`) then `Generic.respond`
(`get_encoder(*request.accept)`); either `Unsupported` is the route's 415 (the body is assumed decodable) -/
def serve (encoders decoders : List Encoding) (enc : Encoding) (acc : List Encoding) : Response :=
  match getDecoder decoders enc with
  | none => .unsupported
  | some d =>
    match getEncoder encoders acc with
    | none => .unsupported
    | some e => .ok e d

/-- the route with `Generic.receive` / `respond` as the application -/
def gateway (encoders decoders : List Encoding) (contentType accept : Option Str) : Response :=
  match requestOf contentType accept with
  | .error _ => .serverError
  | .ok (enc, acc) => serve encoders decoders enc acc

end ForML.Codec
