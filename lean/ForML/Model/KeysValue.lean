/-
C18 — keys from Python values, and the text syntax of PEP 440 (core Lean only).

Mirrors
  * `Generation.Key.__new__(cls, key)`: `int.__new__(cls, str(key))` — what is accepted is decided by `str(key)`;
  * `Release.Key.__init__(self, key)`: `packaging.version.Version.__init__(str(key))` — likewise;
  * `packaging/version.py` (26.x): `Version._regex` = `\s*` + `VERSION_PATTERN` + `\s*` with `re.VERBOSE | re.IGNORECASE`,
    `fullmatch`; the pattern uses possessive quantifiers, so every optional group is matched deterministically
    (longest spelling first inside `pre_l` / `post_l`, an optional separator once taken is never given back) and a
    group that fails half-way matches empty; `_parse_letter_version` (spellings → `a`/`b`/`rc`/`post`/`dev`, missing
    number → 0, `-N` → post N), `_parse_local_version` (split at `[._-]`, all-digit parts → int, others lower-cased).
    The digits-and-dots fast path of `__init__` accepts the same texts with the same result.
-/
import ForML.Model.Keys

namespace ForML.Keys

/-! ### `str(value)` -/

/-- the Python values keys are made from -/
inductive PyVal where
  | int (i : Int)               -- `int`, also a `Generation.Key` instance (an int subclass, `str` is the decimal text)
  | bool (b : Bool)
  | float (repr : List Nat)     -- `repr(x)` of a float, given
  | str (s : List Nat)
  | bytes (rest : List Nat)     -- `str(b'…')` is `b` followed by the quoted, escaped content (`rest`)
  | none
  | tuple (rest : List Nat)     -- `str((…))` is `(` followed by `rest`
  | version (v : Version)       -- a `packaging` `Version` / `Release.Key`
  deriving DecidableEq, Repr

/-- `str(i)` -/
def intStr : Int → List Nat
  | .ofNat n => natStr n
  | .negSucc n => 45 :: natStr (n + 1)

/-- `str(value)` -/
def pyStr : PyVal → List Nat
  | .int i => intStr i
  | .bool true => [84, 114, 117, 101]
  | .bool false => [70, 97, 108, 115, 101]
  | .float r => r
  | .str s => s
  | .bytes r => 98 :: r
  | .none => [78, 111, 110, 101]
  | .tuple r => 40 :: r
  | .version v => vstr v

/-- what every `repr(float)` contains: a `.`, an `e` or an `n` (`inf` / `nan`) -/
def floatShape (r : List Nat) : Bool := r.any (fun c => c == 46 || c == 101 || c == 110)

/-- `Generation.Key(value)` -/
def genKeyV (v : PyVal) : Except KeyErr Nat := genKey (pyStr v)

/-! ### PEP 440 text -/

/-- `\s` of a `str` pattern: ASCII white space, U+001C–U+001F, NEL, NBSP and the Unicode space separators -/
def isSpaceU (c : Nat) : Bool :=
  isSpace c || (28 ≤ c && c ≤ 31) || c == 133 || c == 160 || c == 5760 || (8192 ≤ c && c ≤ 8202) ||
  c == 8232 || c == 8233 || c == 8239 || c == 8287 || c == 12288

/-- ASCII lower case -/
def lower (c : Nat) : Nat := if 65 ≤ c && c ≤ 90 then c + 32 else c

def isAlnum (c : Nat) : Bool := isDigit c || (97 ≤ c && c ≤ 122) || (65 ≤ c && c ≤ 90)

/-- `[._-]` -/
def isSep (c : Nat) : Bool := c == 46 || c == 95 || c == 45

/-- `[0-9]*` greedily: the digits and the rest -/
def spanDigits : List Nat → List Nat × List Nat
  | [] => ([], [])
  | c :: r => if isDigit c then (c :: (spanDigits r).1, (spanDigits r).2) else ([], c :: r)

/-- `int(digits)` -/
def digitsNat (ds : List Nat) : Nat := ds.foldl (fun a c => a * 10 + (c - 48)) 0

/-- the lower-case word `w` as a case-insensitive prefix: the rest -/
def lit? : List Nat → List Nat → Option (List Nat)
  | [], t => some t
  | _ :: _, [] => none
  | w :: ws, c :: t => if lower c == w then lit? ws t else none

/-- ordered alternation of words: the tag of the first that matches, and the rest -/
def firstLit : List (List Nat × Nat) → List Nat → Option (Nat × List Nat)
  | [], _ => none
  | (w, k) :: r, t =>
    match lit? w t with
    | some rest => some (k, rest)
    | none => firstLit r t

/-- `[._-]?+` -/
def optSep : List Nat → List Nat
  | [] => []
  | c :: r => if isSep c then r else c :: r

/-- `([0-9]+)?` -/
def optNum (t : List Nat) : Option Nat × List Nat :=
  match spanDigits t with
  | ([], _) => (none, t)
  | (d :: ds, r) => (some (digitsNat (d :: ds)), r)

/-- `(?:([0-9]+)!)?+` -/
def epoch? (t : List Nat) : Nat × List Nat :=
  match (spanDigits t).1, (spanDigits t).2 with
  | _ :: _, c :: r => if c == 33 then (digitsNat (spanDigits t).1, r) else (0, t)
  | _, _ => (0, t)

/-- `[0-9]+(?:\.[0-9]+)*+` after its first digit: `cur` is the component being read, `acc` the finished ones (reversed) -/
def relGo : Nat → List Nat → List Nat → List Nat × List Nat
  | cur, acc, [] => ((cur :: acc).reverse, [])
  | cur, acc, c :: r =>
    if isDigit c then relGo (cur * 10 + (c - 48)) acc r
    else if c == 46 then
      match r with
      | d :: r' => if isDigit d then relGo (d - 48) (cur :: acc) r' else ((cur :: acc).reverse, c :: r)
      | [] => ((cur :: acc).reverse, c :: r)
    else ((cur :: acc).reverse, c :: r)

def release? : List Nat → Option (List Nat × List Nat)
  | [] => none
  | c :: r => if isDigit c then some (relGo (c - 48) [] r) else none

/-- `alpha|a|beta|b|preview|pre|c|rc` with the normalised kind (0 = a, 1 = b, 2 = rc) -/
def preTable : List (List Nat × Nat) :=
  [([97, 108, 112, 104, 97], 0), ([97], 0), ([98, 101, 116, 97], 1), ([98], 1),
   ([112, 114, 101, 118, 105, 101, 119], 2), ([112, 114, 101], 2), ([99], 2), ([114, 99], 2)]

/-- `post|rev|r` -/
def postTable : List (List Nat × Nat) := [([112, 111, 115, 116], 0), ([114, 101, 118], 0), ([114], 0)]

/-- `dev` -/
def devTable : List (List Nat × Nat) := [([100, 101, 118], 0)]

/-- `[._-]?+ letter [._-]?+ ([0-9]+)?` as an optional group: tag and number (missing → 0), or nothing consumed -/
def letterNum (table : List (List Nat × Nat)) (t : List Nat) : Option (Nat × Nat) × List Nat :=
  match firstLit table (optSep t) with
  | none => (none, t)
  | some (k, t2) => (some (k, ((optNum (optSep t2)).1).getD 0), (optNum (optSep t2)).2)

def pre? (t : List Nat) : Option (Nat × Nat) × List Nat := letterNum preTable t

/-- `[._-]? (post|rev|r) [._-]? ([0-9]+)?` -/
def postL (t : List Nat) : Option Nat × List Nat := ((letterNum postTable t).1.map (·.2), (letterNum postTable t).2)

/-- `(?:-([0-9]+)) | (?:[._-]? (post|rev|r) [._-]? ([0-9]+)?)` -/
def post? (t : List Nat) : Option Nat × List Nat :=
  match t with
  | [] => postL t
  | c :: r =>
    if c == 45 then
      match optNum r with
      | (some n, r') => (some n, r')
      | (none, _) => postL t
    else postL t

def dev? (t : List Nat) : Option Nat × List Nat := ((letterNum devTable t).1.map (·.2), (letterNum devTable t).2)

/-- `part.lower() if not part.isdigit() else int(part)` -/
def segOf (part : List Nat) : Seg := if part.all isDigit then .num (digitsNat part) else .str (part.map lower)

/-- `[a-z0-9]+(?:[._-][a-z0-9]+)*+` after its first character: `cur` is the part being read (reversed) -/
def locGo : List Nat → List Seg → List Nat → List Seg × List Nat
  | cur, acc, [] => ((segOf cur.reverse :: acc).reverse, [])
  | cur, acc, c :: r =>
    if isAlnum c then locGo (c :: cur) acc r
    else if isSep c then
      match r with
      | d :: r' => if isAlnum d then locGo [d] (segOf cur.reverse :: acc) r' else ((segOf cur.reverse :: acc).reverse, c :: r)
      | [] => ((segOf cur.reverse :: acc).reverse, c :: r)
    else ((segOf cur.reverse :: acc).reverse, c :: r)

/-- `(?:\+ local)?+`: a `+` that no local version follows stays unread (the match then fails at it) -/
def local? (t : List Nat) : Option (List Seg) × List Nat :=
  match t with
  | c :: d :: r => if c == 43 && isAlnum d then (some (locGo [d] [] r).1, (locGo [d] [] r).2) else (none, t)
  | _ => (none, t)

def dropSpace : List Nat → List Nat
  | [] => []
  | c :: r => if isSpaceU c then dropSpace r else c :: r

/-- `v?+` -/
def optV : List Nat → List Nat
  | [] => []
  | c :: r => if lower c == 118 then r else c :: r

/-- `packaging.version.Version(text)`: the parsed fields, `none` = `InvalidVersion` -/
def vparse (s : List Nat) : Option Version :=
  match release? (epoch? (optV (dropSpace s))).2 with
  | none => none
  | some (rel, t1) =>
    let pre := pre? t1
    let post := post? pre.2
    let dev := dev? post.2
    let loc := local? dev.2
    if loc.2.all isSpaceU then some ⟨(epoch? (optV (dropSpace s))).1, rel, pre.1, post.1, dev.1, loc.1⟩ else none

/-- `Release.Key(value)` -/
def relKeyV (v : PyVal) : Option Version := vparse (pyStr v)

/-- a parsed version as `packaging` can produce it: a release, a pre kind of a/b/rc, local parts that are non-empty
lower-case alphanumeric and not all digits -/
def wfSeg : Seg → Bool
  | .num _ => true
  | .str s => !s.isEmpty && s.all (fun c => isDigit c || (97 ≤ c && c ≤ 122)) && !s.all isDigit

def wfVersion (v : Version) : Bool :=
  !v.release.isEmpty && (match v.pre with | some (k, _) => decide (k ≤ 2) | none => true) &&
  (match v.loc with | some segs => !segs.isEmpty && segs.all wfSeg | none => true)

end ForML.Keys
