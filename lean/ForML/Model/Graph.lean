/-
Graph with holes — executable model of forml's task-graph construction API (C11; reusable by C01/C03).

Mirrors, check by check and in the code's order:
  forml/flow/_graph/port.py    Subscription.__new__ / _PORTS, Publishable.publish / republish
  forml/flow/_graph/atomic.py  Node.__init__ / _publish, Worker._publish / train / fork / trained / derived,
                               Future.__getitem__.register / _collapse / _publish / subscribed
  forml/flow/_graph/span.py    Traversal.subscribers / mappers / tail (exists, scan) / each / copy, Segment.__new__ /
                               extend / copy
  forml/flow/_suite/clean.py   Validator (via Segment.accept)
  forml/flow/_suite/assembly.py Trunk.__new__ / extend, Composition.__new__

Modelling decisions
  * a node's identity (`uid`, Python object identity) is its index in `G.nodes`; group ids are a counter;
  * all `Port._subscriptions` ordered dicts together are ONE insertion-ordered, duplicate-free edge list;
    the content of `node._output[i]` is `out g node i` (the sub-list for that publisher port, same order);
  * `Subscription._PORTS` is the list `G.ports` of (node, port) pairs (a set: checked before every insert);
  * `Future._input` (a dict keyed by the *identity* of the `Publishable` proxy, value = port index) is the
    insertion-ordered list `G.regs`; callers create a fresh proxy per call (`node[i]`), hence the
    `Publisher collision` check of `register` (same proxy object twice) is unreachable and not modelled;
  * the model follows the code with `fixes/C11-atomic-topology-errors.diff` applied (rollback of a failed
    `publish` / `train`, dry run + cycle refusal in `Future.register`);
  * recursion through trees of futures (`_publish`/`_collapse`, `_unpublish`, `_publishable`, `_follows`) carries
    fuel (`nodes.length + 1` is enough for every acyclic registration structure, and `register` refuses cycles;
    where Python would raise `RecursionError` the model answers `Err.recursion`);
  * `Node.__eq__/__hash__` Future/Worker aliasing is modelled where the tracing code compares nodes
    (`eqNode`, `memNode`); the keys of `_PORTS` are workers only (a Future never gets an entry through the
    modelled calls), so identity is used there;
  * not modelled: `__del__`-driven registry cleanup (all nodes stay alive), the `assert 0 <= index < szout`.

Core Lean only.
-/
namespace ForML.Graph

/-- input port types of `port.py`: `Apply(i)`, `Train()`, `Label()` -/
inductive Port where
  | apply (i : Nat)
  | train
  | label
  deriving DecidableEq, Repr, Inhabited

def Port.isApply : Port → Bool
  | .apply _ => true
  | _ => false

/-- the `int` value of a port (`Type(int)`); `Future.__getitem__(port)` uses it as the index -/
def Port.index : Port → Nat
  | .apply i => i
  | .train => 0
  | .label => 1

inductive Kind where
  /-- `atomic.Worker`: group id (shared by forks) and `builder.actor.is_stateful()` -/
  | worker (gid : Nat) (stateful : Bool)
  /-- `atomic.Future` -/
  | future
  deriving DecidableEq, Repr, Inhabited

structure Node where
  kind : Kind
  szin : Nat
  szout : Nat
  deriving DecidableEq, Repr, Inhabited

/-- `port.Subscription(node, port)` -/
structure Sub where
  node : Nat
  port : Port
  deriving DecidableEq, Repr, Inhabited

/-- one entry of `pub._output[out]`: the subscription `sub` -/
structure Edge where
  pub : Nat
  out : Nat
  sub : Sub
  deriving DecidableEq, Repr, Inhabited

/-- one entry of `fut._input`: publisher proxy `(pub, out)` registered on index `idx` -/
structure Reg where
  fut : Nat
  idx : Nat
  pub : Nat
  out : Nat
  deriving DecidableEq, Repr, Inhabited

/-- the whole construction state -/
structure G where
  nodes : List Node := []
  edges : List Edge := []
  ports : List Sub := []
  regs : List Reg := []
  ngroups : Nat := 0
  deriving DecidableEq, Repr, Inhabited

def init : G := {}

inductive Err where
  | shape               -- ValueError('Invalid node shape')
  | double              -- 'Double subscription'
  | collision           -- 'Apply/Train collision'
  | publishingTrained   -- 'Publishing node trained'
  | futureSubscribing   -- 'Future node subscribing'
  | self                -- 'Self subscription'
  | trainedPublishing   -- 'Trained node publishing'
  | stateless           -- 'Stateless node training'
  | forkTrain           -- 'Fork train collision'
  | cyclic              -- Traversal.Cyclic
  | ambiguous           -- 'Ambiguous tail'
  | disconnected        -- 'Disconnected tail'
  | simpleHead          -- 'Simple head required'
  | simpleTail          -- 'Simple tail required'
  | futures             -- Validator: 'Future nodes in segment'
  | recursion           -- RecursionError (registration cycle among futures)
  | noNode              -- the op names a node that does not exist (never generated; not a forml error)
  | unpack              -- ValueError: `(publisher,) = tail._input` of `Segment.copy` with several registrations
  | noPath              -- KeyError: `copies[tail]` of `Segment.copy` when no path reaches the unwrapped tail
  | aliased             -- not a forml error: the model abstains (`Node.__eq__` aliasing inside `Traversal.copy`)
  deriving DecidableEq, Repr, Inhabited

inductive Res where
  | ok
  | node (n : Nat)      -- a new node / the traced tail
  | err (e : Err)
  | segs (l : List (Nat × Nat))  -- the (head, tail) pairs of the segments built (copy, trunk, composition)
  deriving DecidableEq, Repr, Inhabited

def Res.isErr : Res → Bool
  | .err _ => true
  | _ => false

/-! ### accessors -/

def isWorker (g : G) (n : Nat) : Bool :=
  match g.nodes[n]? with
  | some ⟨.worker _ _, _, _⟩ => true
  | _ => false

def isFuture (g : G) (n : Nat) : Bool :=
  match g.nodes[n]? with
  | some ⟨.future, _, _⟩ => true
  | _ => false

/-- `Worker.gid` -/
def gid? (g : G) (n : Nat) : Option Nat :=
  match g.nodes[n]? with
  | some ⟨.worker gid _, _, _⟩ => some gid
  | _ => none

/-- `Worker.stateful` -/
def stateful (g : G) (n : Nat) : Bool :=
  match g.nodes[n]? with
  | some ⟨.worker _ st, _, _⟩ => st
  | _ => false

/-- `Subscription.ports(node)` = `Worker.input` -/
def inputs (g : G) (n : Nat) : List Port := (g.ports.filter (fun s => s.node = n)).map (·.port)

/-- `Worker.trained` -/
def trained (g : G) (n : Nat) : Bool := (inputs g n).any (fun p => !p.isApply)

/-- `Worker.group` (indices of the members) -/
def group (g : G) (n : Nat) : List Nat :=
  match gid? g n with
  | none => []
  | some gid => (List.range g.nodes.length).filter (fun m => gid? g m = some gid)

/-- `Worker.derived` -/
def derived (g : G) (n : Nat) : Bool :=
  stateful g n && (group g n).any (fun m => m ≠ n && trained g m)

/-- content of `n._output[i]` in insertion order -/
def out (g : G) (n i : Nat) : List Sub := (g.edges.filter (fun e => e.pub = n ∧ e.out = i)).map (·.sub)

/-- `any(n.output)` -/
def publishes (g : G) (n : Nat) : Bool := g.edges.any (fun e => e.pub = n)

/-- `Port.add`: ordered-dict insert (an equal subscription keeps its first position) -/
def addEdge (g : G) (e : Edge) : G := if e ∈ g.edges then g else { g with edges := g.edges ++ [e] }

/-! ### port.py -/

/-- the checks of `Subscription.__new__`, in order (a `Future` is refused before the registry is touched; the
group rule - no other member of the worker's group is trained - is made here for every `Train`/`Label` subscription,
whatever API creates it: `fixes/C11-group-rule-in-subscription.diff`); `none` = the subscription is created -/
def subscription (g : G) (s : Sub) : Option Err :=
  let ps := inputs g s.node
  if isFuture g s.node then some .futureSubscribing
  else if s.port ∈ ps then some .double
  else if !ps.isEmpty && (s.port.isApply != ps.any Port.isApply) then some .collision
  else if !s.port.isApply && publishes g s.node then some .publishingTrained
  else if !s.port.isApply && (group g s.node).any (fun m => m != s.node && trained g m) then some .forkTrain
  else none

/-- publishers registered on input `idx` of the future `f` (`p for p, i in f._input.items() if i == idx`),
registration order -/
def pubsAt (g : G) (f idx : Nat) : List (Nat × Nat) :=
  (g.regs.filter (fun r => r.fut = f ∧ r.idx = idx)).map (fun r => (r.pub, r.out))

/-- `n._publishable(idx, s)` (dry run, nothing changes): `Worker`: `trained`, then the self check of `Node`;
`Future`: the self check, then every publisher registered on that port.  `none` = would succeed. -/
def publishable : Nat → G → Nat → Nat → Sub → Option Err
  | 0, _, _, _, _ => some .recursion
  | fuel + 1, g, n, idx, s =>
    if isFuture g n then
      if n = s.node then some .self
      else (pubsAt g n idx).foldl
        (fun (acc : Option Err) t => match acc with
          | none => publishable fuel g t.1 t.2 s
          | e => e)
        none
    else if trained g n then some .trainedPublishing
    else if n = s.node then some .self
    else none

/-- `n._publish(idx, s)` for `Worker` (`trained` check, then `Node._publish`) and `Future` (`Node._publish`, then
`_collapse()`, stopping at the first exception; the state reached so far is kept — the callers roll it back).
`_collapse()` re-publishes *every* (registered publisher, held subscription) pair of the future; in the states
the construction calls can reach every pair other than (publisher registered on `idx`, `s`) has been published
before and publishing it again changes nothing, so the model forwards the new subscription only. -/
def publishTo : Nat → G → Nat → Nat → Sub → G × Res
  | 0, g, _, _, _ => (g, .err .recursion)
  | fuel + 1, g, n, idx, s =>
    if isFuture g n then
      if n = s.node then (g, .err .self)
      else (pubsAt g n idx).foldl
        (fun (acc : G × Res) t => match acc.2 with
          | .ok => publishTo fuel acc.1 t.1 t.2 s
          | _ => acc)
        (addEdge g ⟨n, idx, s⟩, .ok)
    else if trained g n then (g, .err .trainedPublishing)
    else if n = s.node then (g, .err .self)
    else (addEdge g ⟨n, idx, s⟩, .ok)

/-- `Port.discard` -/
def delEdge (g : G) (e : Edge) : G := { g with edges := g.edges.filter (· ≠ e) }

/-- `n._unpublish(idx, s)`: withdraw the subscription from the port and (for a `Future`) from every publisher
registered on that port -/
def unpublishTo : Nat → G → Nat → Nat → Sub → G
  | 0, g, _, _, _ => g
  | fuel + 1, g, n, idx, s =>
    if isFuture g n then
      (pubsAt g n idx).foldl (fun (acc : G) t => unpublishTo fuel acc t.1 t.2 s) (delEdge g ⟨n, idx, s⟩)
    else delEdge g ⟨n, idx, s⟩

def fuelOf (g : G) : Nat := g.nodes.length + 1

/-- `Future._follows(other)`: `a` is `other` or is (transitively) registered to it through futures only -/
def follows : Nat → G → Nat → Nat → Bool
  | 0, _, _, _ => false
  | fuel + 1, g, a, other =>
    a == other || (g.regs.filter (fun r => r.fut = a)).any (fun r => isFuture g r.pub && follows fuel g r.pub other)

/-- `Future.__getitem__(i).register(publisher)`: refuse a cycle of placeholders, dry-run every held
subscription of that port on the publisher, then record the proxy and `_collapse()` -/
def register (g : G) (f i p pi : Nat) : G × Res :=
  if isFuture g p && follows (fuelOf g) g p f then (g, .err .self)
  else
    match (out g f i).foldl
        (fun (acc : Option Err) s => match acc with
          | none => publishable (fuelOf g) g p pi s
          | e => e)
        none with
    | some e => (g, .err e)
    | none =>
      (out g f i).foldl
        (fun (acc : G × Res) s => match acc.2 with
          | .ok => publishTo (fuelOf g) acc.1 p pi s
          | _ => acc)
        ({ g with regs := g.regs ++ [⟨f, i, p, pi⟩] }, .ok)

/-- drop the port from `_PORTS` -/
def delPort (g : G) (s : Sub) : G := { g with ports := g.ports.filter (· ≠ s) }

/-- `Publishable(p, pi).publish(s.node, s.port)`: a `Future` subscriber (other than the publisher itself)
registers the publisher; otherwise create the `Subscription`, `republish`, and on any exception withdraw
whatever part of the publisher's upstream received it and discard the port from `_PORTS` again. -/
def publish (g : G) (p pi : Nat) (s : Sub) : G × Res :=
  if isFuture g s.node ∧ s.node ≠ p then register g s.node s.port.index p pi
  else match subscription g s with
    | some e => (g, .err e)
    | none =>
      match publishTo (fuelOf g) { g with ports := g.ports ++ [s] } p pi s with
      | (g2, .err e) => (delPort (unpublishTo (fuelOf g) g2 p pi s) s, .err e)
      | (g2, r) => (g2, r)

/-- `Publishable(p, pi).unpublish(s.node, s.port)` (rollback helper of `Worker.train`) -/
def unpublish (g : G) (p pi : Nat) (s : Sub) : G :=
  if (⟨p, pi, s⟩ : Edge) ∈ g.edges then delPort (unpublishTo (fuelOf g) g p pi s) s else g

/-! ### atomic.py : construction calls -/

/-- `Node.__init__` shape check -/
def badShape (szin szout : Nat) : Bool := szin == 0 && szout == 0

def mkWorker (g : G) (st : Bool) (szin szout : Nat) : G × Res :=
  if badShape szin szout then (g, .err .shape)
  else ({ g with nodes := g.nodes ++ [⟨.worker g.ngroups st, szin, szout⟩], ngroups := g.ngroups + 1 },
        .node g.nodes.length)

def mkFuture (g : G) (szin szout : Nat) : G × Res :=
  if badShape szin szout then (g, .err .shape)
  else ({ g with nodes := g.nodes ++ [⟨.future, szin, szout⟩] }, .node g.nodes.length)

/-- `Worker.fork` (same group) / `Future.fork` (a new Future) -/
def fork (g : G) (n : Nat) : G × Res :=
  match g.nodes[n]? with
  | none => (g, .err .noNode)
  | some nd => ({ g with nodes := g.nodes ++ [nd] }, .node g.nodes.length)

/-- `s[j].subscribe(p[pi])`: `Future.PubSub.subscribe` registers directly, `Subscriptable.subscribe`
calls `publisher.publish(node, Apply(j))`. -/
def subscribe (g : G) (s j p pi : Nat) : G × Res :=
  if g.nodes.length ≤ s ∨ g.nodes.length ≤ p then (g, .err .noNode)
  else if isFuture g s then register g s j p pi
  else publish g p pi ⟨s, .apply j⟩

/-- `p[pi].publish(s, port)` for any port kind - `Apply(k)`, `Train()`, `Label()` - (the publishing side of the
port API; a `Future` subscriber registers the publisher under the port-typed index `int(port)`) -/
def publishOp (g : G) (p pi s : Nat) (port : Port) : G × Res :=
  if g.nodes.length ≤ s ∨ g.nodes.length ≤ p then (g, .err .noNode)
  else publish g p pi ⟨s, port⟩

/-- `Worker.train(train, label)`: the train publish is withdrawn again when the label publish raises -/
def train (g : G) (n tp ti lp li : Nat) : G × Res :=
  if !isWorker g n ∨ g.nodes.length ≤ tp ∨ g.nodes.length ≤ lp then (g, .err .noNode)
  else if !stateful g n then (g, .err .stateless)
  else if (group g n).any (trained g) then (g, .err .forkTrain)
  else match publish g tp ti ⟨n, .train⟩ with
    | (g1, .err e) => (g1, .err e)
    | (g1, _) =>
      match publish g1 lp li ⟨n, .label⟩ with
      | (g2, .err e) => (unpublish g2 tp ti ⟨n, .train⟩, .err e)
      | r => r

/-! ### span.py : tracing -/

/-- `Node.output` as a tuple of tuples -/
def outputs (g : G) (n : Nat) : List (List Sub) :=
  (List.range (g.nodes.getD n default).szout).map (out g n)

/-- `Node.__eq__`: identity, except that a `Future` and a `Worker` are equal when they have the same number of
output ports holding equal subscriptions, at least one of them non-empty (`any(self.output)`). -/
def eqNode (g : G) (a b : Nat) : Bool :=
  a == b ||
    ((isWorker g a && isFuture g b || isFuture g a && isWorker g b) &&
      (g.nodes.getD a default).szout == (g.nodes.getD b default).szout &&
      (outputs g a).any (fun l => !l.isEmpty) && outputs g a == outputs g b)

/-- `node in <set of nodes>`: `Node.__hash__` = `hash(szin) ^ hash(szout)`, then `__eq__` -/
def memNode (g : G) (n : Nat) (ms : List Nat) : Bool :=
  ms.any (fun m => m == n ||
    ((g.nodes.getD m default).szin == (g.nodes.getD n default).szin && eqNode g m n))

/-- first occurrences only (the local `seen` set of `Traversal.subscribers`) -/
def dedupNodes (g : G) : List Nat → List Nat → List Nat
  | [], acc => acc.reverse
  | n :: ns, acc => if memNode g n acc then dedupNodes g ns acc else dedupNodes g ns (n :: acc)

/-- `Future.subscribed(publisher)` / `Worker.subscribed(publisher)` -/
def subscribed : Nat → G → Nat → Nat → Bool
  | 0, _, _, _ => false
  | fuel + 1, g, n, pub =>
    if isFuture g n then
      (g.regs.filter (fun r => r.fut = n)).any (fun r => r.pub = pub || subscribed fuel g r.pub pub)
    else g.edges.any (fun e => e.pub = pub ∧ e.sub.node = n)

/-- nodes yielded by `Traversal(pivot).mappers(*extras)` before the `members` check: subscribers of all
output ports in order, then the extras that are `subscribed`, first occurrences only, trained workers masked -/
def mappers (g : G) (pivot : Nat) (extra : Option Nat) : List Nat :=
  let direct := (outputs g pivot).flatten.map (·.node)
  let ext := match extra with
    | some e => if subscribed (fuelOf g) g e pivot then [e] else []
    | none => []
  dedupNodes g ((direct ++ ext).filter (fun n => !(isWorker g n && trained g n))) []

inductive Found where
  | found | notFound | cyclic | depth
  deriving DecidableEq, Repr

/-- `exists` of `Traversal.tail(expected)`: depth-first, `any` short-circuits, `Cyclic` is raised lazily -/
def existsT : Nat → G → Nat → Nat → List Nat → Found
  | 0, _, _, _, _ => .depth
  | fuel + 1, g, expected, pivot, members =>
    if eqNode g pivot expected then .found
    else (mappers g pivot (some expected)).foldl
      (fun acc n => match acc with
        | .notFound => if memNode g n members then .cyclic else existsT fuel g expected n (n :: members)
        | r => r)
      .notFound

/-- `scan` of `Traversal.tail()`: all leaves, each with its path (`members`, newest first) -/
def scan : Nat → G → Nat → List Nat → Except Err (List (List Nat))
  | 0, _, _, _ => .error .recursion
  | fuel + 1, g, pivot, members =>
    match (mappers g pivot none).foldl
      (fun (acc : Except Err (List (List Nat))) n => match acc with
        | .ok ls =>
          if memNode g n members then .error .cyclic
          else match scan fuel g n (n :: members) with
            | .ok ls' => .ok (ls ++ ls')
            | .error e => .error e
        | e => e)
      (.ok []) with
    | .ok [] => .ok [members]
    | r => r

/-- `Segment(head, tail)` -/
def segment (g : G) (h : Nat) (t : Option Nat) : Res :=
  match g.nodes[h]? with
  | none => .err .noNode
  | some hn =>
    if hn.szin > 1 then .err .simpleHead
    else
      let finish (t : Nat) : Res :=
        match g.nodes[t]? with
        | none => .err .noNode
        | some tn => if tn.szout > 1 then .err .simpleTail else .node t
      match t with
      | some t =>
        if g.nodes.length ≤ t then .err .noNode
        else match existsT (fuelOf g) g t h [h] with
          | .found => finish t
          | .cyclic => .err .cyclic
          | .notFound => .err .disconnected
          | .depth => .err .recursion
      | none =>
        match scan (fuelOf g) g h [h] with
        | .ok [l] => finish (l.headD h)
        | .ok _ => .err .ambiguous
        | .error e => .err e

/-- nodes handed to the acceptor by `Traversal(head).each(tail, acceptor)`: everything reachable from the
head over subscriptions, stopping at the tail (only its trained subscribers are followed), each once; a
`Future` tail is skipped.  (`each` never raises `Cyclic`: `members ⊆ seen` and `seen` is masked first.) -/
def visit : Nat → G → Nat → Nat → List Nat → List Nat
  | 0, _, _, _, seen => seen
  | fuel + 1, g, tail, pivot, seen =>
    let seen := seen ++ [pivot]
    let direct := (outputs g pivot).flatten.map (·.node)
    let ext := if subscribed (fuelOf g) g tail pivot then [tail] else []
    (direct ++ ext).foldl
      (fun seen n =>
        if memNode g n seen then seen
        else if eqNode g pivot tail && !(isWorker g n && trained g n) then seen
        else visit fuel g tail n seen)
      seen

/-- `Segment(head, tail).accept(clean.Validator())` -/
def validate (g : G) (h : Nat) (t : Option Nat) : Res :=
  match segment g h t with
  | .node tl =>
    let seen := visit (g.nodes.length * g.nodes.length + 1) g tl h []
    if seen.any (fun n => isFuture g n && !eqNode g n tl) then .err .futures else .node tl
  | r => r

/-! ### span.py : Segment.extend / Segment.copy -/

/-- `Traversal(p).tail()` (no expected tail): the unique leaf of the mapper flow below `p` -/
def autoTail (g : G) (p : Nat) : Res :=
  match scan (fuelOf g) g p [p] with
  | .ok [l] => .node (l.headD p)
  | .ok _ => .err .ambiguous
  | .error e => .err e

/-- the wiring core of `Segment(h, tl).extend(right)`: `right._head[0].subscribe(Segment(h, tl).publisher)`
(= `tl[0].publisher`), then `Segment(h, newTail)`.  When the final tracing refuses the result the subscription
stays (the code has no roll-back there). -/
def segExtend (g : G) (h tl rh newTail : Nat) : G × Res :=
  match subscribe g rh 0 tl 0 with
  | (g1, .err e) => (g1, .err e)
  | (g1, _) => (g1, segment g1 h (some newTail))

/-- `Segment(h, t).extend(right, tail)`: `right` is a segment `(rh, rt)` (a bare node `r` is `Segment(r)`, i.e.
`(r, none)`); without `right` the segment is retraced to the explicit `tail` or to its physical tail. -/
def extend (g : G) (h : Nat) (t : Option Nat) (right : Option (Nat × Option Nat)) (xt : Option Nat) : G × Res :=
  match segment g h t with
  | .node tl =>
    match right with
    | some (rh, rt) =>
      match segment g rh rt with
      | .node rtl => segExtend g h tl rh (xt.getD rtl)
      | r => (g, r)
    | none =>
      match xt with
      | some x => (g, segment g h (some x))
      | none =>
        match autoTail g tl with
        | .node x => (g, segment g h (some x))
        | r => (g, r)
  | r => (g, r)

/-- the loop of `Segment.copy`: a dangling `Future` tail (not the head) stands for the publisher registered on it -/
def unwrapTail : Nat → G → Nat → Nat → Except Err Nat
  | 0, _, _, _ => .error .recursion
  | fuel + 1, g, h, t =>
    if isFuture g t ∧ t ≠ h then
      match g.regs.filter (fun r => r.fut = t) with
      | [] => .ok t
      | [r] => unwrapTail fuel g h r.pub
      | _ => .error .unpack
    else .ok t

/-- `segments` of `Traversal.copy(tail)`: every mapper path from the pivot to the tail (its `members`, newest first) -/
def paths : Nat → G → Nat → Nat → List Nat → Except Err (List (List Nat))
  | 0, _, _, _, _ => .error .recursion
  | fuel + 1, g, tail, pivot, members =>
    if eqNode g pivot tail then .ok [members]
    else (mappers g pivot (some tail)).foldl
      (fun (acc : Except Err (List (List Nat))) n => match acc with
        | .ok ls =>
          if memNode g n members then .error .cyclic
          else match paths fuel g tail n (n :: members) with
            | .ok ls' => .ok (ls ++ ls')
            | .error e => .error e
        | e => e)
      (.ok [])

/-- the nodes `Traversal.copy` forks: the head (bootstrap) and every member of a path, in index order -/
def regionOf (g : G) (h : Nat) (ps : List (List Nat)) : List Nat :=
  (List.range g.nodes.length).filter (fun n => n == h || ps.any (fun m => m.contains n))

/-- the subscriptions `Traversal.copy` replays: per path, the edges between two of its members (first occurrence
only: the `seen` set), in path order and port order -/
def copyEdges (g : G) (ps : List (List Nat)) : List Edge :=
  (ps.flatMap (fun m => g.edges.filter (fun e => m.contains e.pub && m.contains e.sub.node))).eraseDups

/-- no two different nodes of the list compare equal (`Node.__eq__`), so that `set`/`dict` look-ups among them
behave as identity look-ups -/
def aliasFree (g : G) (us : List Nat) : Bool :=
  us.all (fun a => us.all (fun b => a == b || !eqNode g a b))

/-- the fork of region member `n` (new nodes are appended in region order) -/
def copyIdx (g : G) (region : List Nat) (n : Nat) : Nat := g.nodes.length + region.idxOf n

/-- the subscription `get(s.node)[s.port].subscribe(get(o)[i])` makes: `Subscriptable.subscribe` always creates an
`Apply` port, `Apply(int(s.port))` -/
def copyEdge (g : G) (region : List Nat) (e : Edge) : Edge :=
  ⟨copyIdx g region e.pub, e.out, ⟨copyIdx g region e.sub.node, .apply e.sub.port.index⟩⟩

/-- the state after forking `region` (same kind, shape and group) and replaying `es` -/
def copied (g : G) (region : List Nat) (es : List Edge) : G :=
  { g with nodes := g.nodes ++ region.map (fun n => g.nodes.getD n default),
           edges := g.edges ++ es.map (copyEdge g region),
           ports := g.ports ++ es.map (fun e => (copyEdge g region e).sub) }

/-- `Segment(h, t).copy()`: trace, unwrap a dangling `Future` tail, `Traversal(h).copy(tail)` (fork every node
on a mapper path from head to tail - same group, same shape - and replay the subscriptions between members of one
path through the ordinary `subscribe`, which can only refuse with `Double subscription`), `Segment(copy of head,
copy of tail)`.
Deviations: every check is made before the first fork is created (the code forks and subscribes lazily, so a
refused copy leaves forks behind in the worker groups: finding C11-F4); the final re-tracing of the copy is
reduced to its shape check; when two different nodes involved compare equal (`Node.__eq__` aliasing inside the
`copies` dict / `seen` set: the tail, the region and the subscribers of the region) the model abstains
(`Err.aliased`). -/
def copy (g : G) (h : Nat) (t : Option Nat) : G × Res :=
  match segment g h t with
  | .node tl0 =>
    match unwrapTail (fuelOf g) g h tl0 with
    | .error e => (g, .err e)
    | .ok tl =>
      match paths (fuelOf g) g tl h [h] with
      | .error e => (g, .err e)
      | .ok ps =>
        let region := regionOf g h ps
        let es := copyEdges g ps
        if !aliasFree g (tl :: region ++ (g.edges.filter (fun e => region.contains e.pub)).map (·.sub.node)) then
          (g, .err .aliased)
        else if !(decide (es.map (fun e => (copyEdge g region e).sub)).Nodup) then (g, .err .double)
        else if !region.contains tl then (g, .err .noPath)
        else if (g.nodes.getD tl default).szout > 1 then (g, .err .simpleTail)
        else (copied g region es, .segs [(copyIdx g region h, copyIdx g region tl)])
  | r => (g, r)

/-! ### assembly.py : Trunk, Composition -/

/-- a segment given as `(head, tail?)`, resolved to `(head, tail)` by `Segment(head, tail)` -/
def resolveSeg (g : G) (s : Nat × Option Nat) : Except Err (Nat × Nat) :=
  match segment g s.1 s.2 with
  | .node tl => .ok (s.1, tl)
  | .err e => .error e
  | _ => .error .noNode

def resolveOpt (g : G) : Option (Nat × Option Nat) → Except Err (Option (Nat × Nat))
  | none => .ok none
  | some s => match resolveSeg g s with
    | .ok p => .ok (some p)
    | .error e => .error e

/-- `init(mode)` of `Trunk.__new__` for a missing mode: `Segment(Future())` -/
def trunkMode (g : G) : Option (Nat × Nat) → G × (Nat × Nat)
  | some p => (g, p)
  | none => ({ g with nodes := g.nodes ++ [⟨.future, 1, 1⟩] }, (g.nodes.length, g.nodes.length))

/-- `Trunk(apply, train, label)`: the given segments are traced first (in that order), a missing mode becomes a
fresh unconnected `Future` -/
def trunk (g : G) (a t l : Option (Nat × Option Nat)) : G × Res :=
  match resolveOpt g a with
  | .error e => (g, .err e)
  | .ok ra =>
    match resolveOpt g t with
    | .error e => (g, .err e)
    | .ok rt =>
      match resolveOpt g l with
      | .error e => (g, .err e)
      | .ok rl =>
        let (g1, pa) := trunkMode g ra
        let (g2, pt) := trunkMode g1 rt
        let (g3, pl) := trunkMode g2 rl
        (g3, .segs [pa, pt, pl])

/-- a trunk whose three segments are resolved -/
structure Trunk3 where
  apply : Nat × Nat
  train : Nat × Nat
  label : Nat × Nat
  deriving DecidableEq, Repr

/-- a trunk given by three segment descriptions -/
structure TrunkSpec where
  apply : Nat × Option Nat
  train : Nat × Option Nat
  label : Nat × Option Nat
  deriving DecidableEq, Repr

def resolveTrunk (g : G) (s : TrunkSpec) : Except Err Trunk3 :=
  match resolveSeg g s.apply with
  | .error e => .error e
  | .ok a =>
    match resolveSeg g s.train with
    | .error e => .error e
    | .ok t =>
      match resolveSeg g s.label with
      | .error e => .error e
      | .ok l => .ok ⟨a, t, l⟩

/-- one mode of `Trunk.extend`: `self.<mode>.extend(right) if right else self.<mode>` -/
def modeExtend (g : G) (c : Nat × Nat) : Option (Nat × Nat) → G × Except Err (Nat × Nat)
  | none => (g, .ok c)
  | some r =>
    match segExtend g c.1 c.2 r.1 r.2 with
    | (g1, .node tl) => (g1, .ok (c.1, tl))
    | (g1, .err e) => (g1, .error e)
    | (g1, _) => (g1, .error .noNode)

/-- `Trunk.extend(apply, train, label)` on resolved segments: the three modes one after the other, no roll-back of
an earlier mode when a later one is refused (finding C11-F3) -/
def trunkExtend (g : G) (c : Trunk3) (ea et el : Option (Nat × Nat)) : G × Except Err Trunk3 :=
  match modeExtend g c.apply ea with
  | (g1, .error e) => (g1, .error e)
  | (g1, .ok a) =>
    match modeExtend g1 c.train et with
    | (g2, .error e) => (g2, .error e)
    | (g2, .ok t) =>
      match modeExtend g2 c.label el with
      | (g3, .error e) => (g3, .error e)
      | (g3, .ok l) => (g3, .ok ⟨a, t, l⟩)

def Trunk3.res (c : Trunk3) : Res := .segs [c.apply, c.train, c.label]

/-- `Trunk(base).extend(apply, train, label)`: every segment involved is traced first -/
def textend (g : G) (b : TrunkSpec) (ea et el : Option (Nat × Option Nat)) : G × Res :=
  match resolveTrunk g b with
  | .error e => (g, .err e)
  | .ok c =>
    match resolveOpt g ea with
    | .error e => (g, .err e)
    | .ok ra =>
      match resolveOpt g et with
      | .error e => (g, .err e)
      | .ok rt =>
        match resolveOpt g el with
        | .error e => (g, .err e)
        | .ok rl =>
          match trunkExtend g c ra rt rl with
          | (g1, .ok c1) => (g1, c1.res)
          | (g1, .error e) => (g1, .err e)

/-- `Segment(h, tl).extend()`: retrace to the physical tail -/
def retrace (g : G) (s : Nat × Nat) : Res :=
  match autoTail g s.2 with
  | .node x => segment g s.1 (some x)
  | r => r

/-- `Segment(h, tl).accept(clean.Validator())`: refused when a visited node is a `Future` (other than the tail) -/
def accept (g : G) (h tl : Nat) : Option Err :=
  if (visit (g.nodes.length * g.nodes.length + 1) g tl h []).any (fun n => isFuture g n && !eqNode g n tl)
  then some .futures else none

/-- the validation of `Composition.__new__`: apply path retraced and validated, then the train path -/
def finalize (g : G) (c : Trunk3) : Res :=
  match retrace g c.apply with
  | .node at_ =>
    match accept g c.apply.1 at_ with
    | some e => .err e
    | none =>
      match retrace g c.train with
      | .node tt =>
        match accept g c.train.1 tt with
        | some e => .err e
        | none => .segs [(c.apply.1, at_), (c.train.1, tt)]
      | r => r
  | r => r

/-- `functools.reduce(lambda c, s: c.extend(*s.expand()), others, composed)`, then the validation -/
def composeLoop (g : G) (c : Trunk3) : List TrunkSpec → G × Res
  | [] => (g, finalize g c)
  | s :: rest =>
    match resolveTrunk g s with
    | .error e => (g, .err e)
    | .ok r =>
      match trunkExtend g c (some r.apply) (some r.train) (some r.label) with
      | (g1, .ok c1) => composeLoop g1 c1 rest
      | (g1, .error e) => (g1, .err e)

/-- `flow.Composition(first, *others)` where every operator expands to the trunk described -/
def compose (g : G) : List TrunkSpec → G × Res
  | [] => (g, .err .noNode)
  | s :: rest =>
    match resolveTrunk g s with
    | .error e => (g, .err e)
    | .ok c => composeLoop g c rest

/-! ### the state machine -/

inductive Op where
  | mkWorker (stateful : Bool) (szin szout : Nat)
  | mkFuture (szin szout : Nat)
  | fork (n : Nat)
  /-- `s[j].subscribe(p[pi])` -/
  | subscribe (s j p pi : Nat)
  /-- `p[pi].publish(s, port)` -/
  | publish (p pi s : Nat) (port : Port)
  /-- `n.train(tp[ti], lp[li])` -/
  | train (n tp ti lp li : Nat)
  | segment (h : Nat) (t : Option Nat)
  | validate (h : Nat) (t : Option Nat)
  /-- `Segment(h, t).extend(right, tail)` -/
  | extend (h : Nat) (t : Option Nat) (right : Option (Nat × Option Nat)) (xt : Option Nat)
  /-- `Segment(h, t).copy()` -/
  | copy (h : Nat) (t : Option Nat)
  /-- `Trunk(apply, train, label)` -/
  | trunk (a t l : Option (Nat × Option Nat))
  /-- `Trunk(base).extend(apply, train, label)` -/
  | textend (b : TrunkSpec) (a t l : Option (Nat × Option Nat))
  /-- `flow.Composition(first, *others)`, every operator expanding to the trunk described -/
  | compose (ts : List TrunkSpec)
  deriving DecidableEq, Repr

def step (g : G) : Op → G × Res
  | .mkWorker st i o => mkWorker g st i o
  | .mkFuture i o => mkFuture g i o
  | .fork n => fork g n
  | .subscribe s j p pi => subscribe g s j p pi
  | .publish p pi s port => publishOp g p pi s port
  | .train n tp ti lp li => train g n tp ti lp li
  | .segment h t => (g, segment g h t)
  | .validate h t => (g, validate g h t)
  | .extend h t right xt => extend g h t right xt
  | .copy h t => copy g h t
  | .trunk a t l => trunk g a t l
  | .textend b a t l => textend g b a t l
  | .compose ts => compose g ts

def run (g : G) : List Op → G
  | [] => g
  | op :: ops => run (step g op).1 ops

/-! ### invariants (spec-shaped: stated over the edge list, independent of the `_PORTS`-based checks) -/

/-- (I1) every input port has at most one *worker* publisher -/
def I1 (g : G) : Prop :=
  ∀ e ∈ g.edges, ∀ e' ∈ g.edges, isWorker g e.pub → isWorker g e'.pub → e.sub = e'.sub → e = e'

/-- (I2) no node feeds itself -/
def I2 (g : G) : Prop := ∀ e ∈ g.edges, e.pub ≠ e.sub.node

/-- (I3) a worker is subscribed either for training or for applying -/
def I3 (g : G) : Prop :=
  ∀ e ∈ g.edges, ∀ e' ∈ g.edges, e.sub.node = e'.sub.node → e.sub.port.isApply = e'.sub.port.isApply

/-- (I4) a worker group has at most one trained member -/
def I4 (g : G) : Prop :=
  ∀ e ∈ g.edges, ∀ e' ∈ g.edges, e.sub.port.isApply = false → e'.sub.port.isApply = false →
    gid? g e.sub.node = gid? g e'.sub.node → e.sub.node = e'.sub.node

/-- (I5) trained workers publish nothing -/
def I5 (g : G) : Prop := ∀ e ∈ g.edges, ∀ e' ∈ g.edges, e.sub.port.isApply = false → e'.pub ≠ e.sub.node

/-- (I6) `_PORTS` is exactly the set of ports having a publisher -/
def I6 (g : G) : Prop :=
  (∀ s ∈ g.ports, ∃ e ∈ g.edges, e.sub = s) ∧ (∀ e ∈ g.edges, e.sub ∈ g.ports)

/-- (I7) well-formedness: publishers exist, subscribers are workers -/
def I7 (g : G) : Prop := ∀ e ∈ g.edges, e.pub < g.nodes.length ∧ isWorker g e.sub.node

/-- (I8) well-formedness of `Future._input`: registrations sit on futures and name existing publishers -/
def I8 (g : G) : Prop := ∀ r ∈ g.regs, isFuture g r.fut ∧ r.pub < g.nodes.length

/-- everything but (I1) — holds after every call sequence, whatever the route -/
def Wf (g : G) : Prop := I2 g ∧ I3 g ∧ I4 g ∧ I5 g ∧ I6 g ∧ I7 g ∧ I8 g

def Inv (g : G) : Prop := I1 g ∧ Wf g

instance (g : G) : Decidable (Wf g) := by
  unfold Wf I2 I3 I4 I5 I6 I7 I8; infer_instance

instance (g : G) : Decidable (Inv g) := by
  unfold Inv I1; infer_instance

/-- worker-to-worker connections: the edges published by workers (collapsing is eager in the code, so
"futures substituted away" is simply "drop what placeholders hold") -/
def resolve (g : G) : List Edge := g.edges.filter (fun e => isWorker g e.pub)

end ForML.Graph
