/-
Shared DSL abstract syntax (DESIGN.md section 4, "DSL AST").  Foundation of C06, C07, C08, C09, C14.

Mirrors the tuple-based classes of `forml/io/dsl/_struct/{kind,series,frame}.py`:

  Python class                              constructor here
  ----------------------------------------  -------------------------------------------
  kind.Boolean … kind.Timestamp             `Kind.boolean … Kind.timestamp`
  kind.Array / Map / Struct                 `Kind.array e` / `Kind.map k v` / `Kind.struct names kinds`
  series.Literal(value)                     `Feature.lit v`          (the kind is `Lit.kind v` = `kind.reflect`)
  series.Element / Column (origin, name)    `Feature.elem origin name` (a `Column` iff the origin is a table)
  series.Aliased(operable, name)            `Feature.alias f name`
  series.Univariate/Bivariate subclasses    `Feature.expr op args`   (`Op` = one constructor per class)
  function.Cast(value, kind)                `Feature.cast f k`
  series.Window(function, partition, ord)   `Feature.window fn partition ordering`
  series.Ordering(feature, direction)       `Ordering.mk f d`
  frame.Table(schema)                       `Source.table name fields` (fields = schema in order: name, kind)
  frame.Reference(instance, name)           `Source.ref inst name`
  frame.Join(left, right, kind, condition)  `Source.join l r kind cond`
  frame.Set(left, right, kind)              `Source.set l r kind`
  frame.Query(source, selection, prefilter, `Source.query src sel pre grp post ord rows`
              grouping, postfilter, ordering, rows)

The same tree is used *before* validation (`RawStmt`: the arguments handed to the public API) and
after it (`Stmt`: what the constructors store); `ForML.Model.Grammar.construct` goes from one to the
other.  Lean 4.33 cannot derive `DecidableEq` for nested inductives, therefore the lists/options of
features that occur inside the mutual block are explicit members of it (`Features`, `FeatureOpt`,
`Orderings`, `Kinds`) with `toList`/`ofList` conversions.  Core Lean only.

Wire format (one S-expression, shared with `harness/props/dslgen.py`):

  kind    ::= boolean|integer|float|decimal|string|date|timestamp
            | (array kind) | (map kind kind) | (struct (name kind)*)
  lit     ::= (int n) | (bool true|false) | (str s) | (float repr)
  feature ::= (lit lit) | (elem source name) | (alias feature name) | (expr op feature*)
            | (cast feature kind) | (window feature (feature*) (ordering*))
  ordering::= (ord feature asc|desc)
  source  ::= (table name ((fname kind)*)) | (ref source name) | (join source source jkind feature|none)
            | (set source source skind)
            | (query source (feature*) feature|none (feature*) feature|none (ordering*) none|(rows count offset))
  line    ::= (let ((var sexp)*) sexp)      -- `$var` atoms in the body are replaced (tables are big)
-/
import ForML.Model.Sexp

namespace ForML.Dsl

/-! ### kinds (`kind.py`) -/

mutual
/-- `kind.Any` instances: singletons of the primitive classes and the tuple-based compounds. -/
inductive Kind where
  | boolean | integer | float | decimal | string | date | timestamp
  | array (element : Kind)
  | map (key value : Kind)
  | struct (names : List String) (kinds : Kinds)
inductive Kinds where
  | nil
  | cons (k : Kind) (ks : Kinds)
end

deriving instance DecidableEq, Repr, Inhabited for Kind, Kinds

def Kinds.toList : Kinds → List Kind
  | .nil => []
  | .cons k ks => k :: ks.toList

def Kinds.ofList : List Kind → Kinds
  | [] => .nil
  | k :: ks => .cons k (Kinds.ofList ks)

/-- Class name of a kind (`repr(kind)` in Python), used as the class tag when hashing. -/
def Kind.className : Kind → String
  | .boolean => "Boolean" | .integer => "Integer" | .float => "Float" | .decimal => "Decimal"
  | .string => "String" | .date => "Date" | .timestamp => "Timestamp"
  | .array _ => "Array" | .map _ _ => "Map" | .struct _ _ => "Struct"

/-- `kind.Numeric.match`: subclasses of `Numeric` (Integer, Float, Decimal). -/
def Kind.isNumeric : Kind → Bool
  | .integer | .float | .decimal => true
  | _ => false

/-- `kind.Date.match`: `Date` and its subclass `Timestamp`. -/
def Kind.isDate : Kind → Bool
  | .date | .timestamp => true
  | _ => false

/-! ### literals -/

/-- Python values a `Literal` is generated with (floats by their `repr`, never interpreted). -/
inductive Lit where
  | int (n : Int)
  | bool (b : Bool)
  | str (s : String)
  | float (repr : String)
  deriving DecidableEq, Repr, Inhabited

/-- `kind.reflect(value)` on the generated literal values (Boolean is tried first: rank 0). -/
def Lit.kind : Lit → Kind
  | .int _ => .integer
  | .bool _ => .boolean
  | .str _ => .string
  | .float _ => .float

/-! ### enums -/

/-- Expression classes: operators of `series.py` and the functions of `forml.io.dsl.function`. -/
inductive Op where
  | lt | le | gt | ge | eq | ne | isnull | notnull   -- series.Comparison
  | and | or | not                                    -- series.Logical
  | add | sub | mul | div | mod                       -- series.Arithmetic operators
  | abs | ceil | floor                                -- function._math
  | count | avg | max | min | sum                     -- function._aggregate (series.Aggregate)
  | year                                              -- function._datetime
  | rownumber                                         -- function._window (a Window.Function, not a feature)
  deriving DecidableEq, Repr, Inhabited

/-- Python class name of the expression class. -/
def Op.className : Op → String
  | .lt => "LessThan" | .le => "LessEqual" | .gt => "GreaterThan" | .ge => "GreaterEqual"
  | .eq => "Equal" | .ne => "NotEqual" | .isnull => "IsNull" | .notnull => "NotNull"
  | .and => "And" | .or => "Or" | .not => "Not"
  | .add => "Addition" | .sub => "Subtraction" | .mul => "Multiplication" | .div => "Division"
  | .mod => "Modulus" | .abs => "Abs" | .ceil => "Ceil" | .floor => "Floor"
  | .count => "Count" | .avg => "Avg" | .max => "Max" | .min => "Min" | .sum => "Sum"
  | .year => "Year" | .rownumber => "RowNumber"

def Op.all : List Op :=
  [.lt, .le, .gt, .ge, .eq, .ne, .isnull, .notnull, .and, .or, .not, .add, .sub, .mul, .div, .mod,
   .abs, .ceil, .floor, .count, .avg, .max, .min, .sum, .year, .rownumber]

/-- wire name = lower-cased constructor name -/
def Op.wire : Op → String
  | .lt => "lt" | .le => "le" | .gt => "gt" | .ge => "ge" | .eq => "eq" | .ne => "ne"
  | .isnull => "isnull" | .notnull => "notnull" | .and => "and" | .or => "or" | .not => "not"
  | .add => "add" | .sub => "sub" | .mul => "mul" | .div => "div" | .mod => "mod"
  | .abs => "abs" | .ceil => "ceil" | .floor => "floor"
  | .count => "count" | .avg => "avg" | .max => "max" | .min => "min" | .sum => "sum"
  | .year => "year" | .rownumber => "rownumber"

/-- number of operands the class constructor takes (`Univariate` / `Bivariate`; RowNumber none) -/
def Op.arity : Op → Nat
  | .lt | .le | .gt | .ge | .eq | .ne | .and | .or | .add | .sub | .mul | .div | .mod => 2
  | .rownumber => 0
  | _ => 1

/-- subclasses of `series.Aggregate` -/
def Op.isAggregate : Op → Bool
  | .count | .avg | .max | .min | .sum => true
  | _ => false

/-- `frame.Join.Kind` -/
inductive JoinKind where
  | inner | left | right | full | cross
  deriving DecidableEq, Repr, Inhabited

def JoinKind.wire : JoinKind → String
  | .inner => "inner" | .left => "left" | .right => "right" | .full => "full" | .cross => "cross"

/-- `frame.Set.Kind` -/
inductive SetKind where
  | union | intersection | difference
  deriving DecidableEq, Repr, Inhabited

def SetKind.wire : SetKind → String
  | .union => "union" | .intersection => "intersection" | .difference => "difference"

/-- `series.Ordering.Direction` -/
inductive Dir where
  | asc | desc
  deriving DecidableEq, Repr, Inhabited

def Dir.wire : Dir → String
  | .asc => "asc" | .desc => "desc"

/-- `frame.Rows(count, offset)` (plain ints; the code does not validate them) -/
abbrev Rows := Int × Int

/-- schema in order: field name and kind (`_struct.Field(kind, name)`) -/
abbrev Fields := List (String × Kind)

/-! ### features and sources (`series.py`, `frame.py`) -/

mutual
/-- `dsl.Feature` -/
inductive Feature where
  | lit (v : Lit)
  | elem (origin : Source) (name : String)
  | alias (f : Feature) (name : String)
  | expr (op : Op) (args : Features)
  | cast (f : Feature) (k : Kind)
  | window (fn : Feature) (partition : Features) (ordering : Orderings)
/-- tuple of features -/
inductive Features where
  | nil
  | cons (f : Feature) (fs : Features)
/-- `Optional[dsl.Feature]` -/
inductive FeatureOpt where
  | none
  | some (f : Feature)
/-- `dsl.Ordering` -/
inductive Ordering where
  | mk (f : Feature) (d : Dir)
/-- tuple of orderings -/
inductive Orderings where
  | nil
  | cons (o : Ordering) (os : Orderings)
/-- `dsl.Source` -/
inductive Source where
  | table (name : String) (fields : Fields)
  | ref (inst : Source) (name : String)
  | join (l r : Source) (kind : JoinKind) (cond : FeatureOpt)
  | set (l r : Source) (kind : SetKind)
  | query (src : Source) (sel : Features) (pre : FeatureOpt) (grp : Features) (post : FeatureOpt)
      (ord : Orderings) (rows : Option Rows)
end

deriving instance DecidableEq, Repr, Inhabited for Feature, Features, FeatureOpt, Ordering, Orderings, Source

/-- the tree handed to the public API, before any validation -/
abbrev RawStmt := Source
/-- a validated statement (what the constructors store) -/
abbrev Stmt := Source

def Features.toList : Features → List Feature
  | .nil => []
  | .cons f fs => f :: fs.toList

def Features.ofList : List Feature → Features
  | [] => .nil
  | f :: fs => .cons f (Features.ofList fs)

def Features.append : Features → Features → Features
  | .nil, ys => ys
  | .cons f fs, ys => .cons f (fs.append ys)

def Features.isEmpty : Features → Bool
  | .nil => true
  | .cons _ _ => false

def Orderings.toList : Orderings → List Ordering
  | .nil => []
  | .cons o os => o :: os.toList

def Orderings.ofList : List Ordering → Orderings
  | [] => .nil
  | o :: os => .cons o (Orderings.ofList os)

def FeatureOpt.toOption : FeatureOpt → Option Feature
  | .none => Option.none
  | .some f => Option.some f

def FeatureOpt.ofOption : Option Feature → FeatureOpt
  | Option.none => .none
  | Option.some f => .some f

def Ordering.feature : Ordering → Feature
  | .mk f _ => f

def Ordering.dir : Ordering → Dir
  | .mk _ d => d

theorem Features.toList_ofList (l : List Feature) : (Features.ofList l).toList = l := by
  induction l with
  | nil => rfl
  | cons f fs ih => simp [Features.ofList, Features.toList, ih]

theorem Orderings.toList_ofList (l : List Ordering) : (Orderings.ofList l).toList = l := by
  induction l with
  | nil => rfl
  | cons f fs ih => simp [Orderings.ofList, Orderings.toList, ih]

theorem Kinds.toList_ofList (l : List Kind) : (Kinds.ofList l).toList = l := by
  induction l with
  | nil => rfl
  | cons f fs ih => simp [Kinds.ofList, Kinds.toList, ih]

/-! ### S-expression decoding / encoding -/

open ForML (Sexp)

/-- `(let ((x e) …) body)`: replace the atoms `$x` of `body`; anything else is returned unchanged. -/
partial def substAtoms (env : List (String × Sexp)) : Sexp → Sexp
  | .atom s => match env.lookup s with
    | some v => v
    | none => .atom s
  | .list xs => .list (xs.map (substAtoms env))

/-- expand a `(let (bindings) body)` line (later bindings may use earlier ones) -/
def expandLet : Sexp → Option Sexp
  | .list [.atom "let", .list bs, body] =>
    let env := bs.foldl (fun (acc : Option (List (String × Sexp))) b =>
      match acc, b with
      | some env, .list [.atom x, e] => some (("$" ++ x, substAtoms env e) :: env)
      | _, _ => none) (some [])
    env.map (fun env => substAtoms env body)
  | x => some x

def Op.ofWire (s : String) : Option Op := Op.all.find? (fun o => o.wire == s)

def JoinKind.ofWire : String → Option JoinKind
  | "inner" => some .inner | "left" => some .left | "right" => some .right | "full" => some .full
  | "cross" => some .cross | _ => none

def SetKind.ofWire : String → Option SetKind
  | "union" => some .union | "intersection" => some .intersection | "difference" => some .difference
  | _ => none

def Dir.ofWire : String → Option Dir
  | "asc" => some .asc | "desc" => some .desc | _ => none

partial def Kind.ofSexp : Sexp → Option Kind
  | .atom "boolean" => some .boolean | .atom "integer" => some .integer | .atom "float" => some .float
  | .atom "decimal" => some .decimal | .atom "string" => some .string | .atom "date" => some .date
  | .atom "timestamp" => some .timestamp
  | .list [.atom "array", e] => (Kind.ofSexp e).map .array
  | .list [.atom "map", k, v] => do pure (.map (← Kind.ofSexp k) (← Kind.ofSexp v))
  | .list (.atom "struct" :: fs) => do
    let pairs ← fs.mapM (fun f => match f with
      | .list [.atom n, k] => (Kind.ofSexp k).map (fun k => (n, k))
      | _ => none)
    pure (.struct (pairs.map (·.1)) (Kinds.ofList (pairs.map (·.2))))
  | _ => none

def Lit.ofSexp : Sexp → Option Lit
  | .list [.atom "int", n] => n.int?.map .int
  | .list [.atom "bool", .atom "true"] => some (.bool true)
  | .list [.atom "bool", .atom "false"] => some (.bool false)
  | .list [.atom "str", .atom s] => some (.str s)
  | .list [.atom "float", .atom s] => some (.float s)
  | _ => none

def fieldsOfSexp : Sexp → Option Fields
  | .list fs => fs.mapM (fun f => match f with
    | .list [.atom n, k] => (Kind.ofSexp k).map (fun k => (n, k))
    | _ => none)
  | _ => none

def rowsOfSexp : Sexp → Option (Option Rows)
  | .atom "none" => some none
  | .list [.atom "rows", c, o] => do pure (some (← c.int?, ← o.int?))
  | _ => none

mutual
partial def Feature.ofSexp : Sexp → Option Feature
  | .list [.atom "lit", v] => (Lit.ofSexp v).map .lit
  | .list [.atom "elem", o, .atom n] => (Source.ofSexp o).map (.elem · n)
  | .list [.atom "alias", f, .atom n] => (Feature.ofSexp f).map (.alias · n)
  | .list (.atom "expr" :: .atom op :: args) => do
    pure (.expr (← Op.ofWire op) (Features.ofList (← args.mapM Feature.ofSexp)))
  | .list [.atom "cast", f, k] => do pure (.cast (← Feature.ofSexp f) (← Kind.ofSexp k))
  | .list [.atom "window", f, .list ps, .list os] => do
    pure (.window (← Feature.ofSexp f) (Features.ofList (← ps.mapM Feature.ofSexp))
      (Orderings.ofList (← os.mapM Ordering.ofSexp)))
  | _ => none
partial def Ordering.ofSexp : Sexp → Option Ordering
  | .list [.atom "ord", f, .atom d] => do pure (.mk (← Feature.ofSexp f) (← Dir.ofWire d))
  | _ => none
partial def FeatureOpt.ofSexp : Sexp → Option FeatureOpt
  | .atom "none" => some .none
  | x => (Feature.ofSexp x).map .some
partial def Source.ofSexp : Sexp → Option Source
  | .list [.atom "table", .atom n, fs] => (fieldsOfSexp fs).map (.table n)
  | .list [.atom "ref", s, .atom n] => (Source.ofSexp s).map (.ref · n)
  | .list [.atom "join", l, r, .atom k, c] => do
    pure (.join (← Source.ofSexp l) (← Source.ofSexp r) (← JoinKind.ofWire k) (← FeatureOpt.ofSexp c))
  | .list [.atom "set", l, r, .atom k] => do
    pure (.set (← Source.ofSexp l) (← Source.ofSexp r) (← SetKind.ofWire k))
  | .list [.atom "query", s, .list sel, pre, .list grp, post, .list ord, rows] => do
    pure (.query (← Source.ofSexp s) (Features.ofList (← sel.mapM Feature.ofSexp)) (← FeatureOpt.ofSexp pre)
      (Features.ofList (← grp.mapM Feature.ofSexp)) (← FeatureOpt.ofSexp post)
      (Orderings.ofList (← ord.mapM Ordering.ofSexp)) (← rowsOfSexp rows))
  | _ => none
end

mutual
def Kind.toSexp : Kind → Sexp
  | .array e => .list [.atom "array", e.toSexp]
  | .map k v => .list [.atom "map", k.toSexp, v.toSexp]
  | .struct ns ks => .list (.atom "struct" :: Kinds.toSexpNamed ns ks)
  | .boolean => .atom "boolean" | .integer => .atom "integer" | .float => .atom "float"
  | .decimal => .atom "decimal" | .string => .atom "string" | .date => .atom "date"
  | .timestamp => .atom "timestamp"
def Kinds.toSexpNamed : List String → Kinds → List Sexp
  | n :: ns, .cons k ks => .list [.atom n, k.toSexp] :: Kinds.toSexpNamed ns ks
  | _, _ => []
end

def Lit.toSexp : Lit → Sexp
  | .int n => .list [.atom "int", Sexp.ofInt n]
  | .bool b => .list [.atom "bool", Sexp.ofBool b]
  | .str s => .list [.atom "str", .atom s]
  | .float s => .list [.atom "float", .atom s]

def fieldsToSexp (fs : Fields) : Sexp := .list (fs.map (fun (n, k) => .list [.atom n, k.toSexp]))

mutual
def Feature.toSexp : Feature → Sexp
  | .lit v => .list [.atom "lit", v.toSexp]
  | .elem o n => .list [.atom "elem", o.toSexp, .atom n]
  | .alias f n => .list [.atom "alias", f.toSexp, .atom n]
  | .expr op args => .list (.atom "expr" :: .atom op.wire :: args.toSexps)
  | .cast f k => .list [.atom "cast", f.toSexp, k.toSexp]
  | .window f ps os => .list [.atom "window", f.toSexp, .list ps.toSexps, .list os.toSexps]
def Features.toSexps : Features → List Sexp
  | .nil => []
  | .cons f fs => f.toSexp :: fs.toSexps
def FeatureOpt.toSexp : FeatureOpt → Sexp
  | .none => .atom "none"
  | .some f => f.toSexp
def Ordering.toSexp : Ordering → Sexp
  | .mk f d => .list [.atom "ord", f.toSexp, .atom d.wire]
def Orderings.toSexps : Orderings → List Sexp
  | .nil => []
  | .cons o os => o.toSexp :: os.toSexps
def Source.toSexp : Source → Sexp
  | .table n fs => .list [.atom "table", .atom n, fieldsToSexp fs]
  | .ref s n => .list [.atom "ref", s.toSexp, .atom n]
  | .join l r k c => .list [.atom "join", l.toSexp, r.toSexp, .atom k.wire, c.toSexp]
  | .set l r k => .list [.atom "set", l.toSexp, r.toSexp, .atom k.wire]
  | .query s sel pre grp post ord rows =>
    .list [.atom "query", s.toSexp, .list sel.toSexps, pre.toSexp, .list grp.toSexps, post.toSexp,
      .list ord.toSexps,
      match rows with
      | none => .atom "none"
      | some (c, o) => .list [.atom "rows", Sexp.ofInt c, Sexp.ofInt o]]
end

end ForML.Dsl
