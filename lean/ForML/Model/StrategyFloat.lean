/-
IEEE-754 binary64 view of `ABTest.Slot.eligible` (`(self.count / total) < self.target`), C17.

Python's `int / int` and `float / float` are correctly rounded (round-to-nearest, ties-to-even) binary64
divisions.  For naturals `0 < a ≤ b` the quotient is a normal number in `[2^-53, 1]`, represented here as
`(m, e)` with `2^52 ≤ m < 2^53` and value `m / 2^e`.  No `Float` is used: the rounding is defined on naturals, so
the agreement with the exact rational comparison of `ForML.Strategy.hitFirst` can be *proved*
(Lemmas/C17Float.lean), and the definition itself is compared with CPython's division on every run.
-/
import ForML.Model.Strategy

namespace ForML.Strategy

/-- least `e' ≥ e` (within `fuel` steps) with `2^52 * b ≤ a * 2^e'` -/
def shiftFrom (a b : Nat) : Nat → Nat → Nat
  | 0, e => e
  | fuel + 1, e => if 2 ^ 52 * b ≤ a * 2 ^ e then e else shiftFrom a b fuel (e + 1)

/-- the exponent that normalises `a / b`: `2^52 ≤ a * 2^e / b < 2^53` -/
def shiftOf (a b : Nat) : Nat := shiftFrom a b (b + 53) 0

/-- nearest integer to `x / b`, ties to even -/
def roundHalfEven (x b : Nat) : Nat :=
  if 2 * (x % b) < b then x / b
  else if b < 2 * (x % b) then x / b + 1
  else if (x / b) % 2 = 0 then x / b
  else x / b + 1

/-- binary64 `a / b` for `0 < a ≤ b`: mantissa and negated exponent -/
def fdiv (a b : Nat) : Nat × Nat :=
  let e := shiftOf a b
  let m := roundHalfEven (a * 2 ^ e) b
  if m = 2 ^ 53 then (2 ^ 52, e - 1) else (m, e)

/-- `x < y` of two such numbers -/
def fLt (x y : Nat × Nat) : Bool := x.1 * 2 ^ y.2 < y.1 * 2 ^ x.2

/-- `Slot.eligible(total)` in binary64: `count / total < target` with `target = w / W` as computed by the
constructor for weights that are exact (integers, dyadic fractions); `0 / total = 0.0 < target`. -/
def fEligible (W n w c : Nat) : Bool := c == 0 || fLt (fdiv c n) (fdiv w W)

def fHitFirst (W n : Nat) : List Slot → Option (List Slot)
  | [] => none
  | (w, c) :: r =>
    if fEligible W n w c then some ((w, c + 1) :: r)
    else (fHitFirst W n r).map ((w, c) :: ·)

def fPickIdx (W n : Nat) : List Slot → Option Nat
  | [] => none
  | (w, c) :: r => if fEligible W n w c then some 0 else (fPickIdx W n r).map (· + 1)

def fstep (s : State) : Option State :=
  match fHitFirst (sumW s.slots) (s.total + 1) s.slots with
  | none => none
  | some sl => some ⟨sl, s.total + 1⟩

/-- the sequence of picked slot indices in binary64 arithmetic -/
def ftraceS (s : State) : Nat → List Nat
  | 0 => []
  | n + 1 =>
    match fPickIdx (sumW s.slots) (s.total + 1) s.slots, fstep s with
    | some i, some s' => i :: ftraceS s' n
    | _, _ => []

def ftrace (ws : List Nat) (n : Nat) : List Nat := ftraceS (init ws) n

end ForML.Strategy
