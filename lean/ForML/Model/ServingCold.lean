/-
C16 — the event-loop thread of the serving engine and the creation of an executor while another one is busy
(finding C16-F2).  A thin layer over `ForML.Model.Serving`; core Lean only.

Anchors:
* `forml/runtime/_service/dispatch.py` `Dealer.__call__` — runs on the event-loop thread; for an instance that has no
  executor yet it loads the project components (`instance.project.source…`), creates `prediction.Executor` —
  `multiprocessing.Manager()` FORKS the manager process out of the multi-threaded engine — starts it and calls
  `Executor.apply`, whose `self._tasks.put(...)` is a synchronous call to that manager process.
* `forml/setup/_importer.py` `_unloaded` / `context` — loading a project component takes `forml.project._component`,
  `forml.project` and `forml` out of `sys.modules` for the duration; when the import under the context raises (an optional
  component such as `evaluation` does not exist) they are never put back.  From then on every thread of the engine that
  unpickles a forml object (every executor thread receiving a `Result`) imports the package `forml` again.
* When the fork happens while such a thread is inside that import, the child inherits `sys.modules['forml']` half
  initialised and its import lock held by a thread that does not exist there: the manager's request handler blocks for
  ever when it unpickles the first `Task`, `put` never returns, and the event loop — the one thread that starts, resumes
  and answers every `Engine.apply` — is gone.

`hazard = true` is the code that exists (`_unloaded` without `finally`), `false` the proposed repair
(fixes/C16-unloaded-restore.diff): the package stays in `sys.modules`, nobody re-imports it.

The layer also carries the life of the executor THREADS, which `ForML.Model.Serving` abstracts away:
* `prediction.py` `Executor.apply` refuses (`RuntimeError('Executor not running')`) only when `self.is_alive()` is false,
  i.e. once the executor thread has left `Executor.run`; between `stopped.set()` (a worker died of a non-platform
  exception) and the thread noticing it (`if self._stopped.is_set(): break`, at the latest after the one-second
  `results.get(timeout=1)`) a task is still ACCEPTED - `pending[index] = future; tasks.put(...)` - although no worker will
  ever take it (`Worker.run`: `while not self._stopped.is_set()`): that caller is neither answered nor refused.
  `exited` lists the instances whose executor thread has left its loop; `lateSubmit` is that acceptance.
  With no fatal request no pool ever stops and none of this is reachable (`crun_inv`).

… and the wrapper's PROCESS POOL, a resource shared by every application:
* `dispatch.py` `Wrapper.respond` runs `Wrapper._pack` (`descriptor.respond`: `get_encoder(*accept)`, encoding) on
  `futures.ProcessPoolExecutor`.  What `_pack` returns or raises travels back pickled; an exception is rebuilt in the
  engine process by calling its class with its `args`.  An error value that does not survive this
  (`Env.transportable e = false`) cannot be delivered: the pool's result handler fails, `concurrent.futures` marks the
  pool broken, the pending calls - the failing one and every other in-flight `respond` - get `BrokenProcessPool`, and so does
  every later `respond` of every application (`submit` raises).  `packBroken` is that state.  The error values of the code
  that exists are plain exceptions with a message (`Encoding.Unsupported(str)`): transportable.
-/
import ForML.Model.Serving
namespace ForML.Serving

/-- the engine: the transition system of `ForML.Model.Serving` plus "the event-loop thread is inside a call that
never returns" -/
structure CState where
  base : State
  blocked : Bool := false
  /-- instances whose executor thread has left `Executor.run` (`is_alive()` is false) -/
  exited : List Nat := []
  /-- the process pool of `Wrapper.respond` is broken -/
  packBroken : Bool := false

def cinit : CState := ⟨init, false, [], false⟩

/-- the environment of the engine: the variant of the component loader (`hazard`, finding C16-F2) and which error
values survive the way back from a pool process -/
structure Env where
  hazard : Bool
  transportable : Err → Bool := fun _ => true

/-- the code that exists, as far as transport goes (every error value is a plain exception with a message) -/
def envOf (hazard : Bool) : Env := { hazard := hazard }

inductive CStep where
  /-- a step of the underlying transition system -/
  | step (a : Step)
  /-- `Dealer.__call__` for caller `c` creates the executor of a not yet served instance while the thread of another,
  running executor has a result to receive (it re-imports `forml` to unpickle it): the forked manager is dead-locked -/
  | wedge (c : Nat)
  /-- the executor thread of instance `i` notices the stop event and leaves its loop -/
  | exit (i : Nat)
  /-- `Executor.apply` for caller `c` on a stopped pool whose executor thread is still alive: the task is accepted -/
  | lateSubmit (c : Nat)
  deriving DecidableEq, Repr

/-- the steps that run on (or hand their outcome to) the event-loop thread: a coroutine of `Engine.apply` is started,
resumed or answered.  Pool threads (`desc`) and worker processes (`take`, `finish`) go on without it. -/
def needsLoop : Step → Bool
  | .arrive _ | .decodeFail _ | .submit _ | .deliver _ | .respond _ => true
  | .desc _ | .take _ _ | .finish _ _ => false

/-- is the hazardous creation of an executor enabled for caller `c`? -/
def wedgeable (cfg : Config) (s : State) (c : Nat) : Bool :=
  let i := cfg.select (spec cfg c).app
  decide (s.phase c = .resolved) && !(spec cfg c).badEncoding && !(s.execs i).started
    && (instsOf cfg).any (fun j => j != i && (s.execs j).started && !(s.execs j).resultQ.isEmpty)

/-- caller `c` is about to be dealt to a pool that has stopped while its executor thread is still alive -/
def lateWindow (cfg : Config) (s : CState) (c : Nat) : Bool :=
  let i := cfg.select (spec cfg c).app
  decide (s.base.phase c = .resolved) && !(spec cfg c).badEncoding && (s.base.execs i).stopped && !s.exited.contains i

/-- `Executor.apply` without the `stopped` test of the underlying model: `pending[index]`, `tasks.put`, `index += 1` -/
def accept (cfg : Config) (s : State) (c : Nat) : State :=
  let i := cfg.select (spec cfg c).app
  let e := s.execs i
  { s with
    phase := upd s.phase c (.submitted i e.next)
    execs := upd s.execs i { e with
      started := true, next := e.next + 1, pending := (e.next, c) :: e.pending,
      taskQ := e.taskQ ++ [⟨e.next, entryOf cfg c⟩] } }

/-- a `submit` of the underlying system (which refuses at once on a stopped pool) that the real engine does not
perform yet: the executor thread is still alive, the task is accepted instead (`lateSubmit`) -/
def lateBlocked (cfg : Config) (s : CState) : Step → Bool
  | .submit c => lateWindow cfg s c
  | _ => false

/-- `Wrapper.respond` for caller `c` through the shared process pool -/
def respondStep (env : Env) (cfg : Config) (s : CState) (c : Nat) : Option CState :=
  match s.base.phase c with
  | .responding o =>
    if s.packBroken then some { s with base := answer s.base c (.error .brokenPool) }
    else match (encode cfg c o).err? with
      | none => some { s with base := answer s.base c (encode cfg c o) }
      | some e =>
        if env.transportable e then some { s with base := answer s.base c (encode cfg c o) }
        else some { s with base := answer s.base c (.error .brokenPool), packBroken := true }
  | _ => none

/-- a step of the underlying system as the engine performs it (`respond` goes through the process pool) -/
def stepVia (env : Env) (cfg : Config) (s : CState) : Step → Option CState
  | .respond c => respondStep env cfg s c
  | a => match step cfg s.base a with
    | none => none
    | some b => some { s with base := b }

def cstep (env : Env) (cfg : Config) (s : CState) : CStep → Option CState
  | .step a =>
    if s.blocked && needsLoop a then none
    else if lateBlocked cfg s a then none
    else stepVia env cfg s a
  | .wedge c =>
    if env.hazard && !s.blocked && wedgeable cfg s.base c then some { s with blocked := true } else none
  | .exit i =>
    if (s.base.execs i).stopped && !s.exited.contains i then some { s with exited := i :: s.exited } else none
  | .lateSubmit c =>
    if !s.blocked && lateWindow cfg s c then some { s with base := accept cfg s.base c } else none

def crun (env : Env) (cfg : Config) (s : CState) : List CStep → Option CState
  | [] => some s
  | a :: as => match cstep env cfg s a with
    | none => none
    | some s' => crun env cfg s' as

/-- the steps of the underlying system a schedule performs -/
def baseSteps : List CStep → List Step
  | [] => []
  | .step a :: as => a :: baseSteps as
  | _ :: as => baseSteps as

def ccandidates (cfg : Config) : List CStep :=
  (candidates cfg (instsOf cfg)).map .step ++ (List.range cfg.callers.length).map .wedge
    ++ (instsOf cfg).map .exit ++ (List.range cfg.callers.length).map .lateSubmit

/-- nothing is enabled any more -/
def cstuck (env : Env) (cfg : Config) (s : CState) : Bool :=
  (ccandidates cfg).all (fun a => (cstep env cfg s a).isNone)

end ForML.Serving
