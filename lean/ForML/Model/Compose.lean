/-
C03 — operator composition: expression → (apply, train, label) task graphs.

Self-contained graph-with-holes model (core Lean only) that is just rich enough for composition:

* a fresh-id state monad `GraphM` (Python: `uuid.uuid4()` for node uids and group gids);
* worker nodes with group ids, `Future` nodes as *holes*;
* apply-port subscriptions as an insertion-ordered edge list keyed by the *subscriber* input port;
  subscribing a `Future` to a publisher is the registration `Future._input[publisher] = 0`
  — connecting = substituting the hole;  `Worker.train(train, label)` appends to `trains`;
* `Segment = (head, tail)`, `Trunk = (apply, train, label)` (forml/flow/_graph/span.py, _suite/assembly.py);
* `Expr` and `expand : Expr → GraphM Trunk` / `compose` mirroring, statement by statement,
  `Compound.compose/expand`, `Origin`, `Operator.expand` (forml/flow/_suite/member.py),
  `wrap.Operator.compose` + `build` (forml/pipeline/wrap/_operator.py),
  `MapReduce.compose` (forml/pipeline/payload/_generic.py), `Dump.compose`/`Sniff.compose`
  (forml/pipeline/payload/_debug.py), `Ensembler.compose` + `FullStack.Builder.build`
  (forml/pipeline/ensemble/_stacking.py) with `Segment.copy` (`Traversal.copy`);
* `eval`: the value (provenance term) published by an output port, a stateful worker taking the state its
  group's trainer produces from the values on its `Train`/`Label` ports.

Refusals modelled as `Err`: double subscription of an input port (for a `Future`: a second registration),
training a stateless worker, training a second member of a group.  The remaining refusals of
`atomic.py`/`port.py` (self subscription, trained node publishing, apply/train collision) and the
tail tracing of `Segment.__new__` are not part of this model (C11 / C01 own them); compositions of the
operator library never trigger them and the harness reports any exception of the real code.
-/
import ForML.Model.Sexp

namespace ForML.Compose

/-- An actor *builder*: `tag` identifies the builder object (`id(builder)` in `wrap.Operator.compose`). -/
structure Actor where
  tag : Nat
  stateful : Bool
  deriving DecidableEq, Repr, Inhabited

/-- Provenance terms (DESIGN §4): what the symbolic actors of the harness compute. -/
inductive Val where
  | none
  | input (n : Nat)
  | hole (uid : Nat)
  | apply (tag : Nat) (state : Val) (args : List Val)
  | state (tag : Nat) (prev : Val) (features labels : Val)
  | proj (i : Nat) (v : Val)
  deriving Inhabited

/-- Output port reference (`node[idx]` as a publisher). -/
structure PubRef where
  node : Nat
  idx : Nat
  deriving DecidableEq, Repr, Inhabited

inductive Kind where
  | worker (gid : Nat) (actor : Actor) (szin szout : Nat)
  | future
  deriving DecidableEq, Repr, Inhabited

structure Node where
  uid : Nat
  kind : Kind
  deriving DecidableEq, Repr, Inhabited

/-- `sub[port].subscribe(pub)`; for a `Future` subscriber this is its `_input` registration. -/
structure Edge where
  sub : Nat
  port : Nat
  pub : PubRef
  deriving DecidableEq, Repr, Inhabited

/-- `node.train(train, label)` of a member of group `gid`. -/
structure Training where
  gid : Nat
  node : Nat
  actor : Actor
  train : PubRef
  label : PubRef
  deriving DecidableEq, Repr, Inhabited

structure Graph where
  next : Nat := 0
  nodes : List Node := []
  edges : List Edge := []
  trains : List Training := []
  deriving Repr, Inhabited

inductive Err where
  | doubleSubscription
  | statelessTrain
  | forkTrainCollision
  | noNode
  deriving DecidableEq, Repr, Inhabited

namespace Graph

def kindOf (g : Graph) (uid : Nat) : Option Kind :=
  (g.nodes.find? (fun n => n.uid == uid)).map (·.kind)

/-- publisher feeding input port `port` of `sub` (for a `Future`: its registered publisher) -/
def inputOf (g : Graph) (sub port : Nat) : Option PubRef :=
  (g.edges.find? (fun e => e.sub == sub && e.port == port)).map (·.pub)

/-- the trained member of group `gid` (at most one: `Worker.train` refuses a second) -/
def trainerOf (g : Graph) (gid : Nat) : Option Training :=
  g.trains.find? (fun t => t.gid == gid)

end Graph

/-! ### the construction monad -/

def GraphM (α : Type) : Type := Graph → Except Err (α × Graph)

namespace GraphM

@[inline] protected def pure (a : α) : GraphM α := fun g => .ok (a, g)

@[inline] protected def bind (m : GraphM α) (f : α → GraphM β) : GraphM β := fun g =>
  match m g with
  | .ok (a, g') => f a g'
  | .error e => .error e

instance : Monad GraphM where
  pure := GraphM.pure
  bind := GraphM.bind

def fail (e : Err) : GraphM α := fun _ => .error e

def get : GraphM Graph := fun g => .ok (g, g)

end GraphM

/-- worker handle (the Python object: uid + its group + shape) -/
structure WRef where
  uid : Nat
  gid : Nat
  actor : Actor
  szin : Nat
  szout : Nat
  deriving DecidableEq, Repr, Inhabited

/-- `uuid.uuid4()` -/
def fresh : GraphM Nat := fun g => .ok (g.next, { g with next := g.next + 1 })

def addNode (n : Node) : GraphM Unit := fun g => .ok ((), { g with nodes := g.nodes ++ [n] })

/-- `flow.Worker(builder, szin, szout)`: a new node in a new group (`Node.__init__` draws the uid, then
`Worker.Group.__init__` the gid). -/
def newWorker (a : Actor) (szin szout : Nat) : GraphM WRef := do
  let uid ← fresh
  let gid ← fresh
  addNode ⟨uid, .worker gid a szin szout⟩
  pure ⟨uid, gid, a, szin, szout⟩

/-- `worker.fork()`: same group, actor and shape, no subscriptions. -/
def fork (w : WRef) : GraphM WRef := do
  let uid ← fresh
  addNode ⟨uid, .worker w.gid w.actor w.szin w.szout⟩
  pure { w with uid := uid }

/-- `flow.Future()` (always 1:1 here) -/
def newFuture : GraphM Nat := do
  let uid ← fresh
  addNode ⟨uid, .future⟩
  pure uid

/-- `sub[port].subscribe(pub)`; `Subscription.__new__` refuses a port that is already subscribed
(a `Future` accepts one registration here). -/
def subscribe (sub port : Nat) (pub : PubRef) : GraphM Unit := fun g =>
  match g.inputOf sub port with
  | some _ => .error .doubleSubscription
  | none => .ok ((), { g with edges := g.edges ++ [⟨sub, port, pub⟩] })

/-- `worker.train(train, label)` -/
def train (w : WRef) (tr lb : PubRef) : GraphM Unit := fun g =>
  if !w.actor.stateful then .error .statelessTrain
  else match g.trainerOf w.gid with
    | some _ => .error .forkTrainCollision
    | none => .ok ((), { g with trains := g.trains ++ [⟨w.gid, w.uid, w.actor, tr, lb⟩] })

/-- `worker.derived`: stateful and some *other* member of the group is trained -/
def derived (w : WRef) : GraphM Bool := fun g =>
  .ok (w.actor.stateful && g.trains.any (fun t => t.gid == w.gid && t.node != w.uid), g)

/-! ### segments and trunks -/

structure Segment where
  head : Nat
  tail : Nat
  deriving DecidableEq, Repr, Inhabited

structure Trunk where
  apply : Segment
  train : Segment
  label : Segment
  deriving DecidableEq, Repr, Inhabited

namespace Segment

/-- `Segment(node)` of a node nothing (but trainers) is subscribed to: the tail is the node itself -/
def ofNode (uid : Nat) : Segment := ⟨uid, uid⟩

/-- `segment.publisher` = `tail[0]` -/
def publisher (s : Segment) : PubRef := ⟨s.tail, 0⟩

/-- `segment.subscribe(publisher)` = `head[0].subscribe(publisher)` -/
def subscribeTo (s : Segment) (pub : PubRef) : GraphM Unit := subscribe s.head 0 pub

/-- `segment.extend(right)`: `right.subscribe(self.publisher)`, the new tail is `right`'s -/
def extend (s right : Segment) : GraphM Segment := do
  right.subscribeTo s.publisher
  pure ⟨s.head, right.tail⟩

/-- `segment.extend(tail=node)` -/
def extendTail (s : Segment) (tail : Nat) : Segment := ⟨s.head, tail⟩

end Segment

namespace Trunk

/-- `assembly.Trunk()`: three `Future`s (apply, train, label — the order of `init` calls) -/
def new : GraphM Trunk := do
  let a ← newFuture
  let t ← newFuture
  let l ← newFuture
  pure ⟨.ofNode a, .ofNode t, .ofNode l⟩

def extendOpt (s : Segment) : Option Segment → GraphM Segment
  | some r => s.extend r
  | none => pure s

/-- `trunk.extend(apply, train, label)` (evaluated in this order) -/
def extend (t : Trunk) (apply train label : Option Segment) : GraphM Trunk := do
  let a ← extendOpt t.apply apply
  let tr ← extendOpt t.train train
  let l ← extendOpt t.label label
  pure ⟨a, tr, l⟩

/-- `trunk.use(apply, train, label)`: a supplied segment replaces ours; an omitted one is kept as it is -/
def use (t : Trunk) (apply train label : Option Segment) : Trunk :=
  ⟨apply.getD t.apply, train.getD t.train, label.getD t.label⟩

/-- `trunk.extend(*other)` of `Compound.compose` / `Composition.__new__` -/
def extendTrunk (t other : Trunk) : GraphM Trunk :=
  t.extend (some other.apply) (some other.train) (some other.label)

end Trunk

/-! ### expressions -/

/-- the three segments of a trunk -/
inductive Path where
  | apply | train | label
  deriving DecidableEq, Repr, Inhabited

/-- operators written by a user against the public composition API (`flow.Operator.compose(scope)` using
`scope.expand()`, `flow.Worker`, `flow.Future`, `flow.Segment`, `Trunk.extend` / `Trunk.use`) the way user code does:
* `extend a t l viaUse`: a fresh stateless 1:1 worker on every *supplied* path, `left.extend(apply=…, train=…, label=…)`
  with the others omitted (`viaUse`: `left.use(path=left.path.extend(worker), …)` instead);
* `labelMix tag`: labels rewritten from the train-mode features — a 2:1 worker fed from the label path and, as an
  untrained side branch, from the tail of the train path; `left.extend(label=Segment(head, mixer))`, the train segment
  is not supplied;
* `monitor a`: a trained side branch (a worker trained on the train / label tails), the trunk returned as it is;
* `tee tag`: an untrained side branch hanging on the tail of the train segment (a sink), the trunk returned as it is. -/
inductive ApiOp where
  | extend (app trn lab : Option Nat) (viaUse : Bool)
  | labelMix (tag : Nat)
  | monitor (a : Actor)
  | tee (tag : Nat)
  deriving Repr, Inhabited

inductive Expr where
  /-- `wrap.Operator` with its `Label`, `Apply`, `Train` builders (mapper: apply = train) -/
  | wrap (label apply train : Option Actor)
  /-- `payload.MapReduce(*mappers, reducer)` -/
  | mapreduce (mappers : List Actor) (reducer : Nat)
  /-- `payload.Dump(apply, train)` / `payload.Sniff`: transparent on the train path -/
  | debug (apply train : Actor)
  /-- `ensemble.FullStack(*bases, splitter, nsplits, appender, stacker, reducer)` -/
  | stack (bases : List Expr) (nsplits : Nat) (splitter appender stacker reducer : Nat)
  /-- `left >> right` -/
  | seq (left right : Expr)
  /-- an operator written against the public composition API -/
  | api (op : ApiOp)
  deriving Repr, Inhabited

/-! ### wrap.Operator.compose -/

/-- `build(builder)` of `wrap.Operator.compose`; `groups` is the local dict `id(builder) ↦ Worker`. -/
def build (groups : List (Nat × WRef)) (a : Actor) (leftTrain labelPub : PubRef) :
    GraphM (WRef × List (Nat × WRef)) := do
  -- groups.setdefault(id(builder), flowmod.Worker(builder.update(...), 1, 1)): the default is built eagerly
  let w0 ← newWorker a 1 1
  let (proto, groups') := match groups.lookup a.tag with
    | some p => (p, groups)
    | none => (w0, groups ++ [(a.tag, w0)])
  let worker ← fork proto
  -- if worker.stateful and not worker.derived: worker.fork().train(left.train.publisher, label_publisher)
  let d ← derived worker
  if worker.actor.stateful && !d then
    let t ← fork worker
    train t leftTrain labelPub
  pure (worker, groups')

def buildOpt (groups : List (Nat × WRef)) (slot : Option Actor) (leftTrain labelPub : PubRef) :
    GraphM (Option WRef × List (Nat × WRef)) :=
  match slot with
  | some a => do
    let (w, gs) ← build groups a leftTrain labelPub
    pure (some w, gs)
  | none => pure (none, groups)

def composeWrap (lab app trn : Option Actor) (scope : GraphM Trunk) : GraphM Trunk := do
  let left ← scope
  -- if self.Label: label = build(self.Label); label_publisher = label[0]
  let (label, groups) ← buildOpt [] lab left.train.publisher left.label.publisher
  let labelPub : PubRef := match label with
    | some w => ⟨w.uid, 0⟩
    | none => left.label.publisher
  let (apply, groups) ← buildOpt groups app left.train.publisher labelPub
  let (train, _) ← buildOpt groups trn left.train.publisher labelPub
  left.extend (apply.map (Segment.ofNode ·.uid)) (train.map (Segment.ofNode ·.uid)) (label.map (Segment.ofNode ·.uid))

/-! ### payload.MapReduce.compose -/

def mapReduceLoop (left : Trunk) (applyReducer trainReducer : WRef) : Nat → List Actor → GraphM Unit
  | _, [] => pure ()
  | idx, mapper :: rest => do
    let applyApplier ← newWorker mapper 1 1
    subscribe applyApplier.uid 0 left.apply.publisher
    let trainApplier ← fork applyApplier
    subscribe trainApplier.uid 0 left.train.publisher
    if mapper.stateful then
      let trainTrainer ← fork applyApplier
      train trainTrainer left.train.publisher left.label.publisher
    subscribe applyReducer.uid idx ⟨applyApplier.uid, 0⟩
    subscribe trainReducer.uid idx ⟨trainApplier.uid, 0⟩
    mapReduceLoop left applyReducer trainReducer (idx + 1) rest

def composeMapReduce (mappers : List Actor) (reducer : Nat) (scope : GraphM Trunk) : GraphM Trunk := do
  let left ← scope
  let applyReducer ← newWorker ⟨reducer, false⟩ mappers.length 1
  let trainReducer ← fork applyReducer
  mapReduceLoop left applyReducer trainReducer 0 mappers
  -- left.use(apply=left.apply.extend(tail=apply_reducer), train=left.train.extend(tail=train_reducer))
  pure ⟨left.apply.extendTail applyReducer.uid, left.train.extendTail trainReducer.uid, left.label⟩

/-! ### payload.Dump.compose / payload.Sniff.compose -/

def composeDebug (a t : Actor) (scope : GraphM Trunk) : GraphM Trunk := do
  let left ← scope
  let apply ← newWorker a 1 1
  let trainW ← newWorker t 1 1
  train trainW left.train.publisher left.label.publisher
  left.extend (some (.ofNode apply.uid)) none none

/-! ### operators written against the public composition API -/

namespace Trunk

def seg (t : Trunk) : Path → Segment
  | .apply => t.apply
  | .train => t.train
  | .label => t.label

end Trunk

/-- one path extended by a fresh stateless 1:1 worker: `left.extend(<path>=worker)` — the two other segments are
omitted and kept as they are, tails included — or `left.use(<path>=left.<path>.extend(worker))` -/
def apiUnary (p : Path) (viaUse : Bool) (tag : Nat) (left : Trunk) : GraphM Trunk := do
  let w ← newWorker ⟨tag, false⟩ 1 1
  let seg := Segment.ofNode w.uid
  if viaUse then
    let s ← (left.seg p).extend seg
    match p with
    | .apply => pure (left.use (some s) none none)
    | .train => pure (left.use none (some s) none)
    | .label => pure (left.use none none (some s))
  else
    match p with
    | .apply => left.extend (some seg) none none
    | .train => left.extend none (some seg) none
    | .label => left.extend none none (some seg)

def apiUnaryOpt (p : Path) (viaUse : Bool) : Option Nat → Trunk → GraphM Trunk
  | none, left => pure left
  | some tag, left => apiUnary p viaUse tag left

/-- (the workers of one `extend(apply=…, train=…, label=…)` call are created and subscribed path by path: the order in
which one statement draws its uids is not observable) -/
def composeApi : ApiOp → GraphM Trunk → GraphM Trunk
  | .extend oa ot ol viaUse, scope => do
    let left ← scope
    let l1 ← apiUnaryOpt .apply viaUse oa left
    let l2 ← apiUnaryOpt .train viaUse ot l1
    apiUnaryOpt .label viaUse ol l2
  | .labelMix tag, scope => do
    let left ← scope
    let head ← newFuture
    let mixer ← newWorker ⟨tag, false⟩ 2 1
    subscribe mixer.uid 0 ⟨head, 0⟩
    subscribe mixer.uid 1 left.train.publisher
    left.extend none none (some ⟨head, mixer.uid⟩)
  | .monitor a, scope => do
    let left ← scope
    let w ← newWorker a 1 1
    train w left.train.publisher left.label.publisher
    pure left
  | .tee tag, scope => do
    let left ← scope
    let w ← newWorker ⟨tag, false⟩ 1 1
    subscribe w.uid 0 left.train.publisher
    pure left

/-! ### Segment.copy (Traversal.copy) -/

namespace Graph

def successors (g : Graph) (u : Nat) : List Nat :=
  (g.edges.filter (fun e => e.pub.node == u)).map (·.sub)

def predecessors (g : Graph) (u : Nat) : List Nat :=
  (g.edges.filter (fun e => e.sub == u)).map (·.pub.node)

/-- breadth-first closure, `fuel` rounds -/
def closure (step : Nat → List Nat) : Nat → List Nat → List Nat → List Nat
  | 0, _, seen => seen
  | fuel + 1, frontier, seen =>
    let new := (frontier.flatMap step).eraseDups.filter (fun u => !seen.contains u)
    if new.isEmpty then seen else closure step fuel new (seen ++ new)

/-- nodes on some path `head ⇝ tail` along apply subscriptions (trained nodes publish nothing, so they are
never on such a path: this is the `mappers` mask of `Traversal.copy`) -/
def between (g : Graph) (head tail : Nat) : List Nat :=
  let down := closure g.successors (g.next + 1) [head] [head]
  let up := closure g.predecessors (g.next + 1) [tail] [tail]
  (g.nodes.map (·.uid)).filter (fun u => down.contains u && up.contains u)

end Graph

def forkNode (n : Node) : GraphM Nat :=
  match n.kind with
  | .future => newFuture
  | .worker gid a szin szout => do
    let w ← fork ⟨n.uid, gid, a, szin, szout⟩
    pure w.uid

def copyNodes : List Node → GraphM (List (Nat × Nat))
  | [] => pure []
  | n :: rest => do
    let c ← forkNode n
    let m ← copyNodes rest
    pure ((n.uid, c) :: m)

def copyEdges (copies : List (Nat × Nat)) : List Edge → GraphM Unit
  | [] => pure ()
  | e :: rest => do
    match copies.lookup e.sub, copies.lookup e.pub.node with
    | some s, some p => subscribe s e.port ⟨p, e.pub.idx⟩
    | _, _ => pure ()
    copyEdges copies rest

/-- `segment.copy()`: forks of all members between head and tail (same groups), internal edges re-created -/
def copySegment (s : Segment) : GraphM Segment := do
  let g ← GraphM.get
  let members := g.between s.head s.tail
  let copies ← copyNodes (g.nodes.filter (fun n => members.contains n.uid))
  copyEdges copies g.edges
  match copies.lookup s.head, copies.lookup s.tail with
  | some h, some t => pure ⟨h, t⟩
  | _, _ => GraphM.fail .noNode

/-! ### ensemble.Ensembler.compose + FullStack.Builder.build -/

/-- `Fold(train_apply, train_train, train_label, test_train, test_label)` -/
structure Fold where
  trainApply : PubRef
  trainTrain : PubRef
  trainLabel : PubRef
  testTrain : PubRef
  testLabel : PubRef
  deriving Repr, Inhabited

def foldsLoop (scope : GraphM Trunk) (head : Trunk) (featureFolds labelFolds : WRef) :
    Nat → Nat → GraphM (List Fold)
  | 0, _ => pure []
  | remaining + 1, fid => do
    let pf ← scope
    pf.train.subscribeTo ⟨featureFolds.uid, 2 * fid⟩
    pf.label.subscribeTo ⟨labelFolds.uid, 2 * fid⟩
    pf.apply.subscribeTo head.apply.publisher
    let test ← copySegment pf.apply
    test.subscribeTo ⟨featureFolds.uid, 2 * fid + 1⟩
    let fold : Fold := ⟨pf.apply.publisher, pf.train.publisher, pf.label.publisher, test.publisher,
      ⟨labelFolds.uid, 2 * fid + 1⟩⟩
    let rest ← foldsLoop scope head featureFolds labelFolds remaining (fid + 1)
    pure (fold :: rest)

def subscribeLabels (labelOutput : WRef) : Nat → List Fold → GraphM Unit
  | _, [] => pure ()
  | i, f :: rest => do
    subscribe labelOutput.uid i f.testLabel
    subscribeLabels labelOutput (i + 1) rest

def baseFoldsLoop (base : GraphM Trunk) (stacker reducer : WRef) : Nat → List Fold → GraphM Unit
  | _, [] => pure ()
  | i, f :: rest => do
    let bf ← base
    let foldApply ← copySegment bf.apply
    -- pipeline_fold.publish(base_fold.apply, base_fold.train, base_fold.label, fold_apply)
    bf.apply.subscribeTo f.trainApply
    bf.train.subscribeTo f.trainTrain
    bf.label.subscribeTo f.trainLabel
    foldApply.subscribeTo f.testTrain
    subscribe stacker.uid i foldApply.publisher
    subscribe reducer.uid i bf.apply.publisher
    baseFoldsLoop base stacker reducer (i + 1) rest

/-- `Worker.fgen`: the first call creates the group, later ones fork it -/
def fgenNext (proto : Option WRef) (a : Actor) (szin szout : Nat) : GraphM WRef :=
  match proto with
  | none => newWorker a szin szout
  | some p => fork p

def basesLoop (folds : List Fold) (stackerA reducerA : Actor) (trainOutput applyOutput : WRef) :
    Nat → Option WRef → Option WRef → List (GraphM Trunk) → GraphM Unit
  | _, _, _, [] => pure ()
  | i, sp, rp, base :: rest => do
    let stacker ← fgenNext sp stackerA folds.length 1
    let reducer ← fgenNext rp reducerA folds.length 1
    subscribe trainOutput.uid i ⟨stacker.uid, 0⟩
    subscribe applyOutput.uid i ⟨reducer.uid, 0⟩
    baseFoldsLoop base stacker reducer 0 folds
    basesLoop folds stackerA reducerA trainOutput applyOutput (i + 1)
      (some (sp.getD stacker)) (some (rp.getD reducer)) rest

def composeStack (bases : List (GraphM Trunk)) (nsplits splitter appender stacker reducer : Nat)
    (scope : GraphM Trunk) : GraphM Trunk := do
  let head ← Trunk.new
  let inputSplitter ← newWorker ⟨splitter, true⟩ 1 (2 * nsplits)
  train inputSplitter head.train.publisher head.label.publisher
  let featureFolds ← fork inputSplitter
  subscribe featureFolds.uid 0 head.train.publisher
  let labelFolds ← fork inputSplitter
  subscribe labelFolds.uid 0 head.label.publisher
  let folds ← foldsLoop scope head featureFolds labelFolds nsplits 0
  -- FullStack.Builder.build
  let labelOutput ← newWorker ⟨stacker, false⟩ nsplits 1
  let trainOutput ← newWorker ⟨appender, false⟩ bases.length 1
  let applyOutput ← fork trainOutput
  subscribeLabels labelOutput 0 folds
  basesLoop folds ⟨stacker, false⟩ ⟨reducer, false⟩ trainOutput applyOutput 0 none none bases
  pure ⟨head.apply.extendTail applyOutput.uid, head.train.extendTail trainOutput.uid,
    head.label.extendTail labelOutput.uid⟩

/-! ### Compound / Operator / Origin -/

mutual
  /-- `composable.expand()`: `Compound.expand = right.compose(left)`, `Operator.expand = self.compose(Origin())`
  with `Origin.expand() = Trunk()` -/
  def expand : Expr → GraphM Trunk
    | .seq l r => compose r (expand l)
    | .wrap lab app trn => composeWrap lab app trn Trunk.new
    | .mapreduce ms r => composeMapReduce ms r Trunk.new
    | .debug a t => composeDebug a t Trunk.new
    | .stack bases n s a k r => composeStack (expandAll bases) n s a k r Trunk.new
    | .api op => composeApi op Trunk.new

  /-- `composable.compose(scope)`; `scope` is the unexpanded left side, passed as its `expand` action so that an
  operator can expand it as many times as it needs.
  `Compound.compose(scope) = scope.expand().extend(*self.expand())` -/
  def compose : Expr → GraphM Trunk → GraphM Trunk
    | .seq l r, scope => do
      let s ← scope
      let t ← compose r (expand l)
      s.extendTrunk t
    | .wrap lab app trn, scope => composeWrap lab app trn scope
    | .mapreduce ms r, scope => composeMapReduce ms r scope
    | .debug a t, scope => composeDebug a t scope
    | .stack bases n s a k r, scope => composeStack (expandAll bases) n s a k r scope
    | .api op, scope => composeApi op scope

  def expandAll : List Expr → List (GraphM Trunk)
    | [] => []
    | b :: bs => expand b :: expandAll bs
end

/-! ### evaluation -/

/-- state handed to a member of group `gid`: what the group's trainer computes from its `Train`/`Label`
inputs; a stateful worker of a group nobody trains runs on its initial state (`none`) -/
def stateOf (g : Graph) (ev : PubRef → Option Val) (gid : Nat) (a : Actor) : Option Val :=
  if a.stateful then
    match g.trainerOf gid with
    | none => some .none
    | some t =>
      match ev t.train, ev t.label with
      | some x, some y => some (.state a.tag .none x y)
      | _, _ => Option.none
  else some .none

/-- Value published by an output port. `ρ` interprets the holes (unregistered `Future`s). -/
def eval (g : Graph) (ρ : Nat → Val) : Nat → PubRef → Option Val
  | 0, _ => none
  | fuel + 1, p =>
    match g.kindOf p.node with
    | none => none
    | some .future =>
      match g.inputOf p.node 0 with
      | none => some (ρ p.node)
      | some q => eval g ρ fuel q
    | some (.worker gid a szin szout) =>
      match (List.range szin).mapM (fun k => (g.inputOf p.node k).bind (eval g ρ fuel)),
            stateOf g (eval g ρ fuel) gid a with
      | some args, some st =>
        let out := Val.apply a.tag st args
        some (if szout == 1 then out else .proj p.idx out)
      | _, _ => none

/-- the states the trainers produce, in training order: (actor tag, state term) -/
def trainedStates (g : Graph) (ρ : Nat → Val) (fuel : Nat) (ts : List Training) : Option (List (Nat × Val)) :=
  ts.mapM (fun t =>
    match eval g ρ fuel t.train, eval g ρ fuel t.label with
    | some x, some y => some (t.actor.tag, Val.state t.actor.tag .none x y)
    | _, _ => none)

/-- enough fuel for any acyclic graph: every step moves to another node -/
def Graph.fuel (g : Graph) : Nat := g.next + 2

/-- the environment of a run: the three heads carry the source's outputs -/
def inputs (t : Trunk) (u : Nat) : Val :=
  if u == t.apply.head then .input 0
  else if u == t.train.head then .input 1
  else if u == t.label.head then .input 2
  else .hole u

structure Outcome where
  apply : Option Val
  train : Option Val
  label : Option Val
  states : Option (List (Nat × Val))
  graph : Graph
  trunk : Trunk

/-- expand from the empty graph and evaluate the three tails -/
def run (e : Expr) : Except Err Outcome :=
  match expand e {} with
  | .error err => .error err
  | .ok (t, g) =>
    let ρ := inputs t
    .ok ⟨eval g ρ g.fuel t.apply.publisher, eval g ρ g.fuel t.train.publisher, eval g ρ g.fuel t.label.publisher,
      trainedStates g ρ g.fuel g.trains, g, t⟩

end ForML.Compose
