/-
C18 — which module a project component is loaded from, and what of a source tree an installed package keeps
(core Lean only; names are lists of code points).

Mirrors
  * forml/project/_body.py `Components.load(package, path, **modules)`:
        package = f'{package.rstrip(".")}.' if package else ''
        name = modules.get(component) or component
        if not name.startswith(package): name = package + name
    (a name is absolute exactly when it starts with the package name *and the separating dot*), for the three components
    `source`, `pipeline`, `evaluation`; any other key of the module map is an `UnexpectedError`;
  * forml/project/_distribution.py `Package.create` / `writeall` / `valid`: an item of the tree enters the archive unless
    its name is `__pycache__`, its `Path.suffix` is `.dist-info`, or it is the root-level `__4ml__.py`; directories are
    descended, only files are written (no directory entries); the manifest is written first as `__4ml__.py`;
  * `Package.install`: all member names match `\.py[co]?$` → the archive is copied (zip-safe), otherwise extracted;
  * the Python import system as far as component identity goes: `import a.b.c` below a root finds directory `a` with
    `__init__.py`, in it directory `b` with `__init__.py`, in it the package `c/__init__.py` or else the module `c.py`.
-/
namespace ForML.Load

/-! ### `Components.load`: relative and absolute module names -/

/-- `str.startswith` -/
def startsWith : List Nat → List Nat → Bool
  | _, [] => true
  | [], _ :: _ => false
  | c :: r, p :: ps => c == p && startsWith r ps

/-- `str.rstrip('.')` -/
def rstripDots (s : List Nat) : List Nat := (s.reverse.dropWhile (· == 46)).reverse

/-- `f'{package.rstrip(".")}.' if package else ''` -/
def pkgPrefix (package : List Nat) : List Nat := if package.isEmpty then [] else rstripDots package ++ [46]

def lookup (k : List Nat) : List (List Nat × List Nat) → Option (List Nat)
  | [] => none
  | (k', v) :: r => if k' == k then some v else lookup k r

/-- `modules.get(component) or component` -/
def chosen (modules : List (List Nat × List Nat)) (component : List Nat) : List Nat :=
  match lookup component modules with
  | some v => if v.isEmpty then component else v
  | none => component

/-- the absolute module name imported for a component -/
def resolve (package : List Nat) (modules : List (List Nat × List Nat)) (component : List Nat) : List Nat :=
  if startsWith (chosen modules component) (pkgPrefix package) then chosen modules component
  else pkgPrefix package ++ chosen modules component

/-- `Components._fields` -/
def components : List (List Nat) :=
  [[115, 111, 117, 114, 99, 101], [112, 105, 112, 101, 108, 105, 110, 101], [101, 118, 97, 108, 117, 97, 116, 105, 111, 110]]

inductive LoadErr where
  | unexpected   -- `forml.UnexpectedError('Unexpected project component')`
  deriving DecidableEq, Repr

/-- the module names `Components.load` imports, in the order of `Components._fields` -/
def load (package : List Nat) (modules : List (List Nat × List Nat)) : Except LoadErr (List (List Nat)) :=
  if modules.any (fun kv => !components.contains kv.1) then .error .unexpected
  else .ok (components.map (resolve package modules))

/-- `str.split('.')` -/
def splitDots : List Nat → List (List Nat)
  | [] => [[]]
  | c :: r =>
    if c == 46 then [] :: splitDots r
    else
      match splitDots r with
      | [] => [[c]]
      | s :: ss => (c :: s) :: ss

/-! ### source trees and what `Package.create` archives -/

inductive Node where
  | file (name : List Nat)
  | dir (name : List Nat) (children : List Node)
  deriving Repr

/-- `__pycache__` -/
def pycache : List Nat := [95, 95, 112, 121, 99, 97, 99, 104, 101, 95, 95]
/-- `.dist-info` -/
def distInfo : List Nat := [46, 100, 105, 115, 116, 45, 105, 110, 102, 111]
/-- `__4ml__.py` -/
def descriptor : List Nat := [95, 95, 52, 109, 108, 95, 95, 46, 112, 121]
/-- `__init__.py` -/
def initPy : List Nat := [95, 95, 105, 110, 105, 116, 95, 95, 46, 112, 121]
/-- `.py` -/
def dotPy : List Nat := [46, 112, 121]

def endsWith (s suf : List Nat) : Bool := startsWith s.reverse suf.reverse

/-- `valid(target)`: `file.name != '__pycache__' and file.suffix != '.dist-info' and file != descriptor`
(`Path.suffix` is the part from the last dot when that dot is neither first nor last: a name has suffix `.dist-info`
exactly when it ends with it and is longer) -/
def validName (atRoot : Bool) (n : List Nat) : Bool :=
  n != pycache && !(endsWith n distInfo && decide (n.length > 10)) && !(atRoot && n == descriptor)

mutual
/-- what `writeall` keeps of one item -/
def packNode (atRoot : Bool) : Node → List Node
  | .file n => if validName atRoot n then [.file n] else []
  | .dir n cs => if validName atRoot n then [.dir n (packList false cs)] else []
def packList (atRoot : Bool) : List Node → List Node
  | [] => []
  | c :: cs => packNode atRoot c ++ packList atRoot cs
end

mutual
/-- relative paths (`/`-joined) of the files of a tree -/
def filesNode (pfx : List Nat) : Node → List (List Nat)
  | .file n => [pfx ++ n]
  | .dir n cs => filesList (pfx ++ n ++ [47]) cs
def filesList (pfx : List Nat) : List Node → List (List Nat)
  | [] => []
  | c :: cs => filesNode pfx c ++ filesList pfx cs
end

/-- archive member names of `Package.create(source, …)`: the manifest first, then the tree -/
def archive (root : List Node) : List (List Nat) := descriptor :: filesList [] (packList true root)

/-- `PYSFX = re.compile(r'\.py[co]?$')` -/
def pySuffix (n : List Nat) : Bool := endsWith n dotPy || endsWith n (dotPy ++ [99]) || endsWith n (dotPy ++ [111])

/-- `install`: zip-safe archives are copied as a file, others are extracted -/
def zipSafe (names : List (List Nat)) : Bool := names.all pySuffix

/-- the tree an installed zip-based package offers to the import system -/
def installed (root : List Node) : List Node := .file descriptor :: packList true root

/-! ### finding a module below a root -/

def findFile (n : List Nat) : List Node → Bool
  | [] => false
  | .file m :: r => m == n || findFile n r
  | .dir _ _ :: r => findFile n r

def findDir (n : List Nat) : List Node → Option (List Node)
  | [] => none
  | .file _ :: r => findDir n r
  | .dir m cs :: r => if m == n then some cs else findDir n r

inductive Found where
  | package    -- `…/c/__init__.py`
  | module     -- `…/c.py`
  | nothing
  deriving DecidableEq, Repr

/-- the leaf of a dotted name inside a directory listing -/
def locateLeaf (ns : List Node) (c : List Nat) : Found :=
  match findDir c ns with
  | some cs => if findFile initPy cs then .package else if findFile (c ++ dotPy) ns then .module else .nothing
  | none => if findFile (c ++ dotPy) ns then .module else .nothing

/-- `import a.b.c` below the listing `ns` (regular packages only) -/
def locate : List Node → List (List Nat) → Found
  | _, [] => .nothing
  | ns, [c] => locateLeaf ns c
  | ns, a :: b :: rest =>
    match findDir a ns with
    | some cs => if findFile initPy cs then locate cs (b :: rest) else .nothing
    | none => .nothing

/-- the names an import of these segments looks at are all kept by `Package.create` -/
def segsOk : Bool → List (List Nat) → Bool
  | _, [] => true
  | r, [c] => validName r c && validName r (c ++ dotPy)
  | r, a :: b :: rest => validName r a && segsOk false (b :: rest)

end ForML.Load
