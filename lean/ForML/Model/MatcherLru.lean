/-
C09, round 5: the eviction of `functools.lru_cache` on `Importer.match` (`@functools.lru_cache` without arguments:
`maxsize = 128`, least recently used entry dropped when full; a hit refreshes its entry; an exception is not remembered).
The unbounded memo of `Matcher.lean` (`memoStep`) is the instance `maxsize = None`.  Core Lean only.
-/
import ForML.Model.Matcher

namespace ForML.Matcher

open ForML.Dsl

/-- one call through `lru_cache(maxsize = n)`; the table is kept most recently used first.  Hit: the remembered answer,
its entry moves to the front.  Miss: `f` is evaluated, a result is put in front and the table cut back to `n` entries
(the least recently used one falls out; with `n = 0` nothing is ever kept), an exception leaves the table alone. -/
def lruStep {κ ε α : Type} [DecidableEq κ] (n : Nat) (key : Source → κ) (f : Source → Except ε α) (c : Memo κ α)
    (s : Source) : Except ε α × Memo κ α :=
  match c.find? (fun p => decide (p.1 = key s)) with
  | some p => (.ok p.2, p :: c.eraseP (fun q => decide (q.1 = key s)))
  | none =>
    match f s with
    | .ok a => (.ok a, ((key s, a) :: c).take n)
    | .error e => (.error e, c)

def lruSeqFrom {κ ε α : Type} [DecidableEq κ] (n : Nat) (key : Source → κ) (f : Source → Except ε α) :
    Memo κ α → List Source → List (Except ε α)
  | _, [] => []
  | c, s :: ss => (lruStep n key f c s).1 :: lruSeqFrom n key f (lruStep n key f c s).2 ss

/-- the table after a request history -/
def lruStateFrom {κ ε α : Type} [DecidableEq κ] (n : Nat) (key : Source → κ) (f : Source → Except ε α) :
    Memo κ α → List Source → Memo κ α
  | c, [] => c
  | c, s :: ss => lruStateFrom n key f (lruStep n key f c s).2 ss

/-- the answers of a fresh `lru_cache(maxsize = n)`-wrapped `f` to a request history -/
def lruSeq {κ ε α : Type} [DecidableEq κ] (n : Nat) (key : Source → κ) (f : Source → Except ε α) (ss : List Source) :
    List (Except ε α) :=
  lruSeqFrom n key f [] ss

/-- `functools.lru_cache` without arguments -/
def lruDefaultSize : Nat := 128

/-- one importer instance, as the code has it: `@functools.lru_cache def match` -/
def matchLru (pool : Pool) (ss : List Source) : List (Except MatchError Nat) :=
  lruSeq lruDefaultSize id (importerMatch pool) ss

end ForML.Matcher
