/-
C08 — model of hashing of DSL objects (forml/io/dsl/_struct/{series,frame,kind}.py) and of their equality as it was
BEFORE fixes/C08-structural-eq.diff ("legacy": hash-based equality of features, plain tuple equality of sources).
The equality of the repaired code is modelled in `ForML.Model.DslIdent` (which imports this file for the hashes);
the legacy definitions are kept because `ForML.Lemmas.C08Legacy` proves what was wrong with them and because
`ForML.Model.Grammar` (C07) uses `hashEq`.

The specification is the derived structural `DecidableEq` of `ForML.Model.Dsl`.

Hashes (current code, unchanged by the repair):

* `series.Feature.__hash__`        = `hash(cls) ^ tuple.__hash__(self)`                    → `Feature.H`
* `frame.Source.__hash__`          = `hash(module) ^ hash(qualname) ^ tuple.__hash__(self)`  → `Source.H`
  (a table is an instance of a class created per schema and *named after it*)
* `frame.Source.Schema.__eq__/__hash__` = ordered field-wise equality / xor of the field hashes, the
  schema's own name takes no part                                                           → `fieldsH`, `fieldsEq`
* `kind.Any.__eq__/__hash__`       = by class (+ tuple content for compounds): structural    → `Kind.H`, `Kind.implEq`

`hash` itself is modelled through `HashEnv`: `pyIntHash` is exact for integers, every other component
(`str`, class objects, `None`, float, `tuple.__hash__`, `^`) is a parameter, so that only congruence
(equal inputs give equal hashes) is ever used.

Legacy equality (`implEq`, the code before the repair):

* `series.Operable.__eq__`         = `Comparison.Pythonic(Equal, self, cast(other).operable)` whose
  `__bool__` was `hash(left) == hash(right)` (so was `Equal.__bool__`)                       → `Feature.implEq`, `hashEq`
* `series.Aliased`, `series.Ordering`, every `frame.Source` were plain tuples: `tuple.__eq__`, i.e.
  element-wise `==` left to right, stopping at the first unequal element, then the lengths   → `Source.implEq`, `aliasEq`
* comparisons can raise (`Literal(None)`, `Literal(<table>)` → `ValueError` from `kind.reflect`): `implEq` returns
  `Option Bool`, `none` = raises
* `Kind.pickle` …: compound kinds had no `__getnewargs__` and did not read back

Not faithful in the legacy part (windows are never sent to it): `Window` stores a generator object as its ordering
(identity hash), `Feature.H` hashes it as a tuple — `DslIdent.hashAgree` accounts for that; an `Aliased` on the left
of `==` with a non-element operable on the right is modelled as `false`.
-/
import ForML.Model.Dsl

namespace ForML.Dsl

/-! ### CPython integer hash -/

/-- `sys.hash_info.modulus` on 64-bit builds: the Mersenne prime 2^61 - 1 -/
def pyHashModulus : Nat := 2305843009213693951

/-- `hash(n)` for a Python `int` (`Objects/longobject.c: long_hash`): sign · (|n| mod (2^61−1)), and −1 ↦ −2. -/
def pyIntHash (n : Int) : Int :=
  let m : Int := Int.ofNat (n.natAbs % pyHashModulus)
  let h : Int := if n < 0 then -m else m
  if h = -1 then -2 else h

/-- The uninterpreted components of Python's `hash`; `α` is the type of hash values
(machine integers in CPython; any type with decidable equality here). -/
structure HashEnv (α : Type) where
  /-- embedding of an (exactly modelled) integer hash -/
  ofInt : Int → α
  /-- `hash(str)` — randomised per process -/
  str : String → α
  /-- `hash(float)` by the float's `repr` -/
  flt : String → α
  /-- `hash(cls)` resp. `hash(cls.__module__) ^ hash(cls.__qualname__)` by class name -/
  cls : String → α
  /-- `hash(None)` -/
  none : α
  /-- `tuple.__hash__` as a function of the element hashes -/
  tuple : List α → α
  /-- `^` -/
  mix : α → α → α

variable {α : Type} [DecidableEq α]

/-! ### hashes -/

mutual
/-- `kind.Any.__hash__` = `hash(cls)`; `Compound.__hash__` = `hash(cls) ^ tuple.__hash__`;
`Struct.Element.__hash__` = `hash(Element) ^ tuple.__hash__((name, kind))` -/
def Kind.H (env : HashEnv α) : Kind → α
  | .array e => env.mix (env.cls "Array") (env.tuple [e.H env])
  | .map k v => env.mix (env.cls "Map") (env.tuple [k.H env, v.H env])
  | .struct ns ks => env.mix (env.cls "Struct") (env.tuple (Kinds.Hnamed env ns ks))
  | .boolean => env.cls "Boolean" | .integer => env.cls "Integer" | .float => env.cls "Float"
  | .decimal => env.cls "Decimal" | .string => env.cls "String" | .date => env.cls "Date"
  | .timestamp => env.cls "Timestamp"
def Kinds.Hnamed (env : HashEnv α) : List String → Kinds → List α
  | n :: ns, .cons k ks => env.mix (env.cls "Struct.Element") (env.tuple [env.str n, k.H env]) :: Kinds.Hnamed env ns ks
  | _, _ => []
end

/-- hash of the Python value inside a `Literal` (`hash(True) = 1`, `hash(False) = 0`) -/
def Lit.H (env : HashEnv α) : Lit → α
  | .int n => env.ofInt (pyIntHash n)
  | .bool b => env.ofInt (if b then 1 else 0)
  | .str s => env.str s
  | .float r => env.flt r

/-- `_struct.Field` is a named tuple `(kind, name)` -/
def fieldH (env : HashEnv α) (f : String × Kind) : α := env.tuple [f.2.H env, env.str f.1]

/-- `Source.Schema.__hash__`: `functools.reduce(operator.xor, (hash(f) for f in cls), 0)` -/
def fieldsH (env : HashEnv α) (fs : Fields) : α := fs.foldl (fun acc f => env.mix acc (fieldH env f)) (env.ofInt 0)

/-- `hash(rows)`: `None` or the named tuple `(count, offset)` -/
def rowsH (env : HashEnv α) : Option Rows → α
  | none => env.none
  | some (c, o) => env.tuple [env.ofInt (pyIntHash c), env.ofInt (pyIntHash o)]

/-- class of an element: `Element.__new__` returns a `Column` when the origin is a table -/
def elemClass : Source → String
  | .table _ _ => "Column"
  | _ => "Element"

/-- class (module + qualname) of a source; table classes are created per schema and carry its name -/
def Source.className : Source → String
  | .table n _ => "Table:" ++ n
  | .ref _ _ => "Reference"
  | .join _ _ _ _ => "Join"
  | .set _ _ _ => "Set"
  | .query _ _ _ _ _ _ _ => "Query"

mutual
/-- `series.Feature.__hash__` (`series.py:151`) -/
def Feature.H (env : HashEnv α) : Feature → α
  | .lit v => env.mix (env.cls "Literal") (env.tuple [v.H env, v.kind.H env])
  | .elem o n => env.mix (env.cls (elemClass o)) (env.tuple [o.H env, env.str n])
  | .alias f n => env.mix (env.cls "Aliased") (env.tuple [f.H env, env.str n])
  | .expr op args => env.mix (env.cls op.className) (env.tuple (args.Hs env))
  | .cast f k => env.mix (env.cls "Cast") (env.tuple [f.H env, k.H env])
  | .window fn ps os =>
    env.mix (env.cls "Window") (env.tuple [fn.H env, env.tuple (ps.Hs env), env.tuple (os.Hs env), env.none])
def Features.Hs (env : HashEnv α) : Features → List α
  | .nil => []
  | .cons f fs => f.H env :: fs.Hs env
def FeatureOpt.H (env : HashEnv α) : FeatureOpt → α
  | .none => env.none
  | .some f => f.H env
/-- `Ordering` is a named tuple `(feature, direction)`; an enum member hashes by its name -/
def Ordering.H (env : HashEnv α) : Ordering → α
  | .mk f d => env.tuple [f.H env, env.str d.wire]
def Orderings.Hs (env : HashEnv α) : Orderings → List α
  | .nil => []
  | .cons o os => o.H env :: os.Hs env
/-- `frame.Source.__hash__` (`frame.py:213`) -/
def Source.H (env : HashEnv α) : Source → α
  | .table n fs => env.mix (env.cls ("Table:" ++ n)) (env.tuple [fieldsH env fs])
  | .ref s n => env.mix (env.cls "Reference") (env.tuple [s.H env, env.str n])
  | .join l r k c => env.mix (env.cls "Join") (env.tuple [l.H env, r.H env, env.str k.wire, c.H env])
  | .set l r k => env.mix (env.cls "Set") (env.tuple [l.H env, r.H env, env.str k.wire])
  | .query s sel pre grp post ord rows =>
    env.mix (env.cls "Query")
      (env.tuple [s.H env, env.tuple (sel.Hs env), pre.H env, env.tuple (grp.Hs env), post.H env,
        env.tuple (ord.Hs env), rowsH env rows])
end

/-! ### the implementation's `==` -/

/-- result of `bool(a == b)`: `none` = the comparison raises -/
abbrev EqRes := Option Bool

/-- one step of `tuple.__eq__`: the next pair is only compared when the previous ones were equal -/
@[inline] def eqAnd (r : EqRes) (k : Unit → EqRes) : EqRes :=
  match r with
  | none => none
  | some false => some false
  | some true => k ()

/-- `kind.Any.__eq__` / `Compound.__eq__` / `Struct.Element.__eq__`: class and content, i.e. structural -/
def Kind.implEq (a b : Kind) : Bool := decide (a = b)

/-- `Source.Schema.__eq__`: same length and field-wise equal `(kind, name)` tuples, in order -/
def fieldsEq (a b : Fields) : Bool := decide (a = b)

/-- `feature.operable` -/
def Feature.operable : Feature → Feature
  | .alias f _ => f
  | .lit v => .lit v
  | .elem o n => .elem o n
  | .expr op args => .expr op args
  | .cast f k => .cast f k
  | .window fn ps os => .window fn ps os

def Feature.isAlias : Feature → Bool
  | .alias _ _ => true
  | .lit _ | .elem _ _ | .expr _ _ | .cast _ _ | .window _ _ _ => false

def Feature.isElem : Feature → Bool
  | .elem _ _ => true
  | .lit _ | .alias _ _ | .expr _ _ | .cast _ _ | .window _ _ _ => false

/-- `Comparison.Pythonic.__bool__` / `Equal.__bool__`: `hash(left) == hash(right)` -/
def hashEq (env : HashEnv α) (a b : Feature) : Bool := decide (a.H env = b.H env)

@[simp] theorem hashEq_iff (env : HashEnv α) (a b : Feature) : hashEq env a b = true ↔ a.H env = b.H env := by
  simp [hashEq]

/-- `tuple.__eq__((operable, name), b)` for an aliased left operand:
* `b` aliased: `hash(operable) == hash(b.operable)` and then the names;
* `b` an element `(origin, name)`: `operable == origin` tries `Literal(<source>)` → `ValueError`;
* other `b`: false (up to collisions of the uninterpreted hashes; never generated). -/
def aliasEq (env : HashEnv α) (fa : Feature) (na : String) : Feature → EqRes
  | .alias fb nb => some (hashEq env fa fb && decide (na = nb))
  | .elem _ _ => none
  | .lit _ | .expr _ _ | .cast _ _ | .window _ _ _ => some false

/-- `bool(a == b)` for two features.  `a` operable: `Operable.__eq__` is decorated with `featurize`, so `b` is
replaced by `b.operable` and the proxy's truth value is `hash(a) == hash(b.operable)` (`series.py:791`);
`a` aliased: plain tuple comparison (`aliasEq`). -/
def Feature.implEq (env : HashEnv α) (a b : Feature) : EqRes :=
  match a with
  | .alias fa na => aliasEq env fa na b
  | .lit v => some (hashEq env (Feature.lit v) b.operable)
  | .elem o n => some (hashEq env (Feature.elem o n) b.operable)
  | .expr op args => some (hashEq env (Feature.expr op args) b.operable)
  | .cast f k => some (hashEq env (Feature.cast f k) b.operable)
  | .window fn ps os => some (hashEq env (Feature.window fn ps os) b.operable)

/-- `tuple.__eq__` on two tuples of features -/
def Features.implEq (env : HashEnv α) : Features → Features → EqRes
  | .nil, .nil => some true
  | .cons a as, .cons b bs => eqAnd (Feature.implEq env a b) fun _ => Features.implEq env as bs
  | _, _ => some false

/-- `==` of two optional predicates: `None == None`; `None == x` / `x == None` reach `Operable.__eq__`,
which tries `Literal(None)` → `ValueError` -/
def FeatureOpt.implEq (env : HashEnv α) : FeatureOpt → FeatureOpt → EqRes
  | .none, .none => Option.some true
  | .some a, .some b => Feature.implEq env a b
  | _, _ => Option.none

/-- named tuple `(feature, direction)` -/
def Ordering.implEq (env : HashEnv α) : Ordering → Ordering → EqRes
  | .mk fa da, .mk fb db => eqAnd (Feature.implEq env fa fb) fun _ => some (decide (da = db))

def Orderings.implEq (env : HashEnv α) : Orderings → Orderings → EqRes
  | .nil, .nil => some true
  | .cons a as, .cons b bs => eqAnd (Ordering.implEq env a b) fun _ => Orderings.implEq env as bs
  | _, _ => some false

/-- `tuple.__eq__` of two sources (`frame.Source` defines no `__eq__`): the classes are not compared, only
the tuples; tuples of different classes have different lengths (1, 2, 4, 3, 7). A table is `(schema,)`. -/
def Source.implEq (env : HashEnv α) : Source → Source → EqRes
  | .table _ fa, .table _ fb => some (fieldsEq fa fb)
  | .ref sa na, .ref sb nb => eqAnd (Source.implEq env sa sb) fun _ => some (decide (na = nb))
  | .join la ra ka ca, .join lb rb kb cb =>
    eqAnd (Source.implEq env la lb) fun _ => eqAnd (Source.implEq env ra rb) fun _ =>
      eqAnd (some (decide (ka = kb))) fun _ => FeatureOpt.implEq env ca cb
  | .set la ra ka, .set lb rb kb =>
    eqAnd (Source.implEq env la lb) fun _ => eqAnd (Source.implEq env ra rb) fun _ => some (decide (ka = kb))
  | .query sa sela prea grpa posta orda rowsa, .query sb selb preb grpb postb ordb rowsb =>
    eqAnd (Source.implEq env sa sb) fun _ => eqAnd (Features.implEq env sela selb) fun _ =>
      eqAnd (FeatureOpt.implEq env prea preb) fun _ => eqAnd (Features.implEq env grpa grpb) fun _ =>
        eqAnd (FeatureOpt.implEq env posta postb) fun _ => eqAnd (Orderings.implEq env orda ordb) fun _ =>
          some (decide (rowsa = rowsb))
  | _, _ => some false

/-! ### integer-literal renaming (used to lift a hash collision through any context) -/

def Lit.mapInt (φ : Int → Int) : Lit → Lit
  | .int n => .int (φ n)
  | v => v

mutual
/-- replace every integer literal `n` of a feature by `φ n` (everywhere, including inside origins) -/
def Feature.mapInt (φ : Int → Int) : Feature → Feature
  | .lit v => .lit (v.mapInt φ)
  | .elem o n => .elem (o.mapInt φ) n
  | .alias f n => .alias (f.mapInt φ) n
  | .expr op args => .expr op (args.mapInt φ)
  | .cast f k => .cast (f.mapInt φ) k
  | .window fn ps os => .window (fn.mapInt φ) (ps.mapInt φ) (os.mapInt φ)
def Features.mapInt (φ : Int → Int) : Features → Features
  | .nil => .nil
  | .cons f fs => .cons (f.mapInt φ) (fs.mapInt φ)
def FeatureOpt.mapInt (φ : Int → Int) : FeatureOpt → FeatureOpt
  | .none => .none
  | .some f => .some (f.mapInt φ)
def Ordering.mapInt (φ : Int → Int) : Ordering → Ordering
  | .mk f d => .mk (f.mapInt φ) d
def Orderings.mapInt (φ : Int → Int) : Orderings → Orderings
  | .nil => .nil
  | .cons o os => .cons (o.mapInt φ) (os.mapInt φ)
def Source.mapInt (φ : Int → Int) : Source → Source
  | .table n fs => .table n fs
  | .ref s n => .ref (s.mapInt φ) n
  | .join l r k c => .join (l.mapInt φ) (r.mapInt φ) k (c.mapInt φ)
  | .set l r k => .set (l.mapInt φ) (r.mapInt φ) k
  | .query s sel pre grp post ord rows =>
    .query (s.mapInt φ) (sel.mapInt φ) (pre.mapInt φ) (grp.mapInt φ) (post.mapInt φ) (ord.mapInt φ) rows
end

/-! ### pickling (`__getnewargs__`-based reconstruction, pickle protocol 2+) -/

/-- `pickle.loads(pickle.dumps(kind))`: a primitive kind is re-created by `cls.__new__(cls)` (the singleton);
the compound kinds are tuples *without* `__getnewargs__`, so `tuple.__getnewargs__` hands the whole content
as ONE argument to `Array.__new__(cls, element)` / `Map.__new__(cls, key, value)` / `Struct.__new__(cls, **kw)`:
the result is not the original kind (`Array((Integer,))`) or `TypeError`. `none` = does not read back. -/
def Kind.pickle : Kind → Option Kind
  | .array _ => none
  | .map _ _ => none
  | .struct _ _ => none
  | k => some k

def fieldsPickle : Fields → Option Fields
  | [] => some []
  | (n, k) :: fs => do pure ((n, ← k.pickle) :: (← fieldsPickle fs))

mutual
/-- `Feature.__getnewargs__` = `tuple(self)` (a `Literal` only its value: the kind is reflected again);
every component is pickled recursively -/
def Feature.pickle : Feature → Option Feature
  | .lit v => some (.lit v)
  | .elem o n => do pure (.elem (← o.pickle) n)
  | .alias f n => do pure (.alias (← f.pickle) n)
  | .expr op args => do pure (.expr op (← args.pickle))
  | .cast f k => do pure (.cast (← f.pickle) (← k.pickle))
  | .window fn ps os => do pure (.window (← fn.pickle) (← ps.pickle) (← os.pickle))
def Features.pickle : Features → Option Features
  | .nil => some .nil
  | .cons f fs => do pure (.cons (← f.pickle) (← fs.pickle))
def FeatureOpt.pickle : FeatureOpt → Option FeatureOpt
  | .none => some .none
  | .some f => do pure (.some (← f.pickle))
def Ordering.pickle : Ordering → Option Ordering
  | .mk f d => do pure (.mk (← f.pickle) d)
def Orderings.pickle : Orderings → Option Orderings
  | .nil => some .nil
  | .cons o os => do pure (.cons (← o.pickle) (← os.pickle))
/-- `Source.__getnewargs__` = `tuple(self)`; table classes and schemas through their `copyreg` reducers -/
def Source.pickle : Source → Option Source
  | .table n fs => do pure (.table n (← fieldsPickle fs))
  | .ref s n => do pure (.ref (← s.pickle) n)
  | .join l r k c => do pure (.join (← l.pickle) (← r.pickle) k (← c.pickle))
  | .set l r k => do pure (.set (← l.pickle) (← r.pickle) k)
  | .query s sel pre grp post ord rows => do
    pure (.query (← s.pickle) (← sel.pickle) (← pre.pickle) (← grp.pickle) (← post.pickle) (← ord.pickle) rows)
end

/-- no compound kind anywhere inside -/
def Kind.isPrimitive : Kind → Bool
  | .array _ | .map _ _ | .struct _ _ => false
  | _ => true

def fieldsPrimitive (fs : Fields) : Bool := fs.all (fun f => f.2.isPrimitive)

mutual
def Feature.noCompound : Feature → Bool
  | .lit _ => true
  | .elem o _ => o.noCompound
  | .alias f _ => f.noCompound
  | .expr _ args => args.noCompound
  | .cast f k => f.noCompound && k.isPrimitive
  | .window fn ps os => fn.noCompound && ps.noCompound && os.noCompound
def Features.noCompound : Features → Bool
  | .nil => true
  | .cons f fs => f.noCompound && fs.noCompound
def FeatureOpt.noCompound : FeatureOpt → Bool
  | .none => true
  | .some f => f.noCompound
def Ordering.noCompound : Ordering → Bool
  | .mk f _ => f.noCompound
def Orderings.noCompound : Orderings → Bool
  | .nil => true
  | .cons o os => o.noCompound && os.noCompound
def Source.noCompound : Source → Bool
  | .table _ fs => fieldsPrimitive fs
  | .ref s _ => s.noCompound
  | .join l r _ c => l.noCompound && r.noCompound && c.noCompound
  | .set l r _ => l.noCompound && r.noCompound
  | .query s sel pre grp post ord _ =>
    s.noCompound && sel.noCompound && pre.noCompound && grp.noCompound && post.noCompound && ord.noCompound
end

/-! ### the free hash environment (used by the driver: no collisions except those of `pyIntHash`) -/

/-- symbolic hash values: every uninterpreted component is an injective constructor -/
inductive HTerm where
  | int (n : Int)
  | str (s : String)
  | flt (s : String)
  | cls (s : String)
  | none
  | nil
  | cons (h : HTerm) (t : HTerm)
  | mix (a b : HTerm)
  deriving DecidableEq, Repr, Inhabited

def HTerm.ofList : List HTerm → HTerm
  | [] => .nil
  | h :: t => .cons h (HTerm.ofList t)

/-- the environment in which two hashes are equal only if congruence (and `pyIntHash`) forces them to be -/
def freeEnv : HashEnv HTerm where
  ofInt := .int
  str := .str
  flt := .flt
  cls := .cls
  none := .none
  tuple := HTerm.ofList
  mix := .mix

end ForML.Dsl
