/-
C06 — the Python operator surface of the DSL (`forml/io/dsl/_struct/series.py`, `Operable.__add__ … __rmod__`,
`featurize`) as the statement author uses it: `100 / T.size`, `5 < T.age`, `(T.a > 1) & ~T.flag` …

  Python                                                   here
  -------------------------------------------------------  -------------------------------------------------------
  `a <op> b` (binary operator dispatch of the interpreter)  `binary op a b`: `a.__op__(b)` if `a` is a feature; if `a` is a
                                                            plain value `b.__rop__(a)` (for a comparison: the mirrored
                                                            method, `5 < x` is `x.__gt__(5)`); for two features whose
                                                            right one is of a proper subclass of the left one's class
                                                            (a `Column` against an `Element` of a reference) a comparison
                                                            tries the reflected method first
  `~a`                                                      `invert a`
  `featurize`: `cast(arg).operable` for every argument      `Operand.lift` (a plain value becomes a `Literal`)
  the body of each operator method                          the table `ForML.Generated.C06.sugar`, re-extracted from the
                                                            live `Operable` on every run

Core Lean only.
-/
import ForML.Model.Dsl
import ForML.Generated.C06Sugar

namespace ForML.Sugar
open ForML.Dsl

/-- the binary operators of the Python syntax the DSL overloads -/
inductive PyOp where
  | add | sub | mul | truediv | mod
  | lt | le | gt | ge | eq | ne
  | and | or
  deriving DecidableEq, Repr, Inhabited

def PyOp.all : List PyOp := [.add, .sub, .mul, .truediv, .mod, .lt, .le, .gt, .ge, .eq, .ne, .and, .or]

def PyOp.isComparison : PyOp → Bool
  | .lt | .le | .gt | .ge | .eq | .ne => true
  | _ => false

/-- `type(a).__op__` -/
def PyOp.method : PyOp → String
  | .add => "__add__" | .sub => "__sub__" | .mul => "__mul__" | .truediv => "__truediv__" | .mod => "__mod__"
  | .lt => "__lt__" | .le => "__le__" | .gt => "__gt__" | .ge => "__ge__" | .eq => "__eq__" | .ne => "__ne__"
  | .and => "__and__" | .or => "__or__"

/-- the method of the *right* operand the interpreter falls back to: `__rop__`, for comparisons the mirrored one -/
def PyOp.reflected : PyOp → String
  | .add => "__radd__" | .sub => "__rsub__" | .mul => "__rmul__" | .truediv => "__rtruediv__" | .mod => "__rmod__"
  | .lt => "__gt__" | .le => "__ge__" | .gt => "__lt__" | .ge => "__le__" | .eq => "__eq__" | .ne => "__ne__"
  | .and => "__rand__" | .or => "__ror__"

/-- the expression class the documentation gives the operator (docs/dsl/query/functions.rst) -/
def PyOp.dsl : PyOp → Op
  | .add => .add | .sub => .sub | .mul => .mul | .truediv => .div | .mod => .mod
  | .lt => .lt | .le => .le | .gt => .gt | .ge => .ge | .eq => .eq | .ne => .ne
  | .and => .and | .or => .or

/-- an operand of a Python expression: a plain value (`int`, `str`, `bool`) or a DSL feature -/
inductive Operand where
  | plain (v : Lit)
  | feat (f : Feature)
  deriving Repr, Inhabited

/-- `featurize`: `cast(a).operable` -/
def Operand.lift : Operand → Feature
  | .plain v => .lit v
  | .feat f => f

def opOfClass (cls : String) : Option Op := Op.all.find? (fun o => o.className == cls)

/-- the body of `Operable.<method>` per the extracted table -/
def applyMethod (method : String) (self other : Feature) : Option Feature :=
  match Generated.C06.sugar.lookup method with
  | some (cls, order) =>
    match opOfClass cls with
    | some op =>
      if order == "self-other" then some (.expr op (.cons self (.cons other .nil)))
      else if order == "other-self" then some (.expr op (.cons other (.cons self .nil)))
      else none
    | none => none
  | none => none

/-- a `Column` (element of a table) -/
def isColumn : Feature → Bool
  | .elem (.table _ _) _ => true
  | _ => false

/-- an `Element` that is not a `Column` -/
def isPlainElement : Feature → Bool
  | .elem (.table _ _) _ => false
  | .elem _ _ => true
  | _ => false

/-- `a <op> b` -/
def binary (op : PyOp) (a b : Operand) : Option Feature :=
  match a, b with
  | .plain _, .plain _ => none  -- evaluated by Python itself: not a DSL expression
  | .feat x, .plain v => applyMethod op.method x (.lit v)
  | .plain v, .feat y => applyMethod op.reflected y (.lit v)
  | .feat x, .feat y =>
    -- rich comparison: the right operand's reflected method first when its class is a proper subclass of the left's
    if op.isComparison && isPlainElement x && isColumn y then applyMethod op.reflected y x
    else applyMethod op.method x y

/-- `~a` -/
def invert (a : Feature) : Option Feature :=
  match Generated.C06.sugar.lookup "__invert__" with
  | some (cls, order) =>
    match opOfClass cls with
    | some op => if order == "self" then some (.expr op (.cons a .nil)) else none
    | none => none
  | none => none

/-- a Python expression over plain values and features -/
inductive PyExpr where
  | val (v : Lit)
  | feat (f : Feature)
  | bin (op : PyOp) (a b : PyExpr)
  | inv (a : PyExpr)
  deriving Repr, Inhabited

/-- what evaluating the Python expression constructs (`none`: not a DSL expression / the method is missing) -/
def PyExpr.eval : PyExpr → Option Operand
  | .val v => some (.plain v)
  | .feat f => some (.feat f)
  | .bin op a b =>
    match a.eval, b.eval with
    | some x, some y => (binary op x y).map .feat
    | _, _ => none
  | .inv a =>
    match a.eval with
    | some (.feat f) => (invert f).map .feat
    | _ => none

/-- what the expression is documented to mean: every operator its expression class, operands in the written order -/
def PyExpr.spec : PyExpr → Feature
  | .val v => .lit v
  | .feat f => f
  | .bin op a b => .expr op.dsl (.cons a.spec (.cons b.spec .nil))
  | .inv a => .expr .not (.cons a.spec .nil)

end ForML.Sugar
