/-
Model of the ordinal-window mechanism (C10):

* forml/project/_component/__init__.py  `Source.Extract.Ordinal` (`Once`, `__new__`, `where`),
  `Source.Extract.__new__` (ordinal / once consistency)
* forml/io/dsl/_struct/kind.py          `Primitive.cast` (instance check, `_cast`, `CastError`)
* forml/io/_input/extract.py            `Statement.Prepared.__call__`
* forml/io/_input/__init__.py           `Feed.load` (passes the bounds through unchanged)
* forml/runtime/_agent.py               `Runner.train` (default lower bound from the training tag)

`Prepared.__call__` and `Runner.train` are modelled as they are since /repo commit 6817cb6
(fixes/C10-falsy-bounds.diff: `is not None` instead of truthiness); the behaviour of the earlier
code is kept next to them as `preparedLegacy` / `trainLowerLegacy` so that the defect is stated and
refuted in Props/C10.

The ordinal axis is an arbitrary type `α` with decidable `≤`, `<`, `=` (see OrdinalCmp.lean); the
driver runs the model at `α := Int`.

The table of bound operators, the enum members and the alias spellings come from
ForML/Generated/C10Tables.lean (regenerated from the live enum on every run).
-/
import ForML.Generated.C10Tables

namespace ForML.Ordinal

/-- exceptions that the modelled code raises -/
inductive Err where
  | valueError       -- `Once(value)`: not a valid member / spelling
  | invalidError     -- `Extract.__new__`: 'Once without an Ordinal'
  | castError        -- `kind.cast`: dsl.CastError
  | unexpectedError  -- `Prepared.__call__`: 'Bounds provided but source not ordinal'
  deriving DecidableEq, Repr

def Err.name : Err → String
  | .valueError => "ValueError"
  | .invalidError => "InvalidError"
  | .castError => "CastError"
  | .unexpectedError => "UnexpectedError"

instance {ε α : Type} [DecidableEq ε] [DecidableEq α] : DecidableEq (Except ε α)
  | .ok a, .ok b => if h : a = b then isTrue (by rw [h]) else isFalse (by intro h'; cases h'; exact h rfl)
  | .error a, .error b => if h : a = b then isTrue (by rw [h]) else isFalse (by intro h'; cases h'; exact h rfl)
  | .ok _, .error _ => isFalse (by intro h; cases h)
  | .error _, .ok _ => isFalse (by intro h; cases h)

/-! ### `Once(value)` / `Once._missing_`, `Ordinal.__new__`, `Extract.__new__` -/

def lookup (s : String) : List (String × Once) → Option Once
  | [] => none
  | (k, v) :: r => if k = s then some v else lookup s r

/-- `Once(value)` for a string value: `_missing_` lower-cases and looks the spelling up -/
def parseOnce (s : String) : Except Err Once :=
  match lookup s.toLower aliasTable with
  | some m => .ok m
  | none => .error .valueError

/-- `Ordinal.__new__`: `cls.Once(once) if once else cls.Once.EXACTLY` (`none` and `''` are falsy) -/
def ordinalOnce : Option String → Except Err Once
  | none => .ok .exactly
  | some s => if s = "" then .ok .exactly else parseOnce s

/-- `Extract.__new__`: `if ordinal: Ordinal(ordinal, once) elif once: raise InvalidError` -/
def extractOrdinal (hasOrdinal : Bool) (once : Option String) : Except Err (Option Once) :=
  if hasOrdinal then (ordinalOnce once).map some
  else match once with
    | none => .ok none
    | some s => if s = "" then .ok none else .error .invalidError

/-! ### `kind.cast` -/

inductive Kind where
  | integer | float | string | date | timestamp
  deriving DecidableEq, Repr

/-- classes of Python values handed in as bounds -/
inductive PyT where
  | bool | int | float | decimal | strGood | strBad | date | datetime
  deriving DecidableEq, Repr

/-- `isinstance(value, kind.__type__)`:
Integral ⊇ {bool, int}; Real ⊇ Integral ∪ {float} (a `decimal.Decimal` is neither); str;
date ⊇ {date, datetime}; datetime -/
def isInstance : Kind → PyT → Bool
  | .integer, .bool | .integer, .int => true
  | .float, .bool | .float, .int | .float, .float => true
  | .string, .strGood | .string, .strBad => true
  | .date, .date | .date, .datetime => true
  | .timestamp, .datetime => true
  | _, _ => false

inductive CastOut where
  | same                 -- the value itself (`isinstance` branch)
  | conv                 -- `_cast(value)` succeeded: a new value of the kind's own type
  | err                  -- `_cast` raised ValueError/TypeError → `CastError`
  deriving DecidableEq, Repr

/-- does `kind._cast(value)` succeed for a value that is *not* an instance of the kind's type?
`int('x')`, `float(date)`, `int(date)` … raise; `str(v)` never does; `pandas.to_datetime` accepts
numbers (epoch nanoseconds) and dates, rejects `bool` and unparseable strings -/
def convertible : Kind → PyT → Bool
  | .integer, .float | .integer, .decimal | .integer, .strGood => true
  | .integer, _ => false
  | .float, .decimal | .float, .strGood => true
  | .float, _ => false
  | .string, _ => true
  | .date, .int | .date, .float | .date, .strGood => true
  | .date, _ => false
  | .timestamp, .int | .timestamp, .float | .timestamp, .strGood | .timestamp, .date => true
  | .timestamp, _ => false

/-- `Primitive.cast` -/
def castRule (k : Kind) (t : PyT) : CastOut :=
  if isInstance k t then .same else if convertible k t then .conv else .err

/-- class of the value produced by a successful `_cast` -/
def ownType : Kind → PyT
  | .integer => .int | .float => .float | .string => .strGood | .date => .date
  | .timestamp => .datetime

/-- class of the value that `kind.cast` hands to the bound operator -/
def castType (k : Kind) (t : PyT) : Option PyT :=
  match castRule k t with
  | .same => some t
  | .conv => some (ownType k)
  | .err => none

/-- a bound as given by the caller: the Python value class, the point of the ordinal axis that
the value denotes *once interpreted in the column's kind* (the result of `kind.cast`: `int(2.5)`,
`to_datetime('2020-02-29T12:00').date()`, …; meaningful when the cast succeeds) and `bool(value)` -/
structure Raw (α : Type) where
  ty : PyT
  pt : α
  truthy : Bool
  deriving DecidableEq, Repr

section
variable {α : Type}

def cast (k : Kind) (r : Raw α) : Except Err α :=
  match castRule k r.ty with
  | .err => .error .castError
  | _ => .ok r.pt

/-! ### `Runner.train`: default lower bound -/

def truthyOpt : Option (Raw α) → Bool
  | none => false
  | some r => r.truthy

/-- repaired: `if lower is None: lower = tag.training.ordinal` -/
def trainLower (lower tag : Option (Raw α)) : Option (Raw α) :=
  match lower with
  | some r => some r
  | none => tag

/-- the code before the repair: `lower or tag.training.ordinal` -/
def trainLowerLegacy (lower tag : Option (Raw α)) : Option (Raw α) :=
  if truthyOpt lower then lower else tag

/-- consecutive windows `(b₀,b₁), (b₁,b₂), …` of a bound sequence -/
def consecutive {β : Type} : List β → List (Option β × Option β)
  | a :: b :: r => (some a, some b) :: consecutive (b :: r)
  | _ => []

/-- incremental training: `Runner.train(upper=uₖ)` launched repeatedly *without* an explicit lower
bound, where the tag of the generation each training starts from carries the previous training's
upper bound as `tag.training.ordinal` (recorded with `tag.training.replace(ordinal=…)`; forml's
runner reads that attribute but does not write it — an assumption about the caller).  Result:
the `(lower, upper)` pair handed to `Feed.load` by each training. -/
def trainChain (tag : Option (Raw α)) : List (Raw α) → List (Option (Raw α) × Option (Raw α))
  | [] => []
  | u :: r => (trainLower none tag, some u) :: trainChain (some u) r

variable [LE α] [LT α] [DecidableLE α] [DecidableLT α] [DecidableEq α]

/-! ### `Ordinal.where` -/

abbrev Term (α : Type) := Cmp × α

/-- `Ordinal.where(lower, upper)` with the interpretation of the lower and of the upper bound as
parameters: one term per bound that `is not None`, lower first; `[]` stands for the `None` result
(no predicate) -/
def whereTermsWith (sem : Once) (castLo castHi : Raw α → Except Err α) (lo hi : Option (Raw α)) :
    Except Err (List (Term α)) := do
  let l ← match lo with
    | none => pure []
    | some r => do pure [((onceTable sem).1, ← castLo r)]
  let u ← match hi with
    | none => pure []
    | some r => do pure [((onceTable sem).2, ← castHi r)]
  pure (l ++ u)

/-- `Ordinal.where(lower, upper)`: both bounds go through the same `self.column.kind.cast` -/
def whereTerms (sem : Once) (k : Kind) (lo hi : Option (Raw α)) : Except Err (List (Term α)) :=
  whereTermsWith sem (cast k) (cast k) lo hi

/-- the conjunction `functools.reduce(operator.and_, terms)` evaluated on one record -/
def evalTerms : List (Term α) → α → Bool
  | [], _ => true
  | (c, b) :: r, x => c.eval x b && evalTerms r x

/-! ### `Statement.Prepared.__call__` -/

/-- repaired: `elif lower is not None or upper is not None: raise UnexpectedError`.
Result: the terms added to the statement's where clause (`[]` = statement unchanged). -/
def prepared (ord : Option (Kind × Once)) (lo hi : Option (Raw α)) : Except Err (List (Term α)) :=
  match ord with
  | some (k, sem) => whereTerms sem k lo hi
  | none => if lo.isSome || hi.isSome then .error .unexpectedError else .ok []

/-- the code before the repair: `elif lower or upper:` -/
def preparedLegacy (ord : Option (Kind × Once)) (lo hi : Option (Raw α)) : Except Err (List (Term α)) :=
  match ord with
  | some (k, sem) => whereTerms sem k lo hi
  | none => if truthyOpt lo || truthyOpt hi then .error .unexpectedError else .ok []

/-- rows (positions in `data`) delivered by one launch; `data` = the ordinals of the records that
the base statement denotes -/
def deliverIdx (ts : List (Term α)) (data : List α) : List Nat :=
  (data.zipIdx.filter (fun p => evalTerms ts p.1)).map (·.2)

/-- one launch through `Feed.load` → driver → `Prepared.__call__` → reader -/
def launch (ord : Option (Kind × Once)) (lo hi : Option (Raw α)) (data : List α) :
    Except Err (List Nat) :=
  (prepared ord lo hi).map (deliverIdx · data)

/-- a history of launches over the same data (the first refused launch ends the history) -/
def launches (ord : Option (Kind × Once)) :
    List (Option (Raw α) × Option (Raw α)) → List α → Except Err (List (List Nat))
  | [], _ => .ok []
  | w :: r, data =>
    match launch ord w.1 w.2 data with
    | .error e => .error e
    | .ok l =>
      match launches ord r data with
      | .error e => .error e
      | .ok ls => .ok (l :: ls)

/-- how many launches of a history delivered the record at position `i` -/
def timesDelivered (ls : List (List Nat)) (i : Nat) : Nat :=
  (ls.map (List.count i)).sum

/-! ### windows over already-cast bounds (what the theorems talk about) -/

/-- membership of a record with ordinal `x` in the window `(lo, hi)` under a semantic:
`Ordinal.where` with native bounds, evaluated -/
def inWindow (sem : Once) (lo hi : Option α) (x : α) : Bool :=
  (match lo with
   | none => true
   | some b => (onceTable sem).1.eval x b) &&
  (match hi with
   | none => true
   | some b => (onceTable sem).2.eval x b)

/-- number of windows of an arbitrary window list that accept `x` -/
def hits (sem : Once) : List (Option α × Option α) → α → Nat
  | [], _ => 0
  | w :: r, x => (if inWindow sem w.1 w.2 x then 1 else 0) + hits sem r x

/-- number of consecutive windows `(b₀,b₁), (b₁,b₂), …` that deliver a record with ordinal `x` -/
def deliveries (sem : Once) : List α → α → Nat
  | lo :: hi :: r, x => (if inWindow sem (some lo) (some hi) x then 1 else 0) + deliveries sem (hi :: r) x
  | _, _ => 0

/-- last bound of a non-empty sequence `a :: r` -/
def last (a : α) : List α → α
  | [] => a
  | b :: r => last b r

/-- the same with an open first window `(None, b₀)` and an open last window `(bₙ, None)` -/
def deliveriesOpen (sem : Once) (b0 : α) (r : List α) (x : α) : Nat :=
  (if inWindow sem none (some b0) x then 1 else 0) + deliveries sem (b0 :: r) x +
  (if inWindow sem (some (last b0 r)) none x then 1 else 0)

/-- strictly increasing -/
def StrictInc : List α → Prop
  | a :: b :: r => a < b ∧ StrictInc (b :: r)
  | _ => True

instance : (l : List α) → Decidable (StrictInc l)
  | [] => isTrue trivial
  | [_] => isTrue trivial
  | a :: b :: r =>
    have := instDecidableStrictInc (b :: r)
    if h : a < b then
      if h2 : StrictInc (b :: r) then isTrue ⟨h, h2⟩ else isFalse (fun x => h2 x.2)
    else isFalse (fun x => h x.1)

/-- how often `x` occurs among the bounds that are neither the first nor the last one -/
def interiorHits : List α → α → Nat
  | _ :: b :: c :: r, x => (if x = b then 1 else 0) + interiorHits (b :: c :: r) x
  | _, _ => 0

end

end ForML.Ordinal
