/-
C06 — reference denotation of DSL statements: `denote : Stmt → Db → Table`.

Written from the DSL documentation (docs/dsl/query/syntax.rst, the docstrings of `dsl.Queryable.select / where /
having / groupby / orderby / limit`, `dsl.Origin.*_join`, `dsl.Source.reference / union / intersection / difference`
and docs/dsl/query/functions.rst), *not* from the parser:

* a **table** denotes the rows of the storage table the feed provisions for it; its columns are addressed as elements
  `(table, column name)`;
* a **reference** `src.reference(name)` is an independent instance of `src`: same rows, its columns are addressed as
  elements `(that reference, name of the instance's feature)` — two references of one table are different origins
  (self-join);
* a **join**: INNER — the pairs satisfying the condition; LEFT / RIGHT — additionally the rows of the left / right
  side without partner, the other side's columns NULL; FULL — both; CROSS — all pairs (no condition);
* a **query**: rows of the source that satisfy the `where` condition (pre-aggregation filter), grouped by the
  `groupby` terms (or into one group if only aggregates are selected), groups kept that satisfy `having`
  (post-aggregation filter), ordered by the `orderby` terms, restricted by `limit(count, offset)`, projected on the
  selected features (all features of the source if nothing was selected); an alias only names the output column;
* a **set** operation on two statements with the same schema: union / intersection / difference of the *sets* of rows.

An element is resolved *structurally*: by the identity of its origin object and its name — never by a name alone.
Expressions follow SQL's NULL semantics (three-valued logic; `Count` counts non-NULL values, the other aggregates
ignore NULLs and yield NULL on no value).  The clause semantics (`runQuery`, `joinRows`, `setRows`) are those of
`ForML.Model.SqlRel`.  Row order carries no meaning unless `orderby` defines it; RIGHT is *defined* as the mirrored
LEFT join, so its rows are produced right side first.

Outside the denotation (evaluates to `none`): floats / decimals / dates, `Cast`, window functions, division,
modulus, `Avg`, `Ceil`, `Floor`, `Year`; references to joins; a query placed directly on a query or a set without a
reference.  Core Lean only.
-/
import ForML.Model.Dsl
import ForML.Model.SqlRel
import ForML.Model.Parser

namespace ForML.Denote
open ForML.Dsl ForML.Rel
open ForML.Parser (Sources outNames originElems selName selNames litVal ORel)

/-- meaning of a scalar expression class (docs/dsl/query/functions.rst + SQL NULL semantics) -/
def dslScalar : Op → List Val → Option Val
  | .add, [a, b] => liftArith (· + ·) a b
  | .sub, [a, b] => liftArith (· - ·) a b
  | .mul, [a, b] => liftArith (· * ·) a b
  | .lt, [a, b] => liftCmp (· == .lt) a b
  | .le, [a, b] => liftCmp (· != .gt) a b
  | .gt, [a, b] => liftCmp (· == .gt) a b
  | .ge, [a, b] => liftCmp (· != .lt) a b
  | .eq, [a, b] => liftCmp (· == .eq) a b
  | .ne, [a, b] => liftCmp (· != .eq) a b
  | .isnull, [a] => some (isNull a)
  | .notnull, [a] => not3 (isNull a)
  | .and, [a, b] => and3 a b
  | .or, [a, b] => or3 a b
  | .not, [a] => not3 a
  | .abs, [a] => absVal a
  | _, _ => none

/-- meaning of an aggregate class over the values of its argument on the rows of a group -/
def dslAgg : Op → List Val → Option Val
  | .count, vs => aggCount vs
  | .sum, vs => aggSum vs
  | .min, vs => aggExtreme true vs
  | .max, vs => aggExtreme false vs
  | _, _ => none

/-- element labels of the columns of a source: `(origin, name)`; `none` for a nameless output column -/
abbrev Labels := List (Option (Source × String))

mutual
/-- value of a feature on a row (of the group `g` the row represents) of a source whose columns are `labels` -/
def evalF (labels : Labels) : Feature → Ev
  | .lit v, _, _ => litVal v
  | .elem o n, _, row => (idxOf? (some (o, n)) labels).bind (fun i => row[i]?)
  | .alias f _, g, row => evalF labels f g row
  | .expr op args, g, row =>
    if op.isAggregate then
      match args with
      | .cons a .nil => (g.mapM (fun r => evalF labels a [r] r)).bind (dslAgg op)
      | _ => none
    else (evalFs labels args g row).bind (dslScalar op)
  | .cast _ _, _, _ => none
  | .window _ _ _, _, _ => none
def evalFs (labels : Labels) : Features → List Row → Row → Option (List Val)
  | .nil, _, _ => some []
  | .cons f fs, g, row =>
    (evalF labels f g row).bind (fun v => (evalFs labels fs g row).map (fun vs => v :: vs))
end

mutual
def hasAggF : Feature → Bool
  | .lit _ => false
  | .elem _ _ => false
  | .alias f _ => hasAggF f
  | .expr op args => op.isAggregate || hasAggFs args
  | .cast f _ => hasAggF f
  | .window _ _ _ => false
def hasAggFs : Features → Bool
  | .nil => false
  | .cons f fs => hasAggF f || hasAggFs fs
end

def hasAggFO : FeatureOpt → Bool
  | .none => false
  | .some f => hasAggF f

def hasAggOrd : Orderings → Bool
  | .nil => false
  | .cons (.mk f _) os => hasAggF f || hasAggOrd os

def evsOf (labels : Labels) : Features → List Ev
  | .nil => []
  | .cons f fs => evalF labels f :: evsOf labels fs

def evOfOpt (labels : Labels) : FeatureOpt → Option Ev
  | .none => none
  | .some f => some (evalF labels f)

def dirOf : Dir → SortDir
  | .asc => .asc
  | .desc => .desc

def evsOfOrd (labels : Labels) : Orderings → List (Ev × SortDir)
  | .nil => []
  | .cons (.mk f d) os => (evalF labels f, dirOf d) :: evsOfOrd labels os

def setOfKind : SetKind → SetOp
  | .union => .union
  | .intersection => .intersect
  | .difference => .except

/-- relation denoted by an origin: labelled columns and rows -/
structure DRel where
  labels : Labels
  rows : List Row
  deriving Repr

/-- `limit(count, offset)`: skip `offset` rows, keep `count` -/
def rowsClauses : Option Rows → Option Int × Option Int
  | none => (none, none)
  | some (c, o) => (some o, some c)

def dslClauses (labels : Labels) (sel : Features) (pre : FeatureOpt) (grp : Features) (post : FeatureOpt)
    (ord : Orderings) (rows : Option Rows) : Clauses :=
  { agg := !grp.isEmpty || hasAggFs sel || hasAggFO post || hasAggOrd ord
    sel := evsOf labels sel
    whr := evOfOpt labels pre
    grp := evsOf labels grp
    hav := evOfOpt labels post
    ord := evsOfOrd labels ord
    off := (rowsClauses rows).1
    lim := (rowsClauses rows).2 }

/-- the elements `(origin, name)` as features -/
def elemFeatures : List (Source × String) → Features
  | [] => .nil
  | (o, n) :: rest => .cons (.elem o n) (elemFeatures rest)

mutual
/-- an origin (table, reference, join) as a labelled relation over the storage `db` -/
def denoteFrom (srcs : Sources) : Source → Db → Option DRel
  | .table n fields, db =>
    match srcs.lookup (.table n fields) with
    | some pn => (db.lookup pn).map (fun t => ⟨t.cols.map (fun c => some (.table n fields, c)), t.rows⟩)
    | none => none
  | .ref inst name, db =>
    match inst with
    | .table n fields =>
      match srcs.lookup (.table n fields) with
      | some pn =>
        (db.lookup pn).map (fun t => ⟨t.cols.map (fun c => some (.ref (.table n fields) name, c)), t.rows⟩)
      | none => none
    | _ =>
      (denoteOut srcs inst db).map (fun o => ⟨o.names.map (fun x => x.map (fun x => (.ref inst name, x))), o.rows⟩)
  | .join l r k c, db =>
    match k, c with
    | .inner, .some f =>
      match denoteFrom srcs l db, denoteFrom srcs r db with
      | some L, some R =>
        (joinRows L.rows R.rows L.labels.length R.labels.length (evalF (L.labels ++ R.labels) f []) false false).map
          (fun rows => ⟨L.labels ++ R.labels, rows⟩)
      | _, _ => none
    | .left, .some f =>
      match denoteFrom srcs l db, denoteFrom srcs r db with
      | some L, some R =>
        (joinRows L.rows R.rows L.labels.length R.labels.length (evalF (L.labels ++ R.labels) f []) true false).map
          (fun rows => ⟨L.labels ++ R.labels, rows⟩)
      | _, _ => none
    | .right, .some f =>
      -- the mirrored LEFT join: right side first
      match denoteFrom srcs l db, denoteFrom srcs r db with
      | some L, some R =>
        (joinRows R.rows L.rows R.labels.length L.labels.length (evalF (R.labels ++ L.labels) f []) true false).map
          (fun rows => ⟨R.labels ++ L.labels, rows⟩)
      | _, _ => none
    | .full, .some f =>
      match denoteFrom srcs l db, denoteFrom srcs r db with
      | some L, some R =>
        (joinRows L.rows R.rows L.labels.length R.labels.length (evalF (L.labels ++ R.labels) f []) true true).map
          (fun rows => ⟨L.labels ++ R.labels, rows⟩)
      | _, _ => none
    | .cross, .none =>
      match denoteFrom srcs l db, denoteFrom srcs r db with
      | some L, some R => some ⟨L.labels ++ R.labels, productRows L.rows R.rows⟩
      | _, _ => none
    | _, _ => none
  | _, _ => none
/-- a statement (query, set) as output column names and rows -/
def denoteOut (srcs : Sources) : Source → Db → Option ORel
  | .query src sel pre grp post ord rows, db =>
    match denoteFrom srcs src db with
    | some F =>
      let sel' := if sel.isEmpty then (originElems src).map elemFeatures else some sel
      match sel' with
      | some sel' =>
        if sel'.isEmpty then none else
        (runQuery (dslClauses F.labels sel' pre grp post ord rows) F.labels.length F.rows).map
          (fun out => ⟨selNames sel', out⟩)
      | none => none
    | none => none
  | .set l r k, db =>
    match denoteOut srcs l db, denoteOut srcs r db with
    | some L, some R =>
      if L.names.length = R.names.length then some ⟨L.names, setRows (setOfKind k) L.rows R.rows⟩ else none
    | _, _ => none
  | _, _ => none
end

/-- every CROSS join of the statement has, over `db`, two non-empty sides or two empty ones — exactly the region in
which the `FULL OUTER JOIN … ON true` the code emits for CROSS coincides with the product (known finding C06-F1) -/
def crossBalanced (srcs : Sources) : Source → Db → Bool
  | .table _ _, _ => true
  | .ref inst _, db => crossBalanced srcs inst db
  | .join l r k _, db =>
    crossBalanced srcs l db && crossBalanced srcs r db &&
      (k != .cross ||
        match denoteFrom srcs l db, denoteFrom srcs r db with
        | some L, some R => L.rows.isEmpty == R.rows.isEmpty
        | _, _ => true)
  | .set l r _, db => crossBalanced srcs l db && crossBalanced srcs r db
  | .query src _ _ _ _ _ _, db => crossBalanced srcs src db

/-- rows a statement denotes over the storage content -/
def denote (srcs : Sources) (s : Stmt) (db : Db) : Option ORel := denoteOut srcs s db

end ForML.Denote
