/-
Shared line protocol of the model drivers: one S-expression per line.

  sexp ::= atom | "(" sexp* ")"
  atom ::= any run of characters other than whitespace and parentheses,
           or a double-quoted string with \" \\ \n escapes

The harness (harness/core/sexp.py) speaks the same format.  Core Lean only.
-/
namespace ForML

inductive Sexp where
  | atom : String → Sexp
  | list : List Sexp → Sexp
  deriving Repr, Inhabited, BEq

namespace Sexp

private def needsQuote (s : String) : Bool :=
  s.isEmpty || s.any (fun c => c.isWhitespace || c == '(' || c == ')' || c == '"' || c == '\\')

private def quote (s : String) : String :=
  "\"" ++ s.foldl (fun acc c =>
    if c == '"' then acc ++ "\\\"" else if c == '\\' then acc ++ "\\\\"
    else if c == '\n' then acc ++ "\\n" else acc.push c) "" ++ "\""

partial def toStr : Sexp → String
  | atom s => if needsQuote s then quote s else s
  | list xs => "(" ++ " ".intercalate (xs.map toStr) ++ ")"

instance : ToString Sexp := ⟨toStr⟩

/-- tokens: `(`, `)`, atoms (quoted atoms are returned unescaped with a marker) -/
private inductive Tok where
  | lp | rp | at (s : String)

private partial def lex (cs : List Char) (acc : Array Tok) : Option (Array Tok) :=
  match cs with
  | [] => some acc
  | c :: rest =>
    if c.isWhitespace then lex rest acc
    else if c == '(' then lex rest (acc.push .lp)
    else if c == ')' then lex rest (acc.push .rp)
    else if c == '"' then
      let rec str (cs : List Char) (s : String) : Option (String × List Char) :=
        match cs with
        | [] => none
        | '"' :: r => some (s, r)
        | '\\' :: 'n' :: r => str r (s.push '\n')
        | '\\' :: x :: r => str r (s.push x)
        | x :: r => str r (s.push x)
      match str rest "" with
      | none => none
      | some (s, r) => lex r (acc.push (.at s))
    else
      let rec word (cs : List Char) (s : String) : String × List Char :=
        match cs with
        | [] => (s, [])
        | x :: r => if x.isWhitespace || x == '(' || x == ')' then (s, cs) else word r (s.push x)
      let (s, r) := word cs ""
      lex r (acc.push (.at s))

private partial def parseToks (ts : List Tok) : Option (Sexp × List Tok) :=
  match ts with
  | [] => none
  | .at s :: r => some (atom s, r)
  | .rp :: _ => none
  | .lp :: r =>
    let rec items (ts : List Tok) (acc : Array Sexp) : Option (Sexp × List Tok) :=
      match ts with
      | [] => none
      | .rp :: r => some (list acc.toList, r)
      | _ => match parseToks ts with
        | none => none
        | some (x, r) => items r (acc.push x)
    items r #[]

def parse (s : String) : Option Sexp :=
  match lex s.toList #[] with
  | none => none
  | some ts => match parseToks ts.toList with
    | some (x, []) => some x
    | _ => none

def nat? : Sexp → Option Nat
  | atom s => s.toNat?
  | _ => none

def int? : Sexp → Option Int
  | atom s => s.toInt?
  | _ => none

def str? : Sexp → Option String
  | atom s => some s
  | _ => none

def list? : Sexp → Option (List Sexp)
  | list xs => some xs
  | _ => none

def natList? (x : Sexp) : Option (List Nat) :=
  match x with
  | list xs => xs.mapM nat?
  | _ => none

def intList? (x : Sexp) : Option (List Int) :=
  match x with
  | list xs => xs.mapM int?
  | _ => none

def ofNat (n : Nat) : Sexp := atom (toString n)
def ofInt (n : Int) : Sexp := atom (toString n)
def ofBool (b : Bool) : Sexp := atom (if b then "true" else "false")
def ofNats (ns : List Nat) : Sexp := list (ns.map ofNat)
def ofOption (f : α → Sexp) : Option α → Sexp
  | none => atom "none"
  | some a => list [atom "some", f a]

end Sexp

/-- Generic driver loop: reads lines from stdin, answers one line per input line. -/
partial def driverLoop (step : Sexp → Sexp) : IO Unit := do
  let stdin ← IO.getStdin
  let stdout ← IO.getStdout
  let rec loop : IO Unit := do
    let line ← stdin.getLine
    if line.isEmpty then return ()
    let t := line.trimAscii.toString
    if t.isEmpty then
      stdout.putStrLn "(skip)"
    else
      match Sexp.parse t with
      | none => stdout.putStrLn "(bad-line)"
      | some x => stdout.putStrLn (toString (step x))
    loop
  loop
  stdout.flush

end ForML
