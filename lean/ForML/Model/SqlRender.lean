/-
C06 — the *text* of the SQL the parser emits, as the result cache sees it.

  Python (forml/provider/feed/alchemy.py)
  ---------------------------------------------------------------------------------------------------------
  Results._statement2key(statement) = sha256(str(statement.compile(compile_kwargs={'literal_binds': True})))

The key of the result cache (memory and `$FORML_HOME/.cache/alchemy/<key>.parquet`) is the digest of the statement
rendered **with its literal values in line** (`literal_binds`).  Here the rendered text is the sequence of its tokens
(`Tok`): keywords, identifiers, operators, the literal *values*, and — where SQL's concrete syntax uses separators and
parentheses — the number of items of a list and the presence of an optional clause.  Clause order is that of the
SELECT statement SQLAlchemy writes: projection, FROM, WHERE, GROUP BY, HAVING, ORDER BY, LIMIT, OFFSET.

What is trusted (named in the manifest): SQLAlchemy's renderer loses no more information than this token sequence
(the correspondence ties the *behaviour* — which reads share an entry — not the text), and sha256 does not collide.

`ForML.Lemmas.C06Render` proves that the token sequence determines the tree (`sel_injective`): two statements share a
cache entry only if the parser emitted the same SQL for them.  Core Lean only.
-/
import ForML.Model.Parser

namespace ForML.Render
open ForML.Dsl ForML.Rel ForML.Parser

/-- one token of the rendered statement -/
inductive Tok where
  /-- a literal value rendered in line (`literal_binds=True`) -/
  | lit (v : Lit)
  /-- a quoted identifier: table name, alias, column name, label -/
  | ident (s : String)
  /-- an operator / function name of `EXPRESSION` -/
  | op (o : SqlOp)
  | num (n : Int)
  /-- number of items of a comma separated list -/
  | count (n : Nat)
  /-- an optional clause is present / absent -/
  | present (b : Bool)
  | dir (d : SortDir)
  | setop (o : SetOp)
  -- keywords
  | kwLiteral | kwColumn | kwAs | kwUnary | kwBinary
  | kwTable | kwAlias | kwJoin | kwOn | kwSelect | kwFrom | kwWhere | kwGroupBy | kwHaving | kwOrderBy | kwLimit
  | kwOffset | kwCompound
  deriving DecidableEq, Repr, Inhabited

abbrev Text := List Tok

/-- an expression -/
def expr : SqlExpr → Text
  | .lit v => [.kwLiteral, .lit v]
  | .col q n => [.kwColumn, .ident q, .ident n]
  | .label e n => .kwAs :: .ident n :: expr e
  | .un o a => .kwUnary :: .op o :: expr a
  | .bin o a b => .kwBinary :: .op o :: (expr a ++ expr b)

/-- the items of a comma separated list, one after the other -/
def exprsBody : List SqlExpr → Text
  | [] => []
  | e :: es => expr e ++ exprsBody es

def exprs (es : List SqlExpr) : Text := .count es.length :: exprsBody es

def optExpr : Option SqlExpr → Text
  | none => [.present false]
  | some e => .present true :: expr e

def ordsBody : List (SqlExpr × SortDir) → Text
  | [] => []
  | (e, d) :: os => expr e ++ .dir d :: ordsBody os

def ords (os : List (SqlExpr × SortDir)) : Text := .count os.length :: ordsBody os

def optNum : Option Int → Text
  | none => [.present false]
  | some n => [.present true, .num n]

/-- a selectable -/
def sel : SqlSel → Text
  | .table n => [.kwTable, .ident n]
  | .alias i n => .kwAlias :: .ident n :: sel i
  | .join l r on full isouter =>
    .kwJoin :: .present full :: .present isouter :: (sel l ++ sel r ++ .kwOn :: expr on)
  | .select items frm whr grp hav ord lim off =>
    .kwSelect :: (exprs items ++ .kwFrom :: (sel frm ++ .kwWhere :: (optExpr whr ++ .kwGroupBy :: (exprs grp ++
      .kwHaving :: (optExpr hav ++ .kwOrderBy :: (ords ord ++ .kwLimit :: (optNum lim ++ .kwOffset :: optNum off)))))))
  | .compound o l r => .kwCompound :: .setop o :: (sel l ++ sel r)

end ForML.Render
