/-
C01 — repeated execution of one compiled table against an evolving asset store.

`asset.State.commit` replaces the accessor's generation (forml/io/asset/_access.py): the next execution of the very
same compiled table loads what the previous one committed (`Release.put` → new generation whose `get(i)` is the
state dumped at list position `i`). Instructions carry no state across executions: execution `j` is a fresh `run`
on the store left by execution `j-1`.

Core Lean only.
-/
import ForML.Model.Symbols

namespace ForML.Flow

/-- the state behind a state id returned by `assets.dump` -/
def undump : Val → Val
  | .dumped v => v
  | v => v

/-- the store after an execution: a committed generation becomes the previous one (`State.commit`) -/
def storeAfter (A : Option Assets) (m : Memo) : Option Assets :=
  match A, m.get .committer with
  | some As, some (.committed vs) => some { As with prev := vs.map undump }
  | A, _ => A

/-- `State.commit(states)` called from outside the table: a list of the right length replaces the generation, any other
is refused (`assert len(states) == len(self._nodes)`) and the accessor keeps its generation -/
def commitExternal (As : Assets) (vs : List Val) : Assets :=
  match As.commit vs with
  | .committed vs => { As with prev := vs.map undump }
  | _ => As

/-- store before the `j`-th execution (0-based) of table `t` starting from `A` -/
def storeSeq (A : Option Assets) (t : Table) : Nat → Option Assets
  | 0 => A
  | j + 1 => storeAfter (storeSeq A t j) (run (storeSeq A t j) t)

/-- the memos of `k` successive executions of the same table -/
def runSeq (A : Option Assets) (t : Table) (k : Nat) : List Memo :=
  (List.range k).map (fun j => run (storeSeq A t j) t)

end ForML.Flow
