/-
C01 — an asset accessor that can fail.

`system.Loader.execute` is
```
try:    return self._assets.load(self._key)
except forml.MissingError:   # no previous generation: the documented fallback
    return None
```
so a load has four outcome classes: a state, `MissingError` (→ `None`, "no state"), another `forml.InvalidError`
(`asset.Level.Invalid` for a generation that does not exist, an unknown state reference, `UnexpectedError`) and any other
exception — the last two escape: the instruction raises, the run fails, nothing downstream of it is executed.

`Store` lists the outcome of a load per position of the persistent list; `Store.toAssets` is its embedding into the
abstract store of `Model/Symbols.lean` (`Assets.prev`), where — as everywhere in the interpreter — an exception is the
error value at the place where it was raised and every value computed from it carries it (`Val.hasError`): a value that
carries an error is a value Python never computed. `runFails` / `committedStates` read a run that way.

Core Lean only.
-/
import ForML.Model.Symbols

namespace ForML.Flow

/-- what `asset.State.load` answers for one position of the persistent list -/
inductive LoadOutcome where
  | state (v : Val)   -- the stored state
  | missing           -- `forml.MissingError`: no previous generation (yet)
  | refused           -- another `forml.InvalidError`
  | crashed           -- any other exception
  deriving Repr, Inhabited

/-- accessor with one load outcome per list position (beyond the list: `MissingError`) -/
structure Store where
  persistent : List Gid
  outcomes : List LoadOutcome
  deriving Repr, Inhabited

/-- `Loader.execute` against such an accessor: only `MissingError` is caught -/
def Store.loader (S : Store) (g : Gid) : Except RunErr Val :=
  match indexOf g S.persistent with
  | none => .error .unknownNode                      -- `State.offset`: `UnexpectedError`
  | some i =>
    match S.outcomes[i]? with
    | none => .ok .none
    | some (.state v) => .ok v
    | some .missing => .ok .none
    | some .refused => .error .assetRefused
    | some .crashed => .error .assetCrashed

def LoadOutcome.toVal : LoadOutcome → Val
  | .state v => v
  | .missing => .none
  | .refused => .error .assetRefused
  | .crashed => .error .assetCrashed

/-- the same accessor as an abstract store of the interpreter: a raised exception is the error value -/
def Store.toAssets (S : Store) : Assets := ⟨S.persistent, S.outcomes.map LoadOutcome.toVal⟩

mutual
/-- the value carries an error: Python raised while (or before) computing it -/
def Val.hasError : Val → Bool
  | .error _ => true
  | .apply _ st args => st.hasError || Val.anyError args
  | .state _ p x y => p.hasError || x.hasError || y.hasError
  | .proj _ v => v.hasError
  | .dumped v => v.hasError
  | .committed vs => Val.anyError vs
  | _ => false
/-- one of the values carries an error -/
def Val.anyError : List Val → Bool
  | [] => false
  | v :: r => v.hasError || Val.anyError r
end

/-- the execution of the table raises: some instruction's result carries an error -/
def runFails (A : Option Assets) (t : Table) : Bool := (run A t).vals.any (fun kv => kv.2.hasError)

/-- the generation the execution commits: none when it raises, none when the table has no committer -/
def committedStates (A : Option Assets) (t : Table) : Option (List Val) :=
  if runFails A t then none
  else match (run A t).get .committer with
    | some (.committed vs) => some vs
    | _ => none

end ForML.Flow
