/-
C08 — how schemas, kinds and reflected kinds really come into being (forml/io/dsl/_struct/{frame,kind,__init__}.py).

**Schemas from class hierarchies.**  A *program* is a list of class statements; a statement names earlier ones (by
position) as its bases.  Mirrored mechanism:

* `Source.Schema.__new__(mcs, name, bases, namespace)`                                            → `newSchema`
    - `existing = ChainMap(*({f.name: k} for b in bases for c in reversed(getmro(b)) for k, f in c.__dict__.items()
      if isinstance(f, Field) and k not in seen and not seen.add(k)))` — one single-entry map per attribute key, the
      *base-most* definition of a key supplies the name                                            → `baseMaps`
    - `if existing and len(existing.maps) > len(existing): raise GrammarError('Colliding base classes')`
    - for every `Field` of the namespace, in definition order: an unnamed one is `renamed(key)`; if its name is in
      `existing` under another key → `GrammarError('Colliding field name')`; `existing[name] = key`   → `addFields`
    - `type.__new__`: C3 linearisation of the bases (`TypeError` when there is none)                 → `c3merge`, `mroOf`
* `Source.Schema.__iter__`: `{k: f for c in reversed(getmro(cls)) for k, f in c.__dict__.items() if Field}.values()`
  — a dict comprehension: a key keeps the position of its first insertion and takes the last value → `upsert`, `resolveKV`
* `Source.Schema.__eq__` = same length and field-wise `==` of the `(kind, name)` named tuples, in order; `__hash__` =
  xor of the field hashes (`fieldsH` of `DslEq`)                                                  → `fieldEq`, `schemaEq`
* the `copyreg` reducer of `Schema`: `(Schema, (s.__name__, s.__bases__, {k: f for k, f in s.__dict__.items() if
  Field}))` — keyed by the attribute key, the fields carry their (normalised) names; `pickle` memoises, so every
  class of a hierarchy is reduced and rebuilt once, bases first                                    → `Cls.reduce`, `encode`
* `dsl.Schema.from_fields(*fields)` = `Schema(title, (), {f'_{i}': f})`; `from_record(values, *names)` reflects the
  kinds and names an unnamed value `c{i}`                                                          → `Decl.prepared`
* a table made by a `class N(dsl.Schema)` statement is an instance of a class named `N`; `dsl.Table(schema)` is an
  instance of `Table` itself                                                                       → `Decl.tableName`

**Kind singletons.**  `kind.Singleton.__new__` gives every primitive kind class its own closure cell `instance`;
`cls()` fills the cell on first use and returns its content ever after                            → `KReg.new`, `KReg.run`

**`kind.reflect(value)`**: the primitive classes in rank order (Boolean before Integer, Timestamp before Date), then a
non-empty sequence → `Array(reflect(value[0]))`, a non-empty mapping with keys of one type → `Map` when the values are
of one type too, `Struct` when the keys are strings                                                → `PyVal.reflect`

**Anonymous references.**  `Reference.__new__(instance, None)` draws a name; the name is all that tells two anonymous
references to one source apart once they are pickled                                              → `AnonNamer`, `anonRef`

Core Lean only.
-/
import ForML.Model.DslEq

namespace ForML.Dsl

/-! ### class statements and schema classes -/

/-- `dsl.Field(kind, name)` as written; `name = none`: not given -/
structure RawField where
  kind : Kind
  name : Option String
  deriving DecidableEq, Repr

/-- how the statement is written (see the header) -/
inductive Via where
  | declared | metaclass | fromFields | fromRecord
  deriving DecidableEq, Repr

/-- one class statement -/
structure Decl where
  via : Via
  name : String
  bases : List Nat
  ns : List (String × RawField)
  deriving DecidableEq, Repr

/-- a field of a constructed schema: `(name, kind)`, always named -/
abbrev NamedField := String × Kind

/-- a constructed schema class: `__name__`, `__bases__`, the `Field` entries of its own `__dict__` (definition
order), `__mro__` (positions, itself first) -/
structure Cls where
  name : String
  bases : List Nat
  dict : List (String × NamedField)
  mro : List Nat
  deriving DecidableEq, Repr

/-- what a class statement raises -/
inductive SchemaErr where
  | grammarBases    -- GrammarError: Colliding base classes
  | grammarField    -- GrammarError: Colliding field name
  | typeError       -- TypeError: no consistent MRO / duplicate base
  | skipped         -- a base does not exist (its statement raised)
  deriving DecidableEq, Repr

/-- the classes made so far, by position (`error`: that statement raised) -/
abbrev Heap := List (Except SchemaErr Cls)

def Heap.cls? (h : Heap) (i : Nat) : Option Cls :=
  match h[i]? with
  | some (.ok c) => some c
  | _ => none

def Heap.dictOf (h : Heap) (i : Nat) : List (String × NamedField) := ((h.cls? i).map (·.dict)).getD []
def Heap.mroOf (h : Heap) (i : Nat) : List Nat := ((h.cls? i).map (·.mro)).getD []

/-! ### C3 linearisation (`type.__new__` → `mro_implementation` → `pmerge`) -/

/-- the first head that is in no tail -/
def c3pick (seqs : List (List Nat)) : Option Nat :=
  (seqs.filterMap List.head?).find? fun c => seqs.all fun s => !(s.tail.contains c)

def c3merge : Nat → List (List Nat) → Option (List Nat)
  | 0, _ => none
  | fuel + 1, seqs =>
    let live := seqs.filter fun s => !s.isEmpty
    if live.isEmpty then some []
    else match c3pick live with
      | none => none
      | some c => (c3merge fuel (live.map fun s => if s.head? = some c then s.tail else s)).map (c :: ·)

/-- `__mro__` of a new class at position `self` with the given bases -/
def mroNew (h : Heap) (self : Nat) (bases : List Nat) : Option (List Nat) :=
  let seqs := bases.map h.mroOf ++ [bases]
  (c3merge ((seqs.map List.length).sum + 1) seqs).map (self :: ·)

/-! ### `Schema.__iter__` -/

/-- one step of the dict comprehension `{k: f …}`: a known key keeps its place and takes the new value -/
def upsert (acc : List (String × NamedField)) (e : String × NamedField) : List (String × NamedField) :=
  if acc.any (fun x => x.1 == e.1) then acc.map (fun x => if x.1 == e.1 then (x.1, e.2) else x) else acc ++ [e]

/-- the comprehension over `reversed(getmro(cls))` -/
def resolveKV (h : Heap) (mro : List Nat) : List (String × NamedField) :=
  mro.reverse.foldl (fun acc i => (h.dictOf i).foldl upsert acc) []

/-- `tuple(schema)` as `(name, kind)` in order -/
def resolve (h : Heap) (mro : List Nat) : Fields := (resolveKV h mro).map (·.2)

def Heap.fields (h : Heap) (i : Nat) : Fields := resolve h (h.mroOf i)

/-! ### `Schema.__new__` -/

/-- `field.renamed(key)` when `not field.name` -/
def normName (key : String) : Option String → String
  | none => key
  | some n => if n = "" then key else n

/-- the maps of `existing` as (field name, key), in order; second component: `seen` -/
def baseMapsStep (st : List (String × String) × List String) (e : String × NamedField) :
    List (String × String) × List String :=
  if st.2.contains e.1 then st else (st.1 ++ [(e.2.1, e.1)], e.1 :: st.2)

def baseMaps (h : Heap) (bases : List Nat) : List (String × String) :=
  (bases.foldl (fun st b => (h.mroOf b).reverse.foldl (fun st c => (h.dictOf c).foldl baseMapsStep st) st) ([], [])).1

/-- the namespace loop; `ex` = `existing` as an association list (a write goes in front: `ChainMap` writes to the
first map, which is looked up first) -/
def addFields : List (String × String) → List (String × RawField) → Except SchemaErr (List (String × NamedField))
  | _, [] => .ok []
  | ex, (key, f) :: rest =>
    let name := normName key f.name
    match ex.lookup name with
    | some k' =>
      if k' = key then (addFields ((name, key) :: ex) rest).map ((key, (name, f.kind)) :: ·) else .error .grammarField
    | none => (addFields ((name, key) :: ex) rest).map ((key, (name, f.kind)) :: ·)

/-- number the entries from `i` on: `from_fields` keys `_i`; `from_record` names an unnamed value `c{i}` -/
def renumber (record : Bool) : Nat → List (String × RawField) → List (String × RawField)
  | _, [] => []
  | i, (_, f) :: rest =>
    ("_" ++ toString i, { f with name := if record && (f.name.isNone || f.name = some "") then some ("c" ++ toString i) else f.name })
      :: renumber record (i + 1) rest

/-- the namespace that reaches `Schema.__new__` -/
def Decl.prepared (d : Decl) : List (String × RawField) :=
  match d.via with
  | .fromFields => renumber false 0 d.ns
  | .fromRecord => renumber true 0 d.ns
  | _ => d.ns

/-- `Source.Schema(name, bases, namespace)` for the statement at position `self` -/
def newSchema (h : Heap) (self : Nat) (d : Decl) : Except SchemaErr Cls :=
  if d.bases.any (fun b => (h.cls? b).isNone) then .error .skipped else
  let maps := baseMaps h d.bases
  if !maps.isEmpty && maps.length > (maps.map (·.1)).eraseDups.length then .error .grammarBases else
  match addFields maps d.prepared with
  | .error e => .error e
  | .ok dict =>
    match mroNew h self d.bases with
    | none => .error .typeError
    | some mro => .ok { name := d.name, bases := d.bases, dict := dict, mro := mro }

/-- execute the statements after the heap `h` -/
def buildFrom (h : Heap) : List Decl → Heap
  | [] => h
  | d :: ds => buildFrom (h ++ [newSchema h h.length d]) ds

def buildAll (ds : List Decl) : Heap := buildFrom [] ds

/-- name of the class of the table: the statement's name for `class N(dsl.Schema)`, `Table` for `dsl.Table(schema)` -/
def Decl.tableName (d : Decl) : String :=
  match d.via with
  | .declared => d.name
  | _ => "Table"

/-- the table of statement `i` in the shared AST -/
def tableOf (ds : List Decl) (h : Heap) (i : Nat) : Option Source :=
  match ds[i]?, h.cls? i with
  | some d, some _ => some (.table d.tableName (h.fields i))
  | _, _ => none

/-! ### the `copyreg` reducer -/

/-- the namespace the reducer emits: keyed by the attribute key, every field named -/
def Cls.reducedNs (c : Cls) : List (String × RawField) := c.dict.map fun e => (e.1, { kind := e.2.2, name := some e.2.1 })

/-- `(Schema, (name, bases, namespace))` as a class statement (a statement that raised stays what it was) -/
def reduceDecl (d : Decl) : Except SchemaErr Cls → Decl
  | .ok c => { via := if d.via = .declared then .declared else .metaclass, name := c.name, bases := c.bases, ns := c.reducedNs }
  | .error _ => d

/-- what `pickle` writes for the classes of a heap: every class once, bases first -/
def encode : List Decl → Heap → List Decl
  | d :: ds, r :: rs => reduceDecl d r :: encode ds rs
  | _, _ => []

/-! ### `Schema.__eq__` / `__hash__` -/

/-- `Field.__eq__`: the named tuple `(kind, name)` -/
def fieldEq (a b : NamedField) : Bool := Kind.implEq a.2 b.2 && a.1 == b.1

/-- `isinstance(other, Schema) and len(cls) == len(other) and all(c == o for c, o in zip(cls, other))` -/
def schemaEq (a b : Fields) : Bool := a.length == b.length && (a.zip b).all fun p => fieldEq p.1 p.2

/-! ### kind singletons -/

/-- the primitive kind classes -/
inductive Prim where
  | boolean | integer | float | decimal | string | date | timestamp
  deriving DecidableEq, Repr

def Prim.kind : Prim → Kind
  | .boolean => .boolean | .integer => .integer | .float => .float | .decimal => .decimal
  | .string => .string | .date => .date | .timestamp => .timestamp

/-- an instance: its class and its identity -/
structure KObj where
  cls : Prim
  id : Nat
  deriving DecidableEq, Repr

/-- the closure cells of the primitive classes (filled ones only) and the next free identity -/
structure KReg where
  cells : List (Prim × Nat)
  next : Nat
  deriving Repr

def KReg.empty : KReg := { cells := [], next := 0 }

/-- `cls()` -/
def KReg.new (r : KReg) (c : Prim) : KReg × KObj :=
  match r.cells.lookup c with
  | some i => (r, { cls := c, id := i })
  | none => ({ cells := (c, r.next) :: r.cells, next := r.next + 1 }, { cls := c, id := r.next })

/-- a history of instantiations -/
def KReg.run : KReg → List Prim → List KObj
  | _, [] => []
  | r, c :: cs => (r.new c).2 :: KReg.run (r.new c).1 cs

/-- `Any.__eq__`: `other.__class__ == self.__class__` -/
def KObj.eq (a b : KObj) : Bool := decide (a.cls = b.cls)

/-! ### `kind.reflect` -/

mutual
/-- python values handed to `reflect` / `Literal` / `from_record` -/
inductive PyVal where
  | int (n : Int) | bool (b : Bool) | str (s : String) | float (repr : String) | decimal (s : String)
  | date (iso : String) | datetime (iso : String)
  | list (items : PyVals)
  | dict (keys values : PyVals)
inductive PyVals where
  | nil
  | cons (v : PyVal) (vs : PyVals)
end

/-- python type of a value, as far as `isinstance` needs it -/
inductive PyType where
  | int | bool | str | float | decimal | date | datetime | list | dict
  deriving DecidableEq, Repr

def PyVal.type : PyVal → PyType
  | .int _ => .int | .bool _ => .bool | .str _ => .str | .float _ => .float | .decimal _ => .decimal
  | .date _ => .date | .datetime _ => .datetime | .list _ => .list | .dict _ _ => .dict

/-- `isinstance(v, t)` for `t = type(first)`: `bool ⊂ int`, `datetime ⊂ date` -/
def PyType.isInstance (v t : PyType) : Bool :=
  v == t || (v == .bool && t == .int) || (v == .datetime && t == .date)

/-- `same(seq)`: every later element is an instance of the type of the first -/
def PyVals.same : PyVals → Bool
  | .nil => true   -- not reached: the callers pass non-empty sequences
  | .cons v vs =>
    let rec go : PyVals → Bool
      | .nil => true
      | .cons w ws => w.type.isInstance v.type && go ws
    go vs

/-- the keys of a `Struct(**…)`: strings -/
def PyVals.strs : PyVals → Option (List String)
  | .nil => some []
  | .cons (.str s) vs => (PyVals.strs vs).map (s :: ·)
  | .cons _ _ => none

def PyVals.isNil : PyVals → Bool
  | .nil => true
  | .cons _ _ => false

mutual
def PyVal.reflect : PyVal → Option Kind
  | .bool _ => some .boolean
  | .int _ => some .integer
  | .float _ => some .float
  | .decimal _ => some .decimal
  | .str _ => some .string
  | .datetime _ => some .timestamp
  | .date _ => some .date
  | .list items => items.headReflect.map .array
  | .dict keys vals =>
    if keys.isNil || vals.isNil then none
    else if keys.same then
      match keys.headReflect with
      | some kk =>
        if vals.same then vals.headReflect.map (.map kk)
        else if kk = .string then
          match keys.strs, vals.reflectAll with
          | some ns, some ks => some (.struct ns ks)
          | _, _ => none
        else none
      | none => none
    else none
/-- `reflect(value[0])` of a non-empty sequence -/
def PyVals.headReflect : PyVals → Option Kind
  | .nil => none
  | .cons v _ => v.reflect
/-- `{k: reflect(v) for k, v in value.items()}` -/
def PyVals.reflectAll : PyVals → Option Kinds
  | .nil => some .nil
  | .cons v vs =>
    match v.reflect, vs.reflectAll with
    | some k, some ks => some (.cons k ks)
    | _, _ => none
end

/-! ### anonymous references (`frame.Reference.__new__` without a name) -/

/-- How a process names its anonymous references: a function of the process (whatever distinguishes one interpreter
from another: its entropy, its start-up state) and of the number of names it has drawn before.
`Reference.__new__`: `''.join(random.choice(string.ascii_lowercase) for _ in range(8))` — the module-level
`random` generator is seeded from the operating system when the interpreter starts. -/
abbrev AnonNamer (P : Type) := P → Nat → String

/-- the `i`-th anonymous reference to `s` made by process `p`, as it is anywhere after pickling: the reducer ships
`(instance, name)` (`Source.__getnewargs__`), nothing else of the reference's origin survives -/
def anonRef {P : Type} (name : AnonNamer P) (s : Source) (p : P) (i : Nat) : Source := .ref s (name p i)

/-- a per-process serial (`ref1`, `ref2`, …): the same in every process -/
def counterNamer {P : Type} : AnonNamer P := fun _ i => "ref" ++ toString (i + 1)

/-! ### wire format -/

open ForML (Sexp)

def Via.ofWire : String → Option Via
  | "decl" => some .declared | "meta" => some .metaclass | "fields" => some .fromFields | "record" => some .fromRecord
  | _ => none

def rawFieldOfSexp : Sexp → Option (String × RawField)
  | .list [.atom key, .atom "noname", k] => (Kind.ofSexp k).map fun k => (key, { kind := k, name := none })
  | .list [.atom key, .list [.atom "name", .atom n], k] => (Kind.ofSexp k).map fun k => (key, { kind := k, name := some n })
  | _ => none

def Decl.ofSexp : Sexp → Option Decl
  | .list [.atom via, .atom name, bases, .list ns] => do
    pure { via := ← Via.ofWire via, name := name, bases := ← bases.natList?, ns := ← ns.mapM rawFieldOfSexp }
  | _ => none

def SchemaErr.wire : SchemaErr → String
  | .grammarBases => "grammar-bases" | .grammarField => "grammar-field" | .typeError => "type-error" | .skipped => "skipped"

def Prim.ofWire : String → Option Prim
  | "boolean" => some .boolean | "integer" => some .integer | "float" => some .float | "decimal" => some .decimal
  | "string" => some .string | "date" => some .date | "timestamp" => some .timestamp | _ => none

def Prim.wire (p : Prim) : String := p.kind.className.toLower

def PyVals.ofList : List PyVal → PyVals
  | [] => .nil
  | v :: vs => .cons v (PyVals.ofList vs)

partial def PyVal.ofSexp : Sexp → Option PyVal
  | .list [.atom "int", n] => n.int?.map .int
  | .list [.atom "bool", .atom "true"] => some (.bool true)
  | .list [.atom "bool", .atom "false"] => some (.bool false)
  | .list [.atom "str", .atom s] => some (.str s)
  | .list [.atom "float", .atom s] => some (.float s)
  | .list [.atom "decimal", .atom s] => some (.decimal s)
  | .list [.atom "date", .atom s] => some (.date s)
  | .list [.atom "datetime", .atom s] => some (.datetime s)
  | .list (.atom "list" :: vs) => (vs.mapM PyVal.ofSexp).map fun vs => .list (PyVals.ofList vs)
  | .list (.atom "dict" :: kvs) => do
    let pairs ← kvs.mapM fun kv => match kv with
      | .list [k, v] => do pure (← PyVal.ofSexp k, ← PyVal.ofSexp v)
      | _ => none
    pure (.dict (PyVals.ofList (pairs.map (·.1))) (PyVals.ofList (pairs.map (·.2))))
  | _ => none

end ForML.Dsl
