/-
Model of the value level of property C15: the kind lattice and `kind.cast` (forml/io/dsl/_struct/kind.py).
Core Lean only.

Python anchors:
  Any.match(cls, kind)         = isinstance(kind, cls)                       → `classMatch` (over the MRO table)
  Primitive.cast(cls, value)   = value if isinstance(value, cls.__type__)    → `pcast` (short-cut, then `rawCast`)
                                 else Any.cast → cls._cast(value), ValueError/TypeError → dsl.CastError
  Boolean/String._cast         = cls.__type__(value) = bool(value) / str(value)
  Integer._cast = int(value), Float._cast = float(value), Decimal._cast = decimal.Decimal(value)
  Date._cast = pandas.to_datetime(value).date(), Timestamp._cast = pandas.to_datetime(value)
  kind.reflect(value)          = first primitive in `__rank__` order whose `__type__` accepts the value → `reflectClass`

What is *data* in the Python source (the class hierarchy = each kind's MRO, `__rank__`, and which Python value
classes each `__type__` accepts) is a **parameter** here (`mro`, `rank`, `isinst`); the harness writes the live
tables to `ForML/Generated/C15Lattice.lean` on every run and the theorems are proved about those.
What is *code* (`_cast` bodies, the short-cut, `isinstance` as MRO membership, rank order) is written out below and
compared with the real `kind.cast` / `kind.match` / `kind.reflect` on every run for every (kind, value class) pair.
-/
import ForML.Model.Entry
namespace ForML.Entry

/-- classes of Python values that reach `kind.cast` (entry payload cells): the built-in scalars, the temporal
classes (`pandas.Timestamp` is a `datetime.datetime`), `decimal.Decimal` and the numpy scalars (a `Dense` payload can
carry them; a `Frame` column iterates as Python scalars). -/
inductive VClass where
  | bool | int | float | str | date | datetime | decimal | npbool | npint | npfloat
  deriving DecidableEq, Repr, Inhabited

def VClass.all : List VClass := [.bool, .int, .float, .str, .date, .datetime, .decimal, .npbool, .npint, .npfloat]

def Kind.all : List Kind := [.boolean, .integer, .float, .decimal, .string, .date, .timestamp]

/-- what a `str` value says (its shape decides which constructors accept it). Texts are in canonical form
(`str(i)`, `str(float(i))`, ISO date, ISO date + time to the second, `'True'/'False'`, or anything else). -/
inductive Text where
  | intLit (i : Int)               -- "12", "-3"
  | floatLit (i : Int)             -- "12.0"
  | dateLit (d : Int)              -- "2021-03-04" (day number, 0 = 1970-01-01)
  | tsLit (d : Int) (s : Nat)      -- "2021-03-04T05:06:07" / "2021-03-04 05:06:07" (second of the day)
  | boolLit (b : Bool)             -- "True" / "False"
  | word (n : Nat)                 -- any other non-empty text
  deriving DecidableEq, Repr, Inhabited

/-- payload cells. Floats are integral (`i.0`): values are chosen so that no float comparison is needed. -/
inductive PyVal where
  | bool (b : Bool)
  | int (i : Int)
  | float (i : Int)
  | str (t : Text)
  | date (d : Int)                 -- `datetime.date`, day number (0 = 1970-01-01)
  | ts (d : Int) (s : Nat)         -- `datetime.datetime` / `pandas.Timestamp`: day, second of the day
  | decimal (i : Int)
  | npbool (b : Bool)
  | npint (i : Int)
  | npfloat (i : Int)
  deriving DecidableEq, Repr, Inhabited

def classOf : PyVal → VClass
  | .bool _ => .bool | .int _ => .int | .float _ => .float | .str _ => .str | .date _ => .date
  | .ts _ _ => .datetime | .decimal _ => .decimal | .npbool _ => .npbool | .npint _ => .npint | .npfloat _ => .npfloat

/-! ### `Any.match`: the class lattice -/

/-- `expected.match(actual)` = `isinstance(actual, type(expected))` = the class of `expected` occurs in the MRO of the
class of `actual` (`cls : Kind → Nat` numbers the classes, `mro k` lists the numbers of `type(k).__mro__`). -/
def classMatch (cls : Kind → Nat) (mro : Kind → List Nat) (expected actual : Kind) : Bool :=
  (mro actual).contains (cls expected)

/-! ### `isinstance(value, kind.__type__)` -/

/-- the value is an instance of the kind's native type (`isinst` = the live table) -/
def hasKind (isinst : Kind → VClass → Bool) (k : Kind) (v : PyVal) : Bool := isinst k (classOf v)

/-- **snapshot** of the native-type table of the released kinds (`Boolean: bool`, `Integer: numbers.Integral`,
`Float: numbers.Real`, `Decimal: decimal.Decimal`, `String: str`, `Date: datetime.date`, `Timestamp: datetime.datetime`),
used by concrete examples and by the theorems that exhibit a *failure* (which need a concrete lattice); the positive
theorems are about the live table `ForML.Generated.C15Lattice.liveIsInstance`. -/
def snapIsInstance : Kind → VClass → Bool
  | .boolean, .bool => true
  | .integer, .bool | .integer, .int | .integer, .npint => true
  | .float, .bool | .float, .int | .float, .float | .float, .npint | .float, .npfloat => true
  | .decimal, .decimal => true
  | .string, .str => true
  | .date, .date | .date, .datetime => true
  | .timestamp, .datetime => true
  | _, _ => false

/-- snapshot of `__rank__` -/
def snapRank : Kind → Nat
  | .boolean => 0 | .integer => 1 | .float => 2 | .decimal => 1 | .string => 1 | .date => 2 | .timestamp => 1

/-! ### the constructors the `_cast` bodies call -/

/-- `bool(v)` (texts are non-empty) -/
def pyBool : PyVal → Bool
  | .bool b | .npbool b => b
  | .int i | .float i | .decimal i | .npint i | .npfloat i => i != 0
  | .str _ | .date _ | .ts _ _ => true

/-- `int(v)`; `none` = `ValueError` / `TypeError` -/
def pyInt : PyVal → Option Int
  | .bool b | .npbool b => some (if b then 1 else 0)
  | .int i | .float i | .decimal i | .npint i | .npfloat i => some i
  | .str (.intLit i) => some i
  | _ => none                     -- int("12.0"), int("x"), int(date) …

/-- `float(v)` (integral results only) -/
def pyFloat : PyVal → Option Int
  | .bool b | .npbool b => some (if b then 1 else 0)
  | .int i | .float i | .decimal i | .npint i | .npfloat i => some i
  | .str (.intLit i) | .str (.floatLit i) => some i
  | _ => none

/-- `decimal.Decimal(v)`: numpy integers and booleans are refused (`TypeError`), `numpy.float64` is a `float` -/
def pyDecimal : PyVal → Option Int
  | .bool b => some (if b then 1 else 0)
  | .int i | .float i | .decimal i | .npfloat i => some i
  | .str (.intLit i) | .str (.floatLit i) => some i
  | _ => none                     -- Decimal("x") raises InvalidOperation: not a CastError, refused all the same

/-- `str(v)` -/
def pyStr : PyVal → Text
  | .bool b | .npbool b => .boolLit b
  | .int i | .decimal i | .npint i => .intLit i
  | .float i | .npfloat i => .floatLit i
  | .str t => t
  | .date d => .dateLit d
  | .ts d s => .tsLit d s

def nsPerDay : Int := 86400000000000
def nsPerSecond : Int := 1000000000

/-- `pandas.to_datetime(v)`: numbers are nanoseconds since the epoch, ISO texts are parsed, dates are midnight;
booleans, decimals and other texts are refused. Result: (day, second of the day).
Domain: numeric texts (`intLit`, `floatLit`) are refused only below 1000 in absolute value — `dateutil` reads longer
digit strings as a year / `yymmdd` / `hhmmss`; the check never hands such a text to a temporal kind of this model. -/
def pyToDatetime : PyVal → Option (Int × Nat)
  | .int i | .float i | .npint i | .npfloat i => some (i / nsPerDay, ((i % nsPerDay) / nsPerSecond).toNat)
  | .str (.dateLit d) | .date d => some (d, 0)
  | .str (.tsLit d s) | .ts d s => some (d, s)
  | _ => none

/-- `cls._cast(value)` with `ValueError`/`TypeError` turned into `dsl.CastError` (`none`) -/
def rawCast : Kind → PyVal → Option PyVal
  | .boolean, v => some (.bool (pyBool v))                            -- Any._cast: bool(value)
  | .integer, v => (pyInt v).map .int
  | .float, v => (pyFloat v).map .float
  | .decimal, v => (pyDecimal v).map .decimal
  | .string, v => some (.str (pyStr v))                               -- Any._cast: str(value)
  | .date, v => (pyToDatetime v).map (fun p => .date p.1)             -- pandas.to_datetime(value).date()
  | .timestamp, v => (pyToDatetime v).map (fun p => .ts p.1 p.2)

/-- `Primitive.cast(value)`: an instance of the kind's native type is returned as it is, anything else goes
through the constructor; `none` = the call raises. -/
def pcast (isinst : Kind → VClass → Bool) (k : Kind) (v : PyVal) : Option PyVal :=
  if isinst k (classOf v) then some v else rawCast k v

/-! ### `kind.reflect` on primitive values (what `Pandas.Schema.from_frame` infers the entry kinds with) -/

/-- `for primitive in sorted(Primitive.__subkinds__, key=rank): if isinstance(value, primitive.__type__): return …`:
the accepting kind of the least rank (`none` = `ValueError('… unknown ETL type')`). Ties in rank are broken by the
iteration order of a set in Python; `C15_reflect_unambiguous` shows that accepting kinds never tie. -/
def reflectClass (isinst : Kind → VClass → Bool) (rank : Kind → Nat) (c : VClass) : Option Kind :=
  (Kind.all.filter (isinst · c)).foldl
    (fun best k => match best with
      | none => some k
      | some b => if rank k < rank b then some k else some b) none

/-! ### what a value denotes (used to say that a cast keeps the value) -/

inductive Den where
  | num (i : Int)
  | truth (b : Bool)
  | moment (d : Int) (s : Nat)
  | word (n : Nat)
  deriving DecidableEq, Repr

def den : PyVal → Den
  | .bool b | .npbool b | .str (.boolLit b) => .truth b
  | .int i | .float i | .decimal i | .npint i | .npfloat i | .str (.intLit i) | .str (.floatLit i) => .num i
  | .date d | .str (.dateLit d) => .moment d 0
  | .ts d s | .str (.tsLit d s) => .moment d s
  | .str (.word n) => .word n

/-- the denotation as far as the declared kind can express it: a number for the numeric kinds (`True` is 1), the day
for `Date`, the moment for `Timestamp`, everything for `String`, the truth value for `Boolean`. -/
def denAs : Kind → Den → Option Den
  | .integer, .num i | .float, .num i | .decimal, .num i => some (.num i)
  | .integer, .truth b | .float, .truth b | .decimal, .truth b => some (.num (if b then 1 else 0))
  | .date, .moment d _ => some (.moment d 0)
  | .timestamp, .moment d s => some (.moment d s)
  | .string, x => some x
  | .boolean, .truth b => some (.truth b)
  | _, _ => none

end ForML.Entry
