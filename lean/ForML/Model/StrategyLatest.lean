/-
Model of the `Latest` and `Explicit` selectors of forml/application/_strategy.py as state machines over
registry histories (C17), together with the parts of forml/io/asset they rest on:

* `asset.Instance` (forml/io/asset/_access.py): a lazy reference `(project, release, generation)`;
  `__eq__` / `__hash__` delegate to the generation `Level`;
* `Level.key` / `Level.__eq__` / `Level.__hash__` (forml/io/asset/_directory/__init__.py): an implicit
  (`None`) generation key is resolved to the last listed one *on first access and then stays pinned*; every
  access re-validates the key against the parent's listing (`Level.Invalid`), an implicit key over an empty
  listing raises `Level.Listing.Empty`.

The registry of the one project the selector is bound to is `Rels`: releases in ascending key order, each with
its generation keys in ascending order (what `Level.Listing` yields).  Histories are sequences of
`publish r | commit r | tick | select use | fault e`, `tick` being one iteration of the body of `Latest._refresh` and
`fault e` a transient fault of the registry: the next registry call made by the refresher raises `e`, once.
-/
import ForML.Model.Strategy

namespace ForML.Strategy

abbrev Rels := List (Nat × List Nat)

/-- what `Level.key` raises -/
inductive KErr where
  | empty    -- `Level.Listing.Empty`: implicit key over an empty listing
  | invalid  -- `Level.Invalid`: key not (any more) in the parent's listing
  deriving DecidableEq, Repr

/-- `asset.Instance`: `gen = none` is the implicit generation whose `Level._key` is still `None` -/
structure Inst where
  project : Nat
  release : Nat
  gen : Option Nat
  deriving DecidableEq, Repr

/-- `Release.list()` of release `r`; `none` = `r` is not in `Project.list()` -/
def gensOf (rels : Rels) (r : Nat) : Option (List Nat) :=
  match rels with
  | [] => none
  | (x, gs) :: rest => if x = r then some gs else gensOf rest r

/-- `Generation.key` (`Level.key`): validates the release key (`Release.key` inside `Release.list()`), resolves an
implicit generation to `listing.last`, validates an explicit / pinned one against the listing. -/
def genKey (rels : Rels) (i : Inst) : Except KErr Nat :=
  match gensOf rels i.release with
  | none => .error .invalid
  | some gs =>
    match i.gen with
    | none =>
      match gs.getLast? with
      | none => .error .empty
      | some g => .ok g
    | some g => if g ∈ gs then .ok g else .error .invalid

/-- the instance after its key has been accessed with result `g` (`self._key = …`) -/
def Inst.pin (i : Inst) (g : Nat) : Inst := { i with gen := some g }

/-- `a == b` (`Instance.__eq__` → `Level.__eq__` of generation, release, project, evaluated parents first):
different projects or – after validating both release keys – different releases answer `False` without touching
the generation keys; otherwise both generation keys are resolved (`a`'s first) and compared.  Returns the verdict
and both instances as the evaluation leaves them (pinned). -/
def instEq (rels : Rels) (a b : Inst) : Except KErr (Bool × Inst × Inst) :=
  if a.project ≠ b.project then .ok (false, a, b)
  else
    match gensOf rels b.release, gensOf rels a.release with
    | none, _ => .error .invalid
    | some _, none => .error .invalid
    | some _, some _ =>
      if a.release ≠ b.release then .ok (false, a, b)
      else
        match genKey rels a with
        | .error e => .error e
        | .ok ga =>
          match genKey rels b with
          | .error e => .error e
          | .ok gb => .ok (ga == gb, a.pin ga, b.pin gb)

/-- `hash(instance)` = `hash(parent) ^ hash(key)` up the levels: a function of the resolved triple (abstracted to
the triple itself) -/
def instHash (rels : Rels) (i : Inst) : Except KErr (Nat × Nat × Nat) :=
  match genKey rels i with
  | .error e => .error e
  | .ok g => .ok (i.project, i.release, g)

/-! ### registry operations of a history -/

/-- a release gets published (package pushed, no generation yet) -/
def publishRel (r : Nat) : Rels → Rels
  | [] => [(r, [])]
  | (x, gs) :: rest =>
    if r < x then (r, []) :: (x, gs) :: rest
    else if r = x then (x, gs) :: rest
    else (x, gs) :: publishRel r rest

/-- `Level.Key.next` of the last listed generation (`Generation.Key.MIN` = 1 on an empty release) -/
def nextGen (gs : List Nat) : Nat :=
  match gs.getLast? with
  | none => 1
  | some g => g + 1

/-- a training commits the next generation of release `r` (publishing `r` if it is not there) -/
def commitRel (r : Nat) : Rels → Rels
  | [] => [(r, [1])]
  | (x, gs) :: rest =>
    if r < x then (r, [1]) :: (x, gs) :: rest
    else if r = x then (x, gs ++ [nextGen gs]) :: rest
    else (x, gs) :: commitRel r rest

/-! ### Latest -/

/-- `Latest._pick`: configured release → lazy instance of that release (nothing is listed, nothing can fail here);
otherwise releases newest first, the first with a non-empty generation listing and its last generation. -/
def pick (cfg : Option Nat) (rels : Rels) : Except KErr Inst :=
  match cfg with
  | some r => .ok ⟨0, r, none⟩
  | none =>
    match pickLatest rels with
    | some (r, g) => .ok ⟨0, r, some g⟩
    | none => .error .empty

structure LState where
  rels : Rels
  /-- `Latest._cache[registry]` (one registry) -/
  cache : Option Inst
  /-- the refresher thread has been started and has not died of an exception -/
  alive : Bool
  /-- a transient registry fault is waiting for the refresher's next registry call -/
  pending : Bool := false
  deriving DecidableEq, Repr

def LState.init (rels : Rels) : LState := ⟨rels, none, false, false⟩

/-- what a faulty registry raises into the refresher -/
inductive Fault where
  | missing   -- forml.MissingError
  | invalid   -- forml.InvalidError / Level.Invalid
  | os        -- OSError
  | other     -- any other Exception
  deriving DecidableEq, Repr

/-- one iteration of the loop body of `Latest._refresh`: `new = self._pick(registry)`; `if new != old:` the cache
entry is replaced.  Every round with something cached calls the registry first thing (a pending fault strikes
there, before anything is resolved or pinned).  An exception – of the registry, of `_pick` or of the comparison,
which resolves keys – is caught by `except Exception`, logged, and the round retried after the interval
(`survive = true`: the code as it is since 0762d05); `survive = false` is the refresher that ended with its first
exception (finding C17-F2, and what any narrowing of that handler brings back for the exceptions it lets through). -/
def LState.die (survive : Bool) (s : LState) : LState :=
  if survive then s else { s with alive := false }

def tick (survive : Bool) (cfg : Option Nat) (s : LState) : LState :=
  if s.alive then
    match s.cache with
    | none => s
    | some old =>
      if s.pending then ({ s with pending := false }).die survive
      else
      match pick cfg s.rels with
      | .error _ => s.die survive
      | .ok new =>
        match instEq s.rels new old with
        | .error _ => s.die survive
        | .ok (true, _, old') => { s with cache := some old' }
        | .ok (false, new', _) => { s with cache := some new' }
  else s

/-- `Latest.select`: first use of the registry picks, caches and starts the refresher -/
def select (cfg : Option Nat) (s : LState) : Except KErr Inst × LState :=
  match s.cache with
  | some i => (.ok i, s)
  | none =>
    match pick cfg s.rels with
    | .error e => (.error e, s)
    | .ok i => (.ok i, { s with cache := some i, alive := true })

/-- the caller uses the instance it was handed (tag / states / str): its generation key gets resolved and pinned
– on the very object the cache holds -/
def useCached (s : LState) : Except KErr (Nat × Nat) × LState :=
  match s.cache with
  | none => (.error .invalid, s)
  | some i =>
    match genKey s.rels i with
    | .error e => (.error e, s)
    | .ok g => (.ok (i.release, g), { s with cache := some (i.pin g) })

/-- what a request served now would run on -/
def served (s : LState) : Except KErr (Nat × Nat) := (useCached s).1

inductive LOp where
  | publish (r : Nat)
  | commit (r : Nat)
  | tick
  | select (use : Bool)
  | fault (e : Fault)
  deriving DecidableEq, Repr

inductive Obs where
  | quiet
  | picked (r : Nat)
  | served (r g : Nat)
  | err (e : KErr)
  deriving DecidableEq, Repr

def stepL (survive : Bool) (cfg : Option Nat) (s : LState) : LOp → LState × Obs
  | .publish r => ({ s with rels := publishRel r s.rels }, .quiet)
  | .commit r => ({ s with rels := commitRel r s.rels }, .quiet)
  | .tick => (tick survive cfg s, .quiet)
  | .fault _ => ({ s with pending := true }, .quiet)
  | .select false =>
    match select cfg s with
    | (.error e, s') => (s', .err e)
    | (.ok i, s') => (s', .picked i.release)
  | .select true =>
    match select cfg s with
    | (.error e, s') => (s', .err e)
    | (.ok _, s') =>
      match useCached s' with
      | (.error e, s'') => (s'', .err e)
      | (.ok (r, g), s'') => (s'', .served r g)

def runL (survive : Bool) (cfg : Option Nat) (s : LState) : List LOp → LState × List Obs
  | [] => (s, [])
  | op :: ops =>
    let (s', o) := stepL survive cfg s op
    let (s'', os) := runL survive cfg s' ops
    (s'', o :: os)

/-- the state a history leads to -/
def execL (survive : Bool) (cfg : Option Nat) (s : LState) : List LOp → LState
  | [] => s
  | op :: ops => execL survive cfg (stepL survive cfg s op).1 ops

/-! ### Explicit -/

structure EState where
  rels : Rels
  /-- `Explicit._instance` -/
  inst : Option Inst
  deriving DecidableEq, Repr

/-- `Explicit.select`: the instance is created on first use (all three keys explicit) and returned ever after -/
def eSelect (r g : Nat) (s : EState) : Inst × EState :=
  match s.inst with
  | some i => (i, s)
  | none => (⟨0, r, some g⟩, { s with inst := some ⟨0, r, some g⟩ })

inductive EOp where
  | publish (r : Nat)
  | commit (r : Nat)
  | select
  deriving DecidableEq, Repr

def stepE (r g : Nat) (s : EState) : EOp → EState × Obs
  | .publish x => ({ s with rels := publishRel x s.rels }, .quiet)
  | .commit x => ({ s with rels := commitRel x s.rels }, .quiet)
  | .select =>
    match eSelect r g s with
    | (i, s') =>
      match genKey s'.rels i with
      | .error e => (s', .err e)
      | .ok k => ({ s' with inst := some (i.pin k) }, .served i.release k)

def runE (r g : Nat) (s : EState) : List EOp → EState × List Obs
  | [] => (s, [])
  | op :: ops =>
    let (s', o) := stepE r g s op
    let (s'', os) := runE r g s' ops
    (s'', o :: os)

/-- the state a history leads to -/
def execE (r g : Nat) (s : EState) : List EOp → EState
  | [] => s
  | op :: ops => execE r g (stepE r g s op).1 ops

end ForML.Strategy
