/-
Model of the *histories* of property C15: what one process / one reader instance answers over a sequence of requests.
Core Lean only.

Python anchors:
  forml/io/_input/_producer.py   @functools.lru_cache  Reader._match_entry(self, statement_schema, entry_schema)
                                 (default `maxsize=128`; the key is the argument tuple compared by `==`: two schemas are
                                 equal when their fields — name and kind — are equal position by position)
  forml/io/layout/_codec.py      Pandas.Schema.from_frame: `_CACHE: dict[int, Schema]` keyed by
                                 `hash(tuple(frame.dtypes.items()))` (column name and dtype, in order); a miss infers the
                                 schema from the *values* of a sample of rows (`dsl.Schema.from_record` → `kind.reflect`)
                                 and raises `MissingError('Empty frame')` for a frame without rows
                                 Pandas.Decoder.loads: `Entry(Schema.from_frame(frame), Frame(frame))`
-/
import ForML.Model.Entry
import ForML.Model.EntryKind
namespace ForML.Entry

/-! ### a memoised function (`functools.lru_cache`, or the `if key not in cache: cache[key] = …` idiom) -/

/-- the cache: most recently used first -/
abbrev Cache (κ β : Type) := List (κ × β)

/-- `maxsize`: `none` = unbounded (a plain dict) -/
def trim {γ : Type} : Option Nat → List γ → List γ
  | none, l => l
  | some n, l => l.take n

/-- one call `f(x)` through the memo. A hit answers from the cache (and, as `lru_cache` does, makes the entry the most
recently used one); a miss computes, answers, and stores the answer **if it is a value** (`store`: an exception
propagates and nothing is stored), evicting the least recently used entry beyond `cap`. -/
def memoCall {α κ β : Type} [DecidableEq κ] (cap : Option Nat) (key : α → κ) (f : α → β) (store : β → Bool)
    (m : Cache κ β) (x : α) : β × Cache κ β :=
  match m.lookup (key x) with
  | some r => (r, (key x, r) :: m.filter (fun p => p.1 != key x))
  | none =>
    let r := f x
    if store r then (r, trim cap ((key x, r) :: m)) else (r, m)

/-- a history of calls through one memo: the answers in order, and the final cache -/
def memoRun {α κ β : Type} [DecidableEq κ] (cap : Option Nat) (key : α → κ) (f : α → β) (store : β → Bool) :
    Cache κ β → List α → List β × Cache κ β
  | m, [] => ([], m)
  | m, x :: xs =>
    let (r, m') := memoCall cap key f store m x
    let (rs, m'') := memoRun cap key f store m' xs
    (r :: rs, m'')

/-! ### the reader over a history of requests (one `Reader` instance) -/

/-- one request: the statement's schema, the entry's schema, the entry's payload -/
structure Req (α : Type) where
  q : List Field
  e : List Field
  data : Tab α

/-- the key `lru_cache` files the answer under: both schemas, compared field by field (name and kind) in order -/
def exactKey (p : List Field × List Field) : List Field × List Field := p

/-- an order-insensitive key (what hashing the schemas gives: `Schema.__hash__` is the XOR of the field hashes) —
**not** what the code uses; kept to show that the choice of key matters (`C15_reader_history_weak_key`). -/
def weakKey (p : List Field × List Field) : Nat × Nat :=
  (p.1.foldl (fun h f => h ^^^ (f.name + 1)) 0, p.2.foldl (fun h f => h ^^^ (f.name + 1)) 0)

/-- `self._match_entry(statement.schema, entry.schema)` as a function of the two schemas -/
def matchSchemas (p : List Field × List Field) : Bool × Option (List Nat) :=
  matchEntry (p.1.map (·.name)) (p.2.map (·.name))

/-- a history of requests through one reader instance whose `_match_entry` is memoised under `key` -/
def readerRun {α κ : Type} [DecidableEq κ] (km : Kind → Kind → Bool) (cast : Kind → α → Option α) (legacy : Bool)
    (cap : Option Nat) (key : List Field × List Field → κ) :
    Cache κ (Bool × Option (List Nat)) → List (Req α) → List (Outcome α)
  | _, [] => []
  | m, r :: rs =>
    let (ans, m') := memoCall cap key matchSchemas (fun _ => true) m (r.q, r.e)
    readerCallWith km cast legacy r.q r.e r.data ans :: readerRun km cast legacy cap key m' rs

/-! ### `Pandas.Schema.from_frame` / `Pandas.Decoder.loads` over a history of requests (one process) -/

/-- pandas column dtypes as far as the cache key can tell them apart -/
inductive DType where
  | bool | int64 | float64 | str | object
  deriving DecidableEq, Repr, Inhabited

/-- one column of a decoded frame: its label, its dtype, and the class of the values it holds (`none`: something
`kind.reflect` does not know, e.g. `None`) — columns are homogeneous (an assumption of the check). -/
structure FCol where
  name : Name
  dtype : DType
  cls : Option VClass
  deriving DecidableEq, Repr

/-- a decoded frame: its columns and its number of rows -/
structure DFrame where
  cols : List FCol
  nrows : Nat
  deriving DecidableEq, Repr

/-- `hash(tuple(frame.dtypes.items()))`: the (label, dtype) pairs in column order -/
def frameKey (fr : DFrame) : List (Name × DType) := fr.cols.map (fun c => (c.name, c.dtype))

/-- the miss branch of `from_frame`: `MissingError('Empty frame')` without rows, otherwise one field per column, named
like the column, of the kind `reflect` gives the column's values (`none` = an exception: nothing is stored). -/
def inferSchema (isinst : Kind → VClass → Bool) (rank : Kind → Nat) (fr : DFrame) : Option (List Field) :=
  if fr.nrows = 0 then none
  else mapOpt (fun c => (c.cls.bind (reflectClass isinst rank)).map (fun k => (⟨c.name, k⟩ : Field))) fr.cols

/-- a history of `Schema.from_frame` calls in one process (the class-level dict is never trimmed) -/
def fromFrameRun (isinst : Kind → VClass → Bool) (rank : Kind → Nat) :
    Cache (List (Name × DType)) (Option (List Field)) → List DFrame →
      List (Option (List Field)) × Cache (List (Name × DType)) (Option (List Field)) :=
  memoRun none frameKey (inferSchema isinst rank) Option.isSome

/-- the dtype pandas gives a homogeneous column of Python values of one class (what makes the key tell) -/
def dtypeOf : VClass → DType
  | .bool | .npbool => .bool
  | .int | .npint => .int64
  | .float | .npfloat => .float64
  | .str => .str
  | .date | .datetime | .decimal => .object

/-- the frame's dtypes determine the classes of its values: no `object` column, every column of the dtype of its
class; and the frame has rows. For such frames the cache key determines the inferred schema. -/
def Determined (fr : DFrame) : Prop :=
  0 < fr.nrows ∧ ∀ c ∈ fr.cols, c.dtype ≠ .object ∧ ∃ v, c.cls = some v ∧ dtypeOf v = c.dtype ∧ v ≠ .npbool ∧ v ≠ .npint ∧ v ≠ .npfloat

end ForML.Entry
