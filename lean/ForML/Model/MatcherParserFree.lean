/-
C09 — the parser machine of `Model/MatcherParser.lean` instantiated with a concrete parser, to be run by the driver
against forml's code: the free parser (`freeHooks`: what the harness' tuple parser builds, source skeleton only) over
the `Tables` registry and `Source.features` of `Model/MatcherTables.lean` (C09-owned; no other slice's model is
imported).  The theorems of `Props/C09.lean` hold for every `Hooks`, hence do not depend on this instance.
Core Lean only.
-/
import ForML.Model.MatcherParser
import ForML.Model.MatcherTables

namespace ForML.Matcher

open ForML.Dsl

/-- the free parser with forml's `Tables` registry -/
def freeParser : Hooks Term Tables.Segs :=
  freeHooks
    (fun s => .ok (Tables.features s))
    {}
    (fun t fs => .ok (t.select fs))
    (fun t f => .ok (t.filter f))
    (fun t s => .ok (t.fieldsOf s))
    (fun t s => .ok (t.predicateOf s))

/-- wire: natives by their position in the advertised list the line carried -/
def Term.toSexp (S : Sources) : Term → ForML.Sexp
  | .native s => .list [.atom "native", ForML.Sexp.ofNat (S.idxOf s)]
  | .handle n => .list [.atom "handle", .atom n]
  | .feat => .atom "feat"
  | .ref i n => .list [.atom "ref", i.toSexp S, .atom n]
  | .join l r k => .list [.atom "join", l.toSexp S, r.toSexp S, .atom k.wire]
  | .set l r k => .list [.atom "set", l.toSexp S, r.toSexp S, .atom k.wire]
  | .query s => .list [.atom "query", s.toSexp S]

def PErr.wire : PErr → String
  | .unprovisioned _ => "unprovisioned"
  | .unprovisionedFeature _ => "unprovisioned-feature"
  | .keyError _ => "KeyError"
  | .window => "RuntimeError"
  | .invalidContext => "RuntimeError"
  | .emptyContext => "RuntimeError"
  | .contextNotFetched => "RuntimeError"
  | .prematureFetch => "RuntimeError"
  | .stackError => "IndexError"
  | .hook e => e

/-- `(ok <term>)` | `(err <class>)` -/
def freeParse (S : Sources) (s : Source) : ForML.Sexp :=
  match parseFull freeParser S s with
  | .ok t => .list [.atom "ok", t.toSexp S]
  | .error e => .list [.atom "err", .atom e.wire]

end ForML.Matcher
