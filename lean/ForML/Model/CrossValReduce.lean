/-
C12 — the data-level default reducers (core Lean only), on fixed-point data: a value is `k / d` for an integer `k` and a
denominator `d` common to the whole data set (the harness generates multiples of 1/8), a result is an exact fraction.

Mirrors
* forml/evaluation/_metric.py            `mean(*values)` = `statistics.mean(values)` — the default reducer of the per-fold
                                         metric values of `evaluation.Function` (exact sum over the number of values;
                                         `StatisticsError` without a value)
* forml/pipeline/ensemble/_stacking.py   `pandas_mean(*folds)` — the default apply-mode reducer of `FullStack`: folds of one
                                         shape or `ValueError`; the predictions side by side (`concat(axis='columns')` of
                                         frames carrying one and the same index: positional), `mean(axis='columns')`: row
                                         `i` of the result = mean of row `i` of every fold model's prediction.  Index labels do
                                         not occur in the model: the reducer is positional.
-/
import ForML.Model.CrossVal

namespace ForML.CrossVal

/-- an exact fraction `num / den` -/
structure Frac where
  num : Int
  den : Nat
  deriving DecidableEq, Repr, Inhabited

/-- `evaluation._metric.mean(*values)` on the values `k / d`: none = `statistics.StatisticsError` (no data point) -/
def meanReducer (d : Nat) (values : List Int) : Option Frac :=
  if values.isEmpty then none else some ⟨values.sum, d * values.length⟩

/-- the values at row `i` of every fold (a fold that has no such row contributes nothing) -/
def rowAcross (i : Nat) (folds : List (List Int)) : List Int := folds.filterMap (·[i]?)

/-- `pandas_mean(*folds)` on one-column predictions (`Series`) of values `k / d` -/
def stackReduce (d : Nat) (folds : List (List Int)) : Except Err (List Frac) :=
  match folds with
  | [] => .error .valueError
  | f :: rest =>
    if rest.all (·.length == f.length) then
      .ok ((List.range f.length).map fun i => ⟨(rowAcross i (f :: rest)).sum, d * (f :: rest).length⟩)
    else .error .valueError

/-- rows `ps` of a column, in that order (`iloc[ps]`; positions beyond the data are not generated) -/
def pick {α : Type} (ps : List Nat) (xs : List α) : List α := ps.filterMap (xs[·]?)

end ForML.CrossVal
