/-
Well-formedness of symbol tables as the runners see them (C02): no instruction bound twice, every argument
bound, acyclic (witnessed by a topological numbering below the table size). Decidable; the harness sends the
numbering it computed and the driver evaluates the predicate.

Core Lean only.
-/
import ForML.Model.Symbols

namespace ForML.Flow

/-- does a key occur twice? (`len(dict(symbols)) != len(symbols)`) -/
def hasDup : List Key → Bool
  | [] => false
  | k :: r => r.contains k || hasDup r

/-- `t` is a valid table for the runners: unique keys, arguments bound, `r` a topological numbering
(arguments strictly below their consumer) with values below `t.length`. -/
def Table.ranked (t : Table) (r : Key → Nat) : Bool :=
  !hasDup (t.map (·.id)) &&
  t.all (fun s => decide (r s.id < t.length) &&
    s.args.all (fun a => (t.find a).isSome && decide (r a < r s.id)))

/-- is `k` an instruction that the single-function runner turns into a node of its expression DAG (functor or
getter), as opposed to a loader (condensed at build time) or a store instruction (refused)? -/
def Table.isNode (t : Table) (k : Key) : Bool :=
  match t.find k with
  | some s => match s.instr with
    | .functor .. => true
    | .getter _ => true
    | _ => false
  | none => false

/-- shape assumptions of the single-function runner that are decidable on the table: loaders take no arguments
and no sink is a loader / store instruction -/
def Table.pyShape (t : Table) : Bool :=
  t.all (fun s => match s.instr with | .loader _ => s.args.isEmpty | _ => true) && t.sinks.all t.isNode

/-- is `k` a loader of a group the asset accessor knows? -/
def Table.isLoader (A : Option Assets) (t : Table) (k : Key) : Bool :=
  match t.find k, A with
  | some ⟨_, .loader g, _⟩, some A => A.contains g
  | _, _ => false

/-- the nodes without any argument left after the state presets took theirs (the *heads*) -/
def Table.heads (t : Table) : List Key :=
  (t.filter fun s => match s.instr with
    | .functor _ _ ps => s.args.length ≤ ps.length
    | _ => false).map (·.id)

/-- **apply-mode table** as `flow.compile(composition.apply, assets)` emits it for the serving runner (decidable):
apply functors whose state presets are fed by loaders of persistent groups and whose other arguments are
functors / getters, getters of one functor / getter, argument-free loaders, exactly one sink (a functor or
getter) and exactly one head. -/
def Table.applyMode (A : Option Assets) (t : Table) : Bool :=
  t.pyShape &&
  t.all (fun s => match s.instr with
    | .functor _ act ps => act == .apply && decide (ps.length ≤ s.args.length) &&
        (s.args.take ps.length).all (t.isLoader A) && (s.args.drop ps.length).all t.isNode
    | .getter _ => s.args.length == 1 && s.args.all t.isNode
    | .loader _ => t.isLoader A s.id
    | _ => false) &&
  t.sinks.length == 1 && t.heads.length == 1

end ForML.Flow
