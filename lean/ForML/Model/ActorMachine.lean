/-
Operation sequences on LIVE actor instances (C13): the actor interface as a state machine.

`Mach ω β` is the `flow.Actor` interface over arbitrary representations of an actor object (`ω`) and of
state bytes (`β`); `get_state` may change the object (an implementation may memoise what it exported).
`World` = what a program holds while it works with one actor definition: a builder, actor instances in
registers, exported states in slots.  `stepW : World → MOp → World × Out` interprets one operation --
`Builder` creation / `update` / `reset` / pickling / `__call__`, `train`, `apply`, `get_params`,
`set_params`, `is_stateful`, `get_state` into a slot, `set_state` from a slot (an earlier export of the same
instance, a twin's export, the empty state, foreign bytes), the platform's `SetState` preset, a pickle
round trip of the instance, `Functor(builder, SetState(Apply()/Train())).execute` -- and `runW` a
whole sequence, collecting every observation.

Three machines are instances:
* `Flavour.toMach` -- the mechanism-shaped models of `Model/Actor.lean` (the code that exists);
* `specMach` -- the CONTRACT, the simplest actor there is: a pair (attributes, logical state) driven by
  a handful of flags (`Contract`); `get_state` exports exactly the current logical state (class-based
  actors: together with the attribute dict), `set_state` replaces the logical state, keeps every
  hyper-parameter the receiver reports and takes the unreported attributes from a class-based export,
  an empty state and a pickle round trip change nothing;
* `memoMach` -- any machine wrapped with a memo of the last exported bytes and an invalidation policy
  (the class of implementations "serialise once per training").

Python anchors: forml/flow/_task.py `Actor`, `Builder`, `Spec`; forml/pipeline/wrap/_actor.py
`Parametric`, `Stateless.Actor`, `Stateful.Actor`, `Class.Actor` + reducer;
forml/flow/_code/target/user.py `Preset.reduce`, `SetState.set`, `Functor.execute`.
Core Lean only.
-/
import ForML.Model.Actor

namespace ForML.Actor

/-- the actor interface over representations `ω` (instance) and `β` (state bytes) -/
structure Mach (ω β : Type) where
  /-- `inspect.signature(actor)` as seen by `Spec.__new__` -/
  specSig : Sig
  /-- `actor(*args, **kwargs)` -/
  build : List Int → PMap → Except Err ω
  apply : ω → Int → Except Err Int
  train : ω → Int → Int → Except Err ω
  /-- `get_state()`: the instance afterwards (a memoising implementation remembers) and the bytes -/
  getState : ω → ω × β
  setState : ω → β → Except Err ω
  getParams : ω → PMap
  setParams : ω → PMap → Except Err ω
  /-- `actor.is_stateful()` -/
  isStateful : Bool
  /-- `loads(dumps(instance))` -/
  repickle : ω → Except Err ω
  /-- `b''` -/
  empty : β
  /-- `not state` -/
  isEmpty : β → Bool
  /-- non-empty bytes that no `get_state` of this definition produced -/
  foreign : β

/-! ### builders over a machine (`flow.Spec`, `flow.Builder`; same definitions as `mkSpec` … in Model/Actor) -/

/-- `Spec.__new__`: `inspect.signature(actor).bind_partial(*args, **kwargs)` -/
def mkSpecSig (sig : Sig) (args : List Int) (kwargs : PMap) : Except Err Spec :=
  match bindPartial sig args kwargs with
  | .error e => .error e
  | .ok _ => .ok { args := args, kwargs := kwargs }

/-- `Builder.__call__`: `actor(*(args or self.args), **self.kwargs | kwargs)` -/
def Mach.call (m : Mach ω β) (sp : Spec) (args : List Int) (kwargs : PMap) : Except Err ω :=
  m.build (if args.isEmpty then sp.args else args) (pupdate sp.kwargs kwargs)

/-- `Preset.reduce` + `SetState.set`: a falsy value is skipped, otherwise
`params = get_params(); set_state(value); set_params(**params)` -/
def Mach.preset (m : Mach ω β) (o : ω) (b : β) : Except Err ω :=
  if m.isEmpty b then .ok o
  else match m.setState o b with
    | .error e => .error e
    | .ok o' => m.setParams o' (m.getParams o)

/-- `Functor(builder, SetState(Apply())).execute(state, x)`: a fresh actor, the state preset, `apply` -/
def Mach.functorApply (m : Mach ω β) (sp : Spec) (b : β) (x : Int) : Except Err Int :=
  match m.call sp [] [] with
  | .error e => .error e
  | .ok o =>
    match m.preset o b with
    | .error e => .error e
    | .ok o' => m.apply o' x

/-- `Functor(builder, SetState(Train())).execute(state, x, y)`: fresh actor, preset, `train`, `get_state()` -/
def Mach.functorTrain (m : Mach ω β) (sp : Spec) (b : β) (x y : Int) : Except Err β :=
  match m.call sp [] [] with
  | .error e => .error e
  | .ok o =>
    match m.preset o b with
    | .error e => .error e
    | .ok o' =>
      match m.train o' x y with
      | .error e => .error e
      | .ok o'' => .ok (m.getState o'').2

/-! ### worlds, operations, observations -/

/-- one operation of a program working with one actor definition; `r` = actor register, `k`/`j` = state slot -/
inductive MOp where
  | spec (args : List Int) (kw : PMap)        -- `Actor.builder(*args, **kw)`
  | update (args : List Int) (kw : PMap)      -- `builder = builder.update(*args, **kw)`
  | reset (args : List Int) (kw : PMap)       -- `builder = builder.reset(*args, **kw)`
  | bpickle                                   -- `builder = loads(dumps(builder))`
  | build (r : Nat) (args : List Int) (kw : PMap)   -- `regs[r] = builder(*args, **kw)`
  | train (r : Nat) (x y : Int)
  | apply (r : Nat) (x : Int)
  | params (r : Nat)
  | setParams (r : Nat) (kw : PMap)
  | stateful
  | forge (k : Nat)                           -- `slots[k] =` somebody else's non-empty bytes
  | getState (r k : Nat)                      -- `slots[k] = regs[r].get_state()`
  | setState (r k : Nat)                      -- `regs[r].set_state(slots[k])`
  | setEmpty (r : Nat)                        -- `regs[r].set_state(b'')`
  | preset (r k : Nat)                        -- `SetState(..).reduce(regs[r], slots[k])`
  | pickle (r : Nat)                          -- `regs[r] = loads(dumps(regs[r]))`
  | fapply (k : Nat) (x : Int)                -- `Functor(builder, SetState(Apply())).execute(slots[k], x)`
  | ftrain (k : Nat) (x y : Int) (j : Nat)    -- `slots[j] = Functor(builder, SetState(Train())).execute(slots[k], x, y)`
  deriving Repr

/-- what the program sees of one operation -/
inductive Out where
  | done
  | int (v : Int)
  /-- `get_params()`, as the key→value content of the returned dict -/
  | params (look : Key → Option Int)
  | bool (b : Bool)
  /-- `get_state()` / the train functor returned non-empty (`full`) or empty bytes -/
  | blob (full : Bool)
  | err (e : Err)

structure World (ω β : Type) where
  builder : Option Spec
  regs : Nat → Option ω
  blobs : Nat → β

/-- nothing built, nothing exported -/
def World.init (m : Mach ω β) : World ω β := { builder := none, regs := fun _ => none, blobs := fun _ => m.empty }

def World.setReg (w : World ω β) (r : Nat) (o : ω) : World ω β :=
  { w with regs := fun i => if i = r then some o else w.regs i }

def World.setBlob (w : World ω β) (k : Nat) (b : β) : World ω β :=
  { w with blobs := fun i => if i = k then b else w.blobs i }

/-- an operation that replaces the builder -/
def World.onBuilder (w : World ω β) (f : Option Spec → Except Err Spec) : World ω β × Out :=
  match f w.builder with
  | .ok sp => ({ w with builder := some sp }, .done)
  | .error e => (w, .err e)

/-- `f` on the existing builder -/
def withBuilder (f : Spec → Except Err α) : Option Spec → Except Err α
  | none => .error .noObject
  | some sp => f sp

/-- an operation that changes the instance in register `r` -/
def World.onReg (w : World ω β) (r : Nat) (f : ω → Except Err ω) : World ω β × Out :=
  match w.regs r with
  | none => (w, .err .noObject)
  | some o =>
    match f o with
    | .ok o' => (w.setReg r o', .done)
    | .error e => (w, .err e)

/-- an operation that only looks at the instance in register `r` -/
def World.readReg (w : World ω β) (r : Nat) (g : ω → Out) : World ω β × Out :=
  match w.regs r with
  | none => (w, .err .noObject)
  | some o => (w, g o)

/-- the integer of an `apply` observation -/
def Out.int? : Out → Option Int
  | .int v => some v
  | _ => none

def outInt : Except Err Int → Out
  | .ok v => .int v
  | .error e => .err e

/-- **one operation** -/
def stepW (m : Mach ω β) (w : World ω β) : MOp → World ω β × Out
  | .spec a kw => w.onBuilder (fun _ => mkSpecSig m.specSig a kw)
  | .update a kw => w.onBuilder (withBuilder fun sp =>
      mkSpecSig m.specSig (if a.isEmpty then sp.args else a) (pupdate sp.kwargs kw))
  | .reset a kw => w.onBuilder (withBuilder fun _ => mkSpecSig m.specSig a kw)
  | .bpickle => w.onBuilder (withBuilder fun sp => mkSpecSig m.specSig sp.args sp.kwargs)
  | .build r a kw =>
    match withBuilder (fun sp => m.call sp a kw) w.builder with
    | .ok o => (w.setReg r o, .done)
    | .error e => (w, .err e)
  | .train r x y => w.onReg r (fun o => m.train o x y)
  | .apply r x => w.readReg r (fun o => outInt (m.apply o x))
  | .params r => w.readReg r (fun o => .params (pget (m.getParams o)))
  | .setParams r kw => w.onReg r (fun o => m.setParams o kw)
  | .stateful => (w, .bool m.isStateful)
  | .forge k => (w.setBlob k m.foreign, .done)
  | .getState r k =>
    match w.regs r with
    | none => (w, .err .noObject)
    | some o => ((w.setReg r (m.getState o).1).setBlob k (m.getState o).2, .blob (!m.isEmpty (m.getState o).2))
  | .setState r k => w.onReg r (fun o => m.setState o (w.blobs k))
  | .setEmpty r => w.onReg r (fun o => m.setState o m.empty)
  | .preset r k => w.onReg r (fun o => m.preset o (w.blobs k))
  | .pickle r => w.onReg r m.repickle
  | .fapply k x => (w, outInt (withBuilder (fun sp => m.functorApply sp (w.blobs k) x) w.builder))
  | .ftrain k x y j =>
    match withBuilder (fun sp => m.functorTrain sp (w.blobs k) x y) w.builder with
    | .ok b => (w.setBlob j b, .blob (!m.isEmpty b))
    | .error e => (w, .err e)

/-- **a whole operation sequence**: the final world and every observation in order -/
def runW (m : Mach ω β) : World ω β → List MOp → World ω β × List Out
  | w, [] => (w, [])
  | w, op :: rest =>
    let (w', out) := stepW m w op
    let (w'', outs) := runW m w' rest
    (w'', out :: outs)

/-- the observations of a sequence started from nothing -/
def observe (m : Mach ω β) (ops : List MOp) : List Out := (runW m (World.init m) ops).2

/-! ### the mechanism-shaped models as machines -/

def Flavour.toMach (f : Flavour σ) (foreign : Blob σ) : Mach (Obj σ) (Blob σ) where
  specSig := f.specSig
  build := f.build
  apply := f.apply
  train := f.train
  getState := fun o => (o, f.getState o)
  setState := f.setState
  getParams := f.getParams
  setParams := f.setParams
  isStateful := f.isStateful
  repickle := f.repickle
  empty := none
  isEmpty := fun b => b.isNone
  foreign := foreign

/-- bytes that `cloudpickle.loads` into the wrong kind of thing for the flavour: a bare value for the
class-based flavours (their state is an attribute dict), a dict for the function-based ones -/
def FlavourSpec.foreign [Inhabited σ] : FlavourSpec → Blob σ
  | .decorated _ _ => some (.whole [] none)
  | _ => some (.value default)

def FlavourSpec.toMach [Inhabited σ] (u : User σ) (fs : FlavourSpec) : Mach (Obj σ) (Blob σ) :=
  (fs.toFlavour u).toMach fs.foreign

/-! ### the contract: the simplest actor -/

/-- what distinguishes the flavours as far as the contract goes -/
structure Contract where
  sig : Sig
  /-- leading parameters of the callable the `Spec` inspects that are not hyper-parameters -/
  anon : Nat
  /-- a training implementation exists -/
  trains : Bool
  /-- what `train` raises when there is none -/
  trainErr : Err
  /-- class-based: an exported state carries the attribute dict (function-based: the bare state value) -/
  carries : Bool
  /-- the actor's own `set_state` keeps its hyper-parameters (forml's state methods; user-written naive
  state methods do not -- then only the platform's preset does) -/
  protects : Bool
  /-- function-based: the keywords are validated at construction only, `set_params` takes anything and an
  unknown name fails when the user function is called -/
  late : Bool
  deriving Repr

/-- the simplest actor: current attributes (hyper-parameters and constructor arguments it keeps to
itself) and current logical state (`none` = untrained) -/
structure SAct (σ : Type) where
  attrs : PMap
  state : Option σ

/-- what an exported state is, logically -/
inductive SBlob (σ : Type) where
  | empty
  | own (attrs : PMap) (state : Option σ)
  | foreign

def SBlob.isEmpty : SBlob σ → Bool
  | .empty => true
  | _ => false

/-- the receiver's reported hyper-parameters over what came with the state -/
def overlay (sig : Sig) (own carried : PMap) : PMap := pupdate carried (pfilter sig.visible own)

/-- what the constructor stores -/
def Contract.construct (c : Contract) (args : List Int) (kw : PMap) : Except Err PMap :=
  if c.late then
    if !args.isEmpty then .error .typeError
    else match bind { c.sig with anon := 0 } [] kw with
      | .error e => .error e
      | .ok _ => .ok kw
  else match bind c.sig args kw with
    | .error e => .error e
    | .ok b => .ok (pupdate c.sig.defaults b)

/-- the user's functions can be called with these attributes -/
def Contract.usable (c : Contract) (attrs : PMap) : Bool := !c.late || accepts c.sig attrs

/-- the hyper-parameters the actor reports -/
def Contract.reports (c : Contract) (attrs : PMap) : PMap := if c.late then attrs else pfilter c.sig.visible attrs

/-- **the contract as a machine** -/
def specMach (u : User σ) (c : Contract) : Mach (SAct σ) (SBlob σ) where
  specSig := { c.sig with anon := c.anon }
  build := fun args kw =>
    match c.construct args kw with
    | .error e => .error e
    | .ok attrs => .ok { attrs := attrs, state := none }
  apply := fun a x =>
    if c.trains then
      match a.state with
      | none => .error .runtimeError
      | some s => if c.usable a.attrs then .ok (u.applyFn (pget a.attrs) s x) else .error .typeError
    else if c.usable a.attrs then .ok (u.applyFn0 (pget a.attrs) x) else .error .typeError
  train := fun a x y =>
    if !c.trains then .error c.trainErr
    else if c.usable a.attrs then .ok { a with state := some (u.trainFn (pget a.attrs) a.state x y) }
    else .error .typeError
  getState := fun a =>
    (a, if !c.trains then .empty
        else if c.carries then .own a.attrs a.state
        else match a.state with
          | none => .empty
          | some s => .own [] (some s))
  setState := fun a b =>
    match b with
    | .empty => .ok a
    | .foreign => .error (if c.trains then .typeError else .unexpectedError)
    | .own p s =>
      if !c.trains then .error .unexpectedError
      else .ok { state := s,
                 attrs := if c.carries then (if c.protects then overlay c.sig a.attrs p else p) else a.attrs }
  getParams := fun a => c.reports a.attrs
  setParams := fun a kw =>
    if c.late || settable c.sig kw then .ok { a with attrs := pupdate a.attrs kw } else .error .typeError
  isStateful := c.trains
  repickle := fun a => .ok a
  empty := .empty
  isEmpty := SBlob.isEmpty
  foreign := .foreign

/-- the contract flags of each flavour -/
def FlavourSpec.contract : FlavourSpec → Contract
  | .native s t =>
    { sig := s, anon := s.anon, trains := t, trainErr := .runtimeError, carries := true, protects := true, late := false }
  | .custom s =>
    { sig := s, anon := s.anon, trains := true, trainErr := .runtimeError, carries := true, protects := false, late := false }
  | .decorated s p =>
    { sig := s, anon := if p then 2 else 1, trains := p, trainErr := .runtimeError, carries := false, protects := true,
      late := true }
  | .wrapped s tm =>
    { sig := s, anon := s.anon, trains := tm.trains,
      trainErr := (match tm with
        | .noncallable => .typeError
        | _ => .attributeError),
      carries := true, protects := true, late := false }

/-! ### implementations that memoise the exported bytes -/

/-- which operations drop the memo -/
structure Policy where
  onTrain : Bool
  onSetState : Bool
  onSetParams : Bool
  onPickle : Bool
  deriving Repr, DecidableEq

/-- every operation that can change what `get_state` returns drops the memo -/
def Policy.sound : Policy := ⟨true, true, true, true⟩

/-- "serialise once per training": only `train` drops it -/
def Policy.perTraining : Policy := ⟨true, false, false, false⟩

/-- `train` and `set_state` drop it (enough where the bytes depend on the logical state only) -/
def Policy.stateOnly : Policy := ⟨true, true, false, false⟩

def keepMemo (drop : Bool) (memo : Option β) : Option β := if drop then none else memo

def withMemo (memo : Option β) : Except Err ω → Except Err (ω × Option β)
  | .ok o => .ok (o, memo)
  | .error e => .error e

/-- a machine whose `get_state` remembers the bytes it produced and hands them out again until the memo is
dropped (instance = the inner instance + the memo) -/
def memoMach (m : Mach ω β) (p : Policy) : Mach (ω × Option β) β where
  specSig := m.specSig
  build := fun a kw => withMemo none (m.build a kw)
  apply := fun oc x => m.apply oc.1 x
  train := fun oc x y => withMemo (keepMemo p.onTrain oc.2) (m.train oc.1 x y)
  getState := fun oc =>
    match oc.2 with
    | some b => (oc, b)
    | none => (((m.getState oc.1).1, some (m.getState oc.1).2), (m.getState oc.1).2)
  setState := fun oc b => withMemo (keepMemo p.onSetState oc.2) (m.setState oc.1 b)
  getParams := fun oc => m.getParams oc.1
  setParams := fun oc kw => withMemo (keepMemo p.onSetParams oc.2) (m.setParams oc.1 kw)
  isStateful := m.isStateful
  repickle := fun oc => withMemo (keepMemo p.onPickle oc.2) (m.repickle oc.1)
  empty := m.empty
  isEmpty := m.isEmpty
  foreign := m.foreign

end ForML.Actor
