/-
C18 — package manifest and package content (core Lean only).

Mirrors forml/project/_distribution.py
  * `Manifest.write`: `string.Template('NAME = "$name"\nVERSION = "$version"\nPACKAGE = "$package"\nMODULES = $modules')`
    with `modules=json.dumps(dict(self.modules))` (name, version text and package are pasted raw between
    double quotes);
  * `Manifest.read`: the file is imported as a Python module, i.e. the four right-hand sides are read back as
    Python literals (`"…"` string literals; the JSON object as a dict display of string literals).
(package content — `Package.create` / `install` — and component loading are in ForML.Model.ManifestLoad, histories
over locations in ForML.Model.ManifestStore).

The version is carried as its normalised text `str(Release.Key)` (`ForML.Keys.vstr`); that
`Release.Key(str(v)) == v` is `C18_version_str_roundtrip` (ForML.Model.KeysValue models the PEP 440 text parser).
Python literal reading is modelled for the escapes listed in `pyEsc`; `\x`, octal, `\N`, `\U` are
`outOfModel` (never produced by `json.dumps`).

The template text is kept as four named constants of code points (`sNAME`, `qVERSION`, `qPACKAGE`, `qMODULES`; the
rendered text is compared with the real file by the harness on every run) and the readers are written with
explicit `if c == …` tests and the helper `push`, so that proofs go through one-step lemmas
(ForML.Lemmas.C18Py) instead of reducing a parser over literal lists.
-/
import ForML.Model.Keys

namespace ForML.Manifest

structure Manifest where
  name : List Nat
  version : List Nat       -- normalised text
  package : List Nat
  modules : List (List Nat × List Nat)
  deriving DecidableEq, Repr

inductive ReadErr where
  | syntax
  | outOfModel
  deriving DecidableEq, Repr

/-! ### writing -/

def hexDigit (d : Nat) : Nat := if d < 10 then 48 + d else 87 + d

def u4 (c : Nat) : List Nat :=
  [92, 117, hexDigit (c / 4096 % 16), hexDigit (c / 256 % 16), hexDigit (c / 16 % 16), hexDigit (c % 16)]

/-- `json.encoder` `ESCAPE_ASCII` / `py_encode_basestring_ascii` per character -/
def jesc (c : Nat) : List Nat :=
  if c == 34 then [92, 34]
  else if c == 92 then [92, 92]
  else if c == 10 then [92, 110]
  else if c == 13 then [92, 114]
  else if c == 9 then [92, 116]
  else if c == 8 then [92, 98]
  else if c == 12 then [92, 102]
  else if 32 ≤ c && c ≤ 126 then [c]
  else if c < 65536 then u4 c
  else
    let n := c - 65536
    u4 (55296 + (n / 1024) % 1024) ++ u4 (56320 + n % 1024)

def jstr : List Nat → List Nat
  | [] => []
  | c :: r => jesc c ++ jstr r

/-- one `"k": "v"` item followed by `tail` -/
def jitem (k v tail : List Nat) : List Nat :=
  34 :: (jstr k ++ 34 :: 58 :: 32 :: 34 :: (jstr v ++ 34 :: tail))

/-- what follows an item: `}` or `, ` and the next item (`', '.join(items)`) -/
def jrest : List (List Nat × List Nat) → List Nat
  | [] => [125]
  | (k, v) :: r => 44 :: 32 :: jitem k v (jrest r)

/-- `json.dumps(dict(modules))` (default separators) -/
def jdict : List (List Nat × List Nat) → List Nat
  | [] => [123, 125]
  | (k, v) :: r => 123 :: jitem k v (jrest r)

/-- `NAME = "` -/
def sNAME : List Nat := [78, 65, 77, 69, 32, 61, 32, 34]
/-- `\nVERSION = "` (after the quote closing the name) -/
def qVERSION : List Nat := [10, 86, 69, 82, 83, 73, 79, 78, 32, 61, 32, 34]
/-- `\nPACKAGE = "` -/
def qPACKAGE : List Nat := [10, 80, 65, 67, 75, 65, 71, 69, 32, 61, 32, 34]
/-- `\nMODULES = ` -/
def qMODULES : List Nat := [10, 77, 79, 68, 85, 76, 69, 83, 32, 61, 32]

/-- `Manifest.TEMPLATE.substitute(...)`:
`NAME = "$name"\nVERSION = "$version"\nPACKAGE = "$package"\nMODULES = $modules` -/
def render (m : Manifest) : List Nat :=
  sNAME ++ (m.name ++ 34 :: (qVERSION ++ (m.version ++ 34 :: (qPACKAGE ++ (m.package ++ 34 :: (qMODULES ++ jdict m.modules))))))

/-! ### reading back (Python literals) -/

def hexVal (c : Nat) : Option Nat :=
  if 48 ≤ c && c ≤ 57 then some (c - 48)
  else if 97 ≤ c && c ≤ 102 then some (c - 87)
  else if 65 ≤ c && c ≤ 70 then some (c - 55)
  else none

/-- single-character escapes of a Python string literal -/
def pyEsc (c : Nat) : Option Nat :=
  if c == 92 then some 92 else if c == 39 then some 39 else if c == 34 then some 34
  else if c == 97 then some 7 else if c == 98 then some 8 else if c == 102 then some 12
  else if c == 110 then some 10 else if c == 114 then some 13 else if c == 116 then some 9
  else if c == 118 then some 11 else none

/-- prepend decoded characters to the result of reading the rest of the literal -/
def push (cs : List Nat) : Except ReadErr (List Nat × List Nat) → Except ReadErr (List Nat × List Nat)
  | .ok (t, rest) => .ok (cs ++ t, rest)
  | .error e => .error e

/-- `\uXXXX`: the four hex digits -/
def hex4 (h1 h2 h3 h4 : Nat) : Option Nat :=
  match hexVal h1, hexVal h2, hexVal h3, hexVal h4 with
  | some d1, some d2, some d3, some d4 => some (((d1 * 16 + d2) * 16 + d3) * 16 + d4)
  | _, _, _, _ => none

/-- escapes the model does not read (`\x`, `\N`, `\U`, octal, line continuation) -/
def unmodelledEsc (c : Nat) : Bool := c == 120 || c == 78 || c == 85 || (48 ≤ c && c ≤ 55) || c == 10

/-- body of a `"`-quoted Python string literal (input starts after the opening quote):
decoded text and the rest after the closing quote -/
def pyStr : List Nat → Except ReadErr (List Nat × List Nat)
  | [] => .error .syntax                       -- unterminated
  | a :: l =>
    if a == 34 then .ok ([], l)
    else if a == 10 || a == 13 then .error .syntax
    else if a == 92 then
      match l with
      | [] => .error .syntax
      | c :: r =>
        match pyEsc c with
        | some x => push [x] (pyStr r)
        | none =>
          if c == 117 then
            match r with
            | h1 :: h2 :: h3 :: h4 :: r' =>
              match hex4 h1 h2 h3 h4 with
              | some x => push [x] (pyStr r')
              | none => .error .syntax
            | _ => .error .syntax
          else if unmodelledEsc c then .error .outOfModel
          else push [92, c] (pyStr r)          -- unknown escape: the backslash stays
    else push [a] (pyStr l)

/-- strip an expected prefix -/
def expect : List Nat → List Nat → Except ReadErr (List Nat)
  | [], t => .ok t
  | p :: ps, c :: t => if p == c then expect ps t else .error .syntax
  | _ :: _, [] => .error .syntax

/-- `"k": "v"` then `}` (end of the display) or `, ` and further items; fuel-bounded -/
def pyItems : Nat → List Nat → Except ReadErr (List (List Nat × List Nat))
  | 0, _ => .error .syntax
  | f + 1, t =>
    match expect [34] t with
    | .error e => .error e
    | .ok t =>
      match pyStr t with
      | .error e => .error e
      | .ok (k, t) =>
        match expect [58, 32, 34] t with
        | .error e => .error e
        | .ok t =>
          match pyStr t with
          | .error e => .error e
          | .ok (v, t) =>
            if t == [125] then .ok [(k, v)]
            else
              match expect [44, 32] t with
              | .error e => .error e
              | .ok t' =>
                match pyItems f t' with
                | .ok r => .ok ((k, v) :: r)
                | .error e => .error e

/-- a dict display of string literals (input starts after `{`) -/
def pyDictBody (r : List Nat) : Except ReadErr (List (List Nat × List Nat)) :=
  if r == [125] then .ok [] else pyItems r.length r

def pyDict (t : List Nat) : Except ReadErr (List (List Nat × List Nat)) :=
  match expect [123] t with
  | .error e => .error e
  | .ok r => pyDictBody r

/-- `Manifest.read` on the module text -/
def read (t : List Nat) : Except ReadErr Manifest :=
  match expect sNAME t with
  | .error e => .error e
  | .ok t =>
    match pyStr t with
    | .error e => .error e
    | .ok (name, t) =>
      match expect qVERSION t with
      | .error e => .error e
      | .ok t =>
        match pyStr t with
        | .error e => .error e
        | .ok (version, t) =>
          match expect qPACKAGE t with
          | .error e => .error e
          | .ok t =>
            match pyStr t with
            | .error e => .error e
            | .ok (package, t) =>
              match expect qMODULES t with
              | .error e => .error e
              | .ok t =>
                match pyDict t with
                | .error e => .error e
                | .ok modules => .ok { name, version, package, modules }

end ForML.Manifest
