/-
Model of native actor *class hierarchies* (C13): actor classes derived from other actor classes, the
resolution of `train` / `get_state`+`set_state` through the (single-inheritance) MRO, and Python's
class-attribute semantics (a read goes through the MRO, a write lands in the class' own `__dict__`)
for implementations of `is_stateful` that keep something on the class.

Python anchors
* forml/flow/_task.py `Actor.is_stateful` (`cls.train.__code__ is not Actor.train.__code__`: `cls.train`
  is resolved through the MRO; nothing is stored), `Actor.get_state/set_state` (ask `is_stateful`)

Core Lean only.
-/
import ForML.Model.Actor

namespace ForML.Actor

/-- one native actor class of a family: its base class (index of another class of the table; `none` =
derives directly from the family's root, which has neither `train` nor its own state methods), and
what its own body defines -/
structure ClassDef where
  base : Option Nat
  /-- the class body defines `train` -/
  ownTrain : Bool
  /-- the class body defines naive `get_state`/`set_state` (see `nativeCustom`) -/
  ownState : Bool
  deriving Repr, DecidableEq

abbrev Classes := List ClassDef

/-- attribute lookup through the MRO with `fuel` levels: does the class or one of its ancestors
satisfy `own`? (`getattr(cls, name)` is the root's when nobody defines it) -/
def resolves (own : ClassDef → Bool) (tbl : Classes) : Nat → Nat → Bool
  | 0, _ => false
  | fuel + 1, c =>
    match tbl[c]? with
    | none => false
    | some d => own d || (match d.base with
      | none => false
      | some b => resolves own tbl fuel b)

/-- `cls.train.__code__ is not Actor.train.__code__` -/
def resolvesTrain (tbl : Classes) (c : Nat) : Bool := resolves (·.ownTrain) tbl tbl.length c

def resolvesState (tbl : Classes) (c : Nat) : Bool := resolves (·.ownState) tbl tbl.length c

/-- the resolved definition of class `c` as an actor flavour -/
def classFlavour (sig : Sig) (tbl : Classes) (c : Nat) : FlavourSpec :=
  if resolvesTrain tbl c then (if resolvesState tbl c then .custom sig else .native sig true)
  else .native sig false

/-! ### class attributes and implementations of `is_stateful` that may use them -/

/-- per class: the value of a class attribute in the class' *own* `__dict__` (`none` = not there) -/
abbrev ClassAttrs := List (Option Bool)

/-- `cls.__dict__.get(name)` -/
def ownAttr (attrs : ClassAttrs) (c : Nat) : Option Bool := (attrs[c]?).join

/-- `getattr(cls, name)` with the root's value `None`: the nearest own value along the MRO -/
def inheritedAttr (tbl : Classes) (attrs : ClassAttrs) : Nat → Nat → Option Bool
  | 0, _ => none
  | fuel + 1, c =>
    match ownAttr attrs c with
    | some v => some v
    | none =>
      match tbl[c]? with
      | none => none
      | some d => match d.base with
        | none => none
        | some b => inheritedAttr tbl attrs fuel b

/-- `setattr(cls, name, v)`: always the class' own `__dict__` -/
def setAttr (attrs : ClassAttrs) (c : Nat) (v : Bool) : ClassAttrs :=
  (attrs ++ List.replicate (c + 1 - attrs.length) none).set c (some v)

/-- an implementation of `is_stateful`: class state before → (class state after, answer) -/
abbrev StatefulImpl := Classes → ClassAttrs → Nat → ClassAttrs × Bool

/-- the code that exists: resolves `train`, stores nothing -/
def statefulPure : StatefulImpl := fun tbl attrs c => (attrs, resolvesTrain tbl c)

/-- a memoising variant reading and writing the cache by plain attribute access
(`if cls._stateful is None: cls._stateful = …; return cls._stateful`): a subclass *inherits* the
cached answer of its base -/
def statefulCachedInherited : StatefulImpl := fun tbl attrs c =>
  match inheritedAttr tbl attrs tbl.length c with
  | some v => (attrs, v)
  | none => (setAttr attrs c (resolvesTrain tbl c), resolvesTrain tbl c)

/-- a memoising variant that looks only into the class' own `__dict__` -/
def statefulCachedOwn : StatefulImpl := fun tbl attrs c =>
  match ownAttr attrs c with
  | some v => (attrs, v)
  | none => (setAttr attrs c (resolvesTrain tbl c), resolvesTrain tbl c)

/-- a history of `is_stateful` queries (directly, or through `get_state`/`set_state`/the compiler)
on classes of the family, in any order; the answers in order -/
def runQueries (impl : StatefulImpl) (tbl : Classes) : ClassAttrs → List Nat → ClassAttrs × List Bool
  | attrs, [] => (attrs, [])
  | attrs, c :: rest =>
    let (attrs', a) := impl tbl attrs c
    let (attrs'', as) := runQueries impl tbl attrs' rest
    (attrs'', a :: as)

/-- the answer to a query on `c` after the history `hist` -/
def answerAfter (impl : StatefulImpl) (tbl : Classes) (hist : List Nat) (c : Nat) : Bool :=
  (impl tbl (runQueries impl tbl [] hist).1 c).2

end ForML.Actor
