/-
C10 — sequences of trainings whose windows are derived from committed generation tags, and the
apply / train paths of `Feed.load`.

* forml/runtime/_agent.py  `Runner.train(lower, upper)`: `if lower is None: lower =
  self._instance.tag.training.ordinal`; `Runner.apply(lower, upper)`: bounds passed through as given.
* forml/io/asset/_directory/level/minor.py  `Tag.dumps` / `Tag.loads`: the tag of a generation is
  committed to the registry as TOML (`{'training': {'timestamp', 'ordinal'}, …}`) and read back by
  the next launch (another process): the ordinal that run *n+1* starts from is the one *read back*
  from generation *n*'s tag.  A `None` ordinal is not written at all and reads back as `None`.
  TOML keeps `int`, `float`, `str`, `bool`, `date`, `datetime` as they are; a `decimal.Decimal`
  comes back as the `float` of the same value.
* forml/io/_input/__init__.py  `Feed.load(extract, lower, upper)`: the apply driver gets
  `Statement.prepare(extract.apply, extract.ordinal, lower, upper)`, the train driver
  `Statement.prepare(extract.train[.select(*features, *labels)], extract.ordinal, lower, upper)` —
  two base statements, one ordinal specs, one pair of bounds.

forml reads `tag.training.ordinal` but nothing in forml writes it (`Runner.train` commits
`tag.training.trigger()`, which only sets the timestamp): that the ordinal recorded with generation
*n* is the upper bound of training *n* is an assumption about the caller, as before.
-/
import ForML.Model.OrdinalCache

namespace ForML.Ordinal

section
variable {α : Type}

/-- value class after `Tag.loads(Tag.dumps(tag))` (TOML).  A `Decimal` comes back as a number: the
`float` of the same value, or the `int` when it is integral — for `castRule` the two behave alike
(`C10_toml_castable_int` in Lemmas/C10Chain), the model says `float`. -/
def tomlClass : PyT → PyT
  | .decimal => .float
  | t => t

/-- the ordinal of a committed tag as the next launch reads it back -/
def persistRaw (r : Raw α) : Raw α := { r with ty := tomlClass r.ty }

/-- incremental trainings without explicit lower bound, the tag going through `commit` between two
trainings: training `n+1` starts from `commit (upper bound of training n)` -/
def trainChainVia (commit : Raw α → Raw α) (tag : Option (Raw α)) :
    List (Raw α) → List (Option (Raw α) × Option (Raw α))
  | [] => []
  | u :: r => (trainLower none tag, some u) :: trainChainVia commit (some (commit u)) r

/-- a sequence of trainings, each with an optional explicit lower bound and an upper bound; the
upper bound of each is recorded (through `commit`) as the ordinal of the tag the next one starts
from: the `(lower, upper)` pair that `Runner.train` hands to `Feed.load` for each -/
def trainSeqVia (commit : Raw α → Raw α) (tag : Option (Raw α)) :
    List (Option (Raw α) × Raw α) → List (Option (Raw α) × Option (Raw α))
  | [] => []
  | (lo, u) :: r => (trainLower lo tag, some u) :: trainSeqVia commit (some (commit u)) r

/-- `Runner.apply`: the bounds are passed as given (the tag is not consulted) -/
def applyLower (lower _tag : Option (Raw α)) : Option (Raw α) := lower

/-- `Source.Extract`: base statements (identified by numbers) of the two modes, whether label
columns are given, the ordinal specs -/
structure ExtractM where
  train : Nat
  apply : Nat
  labels : Bool
  ordinal : Option OrdinalSpec
  deriving DecidableEq, Repr

/-- `extract.Statement`: a base statement bound with the ordinal specs and the bounds -/
structure Bound (α : Type) where
  stmt : Nat × Bool        -- base statement, re-selected with the label columns appended?
  ordinal : Option OrdinalSpec
  lower : Option (Raw α)
  upper : Option (Raw α)

/-- `Feed.load`: (apply driver's statement, train driver's statement) -/
def feedLoad (e : ExtractM) (lo hi : Option (Raw α)) : Bound α × Bound α :=
  (⟨(e.apply, false), e.ordinal, lo, hi⟩, ⟨(e.train, e.labels), e.ordinal, lo, hi⟩)

variable [LE α] [LT α] [DecidableLE α] [DecidableLT α] [DecidableEq α]

/-- `Statement.__call__`: `self.prepared(self.lower, self.upper)` — the terms AND-ed to the base -/
def Bound.terms (kindOf : Nat → Kind) (b : Bound α) : Except Err (List (Term α)) :=
  prepared (toOrd kindOf b.ordinal) b.lower b.upper

/-- rows a driver delivers: the records its base statement denotes, filtered by the terms -/
def Bound.rows (kindOf : Nat → Kind) (dataOf : Nat × Bool → List α) (b : Bound α) : Except Err (List Nat) :=
  (b.terms kindOf).map (deliverIdx · (dataOf b.stmt))

/-- the whole path for a sequence of trainings: `Source.query` → per training `Runner.train` (lower
bound from the committed tag unless given) → `Feed.load` with the components shipped `ships` times
→ train driver, read through the result cache or not -/
def sourceTrainings (kindOf : Nat → Kind) (ordinal : Option Nat) (a : OnceArg) (ships : Nat) (cached : Bool)
    (commit : Raw α → Raw α) (tag : Option (Raw α)) (runs : List (Option (Raw α) × Raw α)) (data : List α) :
    Except Err (List (Option (Raw α)) × List (Except Err (List Nat))) :=
  match (if cached then sourceWindowsCached kindOf ordinal a ships (trainSeqVia commit tag runs) data
         else sourceWindows kindOf ordinal a ships (trainSeqVia commit tag runs) data) with
  | .error e => .error e
  | .ok rs => .ok ((trainSeqVia commit tag runs).map (·.1), rs)

end

end ForML.Ordinal
