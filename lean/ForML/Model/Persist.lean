/-
C04 — persisted states are bound to the actors that produced them, in every mode.

Self-contained executable model (core Lean only) of

* `Composition.persistent` (forml/flow/_suite/assembly.py) = `clean.Stateful` visitor over the **apply** segment:
  gids of *derived* workers (`atomic.Worker.derived`: stateful and some *other* member of the group is `trained`,
  i.e. has a `Train`/`Label` registration in `port.Subscription._PORTS`) in the pre-order of `Traversal.each`
  (forml/flow/_graph/span.py: depth first, subscribers in publisher-port order, global `seen` set, at the segment
  tail only trained subscribers are followed), first occurrence of a gid wins;
* the positional accessor `asset.State` (forml/io/asset/_access.py): `__contains__`, `offset` = index in the node list,
  `load` = `generation.get(offset)` (forml/io/asset/_directory/level/minor.py: `tag.states[offset]`, `b''` while the
  release has no generation), `dump`/`commit` (a new generation whose `tag.states` is the positional list);
* what `flow.compile(segment, assets)` (forml/flow/_code/compiler.py `Table.add`) wires into every stateful worker of
  the visited segment: `Loader(assets, gid)` for persistent groups, the `Train` functor (previous state → new state,
  `Dumper` + `Committer` argument at `assets.offset(gid)`), `preset_state` of an applying member from the group's
  trainer if that is part of the same table, else from the loader; a missing committer argument / dangling state key
  is the `AssemblyError` of `Table.__iter__`;
* the mode drivers of `runtime.Runner` (forml/runtime/_agent.py) and `pyfunc.Runner.__init__`:
  `train`  → `composition.train` with `instance.state(composition.persistent, tag.training.trigger())`,
  `apply`, serving → `composition.apply` with `instance.state(composition.persistent)`,
  `eval_perftrack` → the **train** segment of the composition of `pipeline >> PerfTrackScore` with that composition's
  own `persistent` (which `PerfTrackScore.compose` derives from a *copy* of the pipeline's apply segment);
* a registry of generations and histories of actions, every action on a *fresh expansion*: the composition graph
  with all node uids and group gids renamed (`Comp.rename`) — nothing but list positions ties two expansions.

A composition is a finite graph given as data (`Comp`): the harness extracts it from the real expansion
(`flow.Composition(source, pipeline)`), so expression → graph is not part of this model (C03 owns it).
States are `Origin` records (who produced the state: actor occurrence `tag`, training `run`, hyper-parameter at
training time, origin of the previous state); `Actor.set_state` keeps the hyper-parameters of the freshly built actor
(forml/flow/_task.py), so an observation carries the hyper-parameter of the *action*.
-/
import ForML.Model.Sexp

namespace ForML.Persist

/-- a worker of the composition as `compile`/`persistent` see it -/
structure Node where
  uid : Nat
  gid : Nat
  /-- actor occurrence of the expression (the builder) -/
  tag : Nat
  stateful : Bool
  /-- `Worker.trained`: a `Train`/`Label` port of this node is registered in `Subscription._PORTS` -/
  trained : Bool
  deriving DecidableEq, Repr, Inhabited

/-- `flow.Composition`: two segments over one graph. `edges` lists, per publisher in
`for port in node.output for subscription in port` order, the subscriber nodes (apply, train and label subscriptions). -/
structure Comp where
  nodes : List Node
  edges : List (Nat × Nat)
  applyHead : Nat
  applyTail : Nat
  trainHead : Nat
  trainTail : Nat
  deriving Repr, Inhabited

namespace Comp

def node? (c : Comp) (u : Nat) : Option Node := c.nodes.find? (fun n => n.uid == u)

def isTrained (c : Comp) (u : Nat) : Bool := c.nodes.any (fun n => n.uid == u && n.trained)

/-- `(s.node for p in pivot.output for s in p)` -/
def subs (c : Comp) (u : Nat) : List Nat := (c.edges.filter (fun e => e.1 == u)).map (·.2)

/-- the subscribers `Traversal.each` descends into: all of them, at the tail only the trained ones -/
def next (c : Comp) (tail u : Nat) : List Nat :=
  if u == tail then (c.subs u).filter c.isTrained else c.subs u

/-- `Traversal.each`: recursive pre-order with one `seen` set = stack machine that tests `seen` when popping -/
def dfs (c : Comp) (tail : Nat) : Nat → List Nat → List Nat → List Nat
  | 0, _, seen => seen
  | _ + 1, [], seen => seen
  | f + 1, u :: stack, seen =>
    if seen.contains u then dfs c tail f stack seen
    else dfs c tail f (c.next tail u ++ stack) (seen ++ [u])

/-- every step pops one entry; at most `1 + |edges|` entries are ever pushed -/
def fuel (c : Comp) : Nat := c.edges.length + 2

/-- uids in `segment.accept` order -/
def visit (c : Comp) (head tail : Nat) : List Nat := c.dfs tail c.fuel [head] []

/-- the visited workers (a `Future` tail is not a node of the table) -/
def visitNodes (c : Comp) (head tail : Nat) : List Node := (c.visit head tail).filterMap c.node?

/-- `Worker.derived` -/
def derived (c : Comp) (n : Node) : Bool :=
  n.stateful && c.nodes.any (fun m => m.gid == n.gid && m.uid != n.uid && m.trained)

end Comp

/-- keep first occurrences (`if gid not in self._gids: self._gids.append(gid)`) -/
def dedup : List Nat → List Nat
  | [] => []
  | x :: xs => x :: (dedup xs).filter (fun y => y != x)

namespace Comp

/-- `clean.Stateful` over a visit order -/
def persistentOf (c : Comp) (order : List Node) : List Nat :=
  dedup ((order.filter c.derived).map (·.gid))

/-- `Composition.persistent` -/
def persistent (c : Comp) : List Nat := c.persistentOf (c.visitNodes c.applyHead c.applyTail)

def tagOfGid (c : Comp) (g : Nat) : Option Nat := (c.nodes.find? (fun n => n.gid == g)).map (·.tag)

/-- the actor occurrences behind the persistent list, position by position -/
def persistentTags (c : Comp) : List (Option Nat) := c.persistent.map c.tagOfGid

/-- a fresh expansion: the same graph with other uuids -/
def rename (ρ σ : Nat → Nat) (c : Comp) : Comp where
  nodes := c.nodes.map (fun n => { n with uid := ρ n.uid, gid := σ n.gid })
  edges := c.edges.map (fun e => (ρ e.1, ρ e.2))
  applyHead := ρ c.applyHead
  applyTail := ρ c.applyTail
  trainHead := ρ c.trainHead
  trainTail := ρ c.trainTail

end Comp

/-! ### states, generations, the positional accessor -/

/-- content of a persisted state: which actor occurrence produced it in which training run -/
structure Origin where
  tag : Nat
  run : Nat
  /-- hyper-parameter the producing actor was configured with (not restored on load) -/
  hp : Nat
  /-- (tag, run) of the state the training started from -/
  prev : Option (Nat × Nat)
  deriving DecidableEq, Repr, Inhabited

/-- a committed generation: the training run that committed it and `tag.states` resolved to their contents -/
structure Generation where
  run : Nat
  states : List Origin
  deriving DecidableEq, Repr, Inhabited

/-- generation `k` (1-based) is `reg[k-1]` -/
abbrev Registry := List Generation

inductive Err where
  /-- `Level.Invalid`: explicit generation that is not listed -/
  | invalidGeneration
  /-- `UnexpectedError('Unknown node')` of `State.offset` -/
  | unknownNode
  /-- `IndexError` of `tag.states[offset]` -/
  | index
  /-- `AssemblyError` (argument mismatch) of `Table.__iter__` -/
  | assembly
  /-- the composition itself was refused (`TopologyError`, e.g. `Ambiguous tail`) -/
  | topology
  deriving DecidableEq, Repr, Inhabited

/-- `asset.State(generation, nodes, tag)`; the generation is resolved lazily (`Level.key`) -/
structure Assets where
  nodes : List Nat
  gen : Except Err (Option Generation)

namespace Assets

/-- `State.__contains__` -/
def has (a : Assets) (gid : Nat) : Bool := a.nodes.contains gid

/-- `State.load`: `generation.get(self.offset(gid))` -/
def load (a : Assets) (gid : Nat) : Except Err (Option Origin) :=
  if a.nodes.contains gid then
    match a.gen with
    | .error e => .error e
    | .ok none => .ok none
    | .ok (some g) =>
      match g.states[a.nodes.idxOf gid]? with
      | some s => .ok (some s)
      | none => .error .index
  else .error .unknownNode

end Assets

/-! ### what compile + run hand to every stateful worker of a visited segment -/

/-- what a symbolic actor reports -/
inductive Obs where
  /-- `apply` of occurrence `tag` built with hyper-parameter `hp`, holding `state` -/
  | applied (tag hp : Nat) (state : Option Origin)
  /-- `train` of occurrence `tag`, starting from `prev` -/
  | trained (tag hp : Nat) (prev : Option Origin)
  deriving DecidableEq, Repr, Inhabited

def mapE {α β : Type} (f : α → Except Err β) : List α → Except Err (List β)
  | [] => .ok []
  | x :: xs =>
    match f x with
    | .error e => .error e
    | .ok y =>
      match mapE f xs with
      | .error e => .error e
      | .ok ys => .ok (y :: ys)

/-- the previous state a trainer is preset with: loaded iff its group is persistent -/
def prevOf (a : Assets) (n : Node) : Except Err (Option Origin) :=
  if a.has n.gid then a.load n.gid else .ok none

/-- the state a trainer `n` produces (`Train` functor: preset, `train`, `get_state`) -/
def newState (a : Assets) (run hp : Nat) (n : Node) : Except Err Origin :=
  match prevOf a n with
  | .error e => .error e
  | .ok prev => .ok ⟨n.tag, run, hp, prev.map (fun s => (s.tag, s.run))⟩

/-- the trained member of group `gid` that is part of the same table (its functor is aliased under the gid) -/
def trainerOf (order : List Node) (gid : Nat) : Option Node :=
  order.find? (fun m => m.stateful && m.trained && m.gid == gid)

/-- `preset_state` argument of an applying stateful worker -/
def receive (c : Comp) (order : List Node) (a : Assets) (run hp : Nat) (n : Node) : Except Err (Option Origin) :=
  if a.has n.gid || c.derived n then
    match trainerOf order n.gid with
    | some t =>
      match newState a run hp t with
      | .error e => .error e
      | .ok s => .ok (some s)
    | none => if a.has n.gid then a.load n.gid else .error .assembly
  else .ok none

def observe (c : Comp) (order : List Node) (a : Assets) (run hp : Nat) (n : Node) : Except Err (List Obs) :=
  if !n.stateful then .ok []
  else if n.trained then
    match prevOf a n with
    | .error e => .error e
    | .ok prev => .ok [.trained n.tag hp prev]
  else
    match receive c order a run hp n with
    | .error e => .error e
    | .ok s => .ok [.applied n.tag hp s]

def observeAll (c : Comp) (order : List Node) (a : Assets) (run hp : Nat) : Except Err (List Obs) :=
  match mapE (observe c order a run hp) order with
  | .error e => .error e
  | .ok os => .ok os.flatten

/-- the `Dumper` wired to the committer at `assets.offset(gid)`: the state of the group's trainer in this table;
a persistent group without a trainer in the table leaves a hole (`AssemblyError`) -/
def committedState (order : List Node) (a : Assets) (run hp : Nat) (g : Nat) : Except Err Origin :=
  match trainerOf order g with
  | some t => newState a run hp t
  | none => .error .assembly

/-- `Committer`: one argument per persistent node, at `assets.offset(gid)`; only part of the table if some
persistent group is trained in it -/
def commit (order : List Node) (a : Assets) (run hp : Nat) : Except Err (Option Generation) :=
  if order.any (fun n => n.stateful && n.trained && a.has n.gid) then
    match mapE (committedState order a run hp) a.nodes with
    | .error e => .error e
    | .ok states => .ok (some ⟨run, states⟩)
  else .ok none

/-! ### actions -/

inductive Kind where
  | train | apply | perftrack | serve
  deriving DecidableEq, Repr, Inhabited

structure Action where
  kind : Kind
  /-- explicit generation (1-based) or the latest -/
  gen : Option Nat
  /-- identifies the action (a training run) -/
  run : Nat
  /-- hyper-parameter configured by the code that is current when the action runs -/
  hp : Nat
  deriving DecidableEq, Repr, Inhabited

/-- `release.get(generation)`: explicit key must be listed, implicit key is the last one (none: empty release) -/
def select (reg : Registry) : Option Nat → Except Err (Option Generation)
  | none => .ok reg.getLast?
  | some k =>
    if k == 0 then .error .invalidGeneration
    else match reg[k - 1]? with
      | some g => .ok (some g)
      | none => .error .invalidGeneration

/-- compile the segment `head..tail` of `c` with `instance.state(c.persistent)` and run it -/
def runSegment (c : Comp) (head tail : Nat) (reg : Registry) (a : Action) : Except Err (Registry × List Obs) :=
  let assets : Assets := ⟨c.persistent, select reg a.gen⟩
  let order := c.visitNodes head tail
  match observeAll c order assets a.run a.hp with
  | .error e => .error e
  | .ok obs =>
    match commit order assets a.run a.hp with
    | .error e => .error e
    | .ok none => .ok (reg, obs)
    | .ok (some g) => .ok (reg ++ [g], obs)

/-- a project: the composition of its pipeline and the composition of `pipeline >> PerfTrackScore`
(or the refusal raised while composing it) -/
structure Case where
  plain : Comp
  perf : Except Err Comp

def Case.rename (ρ σ : Nat → Nat) (cs : Case) : Case where
  plain := cs.plain.rename ρ σ
  perf := match cs.perf with
    | .error e => .error e
    | .ok p => .ok (p.rename ρ σ)

/-- one lifecycle action (`Runner.train/apply/eval_perftrack`, `pyfunc.Runner`) -/
def step (cs : Case) (reg : Registry) (a : Action) : Except Err (Registry × List Obs) :=
  match a.kind with
  | .train =>
    -- `self._instance.tag` is read eagerly
    match select reg a.gen with
    | .error e => .error e
    | .ok _ => runSegment cs.plain cs.plain.trainHead cs.plain.trainTail reg a
  | .apply => runSegment cs.plain cs.plain.applyHead cs.plain.applyTail reg a
  | .serve => runSegment cs.plain cs.plain.applyHead cs.plain.applyTail reg a
  | .perftrack =>
    match cs.perf with
    | .error e => .error e
    | .ok p => runSegment p p.trainHead p.trainTail reg a

/-- a fresh expansion for every action: `(uid renaming, gid renaming)` -/
abbrev Fresh := (Nat → Nat) × (Nat → Nat)

/-- a history; a failed action leaves the registry as it was -/
def runHistory (cs : Case) : Registry → List (Action × Fresh) → List (Action × Registry × Except Err (List Obs))
  | _, [] => []
  | reg, (a, f) :: rest =>
    match step (cs.rename f.1 f.2) reg a with
    | .error e => (a, reg, .error e) :: runHistory cs reg rest
    | .ok (reg', obs) => (a, reg, .ok obs) :: runHistory cs reg' rest

/-! ### the property as a predicate on observations (spec-shaped) -/

/-- the generation an action loads -/
def loaded (reg : Registry) (a : Action) : Option Generation :=
  match select reg a.gen with
  | .ok g => g
  | .error _ => none

/-- own state of the selected generation -/
def boundTo (g : Generation) (tag : Nat) (s : Option Origin) : Bool :=
  match s with
  | some o => o.tag == tag && o.run == g.run
  | none => false

/-- the property for one observation of action `a` performed on registry `reg` -/
def obsOk (reg : Registry) (a : Action) : Obs → Bool
  | .applied tag hp s =>
    hp == a.hp &&
    (match a.kind with
     | .train =>
       -- the members of a group applied on the train path hold what their own trainer produced in this run
       (match s with
        | some o => o.tag == tag && o.run == a.run
        | none => false)
     | _ =>
       match loaded reg a with
       | some g => boundTo g tag s
       | none => true)
  | .trained tag hp prev =>
    hp == a.hp &&
    (match prev with
     | none => true  -- first training / a group that is not persisted starts from scratch
     | some o =>
       match loaded reg a with
       | some g => o.tag == tag && o.run == g.run
       | none => false)

/-- re-training starts from the loaded generation: a persistent trainer must not lose its state -/
def retrainOk (reg : Registry) (a : Action) (persistentTags : List Nat) : Obs → Bool
  | .trained tag _ prev =>
    if persistentTags.contains tag then
      match loaded reg a with
      | some _ => prev.isSome
      | none => true
    else true
  | _ => true

/-! ### well-formedness of a composition (what the operator library guarantees; decidable, evaluated per case) -/

namespace Comp

/-- one builder per group: members of a group carry the same occurrence tag -/
def tagsConsistent (c : Comp) : Bool :=
  c.nodes.all (fun n => c.nodes.all (fun m => n.gid != m.gid || n.tag == m.tag))

/-- uids identify nodes -/
def uidsDistinct (c : Comp) : Bool :=
  c.nodes.all (fun n => c.nodes.all (fun m => n.uid != m.uid || n == m))

/-- every stateful worker visited on `head..tail` that is not itself trained has a trained sibling -/
def appliedDerived (c : Comp) (head tail : Nat) : Bool :=
  (c.visitNodes head tail).all (fun n => !n.stateful || n.trained || c.derived n)

/-- only stateful workers are trained -/
def trainedStateful (c : Comp) : Bool := c.nodes.all (fun n => !n.trained || n.stateful)

/-- the train segment visits a trainer of every persistent group -/
def trainersVisited (c : Comp) : Bool :=
  c.persistent.all (fun g => (trainerOf (c.visitNodes c.trainHead c.trainTail) g).isSome)

/-- no trainer is visited on `head..tail` (apply-mode segments) -/
def noTrainer (c : Comp) (head tail : Nat) : Bool := (c.visitNodes head tail).all (fun n => !n.trained)

def wfPlain (c : Comp) : Bool :=
  c.tagsConsistent && c.uidsDistinct && c.trainedStateful && c.trainersVisited
    && c.appliedDerived c.applyHead c.applyTail && c.appliedDerived c.trainHead c.trainTail
    && c.noTrainer c.applyHead c.applyTail

end Comp

/-- the perftrack composition binds like the plain one: same occurrence behind every position, its train segment
(the pipeline's apply segment + the metric) applies only derived stateful workers and trains nothing -/
def Case.wfPerf (cs : Case) : Bool :=
  match cs.perf with
  | .error _ => true
  | .ok p =>
    p.tagsConsistent && p.uidsDistinct && p.trainedStateful
      && p.appliedDerived p.trainHead p.trainTail && p.noTrainer p.trainHead p.trainTail
      && p.persistentTags == cs.plain.persistentTags

def Case.wf (cs : Case) : Bool := cs.plain.wfPlain && cs.wfPerf

end ForML.Persist
