/-
C09 — pools built the way the platform builds them: `setup.Feed` descriptors resolved from `[FEED.<ref>]` sections of
the configuration, mixed with explicit `io.Feed` instances.  Model of

  forml/setup/_conf.py      `Section.__new__`, `Section._extract`, `Multi._lookup`
  forml/setup/_provider.py  `Provider._extract`, `Feed._extract`, `Feed.__lt__`, `Provider.__lt__`
  forml/io/_input/__init__.py `Importer.Slot.__init__/priority/instance`

  Python                                                   here
  -------------------------------------------------------  -------------------------------------------------------
  a `[FEED.x]` section (a dict of TOML values)             `Options` (`Val`: number in halves / string / inline table)
  `kwargs.pop(key, default)`                               `List.lookup` + `popKey`
  `kwargs.update(kwargs.pop('params', {}))`                `sectionExtract` (`update`)
  `provider = kwargs.pop('provider', reference)` + super   `providerExtract`
  `priority = kwargs.pop('priority', 0)` + super + `float` `feedExtract` (the pop comes BEFORE the `params` sub-table is
                                                           merged: an option called `priority` inside `params` is a
                                                           generic option of the feed, not the pool priority)
  `Section.__new__` (`CONFIG[GROUP][reference]`)           `descriptorOf`
  `setup.Feed` tuple (reference, priority, params)         `Descriptor`
  `Slot.priority`, `Slot.instance`                         `slotOf` (`Feed[reference](**params)` = `provider params`)
  `io.Importer(setup.Feed(a), feed, setup.Feed(b), …)`     `poolSingle`
  `io.Importer(*instances, *setup.Feed.resolve([a, b]))`   `poolMulti` (`Multi._lookup`: `tuple(sorted(cls(r) …))`, `sortAsc`)
  `io.Importer('a', feed, …)` (`Slot.__init__` with a str)   `Arg`, `argSlot`, `matchArgs` (repaired code; `…Legacy`: before)

What `float()` does to a value is modelled for numbers (identity, priorities are counted in halves) and for strings
that are not numerals (`ValueError`) and tables (`TypeError`); a non-string `provider` option is outside the model
(`ConfErr.notModelled`, never produced by the generator).  Core Lean only.
-/
import ForML.Model.Matcher

namespace ForML.Matcher

open ForML.Dsl

/-- a TOML scalar as far as `_extract` looks at it -/
inductive Scalar where
  | num (halves : Int)   -- an int or a float (in halves)
  | text (s : String)    -- a string (`float(s)` of the generated ones raises `ValueError`: they are not numerals)
  deriving DecidableEq, Repr, Inhabited

/-- a value of a config section -/
inductive Val where
  | scalar (v : Scalar)
  | table (t : List (String × Scalar))   -- an inline table, e.g. `params = {…}`
  deriving DecidableEq, Repr, Inhabited

/-- the options of one `[FEED.<ref>]` section (a dict: every key once) -/
abbrev Options := List (String × Val)

/-- what `Section.__new__` / `_extract` raise -/
inductive ConfErr where
  | missing       -- `forml.MissingError('Config section not found …')`
  | valueError    -- `float('high')`, `dict.update('xy')`
  | typeError     -- `float({…})`, `dict.update(5)`
  | notModelled   -- a `provider` option that is not a string
  deriving DecidableEq, Repr, Inhabited

def ConfErr.wire : ConfErr → String
  | .missing => "MissingError" | .valueError => "ValueError" | .typeError => "TypeError"
  | .notModelled => "not-modelled"

/-- what is left of the dict after `kwargs.pop(key, …)` -/
def popKey (k : String) (kw : Options) : Options := kw.filter (fun e => e.1 != k)

/-- `kwargs.update(other)`: the keys of `other` win -/
def update (kw other : Options) : Options := kw.filter (fun e => (other.lookup e.1).isNone) ++ other

/-- `Section._extract`: `kwargs.update(kwargs.pop('params', {}))` -/
def sectionExtract (kw : Options) : Except ConfErr Options :=
  match kw.lookup "params" with
  | none => .ok kw
  | some (.table ps) => .ok (update (popKey "params" kw) (ps.map (fun e => (e.1, Val.scalar e.2))))
  | some (.scalar (.num _)) => .error .typeError
  | some (.scalar (.text s)) => if s = "" then .ok (popKey "params" kw) else .error .valueError

/-- `Provider._extract`: `provider = kwargs.pop('provider', reference)`, then `Section._extract` -/
def providerExtract (reference : String) (kw : Options) : Except ConfErr (Val × Options) :=
  let provider := (kw.lookup "provider").getD (.scalar (.text reference))
  match sectionExtract (popKey "provider" kw) with
  | .error e => .error e
  | .ok rest => .ok (provider, rest)

/-- a resolved `setup.Feed`: `(reference, priority, params)` -/
structure Descriptor where
  reference : String
  priority : Int        -- halves
  params : Options
  deriving DecidableEq, Repr, Inhabited

/-- `Feed._extract`: `priority = kwargs.pop('priority', 0)`, then `Provider._extract` on the rest, then
`[reference, float(priority)]` -/
def feedExtract (reference : String) (kw : Options) : Except ConfErr Descriptor :=
  let priority := (kw.lookup "priority").getD (.scalar (.num 0))
  match providerExtract reference (popKey "priority" kw) with
  | .error e => .error e
  | .ok (provider, rest) =>
    match priority with
    | .scalar (.num h) =>
      match provider with
      | .scalar (.text p) => .ok ⟨p, h, rest⟩
      | _ => .error .notModelled
    | .scalar (.text _) => .error .valueError
    | .table _ => .error .typeError

/-- `setup.Feed(reference)` = `Section.__new__`: the section is looked up (`none`: there is no such section) -/
def descriptorOf (reference : String) (sec : Option Options) : Except ConfErr Descriptor :=
  match sec with
  | none => .error .missing
  | some kw => feedExtract reference kw

/-! ### the property-shaped reading of a section (what the documentation of `Section` promises) -/

/-- the options the config parser consumes itself -/
def reserved : List String := ["priority", "provider", "params"]

/-- the *configured* priority: the section's own `priority` option, 0 when there is none -/
def configuredPriority (kw : Options) : Val := (kw.lookup "priority").getD (.scalar (.num 0))

/-- the value the feed constructor receives for option `k`: what the `params` sub-table says, otherwise the
section's own generic option of that name -/
def ctorSpec (kw : Options) (k : String) : Option Val :=
  let own := if reserved.contains k then none else kw.lookup k
  match kw.lookup "params" with
  | some (.table ps) =>
    match ps.lookup k with
    | some v => some (.scalar v)
    | none => own
  | _ => own

/-! ### members of a pool, slots -/

/-- one argument of `io.Importer(...)` -/
inductive Member where
  /-- an explicit `io.Feed` instance advertising `sources` -/
  | inst (sources : Sources)
  /-- a descriptor to be resolved from section `sec` of the configuration; `provider kwargs` = what the feed
  `Feed[reference](**params)` advertises (the constructor sees the keyword arguments as a mapping name ↦ value) -/
  | conf (reference : String) (sec : Option Options) (provider : (String → Option Val) → Sources)

/-- `Importer.Slot`: priority ∞ for an instance, the descriptor's priority otherwise; the instance is created from
the descriptor's params -/
def slotOf : Member → Except ConfErr Slot
  | .inst S => .ok ⟨.inf, S⟩
  | .conf ref sec provider =>
    match descriptorOf ref sec with
    | .error e => .error e
    | .ok d => .ok ⟨.fin d.priority, provider (fun k => d.params.lookup k)⟩

/-- The property-shaped reading of a member: priority = ∞ for an instance, the section's own `priority` option (0 when
absent) for a configured feed; the feed is constructed from the generic options (`ctorSpec`).  `none`: the section is
missing or its priority is not a number. -/
def Member.slotSpec : Member → Option Slot
  | .inst S => some ⟨.inf, S⟩
  | .conf _ none _ => none
  | .conf _ (some kw) provider =>
    match configuredPriority kw with
    | .scalar (.num h) => some ⟨.fin h, provider (ctorSpec kw)⟩
    | _ => none

/-- `io.Importer(m₀, m₁, …)` with every descriptor resolved on its own (`setup.Feed(ref)`), in argument order: the
first section that fails decides the error -/
def poolSingle : List Member → Except ConfErr Pool
  | [] => .ok []
  | m :: ms =>
    match slotOf m with
    | .error e => .error e
    | .ok x =>
      match poolSingle ms with
      | .error e => .error e
      | .ok xs => .ok (x :: xs)

/-- `Importer.match` on such a pool -/
def matchConf (members : List Member) (s : Source) : Except ConfErr (Except MatchError Nat) :=
  match poolSingle members with
  | .error e => .error e
  | .ok pool => .ok (importerMatch pool s)

/-! ### a member given by its reference string (`io.Importer('name', …)`, `Importer.Slot.__init__`) -/

/-- one argument of `io.Importer(...)` as its signature documents it: `Union[setup.Feed, str, io.Feed]` -/
inductive Arg where
  | member (m : Member)
  /-- the reference string of a `[FEED.<ref>]` section -/
  | reference (reference : String) (sec : Option Options) (provider : (String → Option Val) → Sources)

/-- what the documentation means by a reference string: the descriptor resolved from that section -/
def Arg.toMember : Arg → Member
  | .member m => m
  | .reference r sec provider => .conf r sec provider

/-- `Slot.__init__` (as repaired by fixes/C09-slot-reference-string.diff): `[feed] = setup.Feed.resolve(feed)` — the
single descriptor `Multi._lookup` yields for one reference (`tuple(sorted(cls(r) for r in [reference]))`), i.e. the
slot of the descriptor resolved from that section -/
def argSlot (a : Arg) : Except ConfErr Slot := slotOf a.toMember

/-- the slots of `io.Importer(*args)`, in argument order (the first section that fails decides the error) -/
def argPool : List Arg → Except ConfErr Pool
  | [] => .ok []
  | a :: as =>
    match argSlot a with
    | .error e => .error e
    | .ok x =>
      match argPool as with
      | .error e => .error e
      | .ok xs => .ok (x :: xs)

/-- `io.Importer(*args).match(s)` -/
def matchArgs (args : List Arg) (s : Source) : Except ConfErr (Except MatchError Nat) :=
  match argPool args with
  | .error e => .error e
  | .ok pool => .ok (importerMatch pool s)

/-! #### the behaviour before the repair (finding C09-F3), kept for the record -/

/-- `Slot.__init__` before the repair: `feed = setup.Feed.resolve(feed)` yields a 1-TUPLE of descriptors
(`Multi._lookup`), which is no `setup.Feed`, so it was kept as the slot's *instance*: priority ∞, and `.sources` of it
raised `AttributeError` once `match` reached the slot (`true` marks such a slot) -/
def argSlotLegacy : Arg → Except ConfErr (Slot × Bool)
  | .member m =>
    (match slotOf m with
     | .error e => .error e
     | .ok f => .ok (f, false))
  | .reference ref sec _ =>
    match descriptorOf ref sec with
    | .error e => .error e
    | .ok _ => .ok (⟨.inf, []⟩, true)

def argPoolLegacy : List Arg → Except ConfErr (List (Slot × Bool))
  | [] => .ok []
  | a :: as =>
    match argSlotLegacy a with
    | .error e => .error e
    | .ok x =>
      match argPoolLegacy as with
      | .error e => .error e
      | .ok xs => .ok (x :: xs)

inductive ArgErr where
  | missing          -- `forml.MissingError`
  | attributeError   -- `'tuple' object has no attribute 'sources'`
  deriving DecidableEq, Repr

/-- `io.Importer(*args).match(s)` before the repair: a slot holding a tuple raised as soon as it was reached -/
def matchArgsLegacy (args : List Arg) (s : Source) : Except ConfErr (Except ArgErr Nat) :=
  match argPoolLegacy args with
  | .error e => .error e
  | .ok slots =>
    let isTuple (i : Nat) : Bool := ((slots[i]?).map (·.2)).getD false
    match (order (slots.map (·.1))).find? (fun p => isTuple p.1 || covers p.2.sources s) with
    | none => .ok (.error .missing)
    | some p => if isTuple p.1 then .ok (.error .attributeError) else .ok (.ok p.1)

/-! ### `setup.Feed.resolve([refs])` (`Multi._lookup`) -/

/-- a resolved descriptor with the index of the member it came from -/
structure Tagged where
  idx : Nat
  desc : Descriptor
  sources : Sources
  deriving Repr, Inhabited

/-- `Feed.__lt__`: by priority, the provider reference (`Provider.__lt__`) among equal priorities -/
def Descriptor.lt (a b : Descriptor) : Bool :=
  if a.priority = b.priority then decide (a.reference < b.reference) else decide (a.priority < b.priority)

/-- insertion of `x` (which stood before all of the list) into the ascending list: behind the strictly smaller ones,
before its equals -/
def insertAsc (x : Tagged) : List Tagged → List Tagged
  | [] => [x]
  | y :: ys => if y.desc.lt x.desc then y :: insertAsc x ys else x :: y :: ys

/-- `sorted(descriptors)`: ascending, equal descriptors keep their order (the only stable order a strict weak `<`
allows) -/
def sortAsc : List Tagged → List Tagged
  | [] => []
  | x :: xs => insertAsc x (sortAsc xs)

/-- the members of the pool split into the explicit instances and the descriptors resolved from the configuration
(`cls(r) for r in reference`: the first section that fails decides the error), numbered from `i` -/
def splitFrom : Nat → List Member → Except ConfErr (List (Nat × Slot) × List Tagged)
  | _, [] => .ok ([], [])
  | i, m :: ms =>
    match m with
    | .inst S =>
      (match splitFrom (i + 1) ms with
       | .error e => .error e
       | .ok (is, ds) => .ok ((i, ⟨.inf, S⟩) :: is, ds))
    | .conf ref sec provider =>
      match descriptorOf ref sec with
      | .error e => .error e
      | .ok d =>
        match splitFrom (i + 1) ms with
        | .error e => .error e
        | .ok (is, ds) => .ok (is, ⟨i, d, provider (fun k => d.params.lookup k)⟩ :: ds)

/-- `io.Importer(*instances, *setup.Feed.resolve([refs of the configured members]))`: the arguments of the importer
with the index of the member each came from -/
def poolMulti (members : List Member) : Except ConfErr (List (Nat × Slot)) :=
  match splitFrom 0 members with
  | .error e => .error e
  | .ok (is, ds) => .ok (is ++ (sortAsc ds).map (fun t => (t.idx, ⟨.fin t.desc.priority, t.sources⟩)))

/-- `Importer.match` on the pool built through `setup.Feed.resolve`: the index of the *member* that is returned -/
def selectMulti (members : List Member) (s : Source) : Except ConfErr (Option Nat) :=
  match poolMulti members with
  | .error e => .error e
  | .ok tagged =>
    .ok ((select (tagged.map (·.2)) s).bind (fun k => (tagged[k]?).map (·.1)))

/-! ### wire format -/

open ForML (Sexp)

def Scalar.ofSexp : Sexp → Option Scalar
  | .list [.atom "num", h] => h.int?.map .num
  | .list [.atom "text", .atom s] => some (.text s)
  | _ => none

def Val.ofSexp : Sexp → Option Val
  | .list [.atom "table", .list es] =>
    (es.mapM (fun (e : Sexp) => match e with
      | .list [.atom k, v] => (Scalar.ofSexp v).map (fun v => (k, v))
      | _ => none)).map .table
  | x => (Scalar.ofSexp x).map .scalar

def optionsOfSexp : Sexp → Option Options
  | .list es => es.mapM (fun (e : Sexp) => match e with
    | .list [.atom k, v] => (Val.ofSexp v).map (fun v => (k, v))
    | _ => none)
  | _ => none

/-- `(inst (src*))` | `(conf ref none|((key val)*) (src*))` | `(name ref none|((key val)*) (src*))` -/
def Arg.ofSexp : Sexp → Option Arg
  | .list [.atom "inst", .list srcs] => (srcs.mapM Source.ofSexp).map (fun S => .member (.inst S))
  | .list [.atom tag, .atom ref, sec, .list srcs] => do
    let kw ← match sec with
      | .atom "none" => some none
      | x => (optionsOfSexp x).map some
    let S ← srcs.mapM Source.ofSexp
    match tag with
    | "conf" => some (.member (.conf ref kw (fun _ => S)))
    | "name" => some (.reference ref kw (fun _ => S))
    | _ => none
  | _ => none

/-- `(inst (src*))` | `(conf ref none|((key val)*) (src*))` -/
def Member.ofSexp : Sexp → Option Member
  | .list [.atom "inst", .list srcs] => (srcs.mapM Source.ofSexp).map .inst
  | .list [.atom "conf", .atom ref, .atom "none", .list srcs] =>
    (srcs.mapM Source.ofSexp).map (fun S => .conf ref none (fun _ => S))
  | .list [.atom "conf", .atom ref, sec, .list srcs] => do
    let kw ← optionsOfSexp sec
    let S ← srcs.mapM Source.ofSexp
    pure (.conf ref (some kw) (fun _ => S))
  | _ => none

def Scalar.toSexp : Scalar → Sexp
  | .num h => .list [.atom "num", Sexp.ofInt h]
  | .text s => .list [.atom "text", .atom s]

def Val.toSexp : Val → Sexp
  | .scalar v => v.toSexp
  | .table t => .list [.atom "table", .list (t.map (fun e => Sexp.list [.atom e.1, e.2.toSexp]))]

def optionsToSexp (kw : Options) : Sexp := .list (kw.map (fun e => Sexp.list [.atom e.1, e.2.toSexp]))

end ForML.Matcher
