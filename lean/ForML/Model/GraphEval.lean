/-
Direct evaluation of a flow-graph segment — the *specification* side of C01.

Written from the property statement, not from the compiler: every worker is applied once to the
values of the ports it subscribed to, in port order; a multi-output worker is split per output port;
the trained member of a group yields `state actor prev feats labels`; every other stateful member is
applied holding its trained sibling's state of the same run, or — without a trained sibling in the
segment — the stored state of its group when the group is persistent; `prev` is the stored state of a
persistent group; the new generation is the list of dumped trained states in persistent-list order.
A state that is falsy in Python is "no state" for the actor it is offered to (`Val.asState`: forml's state setter
skips it, the actor stays as built) — but it is a state like any other for the dumper and the committer.

Core Lean only.
-/
import ForML.Model.Segment

namespace ForML.Flow
namespace Segment

/-- stored state of group `gid` (`none` when there is no accessor or the group is not persistent) -/
def storedState (A : Option Assets) (gid : Gid) : Val :=
  match A with
  | some A => if A.contains gid then A.load gid else .none
  | none => .none

/-- value of worker `n` (its whole output: for `szout > 1` the vector of port values) -/
def nodeVal (g : Segment) (A : Option Assets) : Nat → Uid → Val
  | 0, _ => .error .fuel
  | f + 1, n =>
    match g.worker? n with
    | none => .error .unbound
    | some w =>
      -- value published on the output port an edge starts from
      let portVal (e : Edge) : Val :=
        match g.worker? e.pub with
        | some p => if p.szout = 1 then nodeVal g A f e.pub else .proj e.pubPort (nodeVal g A f e.pub)
        | none => .error .unbound
      if g.trained n then
        match g.publisher n .train, g.publisher n .label with
        | some x, some y =>
          .state w.actor (if w.stateful then (storedState A w.gid).asState else .none) (portVal x) (portVal y)
        | _, _ => .error .arity
      else
        let st : Val :=
          if !w.stateful then .none
          else match g.trainerOf w.gid with
            | some t => (nodeVal g A f t.uid).asState
            | none => (storedState A w.gid).asState
        .apply w.actor st ((List.range w.szin).filterMap (fun i => (g.publisher n (.apply i)).map portVal))

def evalFuel (g : Segment) : Nat := g.workers.length + 1

/-- the committed generation: `none` when nothing persistent is trained in this segment -/
def commitVal (g : Segment) (A : Option Assets) : Option Val :=
  match A with
  | none => none
  | some As =>
    if As.persistent.any (fun p => (g.trainerOf p).isSome) then
      some (As.commit (As.persistent.map fun p =>
        match g.trainerOf p with
        | some t => .dumped (nodeVal g A g.evalFuel t.uid)
        | none => .error .unbound))
    else none

/-- result of evaluating the segment directly -/
structure Eval where
  values : List (Uid × Val)     -- value of every member
  commit : Option Val
  deriving Repr

def evalGraph (g : Segment) (A : Option Assets) : Eval :=
  ⟨g.workers.map (fun w => (w.uid, nodeVal g A g.evalFuel w.uid)), commitVal g A⟩

end Segment
end ForML.Flow
