/-
C07 — model of the DSL constructors' grammar checks (forml/io/dsl/_struct/{frame,series,kind}.py and
forml/io/dsl/function/*) and, independently, the documented grammar as a decidable predicate.

Implementation-shaped half (follows the code that exists, in its order of checks):

  Python                                                     here
  ---------------------------------------------------------  ------------------------------------------
  Feature.Dissect visitor (series.py:118)                    `Feature.dissect`, `dissectAll`
  Source.features (Table/Reference/Join/Set/Query)           `Source.featuresOf`
  Feature.kind (Literal/Element/Aliased/Predicate/            `Feature.kindOf`
    Arithmetic/Cast/Window, function.*)
  Source.schema (frame.py:245) + Schema metaclass             `Source.entries`, `collapse`, `Source.schemaOf`
  Univariate/Bivariate.__new__, Comparison/Logical/           `checkExpr`
    Arithmetic.__init__, function.Year.__new__
  Join.__new__ (frame.py:667)                                 `checkJoin`
  Set.__new__ (frame.py:405)                                  `checkSet`
  Query.__new__ (frame.py:830) incl. Ordering.make            `checkQuery`
  the constructors called bottom-up by a user script         `Source.construct` (mutual with features)

`construct` is parametrised by `eqv`, the implementation's `==` on features as used by `frozenset.issubset` /
`set.difference` (hash equality, see ForML.Model.DslEq); the driver instantiates it with `hashEq freeEnv`.

Exceptions are values (`CtorErr`): `grammar` = dsl.GrammarError; `lookup` = KeyError('Unknown field …') from
`Element.kind`; `recursion` = RecursionError (an un-named feature has no `.name`: the AttributeError inside the
cached property makes `Source.__getattr__` look the attribute up through `self.schema` again, for ever);
`illtyped` = TypeError/ValueError of a call that is not a DSL script at all (wrong number of operands,
`RowNumber()` used as an operand).

Specification-shaped half: `Source.wf` (`WellFormed`), transcribed rule by rule from docs/dsl/query/syntax.rst
(which positions take operables / predicates) and the rules of the property text; it uses only list
quantifiers over directly recursive helper functions (`usesOnly`, `hasAggregate`, `kindS`, `sig`), no visitor
accumulators, no error sequencing, no hash sets, no dictionary collapse.

Core Lean only.
-/
import ForML.Model.Dsl
import ForML.Model.DslEq

namespace ForML.Dsl

/-! ## common vocabulary -/

/-- exception classes observable while constructing DSL objects -/
inductive CtorErr where
  | grammar | lookup | recursion | illtyped
  deriving DecidableEq, Repr, Inhabited

abbrev R := Except CtorErr

instance instDecidableEqExcept {ε α : Type} [DecidableEq ε] [DecidableEq α] : DecidableEq (Except ε α)
  | .ok a, .ok b => if h : a = b then isTrue (by rw [h]) else isFalse (by intro e; cases e; exact h rfl)
  | .error a, .error b => if h : a = b then isTrue (by rw [h]) else isFalse (by intro e; cases e; exact h rfl)
  | .ok _, .error _ => isFalse (by intro e; cases e)
  | .error _, .ok _ => isFalse (by intro e; cases e)

/-- `raise GrammarError` unless the condition holds -/
@[inline] def guardG (b : Bool) : R Unit := if b then .ok () else .error .grammar

def Except.isOk' {ε α : Type} : Except ε α → Bool
  | .ok _ => true
  | .error _ => false

/-- `feature.name` where the class has one (`Aliased.name`, `Element.name`) -/
def nameOf : Feature → Option String
  | .alias _ n => some n
  | .elem _ n => some n
  | .lit _ | .expr _ _ | .cast _ _ | .window _ _ _ => none

def Feature.isWindow : Feature → Bool
  | .window _ _ _ => true
  | .lit _ | .elem _ _ | .alias _ _ | .expr _ _ | .cast _ _ => false

/-- instance of `series.Aggregate` -/
def Feature.isAggregate : Feature → Bool
  | .expr op _ => op.isAggregate
  | .lit _ | .elem _ _ | .alias _ _ | .cast _ _ | .window _ _ _ => false

/-- instance of `series.Cumulative` (`Aggregate` or `Window`) -/
def Feature.isCumulative (f : Feature) : Bool := f.isAggregate || f.isWindow

/-- `source.instance`: the wrapped source of a reference, the source itself otherwise -/
def Source.inst : Source → Source
  | .ref i _ => i
  | s => s

def Source.isStatement : Source → Bool
  | .query _ _ _ _ _ _ _ | .set _ _ _ => true
  | .table _ _ | .ref _ _ | .join _ _ _ _ => false

/-- `source.statement`: `Query(self)` unless already a statement -/
def Source.statement (s : Source) : Source :=
  if s.isStatement then s else .query s .nil .none .nil .none .nil none

/-- families of expression classes sharing constructor checks and `kind` -/
inductive OpGroup where
  | cmp2      -- Comparison, Infix          (kind Boolean)
  | cmp1      -- Comparison, Postfix        (kind Boolean)
  | logic     -- Logical                    (kind Boolean)
  | arith     -- Arithmetic with the reduced operand kind (operators, Abs, Avg, Max, Min, Sum)
  | arithInt  -- Arithmetic with `kind = Integer()` (Ceil, Floor)
  | count | year | rownumber
  deriving DecidableEq, Repr

def Op.group : Op → OpGroup
  | .lt | .le | .gt | .ge | .eq | .ne => .cmp2
  | .isnull | .notnull => .cmp1
  | .and | .or | .not => .logic
  | .add | .sub | .mul | .div | .mod | .abs | .avg | .max | .min | .sum => .arith
  | .ceil | .floor => .arithInt
  | .count => .count
  | .year => .year
  | .rownumber => .rownumber

/-- `kind.__rank__` -/
def Kind.rank : Kind → Nat
  | .boolean => 0 | .integer => 1 | .float => 2 | .decimal => 1 | .string => 1 | .date => 2 | .timestamp => 1
  | .array _ => 1 | .map _ _ => 2 | .struct ns _ => ns.length

/-- `max(a, b, key=lambda k: k.__rank__)`: the first of equally ranked wins -/
def maxRank (a b : Kind) : Kind := if a.rank < b.rank then b else a

/-! ## implementation-shaped half -/

/-! ### `Feature.Dissect` -/

/-- `Dissect.visit_feature`: collect the feature if it is an instance of the registered type -/
@[inline] def visitFeature (p : Feature → Bool) (f : Feature) (acc : List Feature) : List Feature :=
  if p f then f :: acc else acc

mutual
/-- `feature.accept(dissector)`: `visit_aliased` / `visit_expression` descend first and then call
`visit_feature`; `visit_element`, `visit_literal` and `visit_window` only call `visit_feature` -/
def Feature.dissect (p : Feature → Bool) : Feature → List Feature → List Feature
  | .lit v, acc => visitFeature p (.lit v) acc
  | .elem o n, acc => visitFeature p (.elem o n) acc
  | .alias f n, acc => visitFeature p (.alias f n) (f.dissect p acc)
  | .expr op args, acc => visitFeature p (.expr op args) (args.dissect p acc)
  | .cast f k, acc => visitFeature p (.cast f k) (f.dissect p acc)
  | .window fn ps os, acc => visitFeature p (.window fn ps os) acc
def Features.dissect (p : Feature → Bool) : Features → List Feature → List Feature
  | .nil, acc => acc
  | .cons f fs, acc => fs.dissect p (f.dissect p acc)
end

/-- `cls.dissect(*features)` -/
def dissectAll (p : Feature → Bool) (fs : List Feature) : List Feature :=
  fs.foldl (fun acc f => f.dissect p acc) []

variable (eqv : Feature → Feature → Bool)

/-- `x in <frozenset>` with the implementation's equality -/
def memBy (x : Feature) (ys : List Feature) : Bool := ys.any (fun y => eqv y x)

/-- `frozenset(xs).issubset(ys)` -/
def subsetBy (xs ys : List Feature) : Bool := xs.all (fun x => memBy eqv x ys)

/-! ### `Source.features` -/

/-- `c.name` of a feature handed to `Field(...)` / `Element(...)`: an un-named feature has no such attribute -/
def nameOrRecursion (c : Feature) : R String :=
  match nameOf c with
  | some x => .ok x
  | none => .error .recursion

/-- the `features` property of the five source classes; `Reference.features` reads `c.name` of every feature of
the instance (no name → `recursion`) -/
def Source.featuresOf : Source → R (List Feature)
  | .table n fs => .ok (fs.map (fun p => Feature.elem (.table n fs) p.1))
  | .ref i n => do
    let fs ← i.featuresOf
    let names ← fs.mapM nameOrRecursion
    .ok (names.map (fun x => Feature.elem (.ref i n) x))
  | .join l r _ _ => do
    let lf ← l.featuresOf
    let rf ← r.featuresOf
    .ok (lf ++ rf)
  | .set l r _ => do
    let lf ← l.featuresOf
    let rf ← r.featuresOf
    .ok (lf ++ rf)
  | .query s sel _ _ _ _ _ => if sel.isEmpty then s.featuresOf else .ok sel.toList

/-! ### `Source.schema` and `Feature.kind` -/

/-- dict semantics of `{name: field for …}`: a repeated key keeps its first position and takes the last value -/
def dictSet (d : Fields) (n : String) (k : Kind) : Fields :=
  match d with
  | [] => [(n, k)]
  | (m, j) :: rest => if m = n then (m, k) :: rest else (m, j) :: dictSet rest n k

def collapse (es : Fields) : Fields := es.foldl (fun d e => dictSet d e.1 e.2) []

mutual
/-- `feature.kind` -/
def Feature.kindOf : Feature → R Kind
  | .lit v => .ok v.kind
  | .elem o n => do
    -- `self.origin.schema[self.name].kind`
    let es ← o.entries
    match (collapse es).lookup n with
    | some k => .ok k
    | none => .error .lookup
  | .alias f _ => f.kindOf
  | .cast _ k => .ok k
  | .window fn _ _ => fn.kindOf
  | .expr op args =>
    match op.group with
    | .cmp2 | .cmp1 | .logic => .ok .boolean
    | .arithInt | .count | .year | .rownumber => .ok .integer
    | .arith => do
      -- `functools.reduce(partial(max, key=rank), (o.kind for o in self))`
      let ks ← args.kindsOf
      match ks with
      | [] => .error .illtyped
      | k :: rest => .ok (rest.foldl maxRank k)
def Features.kindsOf : Features → R (List Kind)
  | .nil => .ok []
  | .cons f fs => do
    let k ← f.kindOf
    let ks ← fs.kindsOf
    .ok (k :: ks)
/-- `(c.name, c.kind)` of the given features, in order, as `Source.schema` evaluates them -/
def Features.entriesOf : Features → R Fields
  | .nil => .ok []
  | .cons f fs => do
    let n ← nameOrRecursion f
    let k ← f.kindOf
    let rest ← fs.entriesOf
    .ok ((n, k) :: rest)
/-- `(c.name, c.kind) for c in source.features` before the dictionary collapses equal names; the kind of an
element of a reference is looked up in the (collapsed) schema of the instance -/
def Source.entries : Source → R Fields
  | .table _ fs => .ok fs
  | .ref i _ => do
    let es ← i.entries
    let sch := collapse es
    .ok (es.map (fun p => (p.1, (sch.lookup p.1).getD p.2)))
  | .join l r _ _ => do
    let le ← l.entries
    let re ← r.entries
    .ok (le ++ re)
  | .set l r _ => do
    let le ← l.entries
    let re ← r.entries
    .ok (le ++ re)
  | .query s sel _ _ _ _ _ => if sel.isEmpty then s.entries else sel.entriesOf
end

/-- `source.schema` as the ordered list of `(field name, kind)` -/
def Source.schemaOf (s : Source) : R Fields := do
  let es ← s.entries
  .ok (collapse es)

/-! ### constructors of the expression classes -/

/-- `Boolean.ensure(feature.kind)` / `Numeric.match(o.kind)` on each operand in turn (short-circuiting `all`) -/
def ensureKinds (p : Kind → Bool) : List Feature → R Unit
  | [] => .ok ()
  | a :: rest => do
    let k ← a.kindOf
    guardG (p k)
    ensureKinds p rest

/-- `all(o.kind == operands[0].kind for o in operands)` -/
def allSame : List Kind → Bool
  | [] => true
  | k :: rest => rest.all (fun j => j == k)

/-- `Comparison.__init__`: every operand's kind is evaluated, then
`all(Numeric.match(k)) or all(k == kinds[0])` -/
def comparable (ks : List Kind) : Bool := ks.all Kind.isNumeric || allSame ks

/-- checks run by `cls(*args)` of an expression class on already built operands:
`Univariate/Bivariate.__new__` (`Operable.ensure_is` on every operand), then the mixin's `__init__` -/
def checkExpr (op : Op) (args : List Feature) : R Unit :=
  if args.length ≠ op.arity then .error .illtyped
  else match op.group with
    | .rownumber => .error .illtyped
    | .year => do
      -- `Date.ensure(Operable.ensure_is(value).kind)` precedes `Univariate.__new__`
      guardG (args.all (fun a => !a.isAlias))
      ensureKinds Kind.isDate args
    | .count => guardG (args.all (fun a => !a.isAlias))
    | .cmp2 | .cmp1 => do
      guardG (args.all (fun a => !a.isAlias))
      let ks ← args.mapM Feature.kindOf
      guardG (comparable ks)
    | .logic => do
      guardG (args.all (fun a => !a.isAlias))
      ensureKinds (fun k => k == .boolean) args
    | .arith | .arithInt => do
      guardG (args.all (fun a => !a.isAlias))
      ensureKinds Kind.isNumeric args

/-! ### `Join.__new__`, `Set.__new__`, `Query.__new__` -/

/-- `Predicate.ensure_is(x)` with `cls is Predicate`: `Operable.ensure_is`, then `Boolean.ensure(x.kind)` -/
def ensurePredicate (p : Feature) : R Unit := do
  guardG (!p.isAlias)
  let k ← p.kindOf
  guardG (k == .boolean)

def checkJoin (l r : Source) (k : JoinKind) (c : Option Feature) : R Unit := do
  -- `(kind is CROSS) ^ (condition is None)`
  guardG ((k == .cross) == c.isNone)
  match c with
  | none => .ok ()
  | some p => do
    ensurePredicate p
    guardG (p.dissect Feature.isCumulative []).isEmpty
    let lf ← l.featuresOf
    let rf ← r.featuresOf
    guardG (subsetBy eqv (p.dissect Feature.isElem []) (dissectAll Feature.isElem (lf ++ rf)))

def checkSet (l r : Source) : R Unit := do
  let sl ← l.schemaOf
  let sr ← r.schemaOf
  guardG (sl == sr)

/-- one `grouping` item: `Cumulative.ensure_notin(Operable.ensure_is(g))` -/
def ensureGroup (g : Feature) : R Unit := do
  guardG (!g.isAlias)
  guardG (g.dissect Feature.isCumulative []).isEmpty

/-- a `where` / `having` condition:
`<banned>.ensure_notin(Predicate.ensure_is(*ensure_subset(Operable.ensure_is(condition))))` -/
def checkFilter (superset : List Feature) (banned : Feature → Bool) : Option Feature → R Unit
  | none => .ok ()
  | some p => do
    guardG (!p.isAlias)
    guardG (subsetBy eqv (p.dissect Feature.isElem []) superset)
    let k ← p.kindOf
    guardG (k == .boolean)
    guardG (p.dissect banned []).isEmpty

/-- the generator `(Cumulative.ensure_notin(Operable.ensure_is(g)) for g in grouping)` consumed in order -/
def ensureGroups : List Feature → R Unit
  | [] => .ok ()
  | g :: rest => do
    ensureGroup g
    ensureGroups rest

/-- `if grouping:` … -/
def checkGrouping (superset feats sel grp : List Feature) : R Unit :=
  if grp.isEmpty then .ok ()
  else do
    -- ensure_subset(*(Cumulative.ensure_notin(Operable.ensure_is(g)) for g in grouping))
    ensureGroups grp
    guardG (subsetBy eqv (dissectAll Feature.isElem grp) superset)
    -- for aggregate in {c.operable for c in selection or source.features}.difference(grouping): Aggregate.ensure_in
    let selected := if sel.isEmpty then feats else sel
    guardG ((selected.map Feature.operable).all (fun a =>
      memBy eqv a grp || !(a.dissect Feature.isAggregate []).isEmpty))

def checkQuery (s : Source) (sel : List Feature) (pre : Option Feature) (grp : List Feature) (post : Option Feature)
    (ord : List Ordering) : R Unit := do
  let feats ← s.featuresOf
  let superset := dissectAll Feature.isElem feats
  -- selection = tuple(ensure_subset(*(Feature.ensure_is(c) for c in selection)))
  guardG (subsetBy eqv (dissectAll Feature.isElem sel) superset)
  checkFilter eqv superset Feature.isCumulative pre
  checkGrouping eqv superset feats sel grp
  checkFilter eqv superset Feature.isWindow post
  -- ordering = tuple(Ordering.make(*ordering)): Ordering.__new__ runs Operable.ensure_is on each feature
  guardG (ord.all (fun o => !o.feature.isAlias))
  guardG (subsetBy eqv (dissectAll Feature.isElem (ord.map Ordering.feature)) superset)

/-! ### a user script evaluated bottom-up -/

/-- the features of the orderings (a term handed to `orderby` / `over` is a `(feature, direction)` pair) -/
def Orderings.features : Orderings → Features
  | .nil => .nil
  | .cons o os => .cons o.feature os.features

mutual
/-- evaluate the script of a feature: build the operands (left to right), then call the class -/
def Feature.construct : Feature → R Feature
  | .lit v => .ok (.lit v)
  | .elem o n => do
    let o' ← o.construct
    .ok (.elem o' n)
  | .alias f n => do
    let f' ← f.construct
    -- `Aliased.__new__(cls, feature.operable, alias)`
    .ok (.alias f'.operable n)
  | .expr op args => do
    let args' ← args.construct
    checkExpr op args'.toList
    .ok (.expr op args')
  | .cast f k => do
    let f' ← f.construct
    .ok (.cast f' k)
  | .window fn ps os => do
    -- `function.over(partition, ordering)`: nothing is validated; the ordering terms stay an unevaluated generator
    let fn' ← (if fn == .expr .rownumber .nil then (.ok fn : R Feature) else fn.construct)
    let ps' ← ps.construct
    let os' ← os.construct
    .ok (.window fn' ps' os')
def Features.construct : Features → R Features
  | .nil => .ok .nil
  | .cons f fs => do
    let f' ← f.construct
    let fs' ← fs.construct
    .ok (.cons f' fs')
def FeatureOpt.construct : FeatureOpt → R FeatureOpt
  | .none => .ok .none
  | .some f => do
    let f' ← f.construct
    .ok (.some f')
def Ordering.construct : Ordering → R Ordering
  | .mk f d => do
    let f' ← f.construct
    .ok (.mk f' d)
def Orderings.construct : Orderings → R Orderings
  | .nil => .ok .nil
  | .cons o os => do
    let o' ← o.construct
    let os' ← os.construct
    .ok (.cons o' os')
/-- evaluate the script of a source: operands in the order of the constructor's parameters, then `__new__` -/
def Source.construct : Source → R Source
  | .table n fs => .ok (.table n fs)
  | .ref i n => do
    let i' ← i.construct
    -- `Reference.__new__(cls, instance.instance, name)`
    .ok (.ref i'.inst n)
  | .join l r k c => do
    let l' ← l.construct
    let r' ← r.construct
    let c' ← c.construct
    checkJoin eqv l' r' k c'.toOption
    .ok (.join l' r' k c')
  | .set l r k => do
    let l' ← l.construct
    let r' ← r.construct
    checkSet l' r'
    .ok (.set l'.statement r'.statement k)
  | .query s sel pre grp post ord rows => do
    let s' ← s.construct
    let sel' ← sel.construct
    let pre' ← pre.construct
    let grp' ← grp.construct
    let post' ← post.construct
    let ord' ← ord.construct
    checkQuery eqv s' sel'.toList pre'.toOption grp'.toList post'.toOption ord'.toList
    .ok (.query s' sel' pre' grp' post' ord' rows)
end

/-- `construct : RawStmt → Except CtorErr Stmt` -/
def construct (r : RawStmt) : R Stmt := Source.construct eqv r

/-- the implementation's equality with the free hash environment (collisions only where `pyIntHash` collides) -/
def implEqv (a b : Feature) : Bool := hashEq freeEnv a b

/-- structural equality: what the implementation's `==` is on any set of features without hash collisions -/
def structEqv (a b : Feature) : Bool := decide (a = b)

/-! ## specification-shaped half: the documented grammar -/

/-! ### what a feature is composed of -/

mutual
/-- the features a feature is composed of: itself and, recursively, its operands (the documented
`Feature.Visitor` does not enter window specifications); operands first -/
def Feature.nodes : Feature → List Feature
  | .lit v => [.lit v]
  | .elem o n => [.elem o n]
  | .alias f n => f.nodes ++ [.alias f n]
  | .expr op args => args.nodes ++ [.expr op args]
  | .cast f k => f.nodes ++ [.cast f k]
  | .window fn ps os => [.window fn ps os]
def Features.nodes : Features → List Feature
  | .nil => []
  | .cons f fs => f.nodes ++ fs.nodes
end

/-- the elements a feature is composed of -/
def Feature.elements (f : Feature) : List Feature := f.nodes.filter Feature.isElem

/-- an aggregate function occurs in the feature -/
def Feature.hasAggregate (f : Feature) : Bool := f.nodes.any Feature.isAggregate

/-- a window specification occurs in the feature -/
def Feature.hasWindow (f : Feature) : Bool := f.nodes.any Feature.isWindow

/-- the output features of a source (documented `Source.features`): a table's columns; a reference exposes the
named outputs of its instance as its own elements; a join or set both sides'; a query its selection, or
everything of its source when nothing is selected -/
def Source.outs : Source → List Feature
  | .table n fs => fs.map (fun p => Feature.elem (.table n fs) p.1)
  | .ref i n => (i.outs.filterMap nameOf).map (fun x => Feature.elem (.ref i n) x)
  | .join l r _ _ => l.outs ++ r.outs
  | .set l r _ => l.outs ++ r.outs
  | .query s sel _ _ _ _ _ => if sel.isEmpty then s.outs else sel.toList

/-- the elements of a source: those its output features are composed of -/
def Source.avail (s : Source) : List Feature := s.outs.flatMap Feature.elements

/-! ### kinds and schemas as documented -/

/-- the operand kind of the largest rank (`Arithmetic.kind`: "largest cardinality kind"), the earlier operand among
equally ranked ones -/
def largest : List Kind → Option Kind
  | [] => none
  | k :: ks =>
    match largest ks with
    | none => some k
    | some j => if k.rank < j.rank then some j else some k

/-- first output named `n` -/
def sigLookup (n : String) : List (Option String × Option Kind) → Option Kind
  | [] => none
  | (m, k) :: rest => if m = some n then k else sigLookup n rest

mutual
/-- kind of a feature per the documentation; `none` where it has none (an element naming no output of its origin) -/
def Feature.kindS : Feature → Option Kind
  | .lit v => some v.kind
  | .elem o n => sigLookup n o.sig
  | .alias f _ => f.kindS
  | .cast _ k => some k
  | .window fn _ _ => fn.kindS
  | .expr op args =>
    match op.group with
    | .cmp2 | .cmp1 | .logic => some .boolean
    | .arithInt | .count | .year | .rownumber => some .integer
    | .arith => (args.kindsS.mapM id).bind largest
def Features.kindsS : Features → List (Option Kind)
  | .nil => []
  | .cons f fs => f.kindS :: fs.kindsS
def Features.sigOf : Features → List (Option String × Option Kind)
  | .nil => []
  | .cons f fs => (nameOf f, f.kindS) :: fs.sigOf
/-- names and kinds of the output features of a source, in order (for a set: of its left operand, the right one
having the same) -/
def Source.sig : Source → List (Option String × Option Kind)
  | .table _ fs => fs.map (fun p => (some p.1, some p.2))
  | .ref i _ => i.sig
  | .join l r _ _ => l.sig ++ r.sig
  | .set l _ _ => l.sig
  | .query s sel _ _ _ _ _ => if sel.isEmpty then s.sig else sel.sigOf
end

/-- the documented schema: names and kinds of the output features in order (`none`: some output has no name or
no kind) -/
def Source.schemaS (s : Source) : Option Fields :=
  s.sig.mapM (fun p => match p with
    | (some n, some k) => some (n, k)
    | _ => none)

/-! ### the rules -/

/-- "comparison and arithmetic operands have compatible kinds" (+ logical operands are boolean, `Year` takes a date) -/
def kindRule (op : Op) (ks : List (Option Kind)) : Bool :=
  match op.group with
  | .cmp2 | .cmp1 =>
    ks.all Option.isSome &&
      (ks.all (fun k => k.any Kind.isNumeric) || ks.all (fun a => ks.all (fun b => a == b)))
  | .logic => ks.all (fun k => k == some Kind.boolean)
  | .arith | .arithInt => ks.all (fun k => k.any Kind.isNumeric)
  | .count => true
  | .year => ks.all (fun k => k.any Kind.isDate)
  | .rownumber => false

/-- "filters and join conditions are boolean predicates": an operable of kind Boolean -/
def isPredicate (p : Feature) : Bool := !p.isAlias && p.kindS == some Kind.boolean

def Feature.within (avail : List Feature) (f : Feature) : Bool := f.elements.all (fun e => avail.contains e)

/-- a filter (`where` / `having`): a boolean predicate over elements of the queried source, free of `banned` -/
def filterRule (avail : List Feature) (banned : Feature → Bool) : FeatureOpt → Bool
  | .none => true
  | .some p => isPredicate p && p.within avail && !banned p

/-- a cross join has no condition and every other join has one: a boolean predicate without aggregates / windows
over elements of the two sides -/
def joinRule (l r : Source) (k : JoinKind) (c : FeatureOpt) : Bool :=
  ((k == .cross) == (c == .none)) &&
    (match c with
      | .none => true
      | .some p => isPredicate p && !(p.hasAggregate || p.hasWindow) && p.within (l.avail ++ r.avail))

/-- the clauses of a query against its source -/
def queryRule (s : Source) (sel : Features) (pre : FeatureOpt) (grp : Features) (post : FeatureOpt) (ord : Orderings) : Bool :=
  -- selected, filtered, grouped and ordered features use only elements of the queried source
  sel.toList.all (Feature.within s.avail) &&
    -- aggregates (and windows) do not appear in where-conditions
    filterRule s.avail (fun p => p.hasAggregate || p.hasWindow) pre &&
    -- nor in the grouping, which consists of operables
    grp.toList.all (fun g => !g.isAlias && g.within s.avail && !(g.hasAggregate || g.hasWindow)) &&
    -- with grouping every selected feature outside the grouping contains an aggregate
    (grp.isEmpty || (if sel.isEmpty then s.outs else sel.toList).all (fun f =>
      grp.toList.contains f.operable || f.operable.hasAggregate)) &&
    -- nor windows in having
    filterRule s.avail Feature.hasWindow post &&
    ord.toList.all (fun o => !o.feature.isAlias && o.feature.within s.avail)

mutual
def Feature.wf : Feature → Bool
  | .lit _ => true
  | .elem o _ => o.wf
  | .alias f _ => f.wf
  | .cast f _ => f.wf
  | .expr op args =>
    args.wf && decide (args.toList.length = op.arity) && args.toList.all (fun a => !a.isAlias) &&
      kindRule op args.kindsS
  | .window fn ps os => (fn == .expr .rownumber .nil || fn.wf) && ps.wf && os.wf
def Features.wf : Features → Bool
  | .nil => true
  | .cons f fs => f.wf && fs.wf
def FeatureOpt.wf : FeatureOpt → Bool
  | .none => true
  | .some f => f.wf
def Ordering.wf : Ordering → Bool
  | .mk f _ => f.wf
def Orderings.wf : Orderings → Bool
  | .nil => true
  | .cons o os => o.wf && os.wf
/-- the documented grammar of sources -/
def Source.wf : Source → Bool
  | .table _ _ => true
  | .ref i _ => i.wf
  | .join l r k c => l.wf && r.wf && c.wf && joinRule l r k c
  | .set l r _ =>
    -- set operands have equal schemas
    l.wf && r.wf && l.sig == r.sig
  | .query s sel pre grp post ord _ =>
    s.wf && sel.wf && pre.wf && grp.wf && post.wf && ord.wf && queryRule s sel pre grp post ord
end

/-- `WellFormed r`: the statement obeys the documented grammar -/
def WellFormed (r : RawStmt) : Prop := Source.wf r = true

instance (r : RawStmt) : Decidable (WellFormed r) := inferInstanceAs (Decidable (_ = true))

/-! ## domains of the partial theorems (decidable predicates on the script) -/

/-- every output feature has a name and a kind and the names are pairwise distinct: the region in which
`Source.schema` is defined and faithful (outside it: known findings C07-F1 / C07-F2 / C07-F3) -/
def Source.plain (s : Source) : Bool :=
  s.outs.all (fun f => (nameOf f).isSome) && s.sig.all (fun p => p.1.isSome && p.2.isSome) &&
    decide ((s.sig.map (·.1)).Nodup)

mutual
/-- `Tame`: wherever the constructors consult a schema (instance of a reference, operands of a set, origin of an
element) the source is `plain`; tables have pairwise distinct field names -/
def Feature.tame : Feature → Bool
  | .lit _ => true
  | .elem o _ => o.tame && o.plain
  | .alias f _ => f.tame
  | .expr _ args => args.tame
  | .cast f _ => f.tame
  | .window fn ps os => fn.tame && ps.tame && os.tame
def Features.tame : Features → Bool
  | .nil => true
  | .cons f fs => f.tame && fs.tame
def FeatureOpt.tame : FeatureOpt → Bool
  | .none => true
  | .some f => f.tame
def Ordering.tame : Ordering → Bool
  | .mk f _ => f.tame
def Orderings.tame : Orderings → Bool
  | .nil => true
  | .cons o os => o.tame && os.tame
def Source.tame : Source → Bool
  | .table _ fs => decide ((fs.map (·.1)).Nodup)
  | .ref i _ => i.tame && i.plain
  | .join l r _ c => l.tame && r.tame && c.tame
  | .set l r _ => l.tame && r.tame && l.plain && r.plain
  | .query s sel pre grp post ord _ => s.tame && sel.tame && pre.tame && grp.tame && post.tame && ord.tame
end

def Source.isRef : Source → Bool
  | .ref _ _ => true
  | .table _ _ | .join _ _ _ _ | .set _ _ _ | .query _ _ _ _ _ _ _ => false

mutual
/-- `Normal`: the script denotes itself — no reference of a reference (`Reference.__new__` unwraps the instance),
no alias of an alias (`Aliased.__new__` takes the operable), set operands are statements (`Set.__new__` wraps others
into a query) -/
def Feature.normal : Feature → Bool
  | .lit _ => true
  | .elem o _ => o.normal
  | .alias f _ => !f.isAlias && f.normal
  | .expr _ args => args.normal
  | .cast f _ => f.normal
  | .window fn ps os => fn.normal && ps.normal && os.normal
def Features.normal : Features → Bool
  | .nil => true
  | .cons f fs => f.normal && fs.normal
def FeatureOpt.normal : FeatureOpt → Bool
  | .none => true
  | .some f => f.normal
def Ordering.normal : Ordering → Bool
  | .mk f _ => f.normal
def Orderings.normal : Orderings → Bool
  | .nil => true
  | .cons o os => o.normal && os.normal
def Source.normal : Source → Bool
  | .table _ _ => true
  | .ref i _ => !i.isRef && i.normal
  | .join l r _ c => l.normal && r.normal && c.normal
  | .set l r _ => l.isStatement && r.isStatement && l.normal && r.normal
  | .query s sel pre grp post ord _ => s.normal && sel.normal && pre.normal && grp.normal && post.normal && ord.normal
end

mutual
/-- `Resolvable`: every element names an output of its origin (outside: known finding C07-F3, `KeyError`) and
every expression is a well-typed call (operand count of the class; `RowNumber()` only as a window function) -/
def Feature.resolvable : Feature → Bool
  | .lit _ => true
  | .elem o n => o.resolvable && o.sig.any (fun p => p.1 == some n)
  | .alias f _ => f.resolvable
  | .expr op args => args.resolvable && decide (args.toList.length = op.arity) && op != .rownumber
  | .cast f _ => f.resolvable
  | .window fn ps os => (fn == .expr .rownumber .nil || fn.resolvable) && ps.resolvable && os.resolvable
def Features.resolvable : Features → Bool
  | .nil => true
  | .cons f fs => f.resolvable && fs.resolvable
def FeatureOpt.resolvable : FeatureOpt → Bool
  | .none => true
  | .some f => f.resolvable
def Ordering.resolvable : Ordering → Bool
  | .mk f _ => f.resolvable
def Orderings.resolvable : Orderings → Bool
  | .nil => true
  | .cons o os => o.resolvable && os.resolvable
def Source.resolvable : Source → Bool
  | .table _ _ => true
  | .ref i _ => i.resolvable
  | .join l r _ c => l.resolvable && r.resolvable && c.resolvable
  | .set l r _ => l.resolvable && r.resolvable
  | .query s sel pre grp post ord _ =>
    s.resolvable && sel.resolvable && pre.resolvable && grp.resolvable && post.resolvable && ord.resolvable
end

end ForML.Dsl
