/-
C08 — model of the Python-context identity (`==`, `hash`, dict lookup, pickling) of DSL objects for the code as
repaired by fixes/C08-structural-eq.diff, fixes/C08-compound-kind-pickle.diff and fixes/C08-factors-pickle.diff
(forml/io/dsl/_struct/{series,frame,kind}.py).  The hash model (`HashEnv`, `Feature.H`, `Source.H`, `pyIntHash`) and
the model of the code before the repair (`Feature.implEq`, hash equality) stay in `ForML.Model.DslEq`.

Mechanism mirrored (same order of checks, `none` = the comparison raises):

* `series.Feature.__eq__(a, b)`  = `b.__class__ is a.__class__ and tuple.__eq__(a, b)`                → `Feature.identEq`
  `Operable.__eq__` builds the proxy `Comparison.Pythonic(Equal, a, cast(b))` whose `__bool__` is `Feature.__eq__(a, b)`
  (so is `Equal.__bool__`); an `Aliased` has no operator overloading and uses `Feature.__eq__` directly: one function.
* `tuple.__eq__` compares the items left to right with `==`, stops at the first unequal pair (or propagates what the
  item comparison raises), then compares the lengths                                              → `eqAnd`, `Features.identEq`
* `Literal` is the tuple `(value, kind)`: Python `==` of the two values, then the kinds              → `Lit.identEq`
* `frame.Source.__eq__(a, b)` = same class module and qualname (a table class carries the table's name) and
  `tuple.__eq__(a, b)`; a table is `(schema,)`, `Schema.__eq__` is ordered field-wise equality       → `Source.identEq`
* an optional clause (`prefilter`, `postfilter`, join `condition`) present on one side only: `None == feature` falls
  to the reflected `Operable.__eq__(feature, None)` → `Literal(None)` → `ValueError`                  → `FeatureOpt.identEq`
* a `Window` stores the generator returned by `Ordering.make` (and `RowNumber` has identity equality): two
  independently built windows never compare equal, hash by the generator's address, and do not pickle
                                                                        → `windowFree`, `hashAgree`, `repickle`
-/
import ForML.Model.DslEq

namespace ForML.Dsl

/-! ### literals -/

/-- Python `==` between the *values* of two literals.  Same type: exact.  `bool` against `int`: `True == 1`.
A `str` equals no number.  A `float` against an `int`/`bool` is decided by the float's numeric value, which the model
does not interpret (floats are kept by their `repr`): `cf` is that comparison, a parameter — it never decides the
outcome because the kinds then differ (`Lit.identEq_iff`). -/
def Lit.valueEq (cf : Lit → Lit → Bool) : Lit → Lit → Bool
  | .int a, .int b => decide (a = b)
  | .bool a, .bool b => decide (a = b)
  | .str a, .str b => decide (a = b)
  | .float a, .float b => decide (a = b)
  | .int a, .bool b => decide (a = if b then 1 else 0)
  | .bool a, .int b => decide ((if a then 1 else 0) = b)
  | .str _, _ => false
  | _, .str _ => false
  | a, b => cf a b

/-- `tuple.__eq__((value, kind), (value', kind'))` -/
def Lit.identEq (cf : Lit → Lit → Bool) (v w : Lit) : Bool := Lit.valueEq cf v w && Kind.implEq v.kind w.kind

/-! ### features and sources -/

mutual
/-- `bool(a == b)` for two features (`series.Feature.__eq__`, reached directly or through the `Pythonic` proxy) -/
def Feature.identEq (cf : Lit → Lit → Bool) : Feature → Feature → EqRes
  | .lit v, .lit w => some (Lit.identEq cf v w)
  | .elem oa na, .elem ob nb =>
    -- `Element.__new__` returns a `Column` for a table origin: the class test
    if elemClass oa = elemClass ob then eqAnd (Source.identEq cf oa ob) fun _ => some (decide (na = nb)) else some false
  | .alias fa na, .alias fb nb => eqAnd (Feature.identEq cf fa fb) fun _ => some (decide (na = nb))
  | .expr opa as, .expr opb bs => if opa = opb then Features.identEq cf as bs else some false
  | .cast fa ka, .cast fb kb => eqAnd (Feature.identEq cf fa fb) fun _ => some (Kind.implEq ka kb)
  -- `(function, partition, <generator>, frame)`: the generators of two builds are different objects
  | .window _ _ _, .window _ _ _ => some false
  | _, _ => some false
termination_by structural a => a
/-- `tuple.__eq__` on two tuples of features -/
def Features.identEq (cf : Lit → Lit → Bool) : Features → Features → EqRes
  | .nil, .nil => some true
  | .cons a as, .cons b bs => eqAnd (Feature.identEq cf a b) fun _ => Features.identEq cf as bs
  | _, _ => some false
termination_by structural a => a
/-- `==` of two optional predicates: `None == None`; one side `None`: `Literal(None)` → `ValueError` -/
def FeatureOpt.identEq (cf : Lit → Lit → Bool) : FeatureOpt → FeatureOpt → EqRes
  | .none, .none => Option.some true
  | .some a, .some b => Feature.identEq cf a b
  | _, _ => Option.none
termination_by structural a => a
/-- named tuple `(feature, direction)` -/
def Ordering.identEq (cf : Lit → Lit → Bool) : Ordering → Ordering → EqRes
  | .mk fa da, .mk fb db => eqAnd (Feature.identEq cf fa fb) fun _ => some (decide (da = db))
termination_by structural a => a
def Orderings.identEq (cf : Lit → Lit → Bool) : Orderings → Orderings → EqRes
  | .nil, .nil => some true
  | .cons a as, .cons b bs => eqAnd (Ordering.identEq cf a b) fun _ => Orderings.identEq cf as bs
  | _, _ => some false
termination_by structural a => a
/-- `frame.Source.__eq__`: class module + qualname, then the tuples -/
def Source.identEq (cf : Lit → Lit → Bool) : Source → Source → EqRes
  | .table na fa, .table nb fb => some (decide (na = nb) && fieldsEq fa fb)
  | .ref sa na, .ref sb nb => eqAnd (Source.identEq cf sa sb) fun _ => some (decide (na = nb))
  | .join la ra ka ca, .join lb rb kb cb =>
    eqAnd (Source.identEq cf la lb) fun _ => eqAnd (Source.identEq cf ra rb) fun _ =>
      eqAnd (some (decide (ka = kb))) fun _ => FeatureOpt.identEq cf ca cb
  | .set la ra ka, .set lb rb kb =>
    eqAnd (Source.identEq cf la lb) fun _ => eqAnd (Source.identEq cf ra rb) fun _ => some (decide (ka = kb))
  | .query sa sela prea grpa posta orda rowsa, .query sb selb preb grpb postb ordb rowsb =>
    eqAnd (Source.identEq cf sa sb) fun _ => eqAnd (Features.identEq cf sela selb) fun _ =>
      eqAnd (FeatureOpt.identEq cf prea preb) fun _ => eqAnd (Features.identEq cf grpa grpb) fun _ =>
        eqAnd (FeatureOpt.identEq cf posta postb) fun _ => eqAnd (Orderings.identEq cf orda ordb) fun _ =>
          some (decide (rowsa = rowsb))
  | _, _ => some false
termination_by structural a => a
end

/-! ### windows -/

mutual
/-- no `Window` anywhere inside -/
def Feature.windowFree : Feature → Bool
  | .lit _ => true
  | .elem o _ => o.windowFree
  | .alias f _ => f.windowFree
  | .expr _ args => args.windowFree
  | .cast f _ => f.windowFree
  | .window _ _ _ => false
def Features.windowFree : Features → Bool
  | .nil => true
  | .cons f fs => f.windowFree && fs.windowFree
def FeatureOpt.windowFree : FeatureOpt → Bool
  | .none => true
  | .some f => f.windowFree
def Ordering.windowFree : Ordering → Bool
  | .mk f _ => f.windowFree
def Orderings.windowFree : Orderings → Bool
  | .nil => true
  | .cons o os => o.windowFree && os.windowFree
def Source.windowFree : Source → Bool
  | .table _ _ => true
  | .ref s _ => s.windowFree
  | .join l r _ c => l.windowFree && r.windowFree && c.windowFree
  | .set l r _ => l.windowFree && r.windowFree
  | .query s sel pre grp post ord _ =>
    s.windowFree && sel.windowFree && pre.windowFree && grp.windowFree && post.windowFree && ord.windowFree
end

variable {α : Type} [DecidableEq α]

/-- `hash(a) == hash(b)` for two independently built features: a window hashes its generator by address -/
def Feature.hashAgree (env : HashEnv α) (a b : Feature) : Bool :=
  a.windowFree && b.windowFree && decide (a.H env = b.H env)

def Source.hashAgree (env : HashEnv α) (a b : Source) : Bool :=
  a.windowFree && b.windowFree && decide (a.H env = b.H env)

/-! ### pickling: reconstruction from `__getnewargs__` / `__getnewargs_ex__` / the `copyreg` reducers -/

/-- `pickle.loads(pickle.dumps(k))`: primitives are singletons, `Compound.__getnewargs__` = the items,
`Struct.__getnewargs_ex__` = the name → kind mapping: every kind is rebuilt from its own content -/
def Kind.repickle (k : Kind) : Option Kind := some k

/-- a feature is rebuilt from `tuple(self)` (a literal from its value, the kind is reflected again);
a generator cannot be pickled (`TypeError`) -/
def Feature.repickle (f : Feature) : Option Feature := if f.windowFree then some f else none

/-- a source is rebuilt from `tuple(self)`; table classes and schemas through their `copyreg` reducers -/
def Source.repickle (s : Source) : Option Source := if s.windowFree then some s else none

/-! ### hash-table lookup -/

/-- `key in d` / `d[key]` / `lru_cache` hit, reduced to what decides the answer: the entries are visited in probe
order, one whose stored hash differs from the key's is skipped without comparing, otherwise `stored == key` decides
(`some true`: hit, `some false`: next entry, raises: the lookup raises).  The theorems hold for every probe order. -/
def dictGet {K V : Type} (h : K → α) (eq : K → K → EqRes) : List (K × V) → K → Except Unit (Option V)
  | [], _ => .ok none
  | (k', v) :: rest, k =>
    if h k' = h k then
      match eq k' k with
      | some true => .ok (some v)
      | some false => dictGet h eq rest k
      | none => .error ()
    else dictGet h eq rest k

/-- the lookup a structural dictionary would do -/
def structGet {K V : Type} [DecidableEq K] (d : List (K × V)) (k : K) : Option V :=
  (d.find? (fun e => decide (e.1 = k))).map (·.2)

end ForML.Dsl
