/-
C19 — the codec round trip ("encoding then decoding a table with a matching codec pair returns the
same table") for the pairs usable in the sandbox:

  text/csv                         → text/csv          `DataFrame.to_csv(index=False)` / `pandas.read_csv`
  application/json; pandas-records → application/json  `DataFrame.to_json(orient='records')` / `Json.to_pandas`
  application/json; pandas-columns → application/json  `DataFrame.to_json(orient='columns')` / `Json.to_pandas`

and the schema cache of `Pandas.Schema.from_frame` through which every decoded frame of one process goes.

Tables are typed by column (what a `dsl.Schema` + rows is): integer, float (finite decimals), text and
boolean columns with nullable cells.  Levels modelled:
* `text/csv` down to the characters: cell rendering, `csv.writer` quoting (QUOTE_MINIMAL as it behaves
  here: a field with `,` `"` or LF is quoted, one with CR is not), the record/field tokeniser of the C
  parser (quotes, doubled quotes, CR and LF as record ends, blank-line skipping) and the per-column
  type inference (missing-value markers per cell, then numbers / booleans per column);
* JSON down to the document tree (`JVal`): the `records` and `columns` layouts, the rounding of floats
  to ten decimals, and the format sniffing of `Json.to_pandas` (`instances`, `inputs`, columns);
  string escaping of `ujson` / `json.loads` is below the model;
* the schema cache as a state machine over the frames decoded by one process.

Core Lean only.
-/
import ForML.Model.Codec

namespace ForML.Codec

/-! ### tables -/

inductive Kind where
  | int | float | str | bool
  deriving DecidableEq, Repr

/-- a cell; floats are finite decimals `± n / 10^scale` -/
inductive Val where
  | int (i : Int)
  | float (neg : Bool) (d : Dec)
  | text (s : Str)
  | bool (b : Bool)
  | null
  | inf (neg : Bool)      -- only ever read (a text `inf` re-typed by `read_csv`), never written by the generator
  deriving DecidableEq, Repr

structure Column where
  name : Str
  kind : Kind
  cells : List Val
  deriving DecidableEq, Repr

/-- a table in column-major form -/
structure Table where
  cols : List Column
  deriving DecidableEq, Repr

/-- a cell belongs to a column of the kind (`null` to every kind; an infinity is never written) -/
def Val.ofKind : Kind → Val → Bool
  | _, .null => true
  | .int, .int _ => true
  | .float, .float _ _ => true
  | .str, .text _ => true
  | .bool, .bool _ => true
  | _, _ => false

def Table.nrows (t : Table) : Nat := match t.cols with | [] => 0 | c :: _ => c.cells.length

/-- what a `layout.Outcome` with a `dsl.Schema` is: distinct non-empty names, cells of the column's kind,
columns of one length, every column with at least one cell that is not null (an all-`None` column has no
`dsl` kind) -/
def Table.wf (t : Table) : Bool :=
  decide ((t.cols.map (·.name)).Nodup) && t.cols.all (fun c => !c.name.isEmpty)
  && t.cols.all (fun c => c.cells.all (Val.ofKind c.kind) && c.cells.length == t.nrows && (t.nrows == 0 || c.cells.any (· != .null)))

/-- the same number: `3` and `3.0`, `0.5` and `0.50` -/
def Val.same : Val → Val → Bool
  | .int i, .int j => i == j
  | .int i, .float neg d => (if neg then - (d.n : Int) else d.n) == i * 10 ^ d.scale
  | .float neg d, .int i => (if neg then - (d.n : Int) else d.n) == i * 10 ^ d.scale
  | .float n1 d1, .float n2 d2 => (d1.n == 0 && d2.n == 0) || (n1 == n2 && d1.same d2)
  | .text a, .text b => a == b
  | .bool a, .bool b => a == b
  | .null, .null => true
  | .inf a, .inf b => a == b
  | _, _ => false

def sameCells : List Val → List Val → Bool
  | [], [] => true
  | a :: r, b :: s => a.same b && sameCells r s
  | _, _ => false

/-- "the same table": names, order and cells by value -/
def Table.same (a b : Table) : Bool :=
  a.cols.map (·.name) == b.cols.map (·.name) && (a.cols.zip b.cols).all (fun (x, y) => sameCells x.cells y.cells)
  && a.cols.length == b.cols.length

/-- decoded frame = named columns of cells (names and cells are what the round trip compares) -/
abbrev Frame := List (Str × List Val)

/-! ### rows and columns -/

def getD' (l : List α) (i : Nat) (d : α) : α := (l[i]?).getD d

/-- row `i` of a list of columns -/
def rowAt (cols : List (List α)) (d : α) (i : Nat) : List α := cols.map (fun c => getD' c i d)

/-- `n` rows of a list of columns -/
def toRows (cols : List (List α)) (d : α) (n : Nat) : List (List α) := (List.range n).map (rowAt cols d)

/-- `m` columns of a list of rows -/
def toCols (rows : List (List α)) (d : α) (m : Nat) : List (List α) :=
  (List.range m).map (fun j => rows.map (fun r => getD' r j d))

/-! ### `text/csv`: writing -/

def digitChar (n : Nat) : Char := Char.ofNat ('0'.toNat + n % 10)

/-- decimal digits of a natural number, most significant first (`fuel` > `n` is never exhausted) -/
def natTextAux : Nat → Nat → Str
  | 0, _ => []
  | fuel + 1, n => if n < 10 then [digitChar n] else natTextAux fuel (n / 10) ++ [digitChar n]

def natText (n : Nat) : Str := natTextAux (n + 1) n

/-- `repr` of the integer -/
def intText (i : Int) : Str := if i < 0 then '-' :: natText i.natAbs else natText i.natAbs

/-- the digits of `n` padded with leading zeros to at least `w` digits -/
def padDigits (n w : Nat) : Str :=
  let ds := natText n
  List.replicate (w - ds.length) '0' ++ ds

/-- a float cell as text: plain positional decimal with at least one decimal place (the generator of the
correspondence stays in the range where `repr` does not switch to the exponent form) -/
def floatText (neg : Bool) (d : Dec) : Str :=
  let ds := padDigits d.n (d.scale + 1)
  let ip := ds.take (ds.length - d.scale)
  let fp := ds.drop (ds.length - d.scale)
  (if neg then ['-'] else []) ++ ip ++ ['.'] ++ (if fp.isEmpty then ['0'] else fp)

/-- a cell as `to_csv` writes it; `asFloat`: an integer column with a missing cell is a float column -/
def csvCell (asFloat : Bool) : Val → Str
  | .int i => if asFloat then intText i ++ ['.', '0'] else intText i
  | .float neg d => floatText neg d
  | .text s => s
  | .bool b => if b then "True".toList else "False".toList
  | .null => []
  | .inf neg => if neg then "-inf".toList else "inf".toList

def Column.hasNull (c : Column) : Bool := c.cells.any (· == .null)

def Column.csvTexts (c : Column) : List Str := c.cells.map (csvCell (c.kind == .int && c.hasNull))

/-- `csv.writer` QUOTE_MINIMAL with `lineterminator='\n'` as it behaves here: quote when the field holds the
delimiter, the quote character or LF (not CR) -/
def needsQuote (f : Str) : Bool := f.any (fun c => c == ',' || c == '"' || c == '\n')

def doubleQuotes : Str → Str
  | [] => []
  | c :: r => if c == '"' then '"' :: '"' :: doubleQuotes r else c :: doubleQuotes r

def csvField (f : Str) : Str := if needsQuote f then '"' :: doubleQuotes f ++ ['"'] else f

/-- one record; a record of a single empty field is written `""` (otherwise the line would be empty) -/
def csvLine (fields : List Str) : Str :=
  match fields with
  | [[]] => ['"', '"', '\n']
  | _ => joinWith ',' (fields.map csvField) ++ ['\n']

def csvText (records : List (List Str)) : Str := records.flatMap csvLine

/-- `Pandas.Encoder.dumps` with `to_csv(index=False)`: header record, then the rows -/
def Table.csvRecords (t : Table) : List (List Str) :=
  t.cols.map (·.name) :: toRows (t.cols.map Column.csvTexts) [] t.nrows

def Table.csv (t : Table) : Str := csvText t.csvRecords

/-! ### `text/csv`: the tokeniser of `pandas.read_csv` (C parser, default dialect) -/

inductive CsvState where
  | startField      -- at the beginning of a field
  | inField         -- inside an unquoted field
  | inQuoted        -- inside a quoted field
  | quoteInQuoted   -- just saw a `"` inside a quoted field
  deriving DecidableEq, Repr

/-- a record is kept unless it is a blank line: one unquoted field of blanks / tabs only (`skip_blank_lines`) -/
def keepRecord (fields : List Str) (sawQuote : Bool) : Bool :=
  match fields with
  | [f] => sawQuote || !f.all (fun c => c == ' ' || c == '\t')
  | _ => true

/-- character loop: `field` and `record` are accumulated in reverse; `sawQuote`: the record held a quoted field.
CR and LF both end a record outside quotes (CRLF gives an empty line, which is skipped). -/
def csvScan : CsvState → (field : Str) → (record : List Str) → (sawQuote : Bool) → Str → List (List Str)
  | st, field, record, sq, [] =>
    -- end of input without a terminator: a pending non-empty record is flushed
    if st == .startField && record.isEmpty && field.isEmpty then []
    else
      let fields := (field.reverse :: record).reverse
      if keepRecord fields sq then [fields] else []
  | .inQuoted, field, record, sq, c :: r =>
    if c == '"' then csvScan .quoteInQuoted field record sq r
    else csvScan .inQuoted (c :: field) record sq r
  | .quoteInQuoted, field, record, sq, c :: r =>
    if c == '"' then csvScan .inQuoted ('"' :: field) record sq r
    else if c == ',' then csvScan .startField [] (field.reverse :: record) sq r
    else if c == '\n' || c == '\r' then
      let fields := (field.reverse :: record).reverse
      (if keepRecord fields sq then [fields] else []) ++ csvScan .startField [] [] false r
    else csvScan .inField (c :: field) record sq r
  | .startField, field, record, sq, c :: r =>
    if c == '"' then csvScan .inQuoted field record true r
    else if c == ',' then csvScan .startField [] (field.reverse :: record) sq r
    else if c == '\n' || c == '\r' then
      let fields := (field.reverse :: record).reverse
      (if keepRecord fields sq then [fields] else []) ++ csvScan .startField [] [] false r
    else csvScan .inField (c :: field) record sq r
  | .inField, field, record, sq, c :: r =>   -- a quote inside an unquoted field is an ordinary character
    if c == ',' then csvScan .startField [] (field.reverse :: record) sq r
    else if c == '\n' || c == '\r' then
      let fields := (field.reverse :: record).reverse
      (if keepRecord fields sq then [fields] else []) ++ csvScan .startField [] [] false r
    else csvScan .inField (c :: field) record sq r

def csvRead (text : Str) : List (List Str) := csvScan .startField [] [] false text

/-! ### `text/csv`: type inference of `pandas.read_csv` -/

def strs (l : List String) : List Str := l.map String.toList

/-- `STR_NA_VALUES` (case-sensitive, whole field) -/
def naValues : List Str :=
  strs ["", "#N/A", "#N/A N/A", "#NA", "-1.#IND", "-1.#QNAN", "-NaN", "-nan", "1.#IND", "1.#QNAN", "<NA>", "N/A", "NA",
        "NULL", "NaN", "None", "n/a", "nan", "null"]

def isNA (f : Str) : Bool := naValues.contains f

def blank (c : Char) : Bool := c == ' ' || c == '\t'

def stripBlanks (s : Str) : Str := ((s.dropWhile blank).reverse.dropWhile blank).reverse

/-- `DIGIT+` -/
def allDigits (s : Str) : Bool := !s.isEmpty && s.all isDigit

/-- mantissa: `DIGIT+ [. DIGIT*]` or `. DIGIT+` -/
def isMantissa (s : Str) : Bool :=
  match splitOn '.' s with
  | [i] => allDigits i
  | [i, f] => (allDigits i && f.all isDigit) || (i.isEmpty && allDigits f)
  | _ => false

def dropSign : Str → Str
  | '+' :: r => r
  | '-' :: r => r
  | s => s

/-- exponent part after `e` / `E`: `[+-]? DIGIT+` -/
def isExponent (s : Str) : Bool := allDigits (dropSign s)

def splitExp (s : Str) : Str × Option Str :=
  match splitOn 'e' (s.map fun c => if c == 'E' then 'e' else c) with
  | [m] => (m, none)
  | [m, x] => (m, some x)
  | _ => ([], some [])   -- two exponent marks: not a number

/-- what the C parser's `xstrtod` / integer conversion takes as a number: blanks around, sign, mantissa, optional
exponent; or `inf` / `infinity` in any case -/
def looksNumber (f : Str) : Bool :=
  let s := dropSign (stripBlanks f)
  let l := lower s
  if l == "inf".toList || l == "infinity".toList then true
  else match splitExp s with
    | (m, none) => isMantissa m
    | (m, some x) => isMantissa m && isExponent x

/-- an integer as text: blanks around, sign, digits -/
def looksInt (f : Str) : Bool := allDigits (dropSign (stripBlanks f))

def looksBool (f : Str) : Bool := lower f == "true".toList || lower f == "false".toList

/-- the column a reader makes of the fields of a column -/
inductive Inferred where
  | numbers    -- every field that is not a missing-value marker is a number: int64 / float64 column
  | bools      -- every field is `true` / `false` in any case: bool column (object with NaN when markers are among them)
  | texts      -- str column; missing-value markers become NaN
  deriving DecidableEq, Repr

def inferKind (fields : List Str) : Inferred :=
  let present := fields.filter (fun f => !isNA f)
  if present.all looksNumber then .numbers
  else if present.all looksBool then .bools
  else .texts

/-- value of `[+-] DIGIT* [. DIGIT*] [e [+-] DIGIT+]` (the text is known to look like a number) -/
def readNumber (f : Str) : Val :=
  let t := stripBlanks f
  let neg := t.head? == some '-'
  let s := dropSign t
  let l := lower s
  if l == "inf".toList || l == "infinity".toList then .inf neg
  else
    let (m, x) := splitExp s
    match splitOn '.' m, x with
    | [i], none => .int (if neg then - (digitsVal i : Int) else digitsVal i)
    | parts, x =>
      let i := parts.headD []
      let fr := (parts.drop 1).headD []
      let mant := digitsVal (i ++ fr)
      match x with
      | none => .float neg ⟨mant, fr.length⟩
      | some e =>
        let en := digitsVal (dropSign e)
        if e.head? == some '-' then .float neg ⟨mant, fr.length + en⟩ else .float neg ⟨mant * 10 ^ en, fr.length⟩

/-- the cells a reader makes of the fields of a column -/
def readColumn (fields : List Str) : List Val :=
  match inferKind fields with
  | .numbers => fields.map fun f => if isNA f then .null else readNumber f
  | .bools => fields.map fun f => if isNA f then .null else .bool (lower f == "true".toList)
  | .texts => fields.map fun f => if isNA f then .null else .text f

/-- `pandas.read_csv` of a text: header record, rectangular data records, inference per column; `none` when there
is no header or a record has another number of fields than the header (outside the model) -/
def csvDecode (text : Str) : Option Frame :=
  match csvRead text with
  | [] => none
  | header :: records =>
    if records.all (fun r => r.length == header.length) then
      some (header.zip ((toCols records [] header.length).map readColumn))
    else none

/-! ### round trip verdicts (why a table does not come back, first cause) -/

inductive Verdict where
  | same
  | empty            -- no row / no column: the decoder refuses an empty frame
  | csvRetyped       -- a text cell is read as a number / missing value / boolean (the format carries no types)
  | csvCR            -- a cell with a carriage return is written unquoted and read as a record end
  | csvBlankLine     -- one-column table: a cell of blanks only is written as a blank line and skipped
  | jsonRounded      -- a float cell with more than ten decimal places
  | jsonSniffed      -- columns layout with a column called `instances` or `inputs`
  | jsonNullObject   -- a boolean column with a missing cell: an object column holding `None`, which `Schema.from_frame` cannot type
  deriving DecidableEq, Repr

/-- a text column is read back as texts: no cell is a missing-value marker, and the column as a whole is neither
all numbers nor all booleans -/
def Column.csvTextKept (c : Column) : Bool :=
  let fields := c.cells.filterMap (fun v => match v with | .text s => some s | _ => none)
  !fields.any isNA && inferKind (c.cells.map (csvCell false)) == .texts

def Column.csvCRfree (c : Column) : Bool :=
  (c.name :: c.csvTexts).all (fun f => !f.contains '\r' || needsQuote f)

def Table.csvVerdict (t : Table) : Verdict :=
  if t.cols.isEmpty || t.nrows == 0 then .empty
  else if !t.cols.all Column.csvCRfree then .csvCR
  else if t.cols.length == 1 && t.cols.any (fun c => (c.name :: c.csvTexts).any (fun f => !f.isEmpty && f.all blank)) then .csvBlankLine
  else if !t.cols.all (fun c => c.kind != .str || c.csvTextKept) then .csvRetyped
  else .same

/-! ### JSON documents -/

inductive JVal where
  | null
  | bool (b : Bool)
  | int (i : Int)
  | float (neg : Bool) (d : Dec)
  | str (s : Str)
  | arr (items : List JVal)
  | obj (members : List (Str × JVal))
  deriving Repr

/-- a cell as `to_json` writes it (floats with `double_precision=10`); `asFloat` as for CSV -/
def jsonCell (asFloat : Bool) : Val → JVal
  | .int i => if asFloat then .float (i < 0) ⟨i.natAbs, 0⟩ else .int i
  | .float neg d => .float neg d.jsonRender
  | .text s => .str s
  | .bool b => .bool b
  | .null => .null
  | .inf _ => .null      -- `to_json` writes `null` for an infinity

def Column.jsonCells (c : Column) : List JVal := c.cells.map (jsonCell (c.kind == .int && c.hasNull))

/-- `orient='records'`: `[{name: cell, ...}, ...]` -/
def Table.jsonRecords (t : Table) : JVal :=
  .arr ((toRows (t.cols.map Column.jsonCells) .null t.nrows).map fun row => .obj ((t.cols.map (·.name)).zip row))

/-- the row labels of a frame built from rows (`RangeIndex`) as `to_json` writes them: the positions as decimal strings
`"0"`, `"1"`, …, `"10"`, … -/
def rowLabels (n : Nat) : List Str := (List.range n).map natText

/-- `orient='columns'`: `{name: {"0": cell, "1": cell, ...}, ...}` -/
def Table.jsonColumns (t : Table) : JVal :=
  .obj (t.cols.map fun c => (c.name, .obj ((rowLabels c.cells.length).zip c.jsonCells)))

/-- a JSON scalar as a cell of a decoded frame -/
def JVal.cell : JVal → Option Val
  | .null => some .null
  | .bool b => some (.bool b)
  | .int i => some (.int i)
  | .float neg d => some (.float neg d)
  | .str s => some (.text s)
  | _ => none

/-- dict semantics: first position, last value -/
def assocGet (k : Str) : List (Str × JVal) → Option JVal
  | [] => none
  | (k', v) :: r => match assocGet k r with
    | some v' => some v'
    | none => if k' == k then some v else none

/-- the cell of one record under a column name -/
def recordCell (name : Str) : JVal → Option Val
  | .obj ms => (assocGet name ms).bind JVal.cell
  | _ => none

/-- `DataFrame.from_records(list of dicts)`: columns = keys of the records in order of first appearance; here:
every record carries the keys of the first one (what the encoders write) -/
def fromRecords (recs : List JVal) : Option Frame :=
  match recs with
  | [] => some []
  | .obj first :: _ => (first.map (·.1)).mapM fun n => (recs.mapM (recordCell n)).map fun cells => (n, cells)
  | _ => none

/-- `DataFrame.from_dict(src, orient='columns')` for a dict of dicts of scalars; a dict of scalars is the
`ValueError: If using all scalar values, you must pass an index` -/
def fromColumns (members : List (Str × JVal)) : Option Frame :=
  members.mapM fun (n, v) => match v with
    | .obj cells => (cells.mapM fun (kc : Str × JVal) => JVal.cell kc.2).map fun cs => (n, cs)
    | _ => none

/-! A decoder that is NOT the code: it orders the rows of the columns layout by their labels (`sort_index()` on the string
index).  Only here to state what the document order of `from_dict` is worth: see `C19_codec_json_label_sorting_counterexample`. -/

/-- lexicographic order of strings by code point (how pandas sorts a string index) -/
def strLt : Str → Str → Bool
  | [], [] => false
  | [], _ :: _ => true
  | _ :: _, [] => false
  | a :: r, b :: s => a < b || (a == b && strLt r s)

def insertByLabel (x : Str × JVal) : List (Str × JVal) → List (Str × JVal)
  | [] => [x]
  | y :: ys => if strLt x.1 y.1 then x :: y :: ys else y :: insertByLabel x ys

def sortByLabel : List (Str × JVal) → List (Str × JVal)
  | [] => []
  | x :: xs => insertByLabel x (sortByLabel xs)

def fromColumnsSorted (members : List (Str × JVal)) : Option Frame :=
  fromColumns (members.map fun nv => (nv.1, match nv.2 with
    | .obj cells => .obj (sortByLabel cells)
    | v => v))

/-- `Json.to_pandas`: a list is a list of records; a dict with `instances` / `inputs` is TF-serving; otherwise columns -/
def jsonToPandas : JVal → Option Frame
  | .arr recs => fromRecords recs
  | .obj members =>
    match assocGet "instances".toList members with
    | some (.arr recs) => fromRecords recs
    | some (.obj ms) => fromRecords (ms.map (·.2))   -- `from_records(dict)`: not a frame of the table anyway
    | some _ => none
    | none =>
      match assocGet "inputs".toList members with
      | some (.obj ms) => fromColumns ms
      | some _ => none
      | none => fromColumns members
  | _ => none

/-- a decoded JSON column that pandas keeps as `object` with `None` in it: booleans with a missing cell (numbers become float
with NaN, texts the `str` dtype with NaN).  `dsl.Schema.from_record` raises on a row with `None`
(`ValueError: Value None is of unknown ETL type`), so `Pandas.Schema.from_frame` fails unless the cache knows the columns. -/
def Frame.untypable (f : Frame) : Bool :=
  f.any fun col => col.2.any (· == .null) && col.2.any (fun v => match v with | .bool _ => true | _ => false)

/-- `Pandas.Decoder.loads` of the plain `application/json` decoder in a fresh process: `Json.to_pandas`, then
`Schema.from_frame` (empty frame and untypable frame are refused) -/
def jsonDecode (doc : JVal) : Option Frame :=
  match jsonToPandas doc with
  | none => none
  | some f => if f.isEmpty || f.any (fun col => col.2.isEmpty) || f.untypable then none else some f

def Column.jsonRounded (c : Column) : Bool :=
  c.cells.any fun v => match v with | .float _ d => !(d.jsonRender.same d) | _ => false

def Table.jsonVerdict (columnsLayout : Bool) (t : Table) : Verdict :=
  if t.cols.isEmpty || t.nrows == 0 then .empty
  else if columnsLayout && t.cols.any (fun c => c.name == "instances".toList || c.name == "inputs".toList) then .jsonSniffed
  else if t.cols.any (fun c => c.kind == .bool && c.hasNull) then .jsonNullObject
  else if t.cols.any Column.jsonRounded then .jsonRounded
  else .same

/-- the decoded frame as a table (kinds as encoded: only names and cells are compared) -/
def Frame.table (f : Frame) (kinds : List Kind) : Table :=
  ⟨(f.zip kinds).map fun ((n, cells), k) => ⟨n, k, cells⟩⟩

/-! ### the schema cache of `Pandas.Schema.from_frame`

```
key = hash(tuple(frame.dtypes.items()))        # (column name, dtype) pairs
if key not in cls._CACHE:
    if frame.empty: raise forml.MissingError('Empty frame')
    cls._CACHE[key] = <schema inferred from the frame: fields named after frame.columns>
return cls._CACHE[key]
```
Every decoded frame of a process goes through this one dictionary.  `κ` is the key type, `key` the key function
(a parameter so that the theorem can say what it needs of a key). -/

/-- what the cache sees of a frame: names and dtypes of the columns, whether it has rows -/
structure FrameSig where
  names : List Str
  dtypes : List Str
  empty : Bool
  untypable : Bool := false    -- an object column holding `None`: `dsl.Schema.from_record` raises on such a row
  deriving DecidableEq, Repr

inductive SchemaResult where
  | schema (fieldNames : List Str)
  | emptyFrame                        -- `forml.MissingError('Empty frame')`
  | untypable                         -- `ValueError: Value None is of unknown ETL type` (nothing is cached)
  deriving DecidableEq, Repr

abbrev Cache (κ : Type) := List (κ × List Str)

def cacheGet [DecidableEq κ] (k : κ) : Cache κ → Option (List Str)
  | [] => none
  | (k', v) :: r => if k' = k then some v else cacheGet k r

/-- one call of `from_frame` -/
def fromFrame [DecidableEq κ] (key : FrameSig → κ) (cache : Cache κ) (f : FrameSig) : Cache κ × SchemaResult :=
  match cacheGet (key f) cache with
  | some names => (cache, .schema names)
  | none =>
    if f.empty then (cache, .emptyFrame)
    else if f.untypable then (cache, .untypable)
    else ((key f, f.names) :: cache, .schema f.names)

/-- a process: the frames decoded one after the other, from an empty cache -/
def runFrames [DecidableEq κ] (key : FrameSig → κ) : Cache κ → List FrameSig → List SchemaResult
  | _, [] => []
  | cache, f :: fs =>
    let (cache', r) := fromFrame key cache f
    r :: runFrames key cache' fs

/-- the key of the code: `frame.dtypes.items()` — names and dtypes (a frame has as many dtypes as names, so the pair of
lists carries what the list of pairs does) -/
def keyItems (f : FrameSig) : List Str × List Str := (f.names, f.dtypes)

/-- a key without the names (what a hash of the dtypes alone would be) -/
def keyDtypes (f : FrameSig) : List Str := f.dtypes

end ForML.Codec
