/-
C04 — from the expression to the composition graph, for the operators whose expansion the property depends on most:
`wrap.Operator` in all its forms (mapper = one builder for apply and train; apply-only, train-only and label
operators), `>>` (`Compound`), and a two-branch fan-out merged by one worker (a feature union / the user operator
`Parallel` of the harness; `payload.MapReduce` with two mappers has this topology).

`expand e ctx n` lists the workers and subscriptions the operator `e` adds when it is composed onto the publishers
`ctx` (apply path, train path, labels), with `n` as the supply of fresh ids — statement by statement what
`wrap.Operator.compose` (forml/pipeline/wrap/_operator.py), `Compound.compose` (forml/flow/_suite/member.py) and the
fan-out operator do, on the graph that is left once the `Future`s of the trunks have collapsed:

* `wrap.Operator.compose` goes through its builders in the order Label, Apply, Train; `build(builder)` forks a
  worker of the builder's group and, if the actor is stateful and the group has no trainer yet, forks a trainer and
  subscribes its `Train`/`Label` ports to `left.train` and the label publisher current at that moment (`left.label`,
  after a Label builder: the new label worker); the workers are subscribed to the tails of `left` at the end
  (`left.extend(apply, train, label)`).  Builder by builder this is a chain of single-builder steps:
  `labelOp` (label worker + trainer), `applyOnly` (apply worker + trainer), `trainOnly` (trainer + train-path worker),
  `mapper` (apply worker, trainer, train-path worker of one group) — an operator with several builders is the `seq` of
  its steps (the harness maps it so; the subscriptions come out in the same order on every publisher port);
* `a >> b` composes `b` onto the tails of `a`;
* `par a b m` composes both branches onto the same publishers and subscribes a merger (apply) and its fork (train)
  to the two branch tails, branch by branch (a branch that adds no worker to a path leaves the merger itself
  subscribed to the common publisher, at that branch's position); the label path passes by unchanged.

Ids are handed out in blocks of four: apply-path workers get ids `≡ 0 (mod 4)`, trainers `≡ 1`, train-path workers
`≡ 2`, label-path workers `≡ 3` — a convention of the model only (forml's uuids carry no structure; `Comp.rename` with
any injective renaming turns this numbering into any other: `C04_action_rename_invariant`).  The group id is the first
id of the block.

`compOf e sink` is `flow.Composition(source, e, sink)`: the source's apply worker `0`, its train worker `2` feeding the
label extractor `6` (port 0: features, port 1: labels), the pipeline from id `8`, an optional sink (a stateless
mapper).  Subscriptions are listed apply path first, then train path, then labels — per publisher this is
`for port in node.output for s in port` (the label extractor is the only publisher with two ports in use).

The check compares, for every generated expression of this grammar, what the model computes on `compOf` with what it
computes on the graph extracted from the real expansion (persistent occurrences, well-formedness, every action).
Lemmas/C04Expr*.lean: every `compOf e sink` is well-formed (`Comp.wfPlain`, `Comp.tailClean`) — so for these
pipelines the binding theorem needs no hypothesis at all.
-/
import ForML.Model.PersistCopy

namespace ForML.Persist

inductive PExpr where
  /-- `wrap.Operator.mapper(Actor)(…)`: one builder `tag` for apply and train -/
  | mapper (tag : Nat) (stateful : Bool)
  /-- the Apply builder of a `wrap.Operator` whose Train builder is another one (or missing) -/
  | applyOnly (tag : Nat) (stateful : Bool)
  /-- the Train builder of a `wrap.Operator` whose Apply builder is another one (or missing) -/
  | trainOnly (tag : Nat) (stateful : Bool)
  /-- the Label builder of a `wrap.Operator` -/
  | labelOp (tag : Nat) (stateful : Bool)
  /-- `a >> b` -/
  | seq (a b : PExpr)
  /-- two branches applied side by side on the same input, merged by one worker built from `merger` -/
  | par (a b : PExpr) (merger : Nat)
  deriving Repr, Inhabited

/-- the publishers an operator is composed onto -/
structure Ctx where
  apply : Nat
  train : Nat
  label : Nat
  deriving Repr, Inhabited

/-- what an operator adds, and the publishers it leaves behind -/
structure Frag where
  nodes : List Node
  applyEdges : List (Nat × Nat)
  trainEdges : List (Nat × Nat)
  labelEdges : List (Nat × Nat)
  applyTail : Nat
  trainTail : Nat
  labelTail : Nat
  next : Nat
  deriving Repr, Inhabited

/-- the trainer `build` forks for a stateful builder: group `n`, `Train` port on the train publisher, `Label` port on
the label publisher -/
def trainerNodes (tag n : Nat) (st : Bool) : List Node := if st then [⟨n + 1, n, tag, true, true⟩] else []

def trainerTrain (ctx : Ctx) (n : Nat) (st : Bool) : List (Nat × Nat) := if st then [(ctx.train, n + 1)] else []

def trainerLabel (ctx : Ctx) (n : Nat) (st : Bool) : List (Nat × Nat) := if st then [(ctx.label, n + 1)] else []

def expand : PExpr → Ctx → Nat → Frag
  | .mapper tag st, ctx, n =>
    { nodes := ⟨n, n, tag, st, false⟩ :: trainerNodes tag n st ++ [⟨n + 2, n, tag, st, false⟩]
      applyEdges := [(ctx.apply, n)]
      trainEdges := trainerTrain ctx n st ++ [(ctx.train, n + 2)]
      labelEdges := trainerLabel ctx n st
      applyTail := n
      trainTail := n + 2
      labelTail := ctx.label
      next := n + 4 }
  | .applyOnly tag st, ctx, n =>
    { nodes := ⟨n, n, tag, st, false⟩ :: trainerNodes tag n st
      applyEdges := [(ctx.apply, n)]
      trainEdges := trainerTrain ctx n st
      labelEdges := trainerLabel ctx n st
      applyTail := n
      trainTail := ctx.train
      labelTail := ctx.label
      next := n + 4 }
  | .trainOnly tag st, ctx, n =>
    { nodes := trainerNodes tag n st ++ [⟨n + 2, n, tag, st, false⟩]
      applyEdges := []
      trainEdges := trainerTrain ctx n st ++ [(ctx.train, n + 2)]
      labelEdges := trainerLabel ctx n st
      applyTail := ctx.apply
      trainTail := n + 2
      labelTail := ctx.label
      next := n + 4 }
  | .labelOp tag st, ctx, n =>
    { nodes := trainerNodes tag n st ++ [⟨n + 3, n, tag, st, false⟩]
      applyEdges := []
      trainEdges := trainerTrain ctx n st
      labelEdges := trainerLabel ctx n st ++ [(ctx.label, n + 3)]
      applyTail := ctx.apply
      trainTail := ctx.train
      labelTail := n + 3
      next := n + 4 }
  | .seq a b, ctx, n =>
    let fa := expand a ctx n
    let fb := expand b ⟨fa.applyTail, fa.trainTail, fa.labelTail⟩ fa.next
    { nodes := fa.nodes ++ fb.nodes
      applyEdges := fa.applyEdges ++ fb.applyEdges
      trainEdges := fa.trainEdges ++ fb.trainEdges
      labelEdges := fa.labelEdges ++ fb.labelEdges
      applyTail := fb.applyTail
      trainTail := fb.trainTail
      labelTail := fb.labelTail
      next := fb.next }
  | .par a b m, ctx, n =>
    let fa := expand a ctx n
    let fb := expand b ctx fa.next
    let k := fb.next
    { nodes := fa.nodes ++ fb.nodes ++ [⟨k, k, m, false, false⟩, ⟨k + 2, k, m, false, false⟩]
      applyEdges := fa.applyEdges ++ [(fa.applyTail, k)] ++ fb.applyEdges ++ [(fb.applyTail, k)]
      trainEdges := fa.trainEdges ++ [(fa.trainTail, k + 2)] ++ fb.trainEdges ++ [(fb.trainTail, k + 2)]
      labelEdges := fa.labelEdges ++ fb.labelEdges
      applyTail := k
      trainTail := k + 2
      labelTail := ctx.label
      next := k + 4 }

/-- the source: apply worker `0`, train worker `2`, label extractor `6` -/
def sourceNodes : List Node := [⟨0, 0, 0, false, false⟩, ⟨2, 2, 0, false, false⟩, ⟨6, 6, 0, false, false⟩]

def sourceCtx : Ctx := ⟨0, 6, 6⟩

/-- the tail of a segment: the last worker of the path — or, when the pipeline adds no worker to the path, the dangling
`Future` of the trunk, which is not a node of the graph (id `fresh`) -/
def segmentTail (head tail fresh : Nat) : Nat := if tail == head then fresh else tail

/-- `flow.Composition(source, e)` -/
def compOfExpr (e : PExpr) : Comp :=
  let f := expand e sourceCtx 8
  { nodes := sourceNodes ++ f.nodes
    edges := f.applyEdges ++ (2, 6) :: f.trainEdges ++ f.labelEdges
    applyHead := 0
    applyTail := segmentTail sourceCtx.apply f.applyTail f.next
    trainHead := 2
    trainTail := segmentTail sourceCtx.train f.trainTail (f.next + 2) }

/-- `flow.Composition(source, e, sink)`: the sink's writer is one more (stateless) mapper -/
def compOf (e : PExpr) (sink : Bool) : Comp :=
  compOfExpr (if sink then .seq e (.mapper 0 false) else e)

end ForML.Persist
