/-
C12 — the fold splitter as an *actor*: its state / hyper-parameter contract and the state transfer path of the flow
engine (core Lean only).

Mirrors
* forml/pipeline/payload/_split.py  `CVFoldable.__init__/train/apply/get_params/set_params`
* forml/flow/_task.py               `Actor.get_state` (`cloudpickle.dumps(self.__dict__)`) and `Actor.set_state`
                                    (`params = get_params(); __dict__.update(loads(state)); set_params(**params)`)
* forml/flow/_code/target/user.py   `Train.__call__` (`actor.train(*args); return actor.get_state()`),
                                    `SetState.set` (`params = actor.get_params(); actor.set_state(value);
                                    actor.set_params(**params)`), `Functor.execute` (`action(builder(), *args)`: every
                                    execution of every worker of a group starts from a *fresh* `builder()` instance)

The cross-validator lives outside forml: `Splits` is what its `call`-th `split(features, labels)` answers — *any*
function of the call number, so also one that never answers twice alike (`KFold(shuffle=True)` / `ShuffleSplit` with
`random_state=None`, the default `HoldOut(test_size=…)`).  `Calls` counts the invocations.  The only place of the actor
that consults it is `train`; `apply` is a function of the actor's attributes alone.
-/
import ForML.Model.CrossVal

namespace ForML.CrossVal

/-- `CVFoldable.__dict__`: the hyper-parameter `_crossvalidator` (an object of the outside world: its id) and the
trained `_indices` (`_groups_extractor` is not set by any constructor in the property's scope) -/
structure Splitter where
  crossvalidator : Nat
  indices : Option Indices
  deriving DecidableEq, Repr, Inhabited

/-- `split cv call features labels`: what the `call`-th invocation of `cv.split(features, labels, groups)` yields;
`labels = none`: invoked without labels -/
abbrev Splits := Nat → Nat → Data → Option Data → Indices

/-- how often each cross-validator has been asked so far -/
abbrev Calls := Nat → Nat

def Calls.tick (w : Calls) (cv : Nat) : Calls := fun c => if c = cv then w c + 1 else w c

namespace Splitter

/-- `builder()` = `CVFoldable.__init__(crossvalidator)`: `_indices = None` -/
def new (cv : Nat) : Splitter := ⟨cv, none⟩

/-- `CVFoldable.train(features, labels)`: `self._indices = tuple(self._crossvalidator.split(features, labels, groups))`
— the one invocation of the cross-validator -/
def train (sp : Splits) (a : Splitter) (w : Calls) (features labels : Data) : Splitter × Calls :=
  ({ a with indices := some (sp a.crossvalidator (w a.crossvalidator) features (some labels)) }, w.tick a.crossvalidator)

/-- `CVFoldable.apply(features)`: `if not self._indices: raise RuntimeError` else `split(features, self._indices)` — the
cross-validator is not consulted -/
def apply (a : Splitter) (features : Data) : Except Err (List Data) := cvApply a.indices features

/-- `CVFoldable.get_params()`: `{'crossvalidator': self._crossvalidator}` -/
def getParams (a : Splitter) : Nat := a.crossvalidator

/-- `CVFoldable.set_params(crossvalidator)`: `self._crossvalidator = crossvalidator` — nothing else -/
def setParams (a : Splitter) (cv : Nat) : Splitter := { a with crossvalidator := cv }

/-- `Actor.get_state()`: the pickled `__dict__`, i.e. all attributes -/
def getState (a : Splitter) : Splitter := a

end Splitter

/-- how an actor class takes a state: `pickled` = the inherited `Actor.set_state` (unpickle, update `__dict__`, restore
the own hyper-parameters); `raw` = an override that only updates `__dict__` (the harness's symbolic splitter) -/
inductive Transfer where
  | pickled
  | raw
  deriving DecidableEq, Repr, Inhabited

namespace Splitter

/-- `actor.set_state(state)` -/
def setState (t : Transfer) (a st : Splitter) : Splitter :=
  match t with
  | .pickled => st.setParams a.getParams   -- `__dict__.update` overwrites every attribute, then the params come back
  | .raw => st

/-- `SetState.set(actor, state)` of the compiled code: `params = actor.get_params(); actor.set_state(state);
actor.set_params(**params)` -/
def preset (t : Transfer) (a st : Splitter) : Splitter := (a.setState t st).setParams a.getParams

/-- `Functor(builder, Train()).execute(features, labels)`: a fresh instance is trained and its state returned -/
def runTrain (sp : Splits) (cv : Nat) (w : Calls) (features labels : Data) : Splitter × Calls :=
  let r := (new cv).train sp w features labels
  (r.1.getState, r.2)

/-- `Functor(builder, Apply()).preset_state().execute(state, features)`: a fresh instance of the fork's builder takes
the state and splits -/
def runApply (t : Transfer) (cv : Nat) (state : Splitter) (features : Data) : Except Err (List Data) :=
  ((new cv).preset t state).apply features

/-- a state handed on through a chain of fresh instances: each takes it by `SetState.set` (its own flavour, its own
builder's cross-validator) and hands out its own `get_state()` -/
def relay : List (Transfer × Nat) → Splitter → Splitter
  | [], st => st
  | (t, cv) :: hops, st => relay hops ((new cv).preset t st).getState

end Splitter

/-! ### operation sequences on a register file of actors and states (what the driver replays) -/

inductive Op where
  /-- `a := builder(crossvalidator=cv)` -/
  | new (a cv : Nat)
  /-- `a.train(features, labels)` on the rows with these record ids -/
  | train (a : Nat) (rids : List Nat)
  /-- `s := a.get_state()` -/
  | getState (s a : Nat)
  /-- `a.set_state(s)` -/
  | setState (a s : Nat)
  /-- `SetState.set(a, s)` -/
  | preset (a s : Nat)
  /-- `a.set_params(crossvalidator=cv)` -/
  | setParams (a cv : Nat)
  /-- `a.get_params()` -/
  | getParams (a : Nat)
  /-- `a.apply(rows with these record ids)` -/
  | apply (a : Nat) (col : Nat) (rids : List Nat)
  deriving Repr, Inhabited

inductive Out where
  | unit
  | params (cv : Nat)
  /-- the record ids of every output port -/
  | parts (ps : List (List Nat))
  | error (e : Err)
  /-- the sequence refers to an actor / state that does not exist (a malformed sequence, not generated) -/
  | badRef
  deriving Repr, Inhabited, DecidableEq

structure Machine where
  actors : List (Nat × Splitter)
  states : List (Nat × Splitter)
  calls : Calls

def Machine.init : Machine := ⟨[], [], fun _ => 0⟩

def lookup (k : Nat) (xs : List (Nat × Splitter)) : Option Splitter := (xs.find? (·.1 == k)).map (·.2)

def assign (k : Nat) (v : Splitter) (xs : List (Nat × Splitter)) : List (Nat × Splitter) :=
  (k, v) :: xs.filter (·.1 != k)

def idRows (col : Nat) (rids : List Nat) : Data := rids.map fun r => ⟨⟨col, r⟩, []⟩

/-- one operation; `t` = the transfer flavour of the actor class under test, `sp` the outside world -/
def Machine.step (sp : Splits) (t : Transfer) (m : Machine) : Op → Machine × Out
  | .new a cv => ({ m with actors := assign a (Splitter.new cv) m.actors }, .unit)
  | .train a rids =>
    match lookup a m.actors with
    | none => (m, .badRef)
    | some x =>
      let r := x.train sp m.calls (idRows 1 rids) (idRows 2 rids)
      ({ m with actors := assign a r.1 m.actors, calls := r.2 }, .unit)
  | .getState s a =>
    match lookup a m.actors with
    | none => (m, .badRef)
    | some x => ({ m with states := assign s x.getState m.states }, .unit)
  | .setState a s =>
    match lookup a m.actors, lookup s m.states with
    | some x, some st => ({ m with actors := assign a (x.setState t st) m.actors }, .unit)
    | _, _ => (m, .badRef)
  | .preset a s =>
    match lookup a m.actors, lookup s m.states with
    | some x, some st => ({ m with actors := assign a (x.preset t st) m.actors }, .unit)
    | _, _ => (m, .badRef)
  | .setParams a cv =>
    match lookup a m.actors with
    | none => (m, .badRef)
    | some x => ({ m with actors := assign a (x.setParams cv) m.actors }, .unit)
  | .getParams a =>
    match lookup a m.actors with
    | none => (m, .badRef)
    | some x => (m, .params x.getParams)
  | .apply a col rids =>
    match lookup a m.actors with
    | none => (m, .badRef)
    | some x =>
      match x.apply (idRows col rids) with
      | .ok parts => (m, .parts (parts.map (·.rids)))
      | .error e => (m, .error e)

def Machine.run (sp : Splits) (t : Transfer) : Machine → List Op → List Out
  | _, [] => []
  | m, op :: ops => let r := m.step sp t op; r.2 :: Machine.run sp t r.1 ops

/-- the outside world of the harness: cross-validator `cv` is the double `specs[cv]` -/
def specSplits (specs : List CvSpec) : Splits := fun cv call x _ =>
  match specs[cv]? with
  | some s => s.split call x.length
  | none => []

end ForML.CrossVal
